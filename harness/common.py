"""Shared infrastructure of the correspondence harness.

* strings <-> lists of code points, values <-> canonical JSON (`Val` of the Lean model)
* execution of protocol programs on the real library (`/repo/src`, editable install in /venv)
* the Lean driver as a subprocess
* replays, VIOLATION lines, evidence files
"""
from __future__ import annotations

import json
import os
import subprocess
import sys
import time
import warnings
from pathlib import Path

VERIF = Path(__file__).resolve().parent.parent
LEAN = VERIF / "lean"
DRIVER = LEAN / ".lake" / "build" / "bin" / "driver"
REPLAYS = VERIF / "out" / "replays"
EVIDENCE = VERIF / "evidence"
CORPUS = VERIF / "corpus"

warnings.filterwarnings("ignore")
import logging  # noqa: E402

logging.disable(logging.CRITICAL)  # the library logs warnings for inputs the generators produce on purpose

# --------------------------------------------------------------------------------------------
# strings and values


def cps(s: str) -> list[int]:
    return [ord(ch) for ch in s]


def uncps(a) -> str:
    return "".join(chr(n) for n in a)


def enc_record(r) -> dict:
    return {
        "p": cps(r.prefix),
        "u": cps(r.uri_prefix),
        "ps": [cps(x) for x in r.prefix_synonyms],
        "us": [cps(x) for x in r.uri_prefix_synonyms],
        "pat": None if r.pattern is None else cps(r.pattern),
    }


def dec_record(j):
    from curies import Record

    # fields are passed only when they carry something, as callers do: a record "without synonyms" is
    # Record(prefix=..., uri_prefix=...), whose synonym lists are the defaults (pydantic: fields not set)
    kw = {}
    if j.get("ps"):
        kw["prefix_synonyms"] = [uncps(x) for x in j["ps"]]
    if j.get("us"):
        kw["uri_prefix_synonyms"] = [uncps(x) for x in j["us"]]
    if j.get("pat") is not None:
        kw["pattern"] = uncps(j["pat"])
    return Record(prefix=uncps(j["p"]), uri_prefix=uncps(j["u"]), **kw)


def rec(p, u, ps=(), us=(), pat=None) -> dict:
    """A protocol record from Python strings."""
    return {"p": cps(p), "u": cps(u), "ps": [cps(x) for x in ps], "us": [cps(x) for x in us],
            "pat": None if pat is None else cps(pat)}


def show_record(j) -> str:
    s = f"{uncps(j['p'])!r}->{uncps(j['u'])!r}"
    if j.get("ps"):
        s += f" ps={[uncps(x) for x in j['ps']]}"
    if j.get("us"):
        s += f" us={[uncps(x) for x in j['us']]}"
    if j.get("pat") is not None:
        s += f" pat={uncps(j['pat'])!r}"
    return s


LIB_FAMILY = {"noDelimiter", "compression", "expansion", "prefixStd", "identifierStd", "curieStd",
              "uriStd", "libValue"}


def classify(e: BaseException) -> str:
    """Name of the `Err` constructor abstracting an exception of the real library.

    Computed from the live classes, so a renamed or re-parented class is seen as what it now is."""
    import pydantic
    import curies.api as A
    import curies.reconciliation as R

    table = [
        ("NoCURIEDelimiterError", A, "noDelimiter"), ("CompressionError", A, "compression"),
        ("ExpansionError", A, "expansion"), ("PrefixStandardizationError", A, "prefixStd"),
        ("IdentifierStandardizationError", A, "identifierStd"),
        ("CURIEStandardizationError", A, "curieStd"), ("URIStandardizationError", A, "uriStd"),
        ("DuplicateURIPrefixes", A, "dupUri"), ("DuplicatePrefixes", A, "dupPrefix"),
        ("DuplicateKeys", R, "dupKeys"), ("DuplicateValues", R, "dupValues"),
        ("InconsistentMapping", R, "inconsistent"), ("CycleDetected", R, "cycle"),
        ("TransitiveError", R, "transitive"),
    ]
    for name, mod, tag in table:
        cls = getattr(mod, name, None)
        if cls is not None and isinstance(e, cls):
            if tag in LIB_FAMILY and not isinstance(e, ValueError):
                return "other"  # no longer ValueError-derived: not what C08 promises
            return tag
    for name in ("ConversionError", "StandardizationError"):
        cls = getattr(A, name, None)
        if cls is not None and isinstance(e, cls) and isinstance(e, ValueError):
            return "libValue"
    if isinstance(e, pydantic.ValidationError):
        return "validation"
    if isinstance(e, ValueError):
        return "valueError"
    if isinstance(e, KeyError):
        return "keyError"
    if isinstance(e, IndexError):
        return "indexError"
    if isinstance(e, TypeError):
        return "typeError"
    return "other"


def enc_val(v):
    """Canonical JSON of a value returned by the implementation."""
    from curies import Record

    if v is None:
        return None
    if isinstance(v, bool):
        return v
    if isinstance(v, str):
        return {"s": cps(v)}
    if isinstance(v, tuple) and len(v) == 2 and all(isinstance(x, str) for x in v):
        return {"pr": [cps(v[0]), cps(v[1])]}
    if isinstance(v, Record):
        return {"r": [enc_record(v)]}
    if isinstance(v, (list, tuple, set, frozenset)):
        v = list(v)
        if v and isinstance(v[0], Record):
            return {"r": [enc_record(x) for x in v]}
        return {"l": [cps(x) for x in v]}
    if isinstance(v, dict):
        return {"d": [[cps(k), cps(x)] for k, x in v.items()]}
    raise TypeError(f"cannot encode {v!r}")


def enc_exc(e: BaseException):
    return {"e": classify(e)}


SETLIKE = {"get_prefixes", "get_uri_prefixes"}


def canon(v, meth: str = ""):
    """Observation abstraction (DESIGN §3): what is compared between model and implementation."""
    if isinstance(v, dict):
        if "e" in v:
            return {"e": "lib" if v["e"] in LIB_FAMILY else v["e"]}
        if "r" in v:
            rs = [{"p": r["p"], "u": r["u"], "ps": sorted(r.get("ps", [])), "us": sorted(r.get("us", [])),
                   "pat": r.get("pat") or None} for r in v["r"]]
            return {"r": sorted(rs, key=lambda r: (r["p"], r["u"], r["ps"], r["us"]))}
        if "d" in v:
            return {"d": sorted(v["d"])}
        if "l" in v and meth in SETLIKE:
            return {"l": sorted(set(map(tuple, v["l"])))}
        if "l" in v and meth == "dups":
            ents = set()
            for e in v["l"]:
                i = e.index(SEP)
                j = e.index(SEP, i + 1)
                a, b = sorted([tuple(e[:i]), tuple(e[i + 1:j])])
                ents.add((a, b, tuple(e[j + 1:])))
            return {"l": sorted(ents)}
    return v


def _split_sep(x):
    parts, cur = [], []
    for c in x:
        if c == SEP:
            parts.append(cur)
            cur = []
        else:
            cur.append(c)
    parts.append(cur)
    return parts


def show_val(v) -> str:
    if v is None or isinstance(v, bool):
        return repr(v)
    if "s" in v:
        return repr(uncps(v["s"]))
    if "pr" in v:
        return repr((uncps(v["pr"][0]), uncps(v["pr"][1])))
    if "l" in v:
        return repr(["|".join(uncps([c for c in part]) for part in _split_sep(x)) for x in v["l"]])
    if "r" in v:
        return "[" + "; ".join(show_record(r) for r in v["r"]) + "]"
    if "d" in v:
        return repr({uncps(k): uncps(x) for k, x in v["d"]})
    return json.dumps(v)


# --------------------------------------------------------------------------------------------
# running protocol programs on the real library


def q(c: int, m: str, *args: str, s: bool = False, p: bool = False) -> dict:
    """A query step."""
    return {"op": "q", "c": c, "m": m, "a": [cps(a) for a in args], "s": s, "p": p}


ATTR_QUERIES = {"records", "prefix_map", "synonym_to_prefix", "reverse_prefix_map", "pattern_map",
                "bimap", "reverse_bimap", "delimiter"}
NO_PASSTHROUGH = {"expand_all", "expand_pair_all", "parse", "parse_curie", "parse_uri"}
NO_MODES = {"is_uri", "is_curie", "compress_strict", "expand_strict", "format_curie"}


class _UserStr(str):
    """a caller's own str subclass (a query's answer depends on the characters, not on the class)"""


def impl_query(conv, step):
    m = step["m"]
    args = [uncps(a) for a in step.get("a", [])]
    s, p = step.get("s", False), step.get("p", False)
    if step.get("cls") == "sub" and m != "trie_lpi":
        args = [_UserStr(a) for a in args]      # the caller's strings are instances of a str subclass
    if m in ATTR_QUERIES:
        v = getattr(conv, m)
        return dict(v) if isinstance(v, dict) or hasattr(v, "items") else (list(v) if m == "records" else v)
    if m == "trie":
        return dict(conv.trie.items())
    if m == "trie_lpi":
        r = conv.trie.longest_prefix_item(*args, None)      # the third-party trie itself, not through parse_uri
        return None if r is None else tuple(r)
    if m in ("get_prefixes", "get_uri_prefixes"):
        return getattr(conv, m)(include_synonyms=s)
    if m == "get_record":
        return conv.get_record(*args)
    if m in NO_MODES:
        return getattr(conv, m)(*args)
    if m == "parse_uri":
        if step.get("legacy"):
            # the deprecated calling convention: without return_none a miss is the pair (None, None) plus a warning
            import warnings

            with warnings.catch_warnings():
                warnings.simplefilter("ignore")
                r = conv.parse_uri(*args, strict=s)
            return None if r is None or tuple(r) == (None, None) else tuple(r)
        r = conv.parse_uri(*args, strict=s, return_none=True)
        return None if r is None else tuple(r)
    if m in ("parse", "parse_curie"):
        r = getattr(conv, m)(*args, strict=s)
        return None if r is None else tuple(r)
    if m == "expand_reference":
        from curies import ReferenceTuple

        return conv.expand_reference(ReferenceTuple(*args), strict=s, passthrough=p)
    if m in NO_PASSTHROUGH:
        return getattr(conv, m)(*args, strict=s)
    return getattr(conv, m)(*args, strict=s, passthrough=p)


SEP = 1114112  # separator inside listing entries; not a code point


def jsonld_context(items) -> dict:
    """The Python object denoted by protocol JSON-LD terms."""
    ctx = {}
    for k, v in items:
        if "s" in v:
            ctx[uncps(k)] = uncps(v["s"])
        elif "pd" in v:
            d = {"@prefix": True}
            if v["pd"] is not None:
                d["@id"] = uncps(v["pd"])
            ctx[uncps(k)] = d
        else:
            ctx[uncps(k)] = v["o"]
    return ctx


CAPTURED: list = []   # (format, what was written, text of the file) of the files written by roundtrip_impl


def roundtrip_impl(conv, fmt, syn, expand):
    """Write `conv` with the real writer into a real file and read the file back with the real reader."""
    import csv
    import tempfile

    import curies

    d = tempfile.mkdtemp(prefix="rt-")
    path = os.path.join(d, {"epm": "c.json", "jsonld": "c.jsonld", "shacl": "c.ttl", "tsv": "c.tsv"}[fmt])
    try:
        if fmt == "epm":
            curies.write_extended_prefix_map(conv, path)
            with open(path, newline="") as f:
                CAPTURED.append(("epm", [], f.read()))
            return curies.load_extended_prefix_map(Path(path))
        if fmt == "jsonld":
            curies.write_jsonld_context(conv, path, include_synonyms=syn, expand=expand)
            with open(path, newline="") as f:
                CAPTURED.append(("jsonld", [], f.read()))
            return curies.load_jsonld_context(path, strict=not syn)
        if fmt == "shacl":
            curies.write_shacl(conv, path, include_synonyms=syn)
            return curies.load_shacl(path, strict=not syn)
        if fmt == "tsv":
            curies.write_tsv(conv, path)
            with open(path, newline="") as f:
                CAPTURED.append(("tsv", [(r.prefix, r.uri_prefix) for r in conv.records], f.read()))
            with open(path, newline="") as f:
                rows = list(csv.reader(f, delimiter="\t"))
            return curies.load_prefix_map({r[0]: r[1] for r in rows[1:]})
        raise InvalidCase(fmt)
    finally:
        for f in os.listdir(d):
            os.unlink(os.path.join(d, f))
        os.rmdir(d)


def loader_kwargs(st) -> dict:
    """The keyword arguments a loader step passes on to Converter.__init__ (only those the step spells out)."""
    return {"delimiter": uncps(st["delim"])} if "delim" in st else {}


def as_container(items: list, how: str):
    """The same items in another container type: the functions take any iterable (chain: any sequence)."""
    if how == "tuple":
        return tuple(items)
    if how == "iter":
        return iter(items)
    if how == "generator":
        return (x for x in items)
    if how == "dict_keys":
        return {x: None for x in items}.keys() if len(set(map(id, items))) == len(items) and all(
            isinstance(x, str) for x in items) and len(set(items)) == len(items) else list(items)
    if how == "set":
        return set(items) if all(isinstance(x, str) for x in items) else list(items)
    return list(items)


class InvalidCase(RuntimeError):
    """The case is not a well-formed program (only shrinking can produce one)."""


def run_impl(steps: list[dict], injected: dict | None = None, observer=None) -> list:
    """Execute a protocol program on the real library; one canonical value per step.

    `injected` maps step indices to converters (or exceptions) a property's harness produced itself
    (file and rdflib loaders): the step then just binds / reports that result."""
    import curies
    from curies import Converter

    slots: dict[int, Converter] = {}
    kept_lists: dict[int, list] = {}
    attempted: set[int] = set()   # slots some earlier step tried to define (it may have raised)
    out = []
    for _i, st in enumerate(steps):
        op = st["op"]
        if injected and _i in injected:
            attempted.add(st["dst"])
            r = injected[_i]
            if isinstance(r, BaseException):
                out.append(enc_exc(r))
            else:
                slots[st["dst"]] = r
                out.append(None)
            continue
        needed = [st[key] for key in ("c", "src") if st.get(key) is not None] + list(st.get("srcs", []))
        if any(i not in slots and i not in attempted for i in needed):
            raise InvalidCase(f"a slot of {needed} is never defined")
        if "dst" in st:
            attempted.add(st["dst"])
        if any(i not in slots for i in needed):
            out.append({"bad": "no such slot"})   # its construction raised; the model says the same
            continue
        try:
            if op == "init" and st.get("via") in ("epm_dicts", "epm_dicts2", "epm_records", "load_epm"):
                # the same collection through the extended-prefix-map loader (dicts, Record objects, module function)
                if st["via"] in ("epm_dicts", "epm_dicts2"):
                    data = [{"prefix": uncps(r["p"]), "uri_prefix": uncps(r["u"]),
                             "prefix_synonyms": [uncps(x) for x in r["ps"]],
                             "uri_prefix_synonyms": [uncps(x) for x in r["us"]],
                             **({"pattern": uncps(r["pat"])} if r.get("pat") is not None else {})} for r in st["records"]]
                else:
                    data = [dec_record(r) for r in st["records"]]
                how = st.get("container", "list")
                if how == "tuple":
                    data = tuple(data)
                elif how == "iter":
                    data = iter(data)
                elif how == "generator":
                    data = (x for x in data)
                elif how == "dict_values":
                    data = {i: x for i, x in enumerate(data)}.values()
                kw = {"delimiter": uncps(st["delim"])} if st.get("delim", [58]) != [58] else {}
                if st["via"] == "load_epm":
                    slots[st["dst"]] = curies.load_extended_prefix_map(data, **kw)
                else:
                    slots[st["dst"]] = Converter.from_extended_prefix_map(data, **kw)
                out.append(None)
            elif op == "init":
                if st.get("same_list_as") is not None and st["same_list_as"] in kept_lists:
                    records = kept_lists[st["same_list_as"]]      # the caller reuses its list object for a second converter
                else:
                    records = [dec_record(r) for r in st["records"]]
                kept_lists[st["dst"]] = records
                # the same records in another container type: the constructor takes any iterable of records
                how = st.get("container", "list")
                if how == "tuple":
                    records = tuple(records)
                elif how == "iter":
                    records = iter(records)
                elif how == "generator":
                    records = (r for r in records)
                elif how == "dict_values":
                    records = {i: r for i, r in enumerate(records)}.values()
                slots[st["dst"]] = Converter(records, delimiter=uncps(st.get("delim", [58])),
                                             strict=st.get("strict", True))
                out.append(None)
            elif op == "add_record":
                slots[st["c"]].add_record(dec_record(st["record"]), case_sensitive=st.get("cs", True),
                                          merge=st.get("merge", False))
                out.append(None)
            elif op == "add_prefix":
                slots[st["c"]].add_prefix(
                    uncps(st["p"]), uncps(st["u"]),
                    prefix_synonyms=[uncps(x) for x in st.get("ps", [])],
                    uri_prefix_synonyms=[uncps(x) for x in st.get("us", [])],
                    case_sensitive=st.get("cs", True), merge=st.get("merge", False))
                out.append(None)
            elif op == "chain":
                slots[st["dst"]] = curies.chain(as_container([slots[i] for i in st["srcs"]], st.get("container", "list")),
                                                case_sensitive=st.get("cs", True))
                out.append(None)
            elif op == "sub":
                slots[st["dst"]] = slots[st["src"]].get_subconverter(
                    as_container([uncps(x) for x in st["prefixes"]], st.get("container", "list")))
                out.append(None)
            elif op in ("remap_curie", "remap_uri", "rewire"):
                from curies import reconciliation as R

                f = {"remap_curie": R.remap_curie_prefixes, "remap_uri": R.remap_uri_prefixes,
                     "rewire": R.rewire}[op]
                slots[st["dst"]] = f(slots[st["src"]], {uncps(k): uncps(v) for k, v in st["mapping"]})
                out.append(None)
            elif op == "q":
                v = impl_query(slots[st["c"]], st)
                if st["m"] == "records":
                    out.append({"r": [enc_record(r) for r in v]})   # also when empty
                else:
                    out.append(enc_val(v))
            elif op == "roundtrip":
                slots[st["dst"]] = roundtrip_impl(slots[st["src"]], st["fmt"], st.get("syn", False), st.get("expand", False))
                out.append(None)
            elif op == "discover":
                from curies.discovery import discover

                delims = [uncps(d) for d in st.get("delims", [])]
                slots[st["dst"]] = discover(
                    as_container([uncps(u) for u in st["uris"]], st.get("container", "list")),
                    delimiters=delims or None, cutoff=st.get("cutoff"),
                    metaprefix=uncps(st.get("metaprefix", [110, 115])),
                    converter=None if st.get("src") is None else slots[st["src"]])
                out.append(None)
            elif op == "fresh":
                src = slots[st["src"]]
                extra = [dec_record(r) for r in st.get("extra", [])]
                slots[st["dst"]] = Converter([r.model_copy(deep=True) for r in src.records] + extra,
                                             delimiter=src.delimiter)
                out.append(None)
            elif op == "clone":
                import copy
                import pickle

                src = slots[st["src"]]
                how = st.get("how", "deepcopy")
                slots[st["dst"]] = (copy.deepcopy(src) if how == "deepcopy" else copy.copy(src) if how == "copy"
                                    else pickle.loads(pickle.dumps(src)))
                out.append(None)
            elif op == "dups":
                import curies.api as A

                records = [dec_record(r) for r in st["records"]]
                try:
                    Converter(records)
                    out.append({"l": []})
                except A.DuplicateValueError as e:
                    out.append({"l": [cps(d.record_1.prefix) + [SEP] + cps(d.record_2.prefix) + [SEP] + cps(d.prefix)
                                      for d in e.duplicates]})
            elif op == "load_pm":
                slots[st["dst"]] = Converter.from_prefix_map(
                    {uncps(k): uncps(v) for k, v in st["data"]}, delimiter=uncps(st.get("delim", [58])),
                    strict=st.get("strict", True))
                out.append(None)
            elif op == "load_priority":
                slots[st["dst"]] = Converter.from_priority_prefix_map(
                    {uncps(k): [uncps(x) for x in v] for k, v in st["data"]}, **loader_kwargs(st))
                out.append(None)
            elif op == "load_reverse":
                slots[st["dst"]] = Converter.from_reverse_prefix_map({uncps(k): uncps(v) for k, v in st["data"]},
                                                                     **loader_kwargs(st))
                out.append(None)
            elif op == "load_jsonld":
                slots[st["dst"]] = Converter.from_jsonld({"@context": jsonld_context(st["data"])}, **loader_kwargs(st))
                out.append(None)
            elif op == "load_upgrade":
                slots[st["dst"]] = Converter(curies.upgrade_prefix_map({uncps(k): uncps(v) for k, v in st["data"]}))
                out.append(None)
            elif op == "upgrade":
                out.append(enc_val(list(curies.upgrade_prefix_map({uncps(k): uncps(v) for k, v in st["data"]}))))
            else:
                raise InvalidCase(f"unknown op {op}")
            if observer is not None:
                observer(slots)
        except InvalidCase:
            raise
        except Exception as e:  # noqa: BLE001 - exceptions are observations
            out.append(enc_exc(e))
    return out


def fold_table(strings) -> list:
    """Real `str.casefold` of every string of the case (the model's `fold` parameter)."""
    return [[cps(s), cps(s.casefold())] for s in sorted(set(strings)) if s.casefold() != s]


def program_strings(steps) -> set[str]:
    out = set()

    def rec_strings(r):
        out.add(uncps(r["p"]))
        out.add(uncps(r["u"]))
        out.update(uncps(x) for x in r.get("ps", []))
        out.update(uncps(x) for x in r.get("us", []))

    for st in steps:
        for r in st.get("records", []) + st.get("extra", []):
            rec_strings(r)
        if "record" in st:
            rec_strings(st["record"])
        if st["op"] == "add_prefix":
            rec_strings(st)
        if st["op"] in ("load_pm", "load_reverse", "load_upgrade"):
            for k, v in st["data"]:
                out.add(uncps(k))
                out.add(uncps(v))
        if st["op"] == "load_priority":
            for k, vs in st["data"]:
                out.add(uncps(k))
                out.update(uncps(v) for v in vs)
    return out


# --------------------------------------------------------------------------------------------
# the Lean driver


class DriverError(RuntimeError):
    pass


def run_driver(requests: list[dict]) -> list[dict]:
    """Pipe requests (one JSON object per line) through the compiled Lean driver."""
    if not requests:
        return []
    if not DRIVER.exists():
        raise DriverError(f"driver not built: {DRIVER}")
    requests = [{k: v for k, v in r.items() if not k.startswith("_")} for r in requests]
    data = "\n".join(json.dumps(r, separators=(",", ":")) for r in requests) + "\n"
    pr = subprocess.run([str(DRIVER)], input=data.encode(), capture_output=True, check=False)
    if pr.returncode != 0:
        raise DriverError(f"driver exited with {pr.returncode}: {pr.stderr.decode()[:2000]}")
    lines = pr.stdout.decode().splitlines()
    if len(lines) != len(requests):
        raise DriverError(f"driver answered {len(lines)} lines for {len(requests)} requests")
    out = [json.loads(line) for line in lines]
    for i, o in enumerate(out):
        if "error" in o:
            raise DriverError(f"driver rejected request {i}: {o['error']}: {json.dumps(requests[i])[:500]}")
    return out


# --------------------------------------------------------------------------------------------
# program-level correspondence + spec verdict


def compare_program(steps, impl, model) -> list[dict]:
    """Indices and details of the steps on which model and implementation differ."""
    diffs = []
    for i, (st, a, b) in enumerate(zip(steps, impl, model)):
        m = st.get("m", st["op"])
        if canon(a, m) != canon(b, m):
            diffs.append({"step": i, "op": st.get("m", st["op"]), "implementation": show_val(a),
                          "model": show_val(b)})
    return diffs


def show_program(steps) -> list[str]:
    out = []
    for st in steps:
        op = st["op"]
        if op == "init":
            out.append(f"c{st['dst']} = Converter([{'; '.join(show_record(r) for r in st['records'])}], "
                       f"delimiter={uncps(st.get('delim', [58]))!r}, strict={st.get('strict', True)})")
        elif op == "add_record":
            out.append(f"c{st['c']}.add_record({show_record(st['record'])}, case_sensitive={st.get('cs', True)}, "
                       f"merge={st.get('merge', False)})")
        elif op == "add_prefix":
            out.append(f"c{st['c']}.add_prefix({show_record(st)}, case_sensitive={st.get('cs', True)}, "
                       f"merge={st.get('merge', False)})")
        elif op == "chain":
            out.append(f"c{st['dst']} = chain([{', '.join('c%d' % i for i in st['srcs'])}], "
                       f"case_sensitive={st.get('cs', True)})")
        elif op == "sub":
            out.append(f"c{st['dst']} = c{st['src']}.get_subconverter({[uncps(x) for x in st['prefixes']]})")
        elif op in ("remap_curie", "remap_uri", "rewire"):
            out.append(f"c{st['dst']} = {op}(c{st['src']}, "
                       f"{ {uncps(k): uncps(v) for k, v in st['mapping']} })")
        elif op == "roundtrip":
            out.append(f"c{st['dst']} = read back what write_{st['fmt']}(c{st['src']}, include_synonyms={st.get('syn', False)}, "
                       f"expand={st.get('expand', False)}) wrote")
        elif op == "discover":
            out.append(f"c{st['dst']} = discover({[uncps(u) for u in st['uris']]}, delimiters={[uncps(d) for d in st.get('delims', [])] or None}, "
                       f"cutoff={st.get('cutoff')}, metaprefix={uncps(st.get('metaprefix', [110, 115]))!r}, "
                       f"converter={'None' if st.get('src') is None else 'c%d' % st['src']})")
        elif op == "fresh":
            out.append(f"c{st['dst']} = Converter(copies of c{st['src']}.records + [{'; '.join(show_record(r) for r in st.get('extra', []))}], "
                       f"delimiter=c{st['src']}.delimiter)")
        elif op == "clone":
            how = st.get("how", "deepcopy")
            out.append(f"c{st['dst']} = " + ("pickle.loads(pickle.dumps" if how == "pickle" else "copy." + how)
                       + f"(c{st['src']})" + (")" if how == "pickle" else ""))
        elif op == "dups":
            out.append(f"duplicates listed by Converter([{'; '.join(show_record(r) for r in st['records'])}])")
        elif op in ("load_pm", "load_reverse", "load_upgrade", "upgrade"):
            dl = f", delimiter={uncps(st['delim'])!r}" if op == "load_pm" and "delim" in st else ""
            out.append(f"c{st.get('dst', '')} = {op}({ {uncps(k): uncps(v) for k, v in st['data']} }{dl})")
        elif op == "load_priority":
            dl = f", delimiter={uncps(st['delim'])!r}" if "delim" in st else ""
            out.append(f"c{st['dst']} = from_priority_prefix_map({ {uncps(k): [uncps(x) for x in v] for k, v in st['data']} }{dl})")
        elif op == "load_jsonld":
            out.append(f"c{st['dst']} = from_jsonld({{'@context': {jsonld_context(st['data'])!r}}})")
        elif op == "q":
            flags = ("" if not st.get("s") else ", strict=True") + ("" if not st.get("p") else ", passthrough=True") + \
                (" [return_none left at its default]" if st.get("legacy") else "")
            wrap = (lambda x: f"UserStr({x})") if st.get("cls") == "sub" else (lambda x: x)
            out.append(f"c{st['c']}.{st['m']}({', '.join(wrap(repr(uncps(a))) for a in st.get('a', []))}{flags})")
        else:
            out.append(json.dumps(st))
    return out
