"""Seeded generators shared by the property checks.

Every random choice comes from the `random.Random` passed in, which the engine derives from
VERIF_SEED, so a run replays exactly.
"""
from __future__ import annotations

from .common import cps, uncps, rec

SYMS = ["a", "b", "/", "_", "#", "G", "1", ":", "é", "́", "\U0001d518", " ", "\n"]
DELIMS = [":", ":", ":", ":", "/", "::", "_", "|", "-:"]
REAL_URIS = ["http://purl.obolibrary.org/obo/", "http://purl.obolibrary.org/obo/GO_",
             "http://purl.obolibrary.org/obo/CHEBI_", "https://identifiers.org/", "https://identifiers.org/GO:",
             "https://bioregistry.io/", "urn:x:", "GO:", "http"]
PREFIX_WORDS = ["GO", "go", "Go", "GOO", "G", "CHEBI", "chebi", "a", "A", "ab", "b", "x.y", "http", "ß", "ss",
                "İ", "i̇", "doi", "DOI", "o", "OBO", "obo", "é", "É", "𝔘", "a b", "a_b", "a-b", "1", "_"]


def word(rng, lo=1, hi=3, syms=SYMS):
    return "".join(rng.choice(syms) for _ in range(rng.randint(lo, hi)))


def uri_lattice(rng, n, with_empty=None):
    """`n` distinct strings forming a random forest under the prefix order (nested, overlapping,
    siblings differing in one symbol), optionally containing the empty string."""
    if with_empty is None:
        with_empty = rng.random() < 0.12
    pool = []
    if with_empty:
        pool.append("")
    roots = rng.sample(["h", "http://e.org/", "a", "u:", "x/"] + REAL_URIS, 2)
    tries = 0
    while len(pool) < n and tries < 1000:
        tries += 1
        r = rng.random()
        if not pool or r < 0.15:
            s = rng.choice(roots)
        elif r < 0.25:
            s = rng.choice(REAL_URIS)
        elif r < 0.40 and pool:
            # sibling: same length, one symbol changed
            b = rng.choice(pool)
            if not b:
                continue
            i = rng.randrange(len(b))
            s = b[:i] + rng.choice(SYMS) + b[i + 1:]
        else:
            s = rng.choice(pool) + word(rng, 1, 2)
        if s not in pool:
            pool.append(s)
    return pool


def prefix_pool(rng, n, delim, forbid_delim=True, with_empty=None):
    """`n` distinct CURIE prefixes: words, case variants, substrings/extensions of each other."""
    if with_empty is None:
        with_empty = rng.random() < 0.15
    pool = []
    if with_empty:
        pool.append("")
    tries = 0
    while len(pool) < n and tries < 1000:
        tries += 1
        r = rng.random()
        if r < 0.45:
            s = rng.choice(PREFIX_WORDS)
        elif r < 0.65 and pool:
            b = rng.choice(pool)
            s = rng.choice([b.upper(), b.lower(), b.swapcase(), b + word(rng, 1, 1), b[:-1] if b else "q", b.casefold()])
        else:
            s = word(rng, 1, 3)
        if forbid_delim and delim in s:
            continue
        if forbid_delim and len(delim) > 1 and not delim_ok(delim, s):
            # K2 boundary: prefix does not contain the delimiter but the delimiter starts inside prefix+delimiter
            if rng.random() < 0.97:
                continue
        if s not in pool:
            pool.append(s)
    return pool


def delim_ok(d: str, p: str) -> bool:
    """`DelimOK` of the Lean model: partition recovers `p` from `p + d + i` for every `i`."""
    return all(not (p + d)[i:].startswith(d) for i in range(len(p)))


def deal(rng, items, k):
    """Deal `items` into `k` non-empty groups (first of each group is canonical)."""
    items = list(items)
    rng.shuffle(items)
    groups = [[x] for x in items[:k]]
    for x in items[k:]:
        rng.choice(groups).append(x)
    return groups


def records(rng, delim=":", nrec=None, max_syn=3, forbid_delim=True, patterns=True, uri_empty=None,
            prefix_empty=None, prefix_free=False):
    """A valid strict record collection (protocol records) with overlapping URI prefixes."""
    if nrec is None:
        nrec = rng.choice([1, 2, 2, 3, 3, 4, 5, 6])
    if nrec == 0:
        return []
    n_uri = nrec + rng.randint(0, min(max_syn * nrec, 5))
    n_pfx = nrec + rng.randint(0, min(max_syn * nrec, 4))
    if prefix_free:
        uris = prefix_free_pool(rng, n_uri)
    else:
        uris = uri_lattice(rng, n_uri, with_empty=uri_empty)
    pfxs = prefix_pool(rng, n_pfx, delim, forbid_delim=forbid_delim, with_empty=prefix_empty)
    nrec = min(nrec, len(uris), len(pfxs))
    ug = deal(rng, uris, nrec)
    pg = deal(rng, pfxs, nrec)
    out = []
    for us, ps in zip(ug, pg):
        pat = None
        if patterns and rng.random() < 0.2:
            pat = rng.choice(["^\\d+$", "", "^[A-Z]+$", "\\w+"])
        out.append(rec(ps[0], us[0], ps[1:], us[1:], pat))
    return out


def prefix_free_pool(rng, n):
    """`n` strings none of which is a prefix of another."""
    pool = []
    tries = 0
    while len(pool) < n and tries < 2000:
        tries += 1
        s = rng.choice(["http://e.org/", "h", "x/", "u:", ""]) + word(rng, 1, 3, syms=["a", "b", "/", "_", "G", "é"])
        if any(s.startswith(t) or t.startswith(s) for t in pool):
            continue
        pool.append(s)
    return pool


def all_uris(recs):
    return [uncps(r["u"]) for r in recs] + [uncps(x) for r in recs for x in r.get("us", [])]


def all_prefixes(recs):
    return [uncps(r["p"]) for r in recs] + [uncps(x) for r in recs for x in r.get("ps", [])]


def uri_probes(rng, recs, k=10):
    """Probe URIs around the registered URI prefixes: exact, ±1 symbol, tail of another prefix."""
    us = all_uris(recs)
    out = []
    for _ in range(k):
        b = rng.choice(us) if us else ""
        r = rng.random()
        if r < 0.12:
            s = b
        elif r < 0.24:
            s = b[:-1]
        elif r < 0.45:
            s = b + rng.choice(SYMS)
        elif r < 0.60 and us:
            o = rng.choice(us)
            s = b + o[rng.randrange(len(o) + 1):]
        elif r < 0.90:
            s = b + rng.choice(["1234", "x", "a_b", "0000001", "x:y", "a/b#c", "é", ""]) + word(rng, 0, 2)
        else:
            s = word(rng, 0, 5)
        out.append(s)
    return out


IDENTIFIERS = ["", "1234", "x", "a:b", "a/b", "#frag", "a b", "é", "0000001", "x::y", ":", "::", "/", "a_b",
               "\ud800", "𝔘1", "\n", "GO_1", "obo/GO_1"]


def identifier(rng, delim):
    r = rng.random()
    if r < 0.6:
        return rng.choice(IDENTIFIERS)
    if r < 0.75:
        return rng.choice(["a", "1", ""]) + delim + rng.choice(["b", "2", ""])
    return word(rng, 0, 4)


def curie_probes(rng, recs, delim, k=10):
    """Probe CURIEs: known / unknown / synonym / case-variant prefixes × identifiers, malformed strings."""
    ps = all_prefixes(recs)
    out = []
    for _ in range(k):
        r = rng.random()
        if r < 0.55 and ps:
            p = rng.choice(ps)
        elif r < 0.70 and ps:
            b = rng.choice(ps)
            p = rng.choice([b.upper(), b.lower(), b + "x", b[:-1], b.swapcase()])
        elif r < 0.80:
            p = rng.choice(PREFIX_WORDS)
        else:
            p = word(rng, 0, 2)
        r2 = rng.random()
        if r2 < 0.80:
            s = p + delim + identifier(rng, delim)
        elif r2 < 0.86:
            s = p  # no delimiter
        elif r2 < 0.90:
            s = ""
        elif r2 < 0.94:
            s = delim
        elif r2 < 0.97:
            s = delim + p
        else:
            s = p + delim[:-1] if len(delim) > 1 else p + " "
        out.append(s)
    return out


def split_history(rng, recs, p_thin=0.6):
    """Split a record collection into the records a long-lived converter starts with and what it acquires later:
    `("add", record)` for records appended later and `("merge", extension)` for synonyms that an initial record
    (started with only a part of its synonyms) acquires through add_record / add_prefix(merge=True).  Applying
    `later` in order to a converter built from the first part yields a converter holding `recs` (synonym lists
    sorted by the merges)."""
    if len(recs) >= 2:
        k = rng.randint(1, len(recs) - 1)
    else:
        k = len(recs)
    order = list(recs)
    rng.shuffle(order)
    first, rest = order[:k], order[k:]
    later = [("add", r) for r in rest]
    thinned = []
    for r in first:
        if (r["ps"] or r["us"]) and rng.random() < p_thin:
            keep_ps = [x for x in r["ps"] if rng.random() < 0.4]
            keep_us = [x for x in r["us"] if rng.random() < 0.4]
            drop_ps = [x for x in r["ps"] if x not in keep_ps]
            drop_us = [x for x in r["us"] if x not in keep_us]
            thinned.append(dict(r, ps=keep_ps, us=keep_us))
            ext = {"p": rng.choice([r["p"]] + keep_ps), "u": rng.choice([r["u"]] + keep_us), "ps": drop_ps, "us": drop_us,
                   "pat": None}
            # the extension may be tied to its record through one side only: its own prefix / URI prefix is then one of the
            # names still to be acquired (matched through the URI prefix alone resp. through the CURIE prefix alone)
            v = rng.random()
            if v < 0.3 and drop_ps:
                ext = dict(ext, p=drop_ps[0], ps=drop_ps[1:])
            elif v < 0.6 and drop_us:
                ext = dict(ext, u=drop_us[0], us=drop_us[1:])
            later.append(("merge", ext))
        else:
            thinned.append(r)
    rng.shuffle(later)
    return thinned, later


def build_steps(rng, recs, delim, queries, slot=0, p_incremental=0.35):
    """Steps that build converter `slot` from `recs` and then run `queries` on it.

    With probability `p_incremental` the converter is built the way a long-lived application does it: from a
    part of the records, *queried* (a sample of the same queries, so that any lazily built or memoised lookup
    state exists), then extended with add_record / add_prefix, and only then asked the real queries.  The
    properties quantify over every converter, however it came to hold its records."""
    from .common import q as _q
    header = [_q(slot, "records"), _q(slot, "delimiter")]
    d = [ord(ch) for ch in delim]
    # a few questions are asked with instances of a str subclass (as curies.Prefix is one): same characters, same answer
    queries = [dict(st, cls="sub") if st.get("op") == "q" and st.get("a") and rng.random() < 0.04 else st for st in queries]
    # parse_uri is also called the deprecated way (return_none left at its default: a miss is (None, None) and a warning)
    queries = [dict(st, legacy=True) if st.get("op") == "q" and st.get("m") == "parse_uri" and rng.random() < 0.25 else st
               for st in queries]
    if recs and rng.random() < 0.12:
        # the application deep-copies or pickles its converter (multiprocessing, caching) and works with the copy
        header = [{"op": "clone", "dst": slot, "src": slot, "how": rng.choice(["deepcopy", "pickle"])}] + header
    sfx = "+copied" if header[0].get("op") == "clone" else ""
    clash = []
    if recs and rng.random() < 0.06:
        # a collection with a clash between records that are not neighbours in any order the constructor might use: the
        # record "zzclash…" (sorts last) re-uses a CURIE prefix or a URI prefix of the first record, "mmid…" sits between.
        # A strict constructor must reject it (C04); if it does not, the converter it returns breaks every other property.
        t = min(recs, key=lambda r: r["p"])
        side = rng.choice(["p", "u"])
        val = rng.choice([t[side]] + t["ps" if side == "p" else "us"])
        mid = {"p": cps("mmid"), "u": cps("http://mid.example/"), "ps": [], "us": [], "pat": None}
        last = {"p": cps("zzclash"), "u": cps("http://zzclash.example/"), "ps": [], "us": [], "pat": None}
        if rng.random() < 0.5:
            last[side] = val
        else:
            last["ps" if side == "p" else "us"] = [val]
        clash = [{"op": "init", "dst": slot + 90, "records": recs + [mid, last], "delim": d,
                  "container": rng.choice(["list", "tuple", "iter", "generator", "dict_values"])}]
    decoy = []
    if len(recs) >= 2 and rng.random() < 0.12:
        # another converter lives in the same process, with the same strings meaning something else (the prefixes
        # rotated over the records), and is asked the same questions first: answers must come from the converter
        # asked, not from anything keyed by the strings alone
        nxt = lambda i: recs[(i + 1) % len(recs)]
        how = rng.choice(["names", "synonyms", "uri-synonyms"])
        if how == "names":
            rot = [dict(r, p=nxt(i)["p"], ps=nxt(i)["ps"]) for i, r in enumerate(recs)]
        elif how == "synonyms":      # every synonym stays known, under another canonical prefix
            rot = [dict(r, ps=nxt(i)["ps"]) for i, r in enumerate(recs)]
        else:                        # every URI-prefix synonym stays known, as a synonym of another record
            rot = [dict(r, us=nxt(i)["us"]) for i, r in enumerate(recs)]
        decoy = [{"op": "init", "dst": slot + 70, "records": rot, "delim": d}] + \
                [dict(st, c=slot + 70) for st in queries if st.get("op") == "q"]
        sfx += "+decoy"
    # a rejected call in the history: a new record whose *later* names clash with an existing record (no merge).
    # It raises ValueError and must leave no trace: the new names stay unknown to every query.
    if recs and rng.random() < 0.3:
        t = rng.choice(recs)
        newp, newu = "rj" + word(rng, 1, 1, syms=["a", "b", "1"]), "http://rejected.example/" + word(rng, 1, 1, syms=["a", "b"]) + "/"
        side = rng.random()
        ps = [uncps(t["p"])] if side < 0.5 else []
        us = [] if side < 0.5 else [uncps(t["u"])]
        rej = [{"op": "add_prefix", "c": slot, "p": cps(newp), "u": cps(newu), "ps": [cps(x) for x in ["rjsyn"] + ps],
                "us": [cps(x) for x in [newu + "syn/"] + us]}]
        queries = list(queries) + [_q(slot, "standardize_prefix", newp), _q(slot, "expand_pair", newp, "1"),
                                   _q(slot, "expand_pair", "rjsyn", "1"), _q(slot, "expand", newp + delim + "1"),
                                   _q(slot, "standardize_curie", "rjsyn" + delim + "1"), _q(slot, "is_curie", newp + delim + "1"),
                                   _q(slot, "compress", newu + "1"), _q(slot, "standardize_uri", newu + "syn/1"),
                                   _q(slot, "parse_uri", newu + "1"), _q(slot, "is_uri", newu + "1")]
        header = rej + header
    if not recs or (len(recs) < 2 and not (recs[0]["ps"] or recs[0]["us"])) or rng.random() >= p_incremental:
        if recs and rng.random() < 0.15:
            # the caller builds a second converter from the very same list object and keeps curating that one
            twin = [{"op": "init", "dst": slot, "records": recs, "delim": d},
                    {"op": "init", "dst": slot + 50, "records": recs, "delim": d, "same_list_as": slot},
                    # (a new record only: the Record *objects* of the list are shared by both converters by design,
                    #  so a merge into one of them would legitimately show in the other)
                    {"op": "add_prefix", "c": slot + 50, "p": cps("twinp"), "u": cps("http://twin.example/"), "ps": [], "us": []}]
            extra = [_q(slot, "standardize_prefix", "twinp"), _q(slot, "expand_pair", "twinp", "1"),
                     _q(slot, "standardize_uri", "http://twin.example/1")]
            return clash + decoy + twin + header + list(queries) + extra, "init+twin-from-same-list" + sfx
        simple = all(not r["ps"] and not r["us"] and r.get("pat") is None for r in recs) and len({tuple(r["p"]) for r in recs}) == len(recs)
        nopat = bool(recs) and all(r.get("pat") is None for r in recs) and len({tuple(r["p"]) for r in recs}) == len(recs)
        if simple and recs and rng.random() < 0.4:
            # the same content arriving through the plain-prefix-map loader
            cons = [{"op": "load_pm", "dst": slot, "data": [[r["p"], r["u"]] for r in recs], "delim": d}]
        elif nopat and rng.random() < 0.25:
            # ... or through the loader followed by merges that bring the synonyms (a prefix map curated in place)
            cons = [{"op": "load_pm", "dst": slot, "data": [[r["p"], r["u"]] for r in recs], "delim": d}]
            cons += [{"op": "add_prefix", "c": slot, "p": r["p"], "u": r["u"], "ps": r["ps"], "us": r["us"], "merge": True}
                     for r in recs if r["ps"] or r["us"]]
            sfx += "+loaded-then-merged"
        else:
            cons = [{"op": "init", "dst": slot, "records": recs, "delim": d,
                     "container": rng.choice(["list", "list", "tuple", "iter", "generator", "dict_values"])}]
        by, byq, bytag = bystander(rng, recs, delim, cons, slot)
        return clash + decoy + by + header + list(queries) + byq, "init" + sfx + bytag
    thinned, later = split_history(rng, recs)
    names = all_prefixes(recs) + all_uris(recs)
    fold_free = len({n.casefold() for n in names}) == len(names)
    rest = [r for kind, r in later if kind == "add"]
    first = thinned
    warm = [dict(st) for st in rng.sample(queries, min(len(queries), 6))] if queries else []
    warm += [_q(slot, "get_record", uncps(first[0]["p"])), _q(slot, "expand_pair_all", uncps(first[0]["p"]), "1")]
    steps = [{"op": "init", "dst": slot, "records": thinned, "delim": d}] + warm
    for kind, r in later:
        merge = kind == "merge"
        # case_sensitive=False only where it cannot change what the history builds: no two names equal up to case
        cs = not fold_free or rng.random() >= 0.3
        if r.get("pat") is None and rng.random() < 0.5:
            steps.append({"op": "add_prefix", "c": slot, "p": r["p"], "u": r["u"], "ps": r["ps"], "us": r["us"],
                          "merge": merge, "cs": cs})
        else:
            steps.append({"op": "add_record", "c": slot, "record": r, "merge": merge, "cs": cs})
        if rng.random() < 0.3 and queries:
            steps.append(dict(rng.choice(queries)))
    by, byq, bytag = bystander(rng, recs, delim, steps, slot)
    return clash + decoy + by + header + list(queries) + byq, ("incremental+merge" if len(later) > len(rest) else "incremental") + sfx + bytag


def bystander(rng, recs, delim, cons, slot, p=0.22):
    """`cons` builds converter `slot`.  With probability `p` a second converter M related to it lives in the same
    process and is curated, while `slot` -- the bystander -- is the one that gets asked:

      child       M = derive(slot)                         parent      slot = derive(B),  M = B
      sibling     slot = derive(B), M = derive(B)          grandchild  slot = derive(B),  M = derive(slot)
      twin        M is built by exactly the calls that built slot

    derive = chain([x]) / x.get_subconverter(all prefixes) / copy.deepcopy(x) / pickle round trip.  M then acquires a
    synonym and a URI prefix by merge into one of its records, and a new record; in half of the cases the bystander
    merges a synonym of its own into the *same* record (which re-indexes that record).  Whatever M learnt must stay
    unknown to the bystander: records, lookup tables, tries and caches are per converter.  Returns (steps that replace
    `cons`, queries to append, tag)."""
    from .common import q as _q
    if not recs or rng.random() >= p:
        return cons, [], ""
    B, M = slot + 80, slot + 81
    canon = [r["p"] for r in recs]

    def derive(dst, src):
        # (chain and get_subconverter build their result with the default delimiter ':': they are used only when the
        #  converter has that delimiter, so that the converter asked stays inside the properties' quantifiers)
        k = rng.choice(["chain", "sub", "deepcopy", "pickle"] if delim == ":" else ["deepcopy", "pickle"])
        if k == "chain":
            return {"op": "chain", "dst": dst, "srcs": [src]}
        if k == "sub":
            return {"op": "sub", "dst": dst, "src": src, "prefixes": canon}
        return {"op": "clone", "dst": dst, "src": src, "how": k}

    def retarget(steps, to):
        out = []
        for st in steps:
            st = dict(st)
            for f in ("dst", "c"):
                if st.get(f) == slot:
                    st[f] = to
            out.append(st)
        return out

    kind = rng.choice(["child", "parent", "sibling", "grandchild", "twin"])
    if kind == "child":
        steps, m = cons + [derive(M, slot)], M
    elif kind == "parent":
        steps, m = retarget(cons, B) + [derive(slot, B)], B
    elif kind == "sibling":
        steps, m = retarget(cons, B) + [derive(slot, B), derive(M, B)], M
    elif kind == "grandchild":
        steps, m = retarget(cons, B) + [derive(slot, B), derive(M, slot)], M
    else:
        steps, m = cons + [st for st in retarget(cons, M) if st["op"] != "q"], M
    t = rng.choice(recs)
    u1, u2, u3 = "http://bystander.example/u/", "http://bystander.example/u2/", "http://bystander.example/new/"
    steps = steps + [
        {"op": "add_prefix", "c": m, "p": t["p"], "u": cps(u1), "ps": [cps("bysyn")], "us": [cps(u2)], "merge": True},
        {"op": "add_prefix", "c": m, "p": cps("byp"), "u": cps(u3), "ps": [cps("bypsyn")], "us": []}]
    if rng.random() < 0.5:
        steps.append({"op": "add_prefix", "c": slot, "p": t["p"], "u": t["u"], "ps": [cps("ownsyn")], "us": [], "merge": True})
    qs = [_q(slot, "standardize_prefix", "bysyn"), _q(slot, "expand_pair", "bysyn", "1"), _q(slot, "expand", "bysyn" + delim + "1"),
          _q(slot, "expand_pair_all", uncps(t["p"]), "1"), _q(slot, "compress", u1 + "1"), _q(slot, "standardize_uri", u2 + "1"),
          _q(slot, "parse_uri", u3 + "1"), _q(slot, "is_uri", u1 + "1"), _q(slot, "expand_pair", "byp", "1"),
          _q(slot, "is_curie", "byp" + delim + "1"), _q(slot, "standardize_curie", "bypsyn" + delim + "1"),
          _q(slot, "compress_or_standardize", u1 + "1"), _q(slot, "expand_or_standardize", "bysyn" + delim + "1"),
          _q(slot, "get_prefixes", s=True), _q(slot, "get_uri_prefixes", s=True)]
    return steps, qs, "+bystander:" + kind


def observe_steps(slot, probes_p=(), probes_u=()):
    from .common import q as _q
    steps = [_q(slot, "records"), _q(slot, "delimiter"), _q(slot, "get_prefixes", s=True), _q(slot, "get_uri_prefixes", s=True),
             _q(slot, "prefix_map"), _q(slot, "reverse_prefix_map")]
    for p in probes_p:
        steps += [_q(slot, "expand_pair", p, "1"), _q(slot, "standardize_prefix", p)]
    for u in probes_u:
        steps += [_q(slot, "compress", u), _q(slot, "standardize_uri", u)]
    return steps


def live_tail(rng, recs, src, derived, redo=()):
    """History on live objects, appended after the operations under test: the input converter `src` (built from
    `recs`) keeps being curated -- a merge adds synonyms to one of its records -- and so does each converter in
    `derived`; after every mutation all converters are observed again, and finally the derivations `redo`
    (steps writing to fresh slots) are repeated on the curated input.  In the model every derivation copies, so any
    sharing of records, synonym lists, caches or default arguments between the objects shows as a disagreement.
    All steps are marked `_tail`."""
    t = rng.choice(recs)
    tag = word(rng, 1, 1, syms=["a", "b", "1"])
    sp, su = "acqS" + tag, "http://acq-src.example/" + tag + "/"
    dp, du = "acqD" + tag, "http://acq-der.example/" + tag + "/"
    probes_p = [sp, dp, uncps(t["p"])]
    probes_u = [su + "1", du + "1", uncps(t["u"]) + "1"]
    slots = [src] + list(derived)
    steps = []
    order = [("src", src)] + [("der", d) for d in derived]
    rng.shuffle(order)
    for kind, slot in order:
        p_, u_ = (sp, su) if kind == "src" else (dp, du)
        if rng.random() < 0.5:
            steps.append({"op": "add_prefix", "c": slot, "p": t["p"], "u": t["u"], "ps": [cps(p_)], "us": [cps(u_)],
                          "merge": True})
        else:
            steps.append({"op": "add_record", "c": slot, "merge": True,
                          "record": rec(uncps(t["p"]), uncps(t["u"]), [p_], [u_])})
        for s_ in slots:
            steps += observe_steps(s_, probes_p, probes_u)
    for st in redo:
        steps.append(dict(st))
        steps += observe_steps(st["dst"], probes_p, probes_u)
    for st in steps:
        st["_tail"] = True
    return steps
