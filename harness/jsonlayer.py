"""The JSON text layer: CPython's `json` against `Model/Json.lean` (render / parse), both directions.

Values are the ones the library writes (null, booleans, strings, arrays, objects); numbers are not modelled and
number-bearing documents are left out of the comparison."""
from __future__ import annotations

import json

from .common import cps, uncps

ERROR = {"t": "error"}
SKIP = {"t": "skip"}

ALPHABET = ["a", "b", "Z", "0", " ", "\"", "\\", "/", "\n", "\r", "\t", "\b", "\f", "\x00", "\x1f", "\x7f", "é", "ß", "\u2028",
            "\ud7ff", "\ue000", "\uffff", "\U00010000", "\U0001f600", "\U0010ffff", "{", "}", "[", "]", ":", ",", "u", "n", "@"]


def tag(v):
    """A Python value as the tagged protocol value the driver uses; numbers make the whole document SKIP."""
    if v is None:
        return {"t": "null"}
    if v is True or v is False:
        return {"t": "bool", "v": v}
    if isinstance(v, str):
        return {"t": "str", "v": cps(v)}
    if isinstance(v, list):
        items = [tag(x) for x in v]
        return SKIP if any(x is SKIP for x in items) else {"t": "arr", "v": items}
    if isinstance(v, dict):
        items = [[cps(k), tag(x)] for k, x in v.items()]
        return SKIP if any(x[1] is SKIP for x in items) else {"t": "obj", "v": items}
    return SKIP


def untag(t):
    k = t["t"]
    if k == "null":
        return None
    if k == "bool":
        return t["v"]
    if k == "str":
        return uncps(t["v"])
    if k == "arr":
        return [untag(x) for x in t["v"]]
    if k == "obj":
        return {uncps(a): untag(b) for a, b in t["v"]}
    raise ValueError(k)


def py_parse(text: str):
    try:
        return tag(json.loads(text))
    except (ValueError, RecursionError):
        return ERROR


def py_render(value, indent, ascii_, sort=False):
    return json.dumps(value, indent=indent, ensure_ascii=ascii_, sort_keys=sort)


def word(rng, lo=0, hi=4):
    return "".join(rng.choice(ALPHABET) for _ in range(rng.randint(lo, hi)))


def value(rng, depth=0):
    r = rng.random()
    if depth >= 3 or r < 0.35:
        return rng.choice([None, True, False, word(rng), word(rng), word(rng, 0, 8)])
    if r < 0.65:
        return [value(rng, depth + 1) for _ in range(rng.choice([0, 1, 1, 2, 3]))]
    out = {}
    for _ in range(rng.choice([0, 1, 1, 2, 3])):
        out[word(rng, 0, 3)] = value(rng, depth + 1)
    return out


def mutate(rng, text: str) -> str:
    """Variants of a well-formed document: other legal spellings and the usual ways of being ill-formed."""
    k = rng.randrange(16)
    if k == 0:
        return text.replace(", ", " ,\n\t ").replace(": ", "\r:\t")
    if k == 1:
        return " \n" + text + "\t\r\n "
    if k == 2 and "\\u" in text:
        i = text.index("\\u")
        return text[:i + 2] + text[i + 2:i + 6].upper() + text[i + 6:]
    if k == 3:
        return text.replace("/", "\\/")
    if k == 4:
        return text.replace("\"", "\"\\ud83d\\ude00", 1) if "\"" in text else text
    if k == 5:
        return text.replace("\"", "\"\\ud83d", 1) if "\"" in text else text              # lone high surrogate
    if k == 6:
        return text.replace("\"", "\"\\ude00\\ud83d", 1) if "\"" in text else text       # low before high
    if k == 7:
        return text[: rng.randrange(len(text) + 1)]                                      # truncated
    if k == 8:
        return text.replace("]", ",]", 1).replace("}", ",}", 1)                          # trailing comma
    if k == 9:
        return text.replace("\"", "\"\x01", 1)                                           # raw control character
    if k == 10:
        return text.replace("\"", "\"\\x", 1)                                            # unknown escape
    if k == 11:
        return text + rng.choice([" []", "x", ",", "\"\""])                             # extra data
    if k == 12:
        return text.replace("\"", "\"\\u12G4", 1)                                        # bad hex digit
    if k == 13:
        return "\ufeff" + text
    if k == 14 and text.startswith("{") and len(text) > 2:
        body = text[1:-1]
        return "{" + body + ", " + body.strip() + "}"                                    # every key twice
    if k == 15:
        return text.replace("\"", "\"\\ud83d\\u0041", 1) if "\"" in text else text      # high surrogate + non-surrogate
    return text


def gen_case(rng):
    indent = rng.choice([None, None, 0, 1, 2, 4])
    ascii_ = rng.random() < 0.5
    values = [value(rng) for _ in range(4)]
    texts = []
    for v in values:
        t = py_render(v, rng.choice([None, 2, 4]), rng.random() < 0.5)
        texts.append(t)
        texts.append(mutate(rng, t))
        texts.append(mutate(rng, mutate(rng, t)))
    texts += [rng.choice(["", " ", "null", "true", "false", "nul", "tru", "[", "{", "\"", "[null, true , false]", "{\"a\":}", "[\"\\"])]
    return {"indent": indent, "ascii": ascii_, "sort": rng.random() < 0.5, "values": [tag(v) for v in values],
            "texts": [cps(t) for t in texts]}


def run_python(jc):
    """What CPython's json does with the case."""
    return {"parsed": [py_parse(uncps(t)) for t in jc["texts"]],
            "rendered": [cps(py_render(untag(v), jc["indent"], jc["ascii"], jc.get("sort", False))) for v in jc["values"]]}


def request(jc):
    return {"k": "json", "texts": jc["texts"], "values": jc["values"], "indent": jc["indent"], "ascii": jc["ascii"],
            "sort": jc.get("sort", False)}


def compare(jc, impl, resp):
    diffs = []
    for i, (a, b) in enumerate(zip(impl["parsed"], resp["parsed"])):
        if a is SKIP or a == SKIP:
            continue
        if a != b:
            diffs.append({"step": i, "op": f"json.loads({uncps(jc['texts'][i])!r})",
                          "implementation": "error" if a == ERROR else repr(untag(a)),
                          "model": "error" if b == ERROR else repr(untag(b))})
    for i, (a, b) in enumerate(zip(impl["rendered"], resp["rendered"])):
        if a != b:
            diffs.append({"step": i, "op": f"json.dumps({untag(jc['values'][i])!r}, indent={jc['indent']}, ensure_ascii={jc['ascii']}, sort_keys={jc.get('sort', False)})",
                          "implementation": uncps(a), "model": uncps(b)})
    return diffs


# ---- every short text ------------------------------------------------------------------------------------------------
EXH_ALPHABET = ["[", "]", "{", "}", "\"", ":", ",", " ", "a", "\\", "u", "0", "n"]


def _exh_worker(args):
    """All texts `first + tail` with len(tail) < maxlen over EXH_ALPHABET: the modelled json.loads against CPython's."""
    import itertools

    from . import common

    first, maxlen = args
    n, bad, batch = 0, [], []

    def flush():
        nonlocal n, batch
        if not batch:
            return
        impl = [py_parse(t) for t in batch]
        resp = common.run_driver([{"k": "json", "texts": [cps(t) for t in batch]}])[0]
        for t, a, b in zip(batch, impl, resp["parsed"]):
            if a == SKIP:
                continue
            if a != b:
                jc = {"indent": None, "ascii": True, "values": [], "texts": [cps(t)]}
                bad.append({"case": {"steps": [], "json": jc, "fmt": "json-text", "syn": False, "expand": False, "nontrivial": True,
                                     "tags": ["fmt=json-text"], "_json_impl": {"parsed": [a], "rendered": []}},
                            "diffs": [{"step": 0, "op": f"json.loads({t!r})", "implementation": "error" if a == ERROR else repr(untag(a)),
                                       "model": "error" if b == ERROR else repr(untag(b))}],
                            "fails": [], "impl": [], "model": []})
        n += len(batch)
        batch = []

    for L in range(0, maxlen):
        for tail in itertools.product(EXH_ALPHABET, repeat=L):
            batch.append(first + "".join(tail))
            if len(batch) >= 20000:
                flush()
    flush()
    return n, bad[:10]


def exhaustive(tier):
    """Every text of length <= 5 (quick) / <= 6 (thorough) over the 13 characters that make up JSON's structure — brackets,
    braces, quote, colon, comma, space, a letter, backslash, 'u', a digit, 'n' — is parsed by the modelled json.loads and by
    CPython's; the verdicts (error, or the same value) must agree on all of them."""
    import multiprocessing as mp

    maxlen = 5 if tier == "quick" else 6
    jobs = [(c, maxlen) for c in EXH_ALPHABET]
    n, bad = 1, []           # (the empty text is checked in the generated stream)
    with mp.get_context("fork").Pool(13) as pool:
        for k, b in pool.imap_unordered(_exh_worker, jobs):
            n += k
            bad.extend(b)
    return {"n": n, "bad": bad[:20], "complete": True,
            "scope": f"every JSON text of length <= {maxlen} over {EXH_ALPHABET} through the modelled json.loads and CPython's: {n} texts"}
