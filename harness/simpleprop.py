"""Base class for properties whose cases are not converter programs (C16-C18)."""
from __future__ import annotations

import hashlib
import json

from .progprop import STD_TRUSTED


class SimpleProperty:
    id = "C00"
    theorems: list[str] = []
    lean_modules: list[str] = []
    rule = ""
    assumptions: list[str] = []
    trusted_base = STD_TRUSTED

    def budget(self, tier):
        return 500 if tier == "quick" else 10000

    def extra_fails(self, case, impl, resp):
        return self.laws(case, impl)

    def laws(self, case, impl):
        return []

    def tags(self, case, impl):
        return case.get("tags", [])

    def size(self, case):
        return 1

    def nontrivial(self, case, impl):
        return bool(case.get("nontrivial", True))

    def fingerprint(self, case):
        return hashlib.sha1(json.dumps({k: v for k, v in case.items() if not k.startswith("_")}, sort_keys=True,
                                       default=str).encode()).hexdigest()[:16]

    def evaluations(self, case):
        return 1

    def sample(self, case, impl):
        return self.readable(case, impl)[:10]

    def readable(self, case, impl):
        return [json.dumps(case, default=str)[:2000], "implementation: " + json.dumps(impl, default=str)[:2000]]

    def matches_known(self, entry, case, fails):
        return False

    def reductions(self, case):
        return []

    def neighbours(self, case):
        return []
