"""The decision procedure shared by all checks (DESIGN §4).

1. proof obligations: `lake build`, axiom audit of the property's theorems, forbidden-token grep
2. correspondence: known-finding witnesses, corpus, generated cases; implementation vs. model
3. spec verdict: the Lean checkers evaluated on the implementation's outputs
4. outcome: exit 0 / VIOLATION with a replay / VIOLATION … no-failing-input-found
5. evidence/<id>.json
"""
from __future__ import annotations

import fcntl
import json
import multiprocessing as mp
import os
import random
import re
import subprocess
import sys
import time
import traceback
from collections import Counter
from pathlib import Path

from . import common
from .common import VERIF, LEAN, REPLAYS, EVIDENCE, CORPUS

ALLOWED_AXIOMS = {"propext", "Classical.choice", "Quot.sound"}
FORBIDDEN = re.compile(r"\bsorry\b|\badmit\b|^\s*axiom\s|native_decide|bv_decide|implemented_by|\bunsafe\s|maxHeartbeats\s+0")


class Broken(Exception):
    """/verif itself is broken (exit 2, no VIOLATION line)."""


# --------------------------------------------------------------------------------------------
# 1. proof obligations


def strip_comments(src: str) -> str:
    out, i, depth = [], 0, 0
    while i < len(src):
        if src.startswith("/-", i):
            depth += 1
            i += 2
        elif depth and src.startswith("-/", i):
            depth -= 1
            i += 2
        elif depth:
            if src[i] == "\n":
                out.append("\n")
            i += 1
        elif src.startswith("--", i):
            while i < len(src) and src[i] != "\n":
                i += 1
        else:
            out.append(src[i])
            i += 1
    return "".join(out)


def lake_build() -> float:
    t0 = time.time()
    lock = open(LEAN / ".build.lock", "w")
    fcntl.flock(lock, fcntl.LOCK_EX)
    try:
        pr = subprocess.run(["lake", "build"], cwd=LEAN, capture_output=True, text=True)
        if pr.returncode != 0:
            raise Broken("lake build failed:\n" + (pr.stdout + pr.stderr)[-4000:])
    finally:
        fcntl.flock(lock, fcntl.LOCK_UN)
    return time.time() - t0


def grep_forbidden() -> None:
    hits = []
    for f in sorted(LEAN.rglob("*.lean")):
        if ".lake" in f.parts:
            continue
        for n, line in enumerate(strip_comments(f.read_text()).splitlines(), 1):
            if FORBIDDEN.search(line):
                hits.append(f"{f.relative_to(VERIF)}:{n}: {line.strip()}")
    if hits:
        raise Broken("forbidden tokens in Lean sources:\n" + "\n".join(hits))


def audit(prop: str) -> list[dict]:
    """Theorems `<prop>_*` of the library with their axioms (via `Audit.lean`)."""
    pr = subprocess.run(["lake", "env", "lean", "--run", "Audit.lean", prop], cwd=LEAN, capture_output=True,
                        text=True)
    if pr.returncode != 0:
        raise Broken("axiom audit failed:\n" + (pr.stdout + pr.stderr)[-4000:])
    thms = [json.loads(line) for line in pr.stdout.splitlines() if line.startswith("{")]
    bad = [t for t in thms if not set(t["axioms"]) <= ALLOWED_AXIOMS]
    if bad:
        raise Broken(f"theorems depending on axioms outside {sorted(ALLOWED_AXIOMS)}: {bad}")
    return thms


def leanchecker(modules: list[str]) -> float:
    """Independent re-check (Lean's `leanchecker`) of *every* module of the library — models, lemmas, properties — not
    only of the property's own file: its theorems rest on all of them.  The re-check of one set of compiled files is
    shared by the thorough checks that find the same files (a stamp next to the build output, keyed by their content)."""
    import fcntl
    import hashlib

    lib = LEAN / ".lake" / "build" / "lib" / "lean"
    oleans = sorted(lib.rglob("*.olean"))
    if not oleans:
        raise Broken("no compiled files to re-check")
    hsh = hashlib.sha256()
    for f in oleans:
        hsh.update(str(f.relative_to(lib)).encode())
        hsh.update(f.read_bytes())
    digest = hsh.hexdigest()
    stamp = LEAN / ".lake" / "leanchecker.stamp"
    all_modules = sorted({str(f.relative_to(lib))[: -len(".olean")].replace("/", ".") for f in oleans
                          if str(f.relative_to(lib)).startswith("CuriesVerif")})
    with open(LEAN / ".leancheck.lock", "w") as lock:
        fcntl.flock(lock, fcntl.LOCK_EX)
        if stamp.exists():
            try:
                st = json.loads(stamp.read_text())
                if st.get("digest") == digest and set(modules) <= set(st.get("modules", [])):
                    return float(st["seconds"])
            except Exception:  # noqa: BLE001
                pass
        t0 = time.time()
        pr = subprocess.run(["lake", "env", "leanchecker", *all_modules], cwd=LEAN, capture_output=True, text=True)
        if pr.returncode != 0:
            raise Broken("leanchecker failed:\n" + (pr.stdout + pr.stderr)[-4000:])
        secs = time.time() - t0
        stamp.write_text(json.dumps({"digest": digest, "modules": all_modules, "seconds": round(secs, 1)}))
        return secs


# --------------------------------------------------------------------------------------------
# 2./3. correspondence and spec verdict (worker side)

_PROP = None


def _load_prop(prop_id: str):
    import importlib

    return importlib.import_module(f"harness.props.{prop_id.lower()}").PROPERTY


def _raised(impl) -> bool:
    return isinstance(impl, dict) and "_raised" in impl


def _readable(prop, case, impl):
    if _raised(impl):
        return [impl["_raised"], "case: " + json.dumps(case, ensure_ascii=False, default=str)[:2000]]
    return prop.readable(case, impl)


def evaluate_cases(prop, cases: list[dict]) -> list[dict]:
    """Run implementation and model on the cases; attach `impl`, `model`, `diffs`, `fails`."""
    out = []
    live = []
    for c in cases:
        try:
            live.append((c, prop.run_impl(c)))
        except common.InvalidCase:
            raise
        except Exception as e:  # noqa: BLE001
            # an exception escaping from the *library* where the harness expects none (every expected exception is
            # caught and recorded where it can occur) is an observation: the property's operations do not raise there.
            # An exception raised by the harness' own code is a broken check, not a violation.
            tb = traceback.extract_tb(e.__traceback__)
            if not any("/curies/" in (fr.filename or "") and "/harness/" not in (fr.filename or "") for fr in tb):
                raise
            where = next(fr for fr in reversed(tb) if "/curies/" in (fr.filename or ""))
            msg = (f"the library raised {type(e).__name__}: {str(e)[:200]} (in {Path(where.filename).name}:{where.lineno} "
                   f"{where.name}) where the property allows no exception")
            out.append({"case": c, "impl": {"_raised": msg}, "model": None,
                        "diffs": [{"step": 0, "op": "unexpected exception", "implementation": msg, "model": "no exception"}],
                        "fails": [msg]})
    if not live:
        return out
    reqs = [prop.request(c, i) for c, i in live]
    resps = common.run_driver(reqs)
    for (c, i), r in zip(live, resps):
        diffs = prop.compare(c, i, r)
        fails = list(r.get("fail", [])) + list(prop.extra_fails(c, i, r))
        out.append({"case": c, "impl": i, "model": r.get("model"), "diffs": diffs, "fails": fails})
    return out


def _worker(args):
    prop_id, tier, seed, chunk, n, stream = args
    try:
        prop = _load_prop(prop_id)
        rng = random.Random(f"{prop_id}/{seed}/{stream}/{chunk}")
        cases = [prop.gen(rng, tier) for _ in range(n)]
        res = evaluate_cases(prop, cases)
        stats = Counter()
        sizes = Counter()
        nontrivial = set()
        bad = []
        samples = []
        for r in res:
            c = r["case"]
            if _raised(r["impl"]):
                stats["library-raised-unexpectedly"] += 1
                bad.append(r)
                continue
            for t in prop.tags(c, r["impl"]):
                stats[t] += 1
            sizes[prop.size(c)] += 1
            if prop.nontrivial(c, r["impl"]):
                nontrivial.add(prop.fingerprint(c))
            if r["diffs"] or r["fails"]:
                bad.append(r)
        if res:
            first = next((r for r in res if not _raised(r["impl"])), None)
            if first is not None:
                samples.append(prop.sample(first["case"], first["impl"]))
        return {"n": len(res), "stats": stats, "sizes": sizes, "nontrivial": nontrivial, "bad": bad[:20],
                "nbad": len(bad), "samples": samples, "evals": sum(prop.evaluations(r["case"]) for r in res)}
    except Exception:  # noqa: BLE001
        return {"crash": traceback.format_exc()}


def run_stream(prop_id: str, tier: str, seed: int, total: int, stream: str, procs: int = 16,
               chunk_size: int | None = None):
    if total <= 0:
        return {"n": 0, "stats": Counter(), "sizes": Counter(), "nontrivial": set(), "bad": [], "nbad": 0,
                "samples": [], "evals": 0}
    chunk_size = chunk_size or max(20, min(400, total // (procs * 2) or 1))
    jobs = []
    k = 0
    left = total
    while left > 0:
        n = min(chunk_size, left)
        jobs.append((prop_id, tier, seed, k, n, stream))
        left -= n
        k += 1
    agg = {"n": 0, "stats": Counter(), "sizes": Counter(), "nontrivial": set(), "bad": [], "nbad": 0,
           "samples": [], "evals": 0}
    ctx = mp.get_context("fork")
    with ctx.Pool(min(procs, len(jobs))) as pool:
        for r in pool.imap_unordered(_worker, jobs):
            if "crash" in r:
                raise Broken("harness worker crashed:\n" + r["crash"])
            agg["n"] += r["n"]
            agg["evals"] += r["evals"]
            agg["stats"] += r["stats"]
            agg["sizes"] += r["sizes"]
            agg["nontrivial"] |= r["nontrivial"]
            agg["nbad"] += r["nbad"]
            agg["bad"].extend(r["bad"])
            if len(agg["samples"]) < 3:
                agg["samples"].extend(r["samples"])
    return agg


# --------------------------------------------------------------------------------------------
# shrinking


def shrink(prop, case: dict, still_fails, budget_s: float = 8.0) -> dict:
    """Greedy delta debugging with the property's own reducers; `still_fails(case) -> bool`."""
    t0 = time.time()
    best = case
    improved = True
    while improved and time.time() - t0 < budget_s:
        improved = False
        for cand in prop.reductions(best):
            if time.time() - t0 > budget_s:
                break
            try:
                if still_fails(cand):
                    best = cand
                    improved = True
                    break
            except Exception:  # noqa: BLE001
                continue
    return best


# --------------------------------------------------------------------------------------------
# known findings


def load_known(prop_id: str) -> list[dict]:
    p = VERIF / "known_findings.json"
    if not p.exists():
        return []
    return [e for e in json.loads(p.read_text())["findings"] if e["property"] == prop_id]


# --------------------------------------------------------------------------------------------
# main decision procedure


def write_replay(prop_id: str, name: str, payload: dict) -> Path:
    REPLAYS.mkdir(parents=True, exist_ok=True)
    p = REPLAYS / f"{prop_id}-{name}.json"
    p.write_text(json.dumps(payload, indent=1, ensure_ascii=True))
    return p


def decide(prop_id: str, tier: str, seed: int) -> int:
    t_start = time.time()
    prop = _load_prop(prop_id)
    out_lines: list[str] = []
    violations = 0

    # ---- 1. proof obligations
    build_s = lake_build()
    grep_forbidden()
    thms = audit(prop_id)
    from .progprop import ProgramProperty
    if isinstance(prop, ProgramProperty):
        # the Lean spec checker that judges the implementation's outputs for this property is itself covered by soundness
        # theorems (`checker_*`, Properties/Checker.lean: the checker never objects to the model); audited alongside
        thms += audit("checker")
    required = set(prop.theorems)
    have = {t["name"] for t in thms}
    missing = sorted(required - have)
    if missing:
        raise Broken(f"theorems listed for {prop_id} are missing from the library: {missing}")
    checker_s = None
    if tier == "thorough":
        checker_s = leanchecker(prop.lean_modules)

    # ---- 2. known findings and corpus
    known = load_known(prop_id)
    known_matchers = []
    known_report = []
    for e in known:
        case = e.get("witness")
        if e["status"] == "known":
            known_matchers.append(e)
            reproduces = None
            if case is not None:
                r = evaluate_cases(prop, [case])[0]
                reproduces = bool(r["fails"])
            if reproduces is False:
                known_report.append({"id": e["id"], "status": "no longer reproduces"})
            else:
                print(f"KNOWN-FINDING: property={prop_id} {e['id']}: {e['what']}")
                known_report.append({"id": e["id"], "status": "reproduces" if reproduces else "listed"})
    corpus_cases = []
    cdir = CORPUS / prop_id
    if cdir.is_dir():
        for f in sorted(cdir.glob("*.json")):
            c = json.loads(f.read_text())
            c["_corpus"] = f.name
            corpus_cases.append(c)
    for e in known:
        if e["status"] == "fixed" and e.get("witness") is not None:
            c = dict(e["witness"])
            c["_corpus"] = f"fixed:{e['id']}"
            corpus_cases.append(c)

    def matches_known(case, fails) -> str | None:
        for e in known_matchers:
            if prop.matches_known(e, case, fails):
                return e["id"]
        return None

    bad: list[dict] = []
    n_corpus = 0
    if corpus_cases:
        for r in evaluate_cases(prop, corpus_cases):
            n_corpus += 1
            if r["diffs"] or r["fails"]:
                bad.append(r)

    # ---- generated cases
    budget = prop.budget(tier)
    agg = run_stream(prop_id, tier, seed, budget, "main")
    bad.extend(agg["bad"])
    exhaustive = None
    if hasattr(prop, "exhaustive"):
        exhaustive = prop.exhaustive(tier)
        if exhaustive is not None:
            # failing cases of an exhaustive small scope are minimal by construction: report them first
            bad = list(exhaustive.get("bad", [])) + bad

    # ---- 4. outcome
    spec_failures = [r for r in bad if r["fails"]]
    corr_breaks = [r for r in bad if r["diffs"] and not r["fails"]]
    known_hits = Counter()
    reported = set()

    def report_failure(r, note=""):
        nonlocal violations
        case = r["case"]

        def still(c):
            rr = evaluate_cases(prop, [c])[0]
            return bool(rr["fails"])

        small = shrink(prop, case, still)
        rr = evaluate_cases(prop, [small])[0]
        kid = matches_known(small, rr["fails"])
        if kid is not None:
            known_hits[kid] += 1
            return
        fp = prop.fingerprint(small)
        if fp in reported:
            return
        reported.add(fp)
        path = write_replay(prop_id, f"{tier}-{seed}-{len(reported)}", {
            "property": prop_id, "kind": "failing-input", "seed": seed, "tier": tier,
            "case": small, "readable": _readable(prop, small, rr["impl"]),
            "implementation": rr["impl"], "model": rr["model"], "spec_failures": rr["fails"],
            "correspondence_diffs": rr["diffs"], "note": note,
            "replay": f"./check {prop_id} --replay <this file>"})
        out_lines.append(f"VIOLATION property={prop_id} replay={path.relative_to(VERIF)}")
        violations += 1

    unexplained = []
    for r in spec_failures:
        kid = matches_known(r["case"], r["fails"])
        if kid is not None:
            known_hits[kid] += 1
        else:
            unexplained.append(r)
    for r in unexplained[:3]:
        report_failure(r)

    widened = 0
    if corr_breaks and not violations:
        # the model no longer describes the code: search for an input on which the property fails
        found = None
        neigh = []
        for r in corr_breaks[:5]:
            neigh.extend(prop.neighbours(r["case"]))
        if neigh:
            for rr in evaluate_cases(prop, neigh):
                widened += 1
                if rr["fails"]:
                    found = rr
                    break
        rounds = 0
        while found is None and rounds < 10:
            a2 = run_stream(prop_id, tier, seed, budget, f"widen{rounds}")
            widened += a2["n"]
            fs = [r for r in a2["bad"] if r["fails"]]
            if fs:
                found = fs[0]
            rounds += 1
        if found is not None:
            report_failure(found, note="found while searching after a correspondence break")
        if not violations:
            r = corr_breaks[0]

            def still(c):
                rr = evaluate_cases(prop, [c])[0]
                return bool(rr["diffs"])

            small = shrink(prop, r["case"], still)
            rr = evaluate_cases(prop, [small])[0]
            path = write_replay(prop_id, f"{tier}-{seed}-correspondence", {
                "property": prop_id, "kind": "broken-correspondence", "seed": seed, "tier": tier,
                "broken": f"correspondence {prop_id}/{rr['diffs'][0]['op'] if rr['diffs'] else '?'}",
                "theorems_no_longer_tied_to_the_code": sorted(required),
                "disagreement": small, "readable": _readable(prop, small, rr["impl"]),
                "diffs": rr["diffs"], "implementation": rr["impl"], "model": rr["model"],
                "searched_cases_without_spec_failure": widened + agg["n"],
                "replay": f"./check {prop_id} --replay <this file>"})
            out_lines.append(
                f"VIOLATION property={prop_id} replay={path.relative_to(VERIF)} no-failing-input-found")
            violations += 1

    # ---- 5. evidence
    wall = time.time() - t_start
    rule = prop.rule
    coverage = {
        "obligations": len(thms),
        "discharged": len(thms),
        "checker_cmd": "cd lean && lake build && lake env lean --run Audit.lean " + prop_id
                       + (" && lake env leanchecker <every module of CuriesVerif>" if tier == "thorough" else ""),
        "trusted_base": prop.trusted_base,
        "theorems": [{"name": t["name"], "axioms": t["axioms"]} for t in thms],
        "evaluations": agg["evals"] + n_corpus,
        "cases": agg["n"] + n_corpus,
        "distinct_nontrivial": len(agg["nontrivial"]),
        "rule": rule,
        "samples": agg["samples"][:3],
        "branch_histogram": dict(agg["stats"].most_common(60)),
        "size_histogram": {str(k): v for k, v in sorted(agg["sizes"].items())[:40]},
        "corpus_cases": n_corpus,
        "known_findings": known_report,
        "known_finding_hits": dict(known_hits),
        "correspondence_disagreements": len([r for r in bad if r["diffs"]]),
        "spec_failures_on_implementation": len(spec_failures),
        "widened_search_cases": widened,
        "lake_build_s": round(build_s, 2),
        "leanchecker_s": None if checker_s is None else round(checker_s, 1),
        "exhaustive": bool(exhaustive and exhaustive.get("complete")),
    }
    if exhaustive:
        coverage["exhaustive_scope"] = exhaustive.get("scope")
        coverage["exhaustive_cases"] = exhaustive.get("n")
        coverage["evaluations"] += exhaustive.get("n", 0)
    ev = {
        "property_id": prop_id, "tier": tier, "seed": seed, "level": "proof", "coverage": coverage,
        "assumptions": prop.assumptions, "wall_s": round(wall, 2), "violations": violations,
    }
    EVIDENCE.mkdir(exist_ok=True)
    (EVIDENCE / f"{prop_id}.json").write_text(json.dumps(ev, indent=1))
    for line in out_lines:
        print(line)
    print(f"{prop_id} {tier} seed={seed}: {len(thms)} theorems audited, {agg['n'] + n_corpus} cases "
          f"({len(agg['nontrivial'])} distinct non-trivial), {len([r for r in bad if r['diffs']])} disagreements, "
          f"{len(spec_failures)} spec failures, {violations} violations, {wall:.1f}s")
    return 1 if violations else 0


def replay(prop_id: str, path: str) -> int:
    prop = _load_prop(prop_id)
    lake_build()
    payload = json.loads(Path(path).read_text())
    case = payload.get("case") or payload.get("disagreement") or payload
    r = evaluate_cases(prop, [case])[0]
    print("\n".join(_readable(prop, case, r["impl"])))
    print("implementation:", [common.show_val(v) for v in r["impl"]] if isinstance(r["impl"], list) else r["impl"])
    print("model:         ", [common.show_val(v) for v in r["model"]] if isinstance(r["model"], list) else r["model"])
    print("correspondence diffs:", json.dumps(r["diffs"], indent=1))
    print("spec failures on implementation:", r["fails"])
    if r["fails"]:
        print(f"VIOLATION property={prop_id} replay={path}")
        return 1
    return 0
