"""C07 — derived operations agree with the two primitive parsers."""
from __future__ import annotations

from .. import gen
from ..common import q, uncps, rec
from ..progprop import ProgramProperty, results, is_exc, init_step, Getter, have, MISSING


class C07(ProgramProperty):
    id = "C07"
    theorems = ["C07_isUri", "C07_isCurie", "C07_parse", "C07_parse_strict", "C07_cos", "C07_eos", "C07_format", "C07_strict_aliases"]
    lean_modules = ["CuriesVerif.Properties.C07"]
    rule = ("one case = one strict converter built to be ambiguous (with probability 1/2 some URI prefix is itself a "
            "well-formed CURIE of the converter such as 'GO:' or some CURIE prefix is 'http'/'urn'), queried on 10 "
            "strings (URIs around registered prefixes, CURIEs, strings that are both, delimiter-free strings, '', "
            "the delimiter alone) with is_uri, compress, parse_uri, is_curie, expand, parse, "
            "compress_or_standardize, expand_or_standardize, compress_strict, expand_strict, format_curie. "
            "Non-trivial = some probe is recognised both as URI and as CURIE. Converters are built directly or through histories with warm-up queries, merges and a rejected call. compress / expand are also called with strict=True and passthrough=True together (must equal the *_strict functions); parse_uri is called the deprecated way (return_none at its default) in a quarter of its calls.")

    def exhaustive(self, tier):
        from .. import smallscope

        return smallscope.run(self.id, tier)

    def gen(self, rng, tier):
        delim = rng.choice([":", ":", ":", "/", "::", "_"])
        recs = gen.records(rng, delim, patterns=False)
        if rng.random() < 0.5:
            # plant ambiguity: a URI prefix that is a CURIE of the converter, or a CURIE prefix that starts URIs
            ps = gen.all_prefixes(recs)
            us = set(gen.all_uris(recs))
            p = rng.choice(ps)
            cand = p + delim
            extra = rec(rng.choice(["http", "urn", "zz"]) , cand + rng.choice(["", "x"]))
            if uncps(extra["u"]) not in us and uncps(extra["p"]) not in ps and delim not in uncps(extra["p"]):
                recs = recs + [extra]
        probes = gen.uri_probes(rng, recs, 5) + gen.curie_probes(rng, recs, delim, 5)
        steps = []
        for s in probes:
            steps += [q(0, "is_uri", s), q(0, "compress", s), q(0, "parse_uri", s), q(0, "is_curie", s),
                      q(0, "expand", s), q(0, "parse_curie", s), q(0, "parse", s, s=False), q(0, "parse", s, s=True),
                      q(0, "compress_or_standardize", s), q(0, "expand_or_standardize", s),
                      q(0, "compress_strict", s), q(0, "compress", s, s=True),
                      q(0, "expand_strict", s), q(0, "expand", s, s=True),
                      # "strict" means strict whatever else is passed: the strict calls with passthrough=True as well
                      q(0, "compress", s, s=True, p=True), q(0, "expand", s, s=True, p=True)]
        steps.append(q(0, "format_curie", "a", "b"))
        steps, how = gen.build_steps(rng, recs, delim, steps)
        _build_tag = "build=" + how
        return {"steps": steps, "probes": probes, "delim": delim, "tags": [f"delim={delim!r}", _build_tag]}

    def phase2(self, case, impl):
        res = results(case, impl)
        extra = []
        for s in case["probes"]:
            pr = res.get((0, "parse", (s,), False, False))
            if isinstance(pr, tuple) and not is_exc(pr):
                extra += [q(0, "format_curie", pr[0], pr[1]), q(0, "expand_pair", pr[0], pr[1])]
        return extra

    def nontrivial(self, case, impl):
        res = results(case, impl)
        return any(res.get((0, "is_uri", (s,), False, False)) is True and res.get((0, "is_curie", (s,), False, False)) is True
                   for s in case["probes"])

    def tags(self, case, impl):
        res = results(case, impl)
        out = list(case.get("tags", []))
        for s in case["probes"]:
            u = res.get((0, "is_uri", (s,), False, False))
            c = res.get((0, "is_curie", (s,), False, False))
            out.append(f"is_uri={u},is_curie={c}")
        return out

    def laws(self, case, impl):
        g = Getter(case, impl)
        d = case["delim"]
        fails = []
        for x in case["probes"]:
            iu, co, pu = g("is_uri", x), g("compress", x), g("parse_uri", x)
            ic, ex, pc = g("is_curie", x), g("expand", x), g("parse_curie", x)
            pa, pas = g("parse", x), g("parse", x, s=True)
            if have(iu, co, pu) and (not (iu == (co is not None) == (pu is not None)) or is_exc(co) or is_exc(pu)):
                fails.append(f"is_uri({x!r})={iu}, compress={co!r}, parse_uri={pu!r} disagree")
            if have(ic, ex) and (is_exc(ex) or ic != (ex is not None)):
                fails.append(f"is_curie({x!r})={ic} but expand={ex!r}")
            if ic is True and d not in x:
                fails.append(f"is_curie({x!r}) although the delimiter {d!r} does not occur")
            if have(pu, pc, ic, pa):
                want = pu if pu is not None else (pc if ic else None)
                if pa != want:
                    fails.append(f"parse({x!r})={pa!r}, expected URI parse first, then CURIE parse: {want!r}")
                if have(pas):
                    if want is not None and pas != want:
                        fails.append(f"parse({x!r}, strict=True)={pas!r}, expected {want!r}")
                    if want is None and not is_exc(pas):
                        fails.append(f"parse({x!r}, strict=True)={pas!r} although nothing is recognised")
            cos, eos = g("compress_or_standardize", x), g("expand_or_standardize", x)
            if isinstance(pa, tuple) and not is_exc(pa):
                fc, ep = g("format_curie", pa[0], pa[1]), g("expand_pair", pa[0], pa[1])
                if have(fc) and fc != pa[0] + d + pa[1]:
                    fails.append(f"format_curie{pa!r}={fc!r} does not join with the delimiter {d!r}")
                if have(cos, fc) and cos != fc:
                    fails.append(f"compress_or_standardize({x!r})={cos!r} is not the CURIE of parse: {fc!r}")
                if have(eos, ep) and eos != ep:
                    fails.append(f"expand_or_standardize({x!r})={eos!r} is not the canonical URI of parse: {ep!r}")
            elif pa is None:
                if (have(cos) and cos is not None) or (have(eos) and eos is not None):
                    fails.append(f"parse({x!r}) is None but compress_or_standardize={cos!r}, expand_or_standardize={eos!r}")
            a, b = g("compress_strict", x), g("compress", x, s=True)
            if have(a, b) and a != b:
                fails.append(f"compress_strict({x!r}) differs from compress(strict=True)")
            a, b = g("expand_strict", x), g("expand", x, s=True)
            if have(a, b) and a != b:
                fails.append(f"expand_strict({x!r}) differs from expand(strict=True)")
            a, b = g("compress_strict", x), g("compress", x, s=True, p=True)
            if have(a, b) and a != b:
                fails.append(f"compress_strict({x!r}) differs from compress(strict=True, passthrough=True)")
            a, b = g("expand_strict", x), g("expand", x, s=True, p=True)
            if have(a, b) and a != b:
                fails.append(f"expand_strict({x!r}) differs from expand(strict=True, passthrough=True)")
        return fails


PROPERTY = C07()
