"""C12 — URI-prefix remapping and rewiring re-point records without losing information."""
from __future__ import annotations

from .. import gen
from ..common import q, uncps, cps, canon, rec
from ..progprop import ProgramProperty, Getter, have, is_exc, init_step


class C12(ProgramProperty):
    id = "C12"
    theorems = ["C12_transitive_iff", "C12_upgrade", "C12_remap_records", "C12_rewire_records", "C12_rewire_unknown", "C12_rewire_idem", "C12_rewire_ok", "C12_remap_ok"]
    lean_modules = ["CuriesVerif.Properties.C12"]
    rule = ("one case = one strict converter (default delimiter), one injective URI-prefix mapping and one injective "
            "rewiring of 1-3 pairs: keys are canonical URI prefixes / URI-prefix synonyms / unknown strings (resp. "
            "canonical CURIE prefixes / synonyms / unknown), values are unused strings, synonyms of the same record, "
            "URI prefixes owned by other records, or a key (transitive); two keys may hit one record. remap_uri_prefixes "
            "is applied once, rewire twice (idempotence); records are read and compress / expand compared before and "
            "after. Non-trivial = some value is already known to the converter (clash or synonym upgrade). In 35 % of the cases input and results live on (gen.live_tail): each is extended by a merge, all are observed again, and both derivations are repeated on the curated input. An injective mapping must never be rejected (except TransitiveError). 8 % of the values are another capitalisation of a key or of a known URI prefix (a different string: neither transitive nor a clash).")

    def budget(self, tier):
        return 4000 if tier == "quick" else 150000

    def _mapping(self, rng, keys_pool, us, allow_transitive):
        n = rng.choice([1, 1, 2, 3])
        keys_pool = list(dict.fromkeys(keys_pool))    # a mapping is a dict: keys are distinct
        keys = rng.sample(keys_pool, min(n, len(keys_pool)))
        vals = []
        for k in keys:
            for _ in range(20):
                r = rng.random()
                if r < 0.08:
                    # a key (or a URI prefix of the converter) in another capitalisation: a different string, so neither
                    # transitive nor a clash
                    b = rng.choice(keys + (us or []))
                    v = rng.choice([b.upper(), b.lower(), b.swapcase(), b.replace("ss", "ß"), b.replace("http", "HTTP")])
                    if v == b or v in keys_pool:
                        continue
                elif r < 0.45:
                    v = "http://new.example/" + gen.word(rng, 1, 2, syms=["a", "b", "1", "/"])
                elif r < 0.9 and us:
                    v = rng.choice(us)
                else:
                    v = rng.choice(keys_pool) if allow_transitive else rng.choice(us or ["q"])
                if v not in vals:  # injective
                    vals.append(v)
                    break
            else:
                vals.append("uniq" + str(len(vals)))
        return [[cps(k), cps(v)] for k, v in zip(keys, vals)]

    def build_steps(self, recs, rm, rw, uris):
        ps = gen.all_prefixes(recs)
        steps = [init_step(0, recs), q(0, "records"), q(0, "delimiter")]
        for u in uris:
            steps.append(q(0, "parse_uri", u))
        for p in ps[:5]:
            steps.append(q(0, "expand_pair_all", p, "1"))
        steps.append({"op": "remap_uri", "dst": 1, "src": 0, "mapping": rm})
        steps += [q(1, "records"), q(1, "delimiter")]
        steps.append({"op": "rewire", "dst": 2, "src": 0, "mapping": rw})
        steps += [q(2, "records"), q(2, "delimiter")]
        steps.append({"op": "rewire", "dst": 3, "src": 2, "mapping": rw})
        steps += [q(3, "records"), q(3, "delimiter")]
        for c in (1, 2):
            for u in uris:
                steps.append(q(c, "parse_uri", u))
            for p in ps[:5]:
                steps.append(q(c, "expand_pair_all", p, "1"))
        return steps

    def exhaustive(self, tier):
        """Every injective URI-prefix remapping and rewiring of 1-2 (thorough: 1-3) pairs over a small universe, on a fixed
        three-record converter: canonical URI prefixes, synonyms, URI prefixes of other records and unknown strings as keys
        and as values (transitive ones included)."""
        import itertools
        import multiprocessing as mp

        recs = [rec("a", "http://a/", ["A"], ["http://a2/"]), rec("b", "http://b/"), rec("c", "http://c/", ["C"], ["http://c2/"])]
        unames = ["http://a/", "http://a2/", "http://b/", "http://c/", "http://c2/", "http://x/", "http://y/"]
        pnames = ["a", "A", "b", "c", "C", "x"]
        uris = ["http://a/1", "http://a2/1", "http://b/1", "http://c2/1", "http://x/1"]
        ps = gen.all_prefixes(recs)
        maxn = 2 if tier == "quick" else 3
        cases = []
        for n in range(1, maxn + 1):
            for vals in itertools.permutations(unames, n):               # injective: values pairwise different
                for ukeys, pkeys in zip(itertools.permutations(unames, n), itertools.cycle(itertools.permutations(pnames, n))):
                    rm = [[cps(k), cps(v)] for k, v in zip(ukeys, vals)]
                    rw = [[cps(k), cps(v)] for k, v in zip(pkeys, vals)]
                    cases.append({"steps": self.build_steps(recs, rm, rw, uris), "uris": uris, "prefixes": ps[:5],
                                  "tags": ["small-scope"], "interesting": True})
        chunks = [cases[i:i + 100] for i in range(0, len(cases), 100)]
        bad = []
        with mp.get_context("fork").Pool(16) as pool:
            for b in pool.imap_unordered(_scope_worker, chunks):
                bad.extend(b)
        return {"n": len(cases), "bad": bad[:20], "complete": True,
                "scope": f"every injective URI-prefix remapping of 1..{maxn} pairs over {len(unames)} URI-prefix strings (each paired "
                         f"with a rewiring over {pnames} with the same values) on the converter a(A; a2) b c(C; c2): {len(cases)} cases"}

    def gen(self, rng, tier):
        recs = gen.records(rng, ":", forbid_delim=False)
        us = gen.all_uris(recs)
        ps = gen.all_prefixes(recs)
        rm = self._mapping(rng, us + ["http://unknown/", "zz"], us, allow_transitive=True)
        rw = self._mapping(rng, ps + ["unknownprefix", "Q"], us, allow_transitive=False)
        uris = gen.uri_probes(rng, recs, 4) + [uncps(v) + "7" for _, v in rm + rw]
        steps = self.build_steps(recs, rm, rw, uris)
        vals = {uncps(v) for _, v in rm + rw}
        tags = []
        if rng.random() < 0.35:
            steps += gen.live_tail(rng, recs, 0, [1, 2], redo=[{"op": "remap_uri", "dst": 5, "src": 0, "mapping": rm},
                                                               {"op": "rewire", "dst": 6, "src": 0, "mapping": rw}])
            tags.append("history:live-objects")
        if vals & set(us):
            tags.append("value-already-known")
        if {uncps(k) for k, _ in rm} & {uncps(v) for _, v in rm}:
            tags.append("transitive")
        return {"steps": steps, "uris": uris, "prefixes": ps[:5], "tags": tags or ["plain"],
                "interesting": bool(vals & set(us))}

    def nontrivial(self, case, impl):
        return case["interesting"]

    def evaluations(self, case):
        return 3

    def laws(self, case, impl):
        fails = []
        # injective mappings are never rejected -- except remap_uri_prefixes with a string that is both key and value
        for st, v in zip(case["steps"], impl):
            if st["op"] in ("remap_uri", "rewire") and v is not None and not (isinstance(v, dict) and "bad" in v):
                keys = {tuple(k) for k, _ in st["mapping"]}
                vals = {tuple(x) for _, x in st["mapping"]}
                transitive = st["op"] == "remap_uri" and bool(keys & vals)
                if not (transitive and isinstance(v, dict) and v.get("e") == "transitive"):
                    fails.append(f"{st['op']} with the injective mapping "
                                 f"{ {uncps(k): uncps(x) for k, x in st['mapping']} } raised {v!r}")
        g = {c: Getter(case, impl, c) for c in (0, 1, 2, 3)}
        r2, r3 = g[2]("records"), g[3]("records")
        if have(r2, r3) and not is_exc(r2) and not is_exc(r3):
            key = lambda rs: sorted((r["p"], r["u"], tuple(sorted(r["ps"])), tuple(sorted(r["us"])), r["pat"] or None) for r in rs)
            if key(r2) != key(r3):
                fails.append("applying the same rewiring twice differs from applying it once")
        for c in (1, 2):
            if not have(g[c]("records")):
                continue
            for u in case["uris"]:
                a, b = g[0]("parse_uri", u), g[c]("parse_uri", u)
                if have(a, b) and a is not None and b is None:
                    fails.append(f"parse_uri({u!r}) worked before and returns None after {'remap_uri_prefixes' if c == 1 else 'rewire'}")
            for p in case["prefixes"]:
                a, b = g[0]("expand_pair_all", p, "1"), g[c]("expand_pair_all", p, "1")
                if have(a, b) and isinstance(a, list) and isinstance(b, list) and not set(a) <= set(b):
                    fails.append(f"expand_pair_all({p!r}) lost {sorted(set(a) - set(b))} after "
                                 f"{'remap_uri_prefixes' if c == 1 else 'rewire'}")
        return fails


PROPERTY = C12()


def _scope_worker(cases):
    from .. import engine

    res = engine.evaluate_cases(PROPERTY, cases)
    return [r for r in res if r["diffs"] or r["fails"]][:5]
