"""C09 — chain is a priority union of converters and get_subconverter a restriction."""
from __future__ import annotations

import copy

from .. import gen
from ..common import q, uncps, cps, rec
from ..progprop import ProgramProperty, Getter, have, is_exc, init_step, pyval
from .c05 import variant


class C09(ProgramProperty):
    id = "C09"
    theorems = ["C09_empty", "C09_wf", "C09_union", "C09_error", "C09_priority", "C09_singleton", "C09_sub_records",
                "C09_sub_expand", "C09_grouping", "C09_ci_separated", "C09_chain_refines", "C09_sub_refines", "C09_union_advertised"]
    lean_modules = ["CuriesVerif.Properties.C09", "CuriesVerif.Properties.Advertised"]
    rule = ("one case = 1-4 strict converters (default delimiter) where later converters are derived from earlier ones "
            "with planted overlaps (same CURIE prefix with another URI prefix, same URI prefix under another name, "
            "overlap only through synonyms, only up to case incl. ß/ss, a record bridging two earlier records) plus "
            "fresh records; chained case-sensitively and case-insensitively; and one parent converter restricted by "
            "get_subconverter to a subset given by canonical prefixes, synonyms, unknown strings or nothing. Records "
            "and a union probe set are read from inputs and results. Non-trivial = at least one merge happened "
            "(the chain has fewer records than the inputs together) or the subset was given by a synonym. In half of the cases the sub-converter and the one-element chain live on and acquire names by merge (names of parent records outside the subset, or new ones); the parent, a second restriction, a second chain and a fresh converter from the parent's records are then observed again.")

    def budget(self, tier):
        return 1500 if tier == "quick" else 40000

    def assemble(self, convs, probes_p, probes_u, subset, sub_uri_probes):
        """The program for one list of input converters: observe the inputs, chain them in both case modes, chain the
        first one alone, chain nothing, restrict the first one to `subset`."""
        steps = []
        for i, c in enumerate(convs):
            if all(r["pat"] is None for r in c) and (len(c) + len(probes_p) + i) % 3 == 0:
                # an input that *acquired* its synonyms: loaded from a plain prefix map, extended by merges
                steps.append({"op": "load_pm", "dst": i, "data": [[r["p"], r["u"]] for r in c]})
                for r in c:
                    for x in r["ps"]:
                        steps.append({"op": "add_prefix", "c": i, "p": x, "u": r["u"], "merge": True, "_build": True})
                    for x in r["us"]:
                        steps.append({"op": "add_prefix", "c": i, "p": r["p"], "u": x, "merge": True, "_build": True})
            else:
                steps.append(init_step(i, c))
            steps += [q(i, "records"), q(i, "delimiter"), q(i, "get_prefixes", s=True),
                      q(i, "get_uri_prefixes", s=True)]
        srcs = list(range(len(convs)))
        for i in srcs:
            for p in probes_p:
                steps += [q(i, "expand_pair", p, "1"), q(i, "standardize_prefix", p)]
        for dst, cs in ((10, True), (11, False)):
            steps.append({"op": "chain", "dst": dst, "srcs": srcs, "cs": cs, "container": "tuple" if (len(convs) + dst) % 3 == 0 else "list"})
            steps += [q(dst, "records"), q(dst, "delimiter"), q(dst, "get_prefixes", s=True),
                      q(dst, "get_uri_prefixes", s=True)]
            for p in probes_p:
                steps += [q(dst, "expand_pair", p, "1"), q(dst, "standardize_prefix", p)]
            for u in probes_u:
                steps += [q(dst, "compress", u)]
        steps.append({"op": "chain", "dst": 12, "srcs": [0], "cs": True})
        steps += [q(12, "records"), q(12, "delimiter")]
        steps.append({"op": "chain", "dst": 13, "srcs": [], "cs": True})
        parent = convs[0]
        pp = gen.all_prefixes(parent)
        steps.append({"op": "sub", "dst": 20, "src": 0, "prefixes": [cps(x) for x in subset],
                      "container": ["list", "set", "tuple", "generator", "iter", "dict_keys"][(len(subset) + len(parent) + len(pp)) % 6]})
        steps += [q(20, "records"), q(20, "delimiter")]
        for p in pp[:6]:
            steps += [q(20, "expand_pair", p, "1"), q(0, "expand_pair", p, "1")]
        for u in sub_uri_probes:
            steps += [q(20, "compress", u), q(0, "compress", u), q(0, "parse_uri", u)]
        return steps

    def exhaustive(self, tier):
        """Every pair of one-record converters over names that differ only by case (and a third name), with at most one
        synonym per side, chained in both orders and both case modes; the first one restricted by each of its names."""
        import itertools
        import multiprocessing as mp

        P, U = ["a", "A", "b"], ["u", "U", "v"]
        shapes = []
        for p, u in itertools.product(P, U):
            opts_p = [[]] + ([[x] for x in P if x != p] if tier != "quick" else [[x] for x in P[:2] if x != p])
            opts_u = [[]] + ([[y] for y in U if y != u] if tier != "quick" else [])
            for ps in opts_p:
                for us in opts_u:
                    shapes.append(rec(p, u, ps, us))
        cases = []
        for r1, r2 in itertools.product(shapes, shapes):
            convs = [[r1], [r2]]
            names = gen.all_prefixes([r1])
            subset = [names[len(cases) % len(names)]]
            probes_p = sorted(set(gen.all_prefixes([r1, r2])))
            probes_u = sorted({u + "1" for u in gen.all_uris([r1, r2])})
            steps = self.assemble(convs, probes_p, probes_u, subset, probes_u[:3])
            cases.append({"steps": steps, "n": 2, "probes_p": probes_p, "subset": subset, "subkind": "canonical",
                          "tags": ["small-scope"]})
        chunks = [cases[i:i + 60] for i in range(0, len(cases), 60)]
        bad = []
        with mp.get_context("fork").Pool(16) as pool:
            for b in pool.imap_unordered(_scope_worker, chunks):
                bad.extend(b)
        return {"n": len(cases), "bad": bad[:20], "complete": True,
                "scope": f"every ordered pair of one-record converters with CURIE prefix in {P}, URI prefix in {U} and at most one "
                         f"synonym per side ({len(shapes)} shapes), chained case-sensitively and case-insensitively, the first one "
                         f"restricted by one of its names: {len(cases)} cases"}

    def gen(self, rng, tier):
        n = rng.choice([1, 2, 2, 3, 3, 4])
        convs = [gen.records(rng, ":", nrec=rng.choice([1, 2, 3]), forbid_delim=False)]
        kinds = []
        for k in range(1, n):
            base = []
            earlier = [r for c in convs for r in c]
            m = rng.choice([1, 2, 3])
            for j in range(m):
                new = rec(f"n{k}{j}" + gen.word(rng, 0, 1), f"http://n{k}{j}.example/" + gen.word(rng, 0, 1))
                r = rng.random()
                if r < 0.7 and earlier:
                    tgt = rng.choice(earlier)
                    side = rng.choice(["p", "u"])
                    syn = "ps" if side == "p" else "us"
                    pool = [tgt[side]] + tgt[syn]
                    val = uncps(rng.choice(pool))
                    exact = rng.random() < 0.7
                    if not exact:
                        val = variant(rng, val)
                    if rng.random() < 0.5:
                        new[side] = cps(val)
                    else:
                        new[syn] = [cps(val)]
                    kinds.append(f"overlap:{'curie' if side == 'p' else 'uri'}:{'exact' if exact else 'case'}")
                    if rng.random() < 0.15 and len(earlier) > 1:
                        other = rng.choice(earlier)
                        new["us"] = new["us"] + [other["u"]]
                        kinds.append("bridge")
                if rng.random() < 0.2 and len(earlier) > 1:
                    # a record made *entirely* of known material, spread over two earlier records
                    x, y = rng.sample(earlier, 2)
                    how = rng.choice(["pfx-x-uri-y", "syn-y", "usyn-y"])
                    if how == "pfx-x-uri-y":
                        new = rec(uncps(x["p"]), uncps(y["u"]))
                    elif how == "syn-y":
                        new = rec(uncps(x["p"]), uncps(x["u"]), [uncps(y["p"])])
                    else:
                        new = rec(uncps(x["p"]), uncps(x["u"]), [], [uncps(y["u"])])
                    kinds.append("bridge-known-material:" + how)
                base.append(new)
            # keep each input strict
            seen_p, seen_u, ok = set(), set(), []
            for r_ in base:
                ps = [tuple(r_["p"])] + [tuple(x) for x in r_["ps"]]
                us = [tuple(r_["u"])] + [tuple(x) for x in r_["us"]]
                if len(set(ps)) < len(ps) or len(set(us)) < len(us) or seen_p & set(ps) or seen_u & set(us):
                    continue
                seen_p |= set(ps)
                seen_u |= set(us)
                ok.append(r_)
            convs.append(ok or [rec(f"f{k}", f"http://f{k}.example/")])
        allp = sorted({p for c in convs for p in gen.all_prefixes(c)})
        allu = sorted({u for c in convs for u in gen.all_uris(c)})
        probes_p = rng.sample(allp, min(6, len(allp)))
        probes_u = [u + "1" for u in rng.sample(allu, min(5, len(allu)))]
        parent = convs[0]
        pp = gen.all_prefixes(parent)
        kind = rng.choice(["canonical", "synonym", "unknown", "empty", "mixed"])
        if kind == "canonical":
            subset = [uncps(rng.choice(parent)["p"])]
        elif kind == "synonym":
            syns = [uncps(x) for r_ in parent for x in r_["ps"]]
            subset = [rng.choice(syns)] if syns else [uncps(parent[0]["p"])]
            kind = "synonym" if syns else "canonical"
        elif kind == "unknown":
            subset = ["nosuchprefix"]
        elif kind == "empty":
            subset = []
        else:
            subset = rng.sample(pp, min(2, len(pp))) + ["nosuchprefix"]
        steps = self.assemble(convs, probes_p, probes_u, subset, gen.uri_probes(rng, parent, 4))
        # history: the sub-converter (and the one-element chain) live on and acquire synonyms by merge -- names that
        # belong to parent records outside the subset, or new ones; the parent, a second restriction of it and a
        # second chain of it must be what they were
        inside = [r_ for r_ in parent if set(subset) & set(gen.all_prefixes([r_]))]
        outside = [r_ for r_ in parent if r_ not in inside]
        if inside and rng.random() < 0.5:
            t = rng.choice(inside)
            if outside and rng.random() < 0.7:
                o = rng.choice(outside)
                ext = {"ps": [o["p"]], "us": []} if rng.random() < 0.5 else {"ps": [], "us": [o["u"]]}
            else:
                ext = {"ps": [cps("acq" + gen.word(rng, 1, 1, syms=["a", "b", "1"]))], "us": [cps("http://acq.example/")]}
            steps.append({"op": "add_prefix", "c": 20, "p": t["p"], "u": t["u"], "merge": True, **ext})
            steps.append({"op": "add_prefix", "c": 12, "p": t["p"], "u": t["u"], "merge": True,
                          "ps": [cps("acq2")], "us": []})
            steps += [q(20, "records"), q(20, "delimiter"), q(0, "records"), q(0, "delimiter"), q(0, "get_prefixes", s=True),
                      q(0, "get_uri_prefixes", s=True),
                      {"op": "sub", "dst": 21, "src": 0, "prefixes": [cps(x) for x in subset]}, q(21, "records"), q(21, "delimiter"),
                      {"op": "chain", "dst": 22, "srcs": [0], "cs": True}, q(22, "records"), q(22, "delimiter"),
                      {"op": "fresh", "dst": 23, "src": 0, "extra": []}, q(23, "records")]
            for p in pp[:4]:
                steps += [q(21, "expand_pair", p, "1"), q(22, "expand_pair", p, "1")]
            kinds = kinds + ["history:merge-into-derived"]
        return {"steps": steps, "n": len(convs), "probes_p": probes_p, "subset": subset, "subkind": kind,
                "tags": kinds + [f"inputs={len(convs)}", f"subset={kind}"]}

    def nontrivial(self, case, impl):
        g = Getter(case, impl)
        tot = 0
        for i in range(case["n"]):
            r = g("records", c=i)
            tot += len(r) if have(r) and isinstance(r, list) else 0
        r10 = g("records", c=10)
        return (have(r10) and isinstance(r10, list) and len(r10) < tot) or case["subkind"] == "synonym"

    def evaluations(self, case):
        return 4

    def laws(self, case, impl):
        # the history tail (merges into derived converters) is judged separately: the laws below speak about the
        # converters as they were derived
        cut = next((i for i, st in enumerate(case["steps"]) if st["op"] == "add_prefix" and not st.get("_build")), len(case["steps"]))
        full_case, full_impl = case, impl
        case = dict(case, steps=case["steps"][:cut])
        impl = impl[:cut]
        g = Getter(case, impl)
        fails = []
        n = case["n"]
        if cut < len(full_case["steps"]):
            t = Getter(dict(full_case, steps=full_case["steps"][cut:]), full_impl[cut:])
            key = lambda rs: sorted((r["p"], r["u"], tuple(sorted(r["ps"])), tuple(sorted(r["us"])), r["pat"] or None) for r in rs)
            islist = lambda *xs: all(have(x) and isinstance(x, list) for x in xs)
            b0, a0 = g("records", c=0), t("records", c=0)
            if islist(b0, a0) and key(b0) != key(a0):
                fails.append("merging into a derived converter (get_subconverter / chain([c])) changed the records of its input")
            for what, before, after in (("get_subconverter", g("records", c=20), t("records", c=21)),
                                        ("chain([c])", g("records", c=12), t("records", c=22)),
                                        ("Converter(c.records)", b0, t("records", c=23))):
                if islist(before, after) and key(before) != key(after):
                    fails.append(f"{what} of the same input differs after a sibling derived from it was extended by merge")
            for gp, name in ((t("get_prefixes", s=True, c=0), "get_prefixes"), (t("get_uri_prefixes", s=True, c=0), "get_uri_prefixes")):
                bp = g(name, s=True, c=0)
                if have(gp, bp) and isinstance(gp, list) and isinstance(bp, list) and set(gp) != set(bp):
                    fails.append(f"{name}(include_synonyms=True) of the input changed after a derived converter was extended by merge")
        for st, v in zip(case["steps"], impl):
            if st["op"] == "chain" and v is not None and not (isinstance(v, dict) and v.get("e") == "valueError"):
                fails.append(f"chain raised {v!r}, expected ValueError")
            if st["op"] == "chain" and not st["srcs"] and v is None:
                fails.append("chain([]) did not raise")
        for dst, cs in ((10, True), (11, False)):
            recs = g("records", c=dst)
            if not have(recs) or not isinstance(recs, list):
                continue
            gp, gu = g("get_prefixes", s=True, c=dst), g("get_uri_prefixes", s=True, c=dst)
            ins_p = [g("get_prefixes", s=True, c=i) for i in range(n)]
            ins_u = [g("get_uri_prefixes", s=True, c=i) for i in range(n)]
            if have(gp, *ins_p) and set(gp) != set().union(*map(set, ins_p)):
                fails.append(f"chain(case_sensitive={cs}): known CURIE prefixes {sorted(gp)} are not the union of the inputs' "
                             f"{sorted(set().union(*map(set, ins_p)))}")
            if have(gu, *ins_u) and set(gu) != set().union(*map(set, ins_u)):
                fails.append(f"chain(case_sensitive={cs}): known URI prefixes are not the union of the inputs'")
            # grouping: whatever shared a record in an input shares a record in the result
            owner = {}
            for r in recs:
                for p in [r["p"]] + r["ps"]:
                    owner[("p", p)] = r["p"]
                for u in [r["u"]] + r["us"]:
                    owner[("u", u)] = r["p"]
            for i in range(n):
                ri = g("records", c=i)
                if not have(ri):
                    continue
                for r in ri:
                    owners = {owner.get(("p", p)) for p in [r["p"]] + r["ps"]} | {owner.get(("u", u)) for u in [r["u"]] + r["us"]}
                    if len(owners) != 1 or None in owners:
                        fails.append(f"chain(case_sensitive={cs}): the prefixes of input record {r['p']!r} ended up in "
                                     f"{len(owners)} records {owners}")
            if cs:
                for p in case["probes_p"]:
                    a, b = g("expand_pair", p, "1", c=0), g("expand_pair", p, "1", c=dst)
                    if have(a, b) and a is not None and a != b:
                        fails.append(f"chain: expand_pair({p!r}) is {a!r} in the first converter but {b!r} in the chain")
            else:
                seen = {}
                for r in recs:
                    for p in [r["p"]] + r["ps"]:
                        k = p.casefold()
                        if k in seen and seen[k] != r["p"]:
                            fails.append(f"chain(case_sensitive=False): records {seen[k]!r} and {r['p']!r} hold prefixes "
                                         f"equal up to case ({p!r})")
                        seen[k] = r["p"]
        r0, r12 = g("records", c=0), g("records", c=12)
        if have(r0, r12) and isinstance(r12, list):
            key = lambda rs: sorted((r["p"], r["u"], tuple(sorted(r["ps"])), tuple(sorted(r["us"])), r["pat"] or None) for r in rs)
            if key(r0) != key(r12):
                fails.append("chain([c]) does not have the records of c")
        # sub-converter
        r20 = g("records", c=20)
        if have(r0, r20) and isinstance(r20, list):
            P = set(case["subset"])
            want = [r for r in r0 if P & set([r["p"]] + r["ps"])]
            key = lambda rs: sorted((r["p"], r["u"], tuple(sorted(r["ps"])), tuple(sorted(r["us"])), r["pat"] or None) for r in rs)
            if key(want) != key(r20):
                fails.append(f"get_subconverter({sorted(P)}) keeps {[r['p'] for r in r20]}, expected {[r['p'] for r in want]}")
            kept_p = {p for r in want for p in [r["p"]] + r["ps"]}
            kept_canon = {r["p"] for r in want}
            for (c, m, a, s, p_), v in g.res.items():
                if c != 20 or m not in ("expand_pair", "compress"):
                    continue
                par = g(m, *a, c=0)
                if not have(par):
                    continue
                if m == "expand_pair":
                    wantv = par if a[0] in kept_p else None
                    if v != wantv:
                        fails.append(f"sub-converter expand_pair{a!r}={v!r}, parent {par!r}, expected {wantv!r}")
                else:
                    pu = g("parse_uri", *a, c=0)
                    if have(pu) and pu is not None and pu[0] in kept_canon and v != par:
                        fails.append(f"sub-converter compress{a!r}={v!r} but the parent answers {par!r} with a kept record")
        return fails


PROPERTY = C09()


def _scope_worker(cases):
    from .. import engine

    res = engine.evaluate_cases(PROPERTY, cases)
    return [r for r in res if r["diffs"] or r["fails"]][:5]
