"""C14 — written contexts read back to the same converter."""
from __future__ import annotations

from .. import gen
from ..common import q, uncps, cps, rec
from ..progprop import ProgramProperty, Getter, have, is_exc, init_step

# printable characters excluding double quote, angle brackets and control characters (SHACL / TSV)
PRINTABLE = [c for c in "abAB01 _-./:#%'{}()[]|\\\\^$+*?é𝔘ß~`=&;,!@"]
UNICODE = PRINTABLE + ["\"", "<", ">", "\t", "\n", "\r", "\x00", " ", "\x7f", "‮"]


def wordof(rng, alph, lo=1, hi=5):
    return "".join(rng.choice(alph) for _ in range(rng.randint(lo, hi)))


def make_records(rng, alph, jsonld_safe=False, nrec=None, p_empty_uri=0.08):
    n = nrec or rng.choice([1, 2, 3, 4])
    pfx, uris, out = set(), set(), []
    for _ in range(n):
        def fresh(pool, lo=1):
            for _ in range(50):
                w = wordof(rng, alph, lo, 5)
                if jsonld_safe and pool is pfx and (w.startswith("@") or not w):
                    continue
                if w not in pool:
                    pool.add(w)
                    return w
            w = "u" + str(len(pool))
            pool.add(w)
            return w
        p = fresh(pfx)
        u = "http://" + fresh(uris)
        if not out and rng.random() < p_empty_uri and "" not in uris:
            uris.add("")
            u = ""                      # a record whose URI prefix is the empty string
        ps = [fresh(pfx) for _ in range(rng.choice([0, 0, 1, 2]))]
        us = ["http://" + fresh(uris) for _ in range(rng.choice([0, 0, 1, 2]))]
        if rng.random() < 0.2:
            # synonyms that are equal up to case (['chebi', 'ChEBI'] is the library's own example): different strings
            for pool, lst, base in ((pfx, ps, p), (uris, us, None)):
                src = rng.choice(lst + ([base] if base else [])) if (lst or base) else None
                if src:
                    raw = src[len("http://"):] if pool is uris else src
                    for v in (raw.upper(), raw.lower(), raw.swapcase(), raw.capitalize()):
                        if v and v not in pool and not (jsonld_safe and pool is pfx and v.startswith("@")):
                            pool.add(v)
                            lst.append(("http://" + v) if pool is uris else v)
                            break
        pat = rng.choice([None, None, "", "^\\d+$", "^[A-Z]\\w+\\.$", wordof(rng, alph, 1, 6)])
        out.append(rec(p, u, ps, us, pat))
    return out


class C14(ProgramProperty):
    id = "C14"
    theorems = ["C14_epm", "C14_jsonld", "C14_shacl_literal", "C14_shacl_entry", "C14_tsv", "C14_tsv_bytes", "C14_epm_bytes",
                "C14_jsonld_bytes", "C14_jsonld_ascii", "C14_jsonld_file", "C14_epm_sorted"]
    lean_modules = ["CuriesVerif.Properties.C14", "CuriesVerif.Properties.Bytes", "CuriesVerif.Properties.JsonBytes"]
    rule = ("one case = one strict converter of 1-4 records (records with and without synonyms and patterns side by "
            "side) written with the real writers into real files and read back with the real readers: "
            "write_extended_prefix_map (arbitrary Unicode incl. quotes, angle brackets, tabs, newlines, NUL; lone "
            "surrogates excluded: not encodable), write_jsonld_context (plain and expanded, with and without synonyms; "
            "prefixes non-empty and not starting with '@'), write_shacl and write_tsv (printable characters incl. "
            "backslashes, quotes ', braces, %, regex metacharacters). The re-loaded converter's records, prefix_map, "
            "bimap and pattern_map are compared with the original's. Non-trivial = some string contains a backslash or a "
            "non-ASCII character, or the converter mixes records with and without synonyms. Half of the extended-prefix-map cases "
            "(30 % of the others) build the converter from a plain prefix map followed by merges; 20 % of the records have synonyms "
            "equal up to case; every JSON file written is parsed by the modelled json.loads and compared with CPython's result; 10 % "
            "of the cases exercise the JSON text layer alone (harness/jsonlayer.py), and every text of length <= 5 (thorough: 6) over "
            "the 13 structural characters of JSON is parsed by the model and by CPython on every run.")

    def budget(self, tier):
        return 500 if tier == "quick" else 12000

    def exhaustive(self, tier):
        from .. import jsonlayer

        return jsonlayer.exhaustive(tier)

    def gen(self, rng, tier):
        if rng.random() < 0.1:
            # the JSON text layer on its own: CPython's json against Model/Json.lean, documents the writers never produce included
            from .. import jsonlayer
            return {"steps": [], "json": jsonlayer.gen_case(rng), "fmt": "json-text", "syn": False, "expand": False,
                    "nontrivial": True, "tags": ["fmt=json-text"]}
        fmt = rng.choice(["epm", "jsonld", "shacl", "shacl", "tsv"])
        alph = UNICODE if fmt == "epm" else PRINTABLE
        if fmt == "jsonld":
            alph = [c for c in PRINTABLE]
        # (an empty URI prefix is a legal namespace; JSON-LD writes it as "" resp. {"@id": ""}: a quarter of those cases have one)
        recs = make_records(rng, alph, jsonld_safe=(fmt == "jsonld"), p_empty_uri=0.25 if fmt == "jsonld" else 0.08)
        syn = fmt in ("jsonld", "shacl") and rng.random() < 0.5
        expand = fmt == "jsonld" and rng.random() < 0.5
        build = [init_step(0, recs)]
        how = "constructor"
        if rng.random() < (0.5 if fmt == "epm" else 0.3):
            recs = [dict(r, pat=None) for r in recs]        # (a plain prefix map carries no patterns)
            # a converter that *acquired* its synonyms: loaded from a plain prefix map (synonym fields never set),
            # then extended with add_prefix(merge=True)
            how = "prefix-map-then-merge"
            build = [{"op": "load_pm", "dst": 0, "data": [[r["p"], r["u"]] for r in recs]}]
            for r in recs:
                for x in r["ps"]:
                    build.append({"op": "add_prefix", "c": 0, "p": x, "u": r["u"], "merge": True})
                for x in r["us"]:
                    build.append({"op": "add_prefix", "c": 0, "p": r["p"], "u": x, "merge": True})
        steps = build + [q(0, "records"), q(0, "delimiter"), q(0, "prefix_map"), q(0, "bimap"), q(0, "pattern_map"),
                 {"op": "roundtrip", "dst": 1, "src": 0, "fmt": fmt, "syn": syn, "expand": expand},
                 q(1, "delimiter"), q(1, "prefix_map"), q(1, "bimap"), q(1, "pattern_map")]
        if not syn:   # with synonyms the file is read in non-strict mode: several records share a URI prefix
            steps.append(q(1, "records"))
        strings = [uncps(x) for r in recs for x in [r["p"], r["u"]] + r["ps"] + r["us"] + ([r["pat"]] if r["pat"] else [])]
        nontrivial = any("\\" in s_ or any(ord(ch) > 127 for ch in s_) for s_ in strings) or \
            len({bool(r["ps"]) for r in recs}) == 2
        return {"steps": steps, "fmt": fmt, "syn": syn, "expand": expand, "nontrivial": nontrivial,
                "tags": [f"fmt={fmt}", f"syn={syn}", f"expand={expand}", f"build={how}"]}

    def evaluations(self, case):
        return len(case["json"]["texts"]) + len(case["json"]["values"]) if case.get("json") else 1

    def fingerprint(self, case):
        if case.get("json"):
            import hashlib
            import json

            return hashlib.sha1(json.dumps(case["json"], sort_keys=True).encode()).hexdigest()[:16]
        return super().fingerprint(case)

    def readable(self, case, impl):
        if case.get("json"):
            from .. import jsonlayer as J

            ji = case.get("_json_impl") or J.run_python(case["json"])
            out = [f"json.loads({uncps(t)!r})  ->  {'error' if p == J.ERROR else 'skipped (number)' if p == J.SKIP else repr(J.untag(p))}"
                   for t, p in zip(case["json"]["texts"], ji["parsed"])]
            out += [f"json.dumps({J.untag(v)!r}, indent={case['json']['indent']}, ensure_ascii={case['json']['ascii']})  ->  {uncps(t)!r}"
                    for v, t in zip(case["json"]["values"], ji["rendered"])]
            return out
        return super().readable(case, impl)

    def sample(self, case, impl):
        return self.readable(case, impl)[:12] if case.get("json") else super().sample(case, impl)

    def run_impl(self, case):
        from .. import common

        if case.get("json"):
            from .. import jsonlayer
            case["_json_impl"] = jsonlayer.run_python(case["json"])
            return []
        del common.CAPTURED[:]
        impl = super().run_impl(case)
        case["_texts"] = [[fmt, [[cps(p_), cps(u_)] for p_, u_ in pairs], cps(text)] for fmt, pairs, text in common.CAPTURED]
        return impl

    def compare(self, case, impl, resp):
        """Besides the program correspondence: the text write_tsv put on disk is, character for character, what the
        csv model says (Files.tsvText), and the model's reader parses it back to the written pairs."""
        from .. import common

        if case.get("json"):
            from .. import jsonlayer
            return jsonlayer.compare(case["json"], case["_json_impl"], common.run_driver([jsonlayer.request(case["json"])])[0])
        diffs = super().compare(case, impl, resp)
        for fmt, pairs, text in case.get("_texts", []):
            if fmt in ("epm", "jsonld"):
                diffs += self._json_file(fmt, uncps(text))
            if fmt != "tsv":
                continue
            r = common.run_driver([{"k": "tsv", "header": [cps("prefix"), cps("base")],
                                    "records": [{"p": p_, "u": u_, "ps": [], "us": [], "pat": None} for p_, u_ in pairs]}])[0]
            if r.get("text") != text:
                diffs.append({"step": 0, "op": "text written by write_tsv", "implementation": uncps(text),
                              "model": uncps(r.get("text", []))})
            if r.get("pairs") != [[p_, u_] for p_, u_ in pairs]:
                diffs.append({"step": 0, "op": "csv model reading the text of write_tsv", "implementation": pairs,
                              "model": r.get("pairs")})
        return diffs

    def _json_file(self, fmt, text):
        """The JSON file the library wrote, through the text-level model: the modelled json.loads reads it as CPython's
        does; the modelled json.dumps writes the value as CPython's does (same indent, same escaping mode as the writer
        uses); and the modelled reader of the file (Record(**dict) resp. the @context walk) sees what Python sees."""
        import json

        from .. import common, jsonlayer as J

        diffs = []
        py = json.loads(text)
        ascii_ = fmt == "jsonld"
        req = {"k": "json", "texts": [cps(text)], "values": [J.tag(py)], "indent": 4, "ascii": ascii_,
               "epm": [cps(text)] if fmt == "epm" else [], "jsonld": [cps(text)] if fmt == "jsonld" else []}
        r = common.run_driver([req])[0]
        if r.get("parsed", [None])[0] != J.tag(py):
            diffs.append({"step": 0, "op": f"json.loads of the {fmt} file", "implementation": repr(py)[:300],
                          "model": repr(r.get("parsed"))[:300]})
        want = json.dumps(py, indent=4, ensure_ascii=ascii_)
        if r.get("rendered", [None])[0] != cps(want):
            diffs.append({"step": 0, "op": f"json.dumps of the content of the {fmt} file", "implementation": want[:300],
                          "model": uncps(r.get("rendered", [[]])[0])[:300]})
        if fmt == "epm":
            opt = lambda d, k: None if k not in d else [cps(x) for x in d[k]]
            exp = [{"p": cps(d["prefix"]), "u": cps(d["uri_prefix"]), "ps": opt(d, "prefix_synonyms"),
                    "us": opt(d, "uri_prefix_synonyms"), "pat": None if "pattern" not in d else cps(d["pattern"])} for d in py]
            if r.get("epm", [None])[0] != exp:
                diffs.append({"step": 0, "op": "record dictionaries read from the extended prefix map file",
                              "implementation": repr(py)[:300], "model": repr(r.get("epm"))[:300]})
        else:
            def term(v):
                if isinstance(v, str):
                    return {"s": cps(v)}
                if isinstance(v, dict) and v.get("@prefix") is True:
                    return {"id": cps(v["@id"]) if isinstance(v.get("@id"), str) else None}
                return {"other": True}
            exp = [[cps(k), term(v)] for k, v in py["@context"].items()]
            if r.get("jsonld", [None])[0] != exp:
                diffs.append({"step": 0, "op": "terms read from the JSON-LD file", "implementation": repr(py)[:300],
                              "model": repr(r.get("jsonld"))[:300]})
        return diffs

    def reductions(self, case):
        if case.get("json"):
            return
        for c in super().reductions(case):
            if all((st["op"] != "init" or st["records"]) and (st["op"] != "load_pm" or st["data"]) for st in c["steps"]):
                yield c

    def laws(self, case, impl):
        if case.get("json"):
            return []
        g0, g1 = Getter(case, impl, 0), Getter(case, impl, 1)
        fails = []
        rt = [v for st, v in zip(case["steps"], impl) if st["op"] == "roundtrip"]
        if rt and rt[0] is not None:
            return [f"reading back what write_{case['fmt']} wrote raised {rt[0]!r}"]
        fmt, syn = case["fmt"], case["syn"]
        r0, r1 = g0("records"), g1("records")
        pm0, pm1 = g0("prefix_map"), g1("prefix_map")
        bm0, bm1 = g0("bimap"), g1("bimap")
        pat0, pat1 = g0("pattern_map"), g1("pattern_map")
        if not have(r0, pm0, pm1, bm0, bm1, pat0, pat1) or (fmt == "epm" and not have(r1)):
            return fails
        norm = lambda rs: sorted((r["p"], r["u"], tuple(sorted(r["ps"])), tuple(sorted(r["us"])), r["pat"] or None) for r in rs)
        if fmt == "epm":
            if norm(r0) != norm(r1):
                fails.append("write_extended_prefix_map / load_extended_prefix_map does not reproduce the records")
        else:
            want = pm0 if syn else bm0
            got = pm1
            if got != want:
                fails.append(f"write_{fmt} (include_synonyms={syn}) reads back to prefix map {got!r}, expected {want!r}")
            if fmt == "shacl":
                wantpat = {k: v for k, v in pat0.items()}
                gotpat = {k: v for k, v in pat1.items() if k in bm0}
                if gotpat != wantpat:
                    fails.append(f"write_shacl reads back to patterns {gotpat!r}, expected {wantpat!r}")
        return fails


PROPERTY = C14()
