"""C08 — strict, passthrough and default modes differ only in how failure is reported."""
from __future__ import annotations

from .. import gen
from ..common import cps, q, uncps
from ..progprop import ProgramProperty, results, is_exc, init_step

ONE_ARG = ["compress", "expand", "compress_or_standardize", "expand_or_standardize", "standardize_prefix",
           "standardize_curie", "standardize_uri", "expand_all", "parse", "parse_uri", "parse_curie"]
TWO_ARG = ["expand_pair", "expand_reference", "expand_pair_all"]
NO_PT = {"expand_all", "expand_pair_all", "parse", "parse_uri", "parse_curie"}
MODES = [(False, False), (False, True), (True, False), (True, True)]


class C08(ProgramProperty):
    id = "C08"
    theorems = ["C08_compress", "C08_expand", "C08_compress_or_standardize", "C08_expand_or_standardize", "C08_standardize_prefix", "C08_standardize_curie", "C08_standardize_uri", "C08_expand_pair", "C08_expand_reference", "C08_expand_all", "C08_expand_pair_all", "C08_parse", "C08_parse_uri", "C08_parse_curie"]
    lean_modules = ["CuriesVerif.Properties.C08"]
    rule = ("one case = one strict converter and 4 input strings from a malformed-first stream ('', no delimiter, "
            "only the delimiter, delimiter first / last, unknown prefix, known CURIE, known URI), each sent through "
            "the 14 listed functions in all four strict x passthrough combinations (functions without a "
            "passthrough parameter in both strict modes). Non-trivial = some function returns None by default "
            "on some input (so the three modes actually differ). Converters are built directly or through histories with warm-up queries, merges and a rejected call, next to decoy / bystander converters (gen.build_steps). 10 % of the cases carry a second, laws-only program: c1 = copy.copy(c0), additions to c1, every mode of every function asked of c0 (no model: Python defines what copy.copy shares).")

    def budget(self, tier):
        return 1500 if tier == "quick" else 40000

    def exhaustive(self, tier):
        from .. import smallscope

        return smallscope.run(self.id, tier)

    def gen(self, rng, tier):
        delim = rng.choice(gen.DELIMS)
        recs = gen.records(rng, delim, patterns=False)
        xs = []
        for _ in range(4):
            r = rng.random()
            if r < 0.45:
                xs.append(rng.choice(gen.curie_probes(rng, recs, delim, 3)))
            elif r < 0.70:
                xs.append(rng.choice(gen.uri_probes(rng, recs, 3)))
            else:
                xs.append(rng.choice(["", delim, "nodelim", delim + "x", "x" + delim, " ", delim * 2, "\n"]))
        steps = []
        for x in xs:
            for m in ONE_ARG:
                for s, p in MODES:
                    if m in NO_PT and p:
                        continue
                    steps.append(q(0, m, x, s=s, p=p))
            pfx, _, ident = x.partition(delim)
            for m in TWO_ARG:
                for s, p in MODES:
                    if m in NO_PT and p:
                        continue
                    steps.append(q(0, m, pfx, ident, s=s, p=p))
        steps, how = gen.build_steps(rng, recs, delim, steps)
        _build_tag = "build=" + how
        case = {"steps": steps, "xs": xs, "delim": delim, "tags": [f"delim={delim!r}", _build_tag]}
        if recs and rng.random() < 0.1:
            # c1 = copy.copy(c0), then c1 learns a prefix (with a synonym) and a synonym of an existing record.  Python's
            # default shallow copy shares every attribute, so c0 learns them too; a converter class that defines its own
            # __copy__ may make c1 independent.  Either way c0 must stay consistent with itself: the modes of every function
            # agree on c0 (no model is involved: this program is judged by the laws below only).
            t = rng.choice(recs)
            sh = [{"op": "init", "dst": 0, "records": recs, "delim": [ord(ch) for ch in delim]},
                  {"op": "clone", "dst": 1, "src": 0, "how": "copy"},
                  {"op": "add_prefix", "c": 1, "p": cps("shp"), "u": cps("http://shallow.example/new/"), "ps": [cps("SHP")], "us": []},
                  {"op": "add_prefix", "c": 1, "p": t["p"], "u": cps("http://shallow.example/merged/"), "ps": [cps("shsyn")],
                   "us": [], "merge": True}]
            for x in ["shp" + delim + "1", "SHP" + delim + "1", "shsyn" + delim + "1", "http://shallow.example/new/1",
                      "http://shallow.example/merged/1"]:
                for m in ONE_ARG:
                    for s_, p_ in MODES:
                        if not (m in NO_PT and p_):
                            sh.append(q(0, m, x, s=s_, p=p_))
                pfx, _, ident = x.partition(delim)
                for m in TWO_ARG:
                    for s_, p_ in MODES:
                        if not (m in NO_PT and p_):
                            sh.append(q(0, m, pfx, ident, s=s_, p=p_))
            case["shadow"] = sh
            case["tags"].append("shallow-copy-curated")
        return case

    def nontrivial(self, case, impl):
        res = results(case, impl)
        return any(v is None for (c, m, a, s, p), v in res.items() if not s and not p and m in ONE_ARG + TWO_ARG)

    def tags(self, case, impl):
        res = results(case, impl)
        out = list(case["tags"])
        for (c, m, a, s, p), v in res.items():
            if m in ONE_ARG + TWO_ARG:
                kind = "exc:" + v[1] if is_exc(v) else ("none" if v is None else "value")
                out.append(f"{'strict' if s else 'default'}{'+pt' if p else ''}:{kind}")
        return out

    def laws(self, case, impl):
        res = results(case, impl)
        d = case["delim"]
        fails = []
        calls = {}
        for (c, m, a, s, p), v in res.items():
            if m in ONE_ARG + TWO_ARG:
                calls.setdefault((m, a), {})[(s, p)] = v
        for (m, a), by in calls.items():
            if (False, False) not in by:
                continue
            dflt = by[(False, False)]
            if is_exc(dflt):
                fails.append(f"{m}{a!r} raises {dflt[1]} in default mode")
                continue
            x = a[0] if len(a) == 1 else a[0] + d + a[1]
            if (False, True) in by:
                pt = by[(False, True)]
                want = dflt if dflt is not None else x
                if pt != want:
                    fails.append(f"{m}{a!r} passthrough gives {pt!r}, expected {want!r}")
            for mode in [(True, False), (True, True)]:
                if mode not in by:
                    continue
                st = by[mode]
                if dflt is not None:
                    if st != dflt:
                        fails.append(f"{m}{a!r} strict gives {st!r} but default gives {dflt!r}")
                else:
                    from ..common import LIB_FAMILY

                    if not is_exc(st) or st[1] not in LIB_FAMILY:
                        fails.append(f"{m}{a!r} strict gives {st!r} where default gives None; expected a library "
                                     f"ValueError-derived conversion/standardisation error")
        return fails


PROPERTY = C08()
