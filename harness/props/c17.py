"""C17 — the resolver redirects exactly where expand points, on both web frameworks."""
from __future__ import annotations

import warnings

from .. import common, gen
from ..common import cps, uncps, rec
from ..simpleprop import SimpleProperty

warnings.filterwarnings("ignore")
SEG = ["a", "10.1", "abc", "x_y", "0000001", "b-c", "Z", "1", "~t", "a.b", "q9"]
URLSAFE_PREFIXES = ["doi", "DOI", "go", "GO", "chebi", "a", "x.y", "a_b", "p-q", "n1", "Zz"]


class C17(SimpleProperty):
    id = "C17"
    theorems = ["C17_first_split", "C17_match_sound", "C17_match_complete", "C17_respond", "C17_agree"]
    lean_modules = ["CuriesVerif.Properties.C17"]
    rule = ("one case = one strict converter with URL-safe prefixes and synonyms, delimiter ':' or '/', served by the "
            "Flask app and by the FastAPI app (in-process test clients), and 8 requests GET /<prefix><delimiter><identifier> "
            "with known canonical prefixes, synonyms and unknown prefixes, identifiers of 1-3 non-empty URL-path-safe "
            "segments joined by '/', optionally containing the delimiter once or twice (never the dot segments). Status "
            "and Location of both frameworks are compared with each other, with the model of the two route patterns, "
            "and with expand of the real converter. Non-trivial = the identifier contains '/' or the delimiter. With delimiter ':' identifiers may end in the delimiter or double it inside a segment; when the converter is extended after the apps were built, every request is issued once before the extension as well. 30 % of the cases first build resolver apps for a second converter (same names, other URI prefixes, same or other delimiter) that answer the same requests; in 20 % the served converter and a deep copy / pickle copy of it part ways and the other one learns names that must stay unknown (422); '/'-delimited converters also receive unknown prefixes containing ':'.")
    assumptions = ["Werkzeug / Starlette route matching for the two route templates is modelled (greedy slash-free first "
                   "group, `path` second group) and validated on every case; percent-encoding is outside the model: requests "
                   "use URL-path-safe characters only, as the property's quantifier does"]

    def budget(self, tier):
        return 150 if tier == "quick" else 4000

    def gen(self, rng, tier):
        delim = rng.choice([":", ":", "/"])
        names = rng.sample(URLSAFE_PREFIXES, rng.randint(2, 5))
        recs = []
        k = rng.randint(1, max(1, len(names) - 1))
        groups = gen.deal(rng, names, k)
        for gi, g in enumerate(groups):
            recs.append(rec(g[0], f"https://r{gi}.example/" + rng.choice(["", "id/", "x_"]), g[1:]))
        known = [uncps(r["p"]) for r in recs] + [uncps(x) for r in recs for x in r["ps"]]
        paths = []
        for _ in range(8):
            p = rng.choice(known) if rng.random() < 0.75 else rng.choice(["nope", "zz", "Doi"] + (["no:pe", "doi:"] if delim == "/" else []))
            segs = [rng.choice(SEG) for _ in range(rng.choice([1, 1, 2, 3]))]
            ident = "/".join(segs)
            r = rng.random()
            if r < 0.35:
                pos = rng.randrange(len(ident) + 1)
                ident = ident[:pos] + delim + rng.choice(SEG) + ident[pos:]
            if r < 0.1:
                ident = ident + delim + rng.choice(SEG)
            # keep every segment non-empty and never a dot segment
            ident = "/".join(s for s in ident.split("/") if s and s not in (".", "..")) or "x"
            if delim == ":" and rng.random() < 0.15:
                # the delimiter at the very end of the last segment, or doubled inside a segment
                ident = ident + ":" if rng.random() < 0.6 else ident.replace(":", "::", 1) if ":" in ident else ident + "::" + rng.choice(SEG)
            paths.append((p, ident))
        # in 40% of the cases the apps are built first and the converter is extended afterwards: the handlers
        # must ask the live converter
        late = rng.randint(1, len(recs) - 1) if len(recs) > 1 and rng.random() < 0.4 else 0
        case = {"records": recs, "delim": delim, "requests": paths, "late": late}
        if rng.random() < 0.3:
            case["decoy"] = rng.choice(["same-delimiter", "other-delimiter"])
        if rng.random() < 0.2 and late < len(recs):
            case["copy"] = [rng.choice(["deepcopy", "pickle"]), rng.choice(["serve-copy", "serve-original"])]
            case["requests"] = case["requests"][:6] + [("cpnew", "1"), ("cpsyn", paths[0][1]), ("cpnewsyn", "x/y")]
        if rng.random() < 0.35:
            # a record that *acquired* a name by merge: add_prefix(<a name it has>, <another URI prefix>,
            # prefix_synonyms=[new name], merge=True); requests through the new name must expand with the record's own
            # canonical URI prefix
            k = rng.randrange(len(recs))
            via = rng.choice([uncps(recs[k]["p"])] + [uncps(x) for x in recs[k]["ps"]])
            syn, other = "msyn" + str(k), f"https://merged{k}.example/"
            case["merge"] = {"k": k, "via": via, "syn": syn, "u": other}
            case["requests"] = paths[:6] + [(syn, paths[0][1]), (syn, "x/y")]
        return case

    def run_impl(self, case):
        from curies import Converter
        from curies.resolver_service import get_fastapi_app, get_flask_app
        from starlette.testclient import TestClient

        recs = [common.dec_record(r) for r in case["records"]]
        late = case.get("late", 0)
        if case.get("decoy") and len(recs) > 1:
            # another resolver lives in the same process: the same names, each resolving somewhere else (the URI
            # prefixes rotated over the records); it answers every request first.  Nothing it did may show below.
            rot = [common.dec_record(dict(r, u=case["records"][(i + 1) % len(recs)]["u"], us=[]))
                   for i, r in enumerate(case["records"])]
            dd = case["delim"] if case["decoy"] == "same-delimiter" else ("/" if case["delim"] == ":" else ":")
            dconv = Converter(rot, delimiter=dd)
            dfl, dfa = get_flask_app(dconv).test_client(), TestClient(get_fastapi_app(dconv))
            for p, i in case["requests"]:
                dfl.get("/" + p + dd + i)
                dfa.get("/" + p + dd + i, follow_redirects=False)
        conv = Converter(recs[: len(recs) - late], delimiter=case["delim"])
        if case.get("copy"):
            # the converter that is served and a deep copy / pickle round trip of it part ways: the *other* one learns a
            # new prefix and a new synonym of an existing record; the served one must not know them (requests: 422)
            import copy
            import pickle

            how, which = case["copy"]
            twin = copy.deepcopy(conv) if how == "deepcopy" else pickle.loads(pickle.dumps(conv))
            conv, other = (twin, conv) if which == "serve-copy" else (conv, twin)
            other.add_prefix("cpnew", "https://copy.example/new/", prefix_synonyms=["cpnewsyn"])
            other.add_prefix(recs[0].prefix, "https://copy.example/merged/", prefix_synonyms=["cpsyn"], merge=True)
        fl = get_flask_app(conv).test_client()
        fa = TestClient(get_fastapi_app(conv))
        if late:
            # the apps are used before the converter is extended (every request once), so that anything a handler
            # remembers about a request dates from before the extension
            for p, i in case["requests"]:
                fl.get("/" + p + case["delim"] + i)
                fa.get("/" + p + case["delim"] + i, follow_redirects=False)
        for r in recs[len(recs) - late:]:
            conv.add_record(r)
        if case.get("merge"):
            mg = case["merge"]
            conv.add_prefix(mg["via"], mg["u"], prefix_synonyms=[mg["syn"]], merge=True)
        out = {"flask": [], "fastapi": [], "expand": []}
        for p, i in case["requests"]:
            path = "/" + p + case["delim"] + i
            r1 = fl.get(path)
            r2 = fa.get(path, follow_redirects=False)
            out["flask"].append([r1.status_code, r1.headers.get("Location")])
            out["fastapi"].append([r2.status_code, r2.headers.get("location")])
            out["expand"].append(conv.expand(p + case["delim"] + i))
        return out

    def request(self, case, impl):
        records = case["records"]
        if case.get("merge"):
            mg = case["merge"]
            records = [dict(r, ps=r["ps"] + [cps(mg["syn"])], us=r["us"] + [cps(mg["u"])]) if i == mg["k"] else r
                       for i, r in enumerate(records)]
        return {"k": "resolve", "records": records, "delim": cps(case["delim"]),
                "paths": [cps(p + case["delim"] + i) for p, i in case["requests"]]}

    def compare(self, case, impl, resp):
        diffs = []
        for fw in ("flask", "fastapi"):
            for k, (a, b) in enumerate(zip(impl[fw], resp[fw])):
                b2 = [b[0], None if b[1] is None else uncps(b[1])]
                if a != b2:
                    p, i = case["requests"][k]
                    diffs.append({"step": k, "op": f"{fw} GET /{p}{case['delim']}{i}", "implementation": a, "model": b2})
        return diffs

    def laws(self, case, impl):
        fails = []
        for k, (p, i) in enumerate(case["requests"]):
            exp = impl["expand"][k]
            want = [302, exp] if exp is not None else [422, None]
            for fw in ("flask", "fastapi"):
                got = impl[fw][k]
                if got != want:
                    fails.append(f"{fw}: GET /{p}{case['delim']}{i} answers {got}, expected {want} (expand gives {exp!r})")
            if impl["flask"][k] != impl["fastapi"][k]:
                fails.append(f"GET /{p}{case['delim']}{i}: Flask answers {impl['flask'][k]}, FastAPI {impl['fastapi'][k]}")
        return fails

    def tags(self, case, impl):
        out = [f"delim={case['delim']!r}", "converter-extended-after-app-built" if case.get("late") else "converter-complete"]
        if case.get("decoy"):
            out.append("second-resolver-in-process:" + case["decoy"])
        if case.get("copy"):
            out.append("copy-of-the-converter-curated:" + "/".join(case["copy"]))
        for (p, i), r in zip(case["requests"], impl["flask"]):
            out.append(f"status={r[0]}")
            if "/" in i:
                out.append("identifier-with-slash")
            if case["delim"] in i:
                out.append("identifier-with-delimiter")
        return out

    def nontrivial(self, case, impl):
        return any("/" in i or case["delim"] in i for _, i in case["requests"])

    def evaluations(self, case):
        return 2 * len(case["requests"])

    def readable(self, case, impl):
        recs = "; ".join(common.show_record(r) for r in case["records"])
        out = [f"Converter([{recs}], delimiter={case['delim']!r}); the last {case.get('late', 0)} record(s) are added with "
               f"add_record after the apps were built" + (f"; then add_prefix({case['merge']['via']!r}, {case['merge']['u']!r}, "
               f"prefix_synonyms=[{case['merge']['syn']!r}], merge=True)" if case.get("merge") else "")]
        if case.get("copy"):
            out.append(f"(the served converter is {'a ' + case['copy'][0] + ' copy of this one' if case['copy'][1] == 'serve-copy' else 'this one'}; "
                       f"the {'original' if case['copy'][1] == 'serve-copy' else case['copy'][0] + ' copy'} then learnt the prefix 'cpnew' "
                       f"(synonym 'cpnewsyn') and the synonym 'cpsyn' of {common.uncps(case['records'][0]['p'])!r})")
        if case.get("decoy") and len(case["records"]) > 1:
            out.insert(0, f"(first, in the same process: resolver apps for a second converter -- the same names, URI prefixes rotated, "
                          f"{case['decoy']} -- answered the same requests)")
        for k, (p, i) in enumerate(case["requests"]):
            out.append(f"GET /{p}{case['delim']}{i} -> flask {impl['flask'][k]}, fastapi {impl['fastapi'][k]}, expand {impl['expand'][k]!r}")
        return out

    def reductions(self, case):
        reqs = case["requests"]
        for i in range(len(reqs)):
            yield {**case, "requests": [reqs[i]]}
        if case.get("merge"):
            return
        for i in range(len(case["records"])):
            if len(case["records"]) > 1:
                yield {**case, "records": case["records"][:i] + case["records"][i + 1:]}


PROPERTY = C17()
