"""C20 — W3C validators accept exactly the documented grammar."""
from __future__ import annotations

import hashlib
import itertools
import json
import multiprocessing as mp

from .. import common
from ..common import cps, uncps
from ..progprop import STD_TRUSTED

# one representative per character class (the property's quantifier)
CLASSES = ["a", "7", "_", ".", "-", ":", "/", "#", " ", "\t", "\n", "[", "]", "é"]
EXTRA = ["Z", "0", "\r", "\x0b", "\x0c", " ", " ", "　", "\x1f", "𝔘", "%", "?", "=", "@", "\\", "{", "ǅ", "٣",
         # characters that Unicode case folding maps onto ASCII letters (re.IGNORECASE without re.ASCII): dotted capital I,
         # dotless i, long s, Kelvin sign
         "\u0130", "\u0131", "\u017f", "\u212a"]


def run_strings(strs):
    from curies.w3c import is_w3c_curie, is_w3c_prefix

    from curies import Prefix

    class UserStr(str):
        """a caller's own str subclass"""

    out = []
    for s in strs:
        a, b = bool(is_w3c_prefix(s)), bool(is_w3c_curie(s))
        # the verdict is about the characters, not about the class of the string object: the same text as a
        # curies.Prefix (what Reference.prefix holds) and as a user's str subclass must be judged alike; a deviating
        # verdict replaces the plain one, so that it shows against the model
        for cls in (Prefix, UserStr):
            a2, b2 = bool(is_w3c_prefix(cls(s))), bool(is_w3c_curie(cls(s)))
            if (a2, b2) != (a, b):
                a, b = a2, b2
                break
        out.append([a, b])
    return out


def spaces_of(strs):
    return sorted({ord(ch) for s in strs for ch in s if ch.isspace()})


def _exh_worker(args):
    first, maxlen = args
    alph = CLASSES
    bad = []
    n = 0
    batch = []

    def flush():
        nonlocal n, batch
        if not batch:
            return
        impl = run_strings(batch)
        req = {"k": "w3c", "space": spaces_of(batch), "strs": [cps(s) for s in batch], "obs": impl}
        resp = common.run_driver([req])[0]
        model = resp["model"]
        for i, (a, b) in enumerate(zip(impl, model)):
            if a != b:
                bad.append({"case": {"strs": [batch[i]]}, "diffs": [{"step": 0, "op": "w3c", "implementation": a, "model": b}],
                            "fails": [], "impl": [a], "model": [b]})
        for f in resp.get("fail", []):
            i = int(f.split(":")[0])
            bad.append({"case": {"strs": [batch[i]]}, "diffs": [], "fails": [f], "impl": [impl[i]], "model": [model[i]]})
        n += len(batch)
        batch = []

    for L in range(0, maxlen):
        for tail in itertools.product(alph, repeat=L):
            batch.append(first + "".join(tail))
            if len(batch) >= 20000:
                flush()
    flush()
    return n, bad[:20]


class C20:
    id = "C20"
    theorems = ["C20_prefix", "C20_luid", "C20_luid_prop", "C20_curie_never", "C20_curie_no_space", "C20_curie"]
    lean_modules = ["CuriesVerif.Properties.C20"]
    rule = ("exhaustive: every string over one representative per character class (letter, digit, '_', '.', '-', ':', "
            "'/', '#', space, tab, newline, '[', ']', non-ASCII letter) up to length 4 (quick) / 6 (thorough), plus "
            "random strings up to length 12 over the representatives and further code points (other ASCII letters and "
            "digits, CR, VT, FF, NBSP, U+2028, U+3000, U+001F, non-BMP, '%', '?', '\\\\', titlecase and non-ASCII "
            "digits); is_w3c_prefix and is_w3c_curie are compared with the Lean model and with the grammar of the "
            "property (Spec.W3C). One generated case = a batch of 400 strings. Non-trivial = the batch contains "
            "accepted and rejected strings for both validators. Every string is judged three times: as str, as curies.Prefix "
            "and as a user str subclass; a deviating verdict replaces the plain one.")
    assumptions = ["Python's re \\\\s and str.strip whitespace = str.isspace (shipped per case as the model's `space` parameter)"]
    trusted_base = STD_TRUSTED[:3] + ["CPython re (the two patterns are modelled by hand, alternative by alternative)"]

    def budget(self, tier):
        return 60 if tier == "quick" else 2500

    def gen(self, rng, tier):
        strs = []
        for _ in range(400):
            alph = CLASSES if rng.random() < 0.6 else CLASSES + EXTRA
            L = rng.choice([1, 2, 3, 5, 6, 7, 8, 10, 12])
            s = "".join(rng.choice(alph) for _ in range(L))
            if rng.random() < 0.3:
                s = rng.choice(["GO", "a", "_x", "ab.c-d"]) + ":" + s
            strs.append(s)
        return {"strs": strs}

    def run_impl(self, case):
        return run_strings(case["strs"])

    def request(self, case, impl):
        return {"k": "w3c", "space": spaces_of(case["strs"]), "strs": [cps(s) for s in case["strs"]], "obs": impl}

    def compare(self, case, impl, resp):
        return [{"step": i, "op": "w3c " + repr(case["strs"][i]), "implementation": a, "model": b}
                for i, (a, b) in enumerate(zip(impl, resp["model"])) if a != b]

    def extra_fails(self, case, impl, resp):
        return []

    def tags(self, case, impl):
        out = []
        for a, b in impl:
            out.append(f"prefix={a},curie={b}")
        return out

    def size(self, case):
        return len(case["strs"])

    def nontrivial(self, case, impl):
        return len({a for a, _ in impl}) == 2 and len({b for _, b in impl}) == 2

    def fingerprint(self, case):
        return hashlib.sha1(json.dumps(case["strs"]).encode()).hexdigest()[:16]

    def evaluations(self, case):
        return len(case["strs"])

    def sample(self, case, impl):
        return [f"{s!r}: is_w3c_prefix={a}, is_w3c_curie={b}" for s, (a, b) in list(zip(case["strs"], impl))[:12]]

    def readable(self, case, impl):
        return [f"{s!r}: is_w3c_prefix={a}, is_w3c_curie={b}" for s, (a, b) in zip(case["strs"], impl)]

    def matches_known(self, entry, case, fails):
        return False

    def reductions(self, case):
        strs = case["strs"]
        if len(strs) > 1:
            h = len(strs) // 2
            yield {"strs": strs[:h]}
            yield {"strs": strs[h:]}
            for i in range(len(strs)):
                yield {"strs": [strs[i]]}
        elif strs:
            s = strs[0]
            for i in range(len(s)):
                yield {"strs": [s[:i] + s[i + 1:]]}

    def neighbours(self, case):
        out = []
        for s in case["strs"][:50]:
            for ch in CLASSES:
                out.append({"strs": [s + ch, ch + s]})
        return out

    def exhaustive(self, tier):
        maxlen = 4 if tier == "quick" else 6
        jobs = [(c, maxlen) for c in CLASSES]
        if maxlen >= 6:
            jobs = [(a + b, maxlen - 1) for a in CLASSES for b in CLASSES] + [(c, 1) for c in CLASSES]
        ctx = mp.get_context("fork")
        n = 1  # the empty string
        bad = []
        e = run_strings([""])
        r = common.run_driver([{"k": "w3c", "space": [], "strs": [[]], "obs": e}])[0]
        if r["model"] != e or r["fail"]:
            bad.append({"case": {"strs": [""]}, "diffs": [{"step": 0, "op": "w3c ''", "implementation": e, "model": r["model"]}],
                        "fails": r["fail"], "impl": e, "model": r["model"]})
        with ctx.Pool(16) as pool:
            for k, b in pool.imap_unordered(_exh_worker, jobs):
                n += k
                bad.extend(b)
        return {"n": n, "bad": bad, "complete": True,
                "scope": f"all strings over {len(CLASSES)} class representatives of length <= {maxlen}"}


PROPERTY = C20()
