"""C02 — CURIE expansion resolves any prefix or synonym to the canonical URI prefix."""
from __future__ import annotations

from .. import gen
from ..common import rec as mkrec, cps, q, uncps
from ..progprop import ProgramProperty, results, is_exc, init_step, Getter, have, MISSING


class C02(ProgramProperty):
    id = "C02"
    theorems = ["C02_expand", "C02_pair", "C02_all", "C02_all_shape", "C02_unknown", "C02_known", "C02_is_curie", "C02_first_delimiter"]
    lean_modules = ["CuriesVerif.Properties.C02"]
    rule = ("one case = one strict converter (synonyms, '' prefix in ~15%, case variants and substrings of other "
            "prefixes, delimiters : / :: _ | -:) with 8 (prefix, identifier) pairs (known / synonym / case variant / "
            "unknown prefix; identifiers '', containing the delimiter, '/', '#', space, non-ASCII, lone surrogate) "
            "each queried through expand, expand_pair, expand_reference, expand_all, expand_pair_all, is_curie, "
            "parse_curie, plus malformed CURIE strings. Non-trivial = some pair uses a synonym or the empty "
            "prefix, or an identifier containing the delimiter. 35 % of the converters are built through a history (part of the records, queries, then new records and merges that add synonyms, optionally a rejected call); 30 % live on and receive a late record whose names include one containing the delimiter, after which every name of that record is queried. Three pairs per case are also expanded with strict=True, passthrough=True and both together through expand / expand_pair / expand_reference; converters come with decoys, bystanders, copies and clashing collections offered to the constructor (gen.build_steps).")
    assumptions = ["prefixes that violate DelimOK although they do not contain the delimiter are known finding K2"]

    def exhaustive(self, tier):
        from .. import smallscope

        return smallscope.run(self.id, tier)

    def gen(self, rng, tier):
        delim = rng.choice(gen.DELIMS)
        recs = gen.records(rng, delim)
        if len(delim) > 1 and rng.random() < 0.25:
            # K2 stream: a prefix that does not contain the delimiter but ends in a proper prefix of it
            from ..common import rec
            bad = rng.choice(["a", "GO", ""]) + delim[:-1]
            if bad not in gen.all_prefixes(recs):
                recs = recs + [rec(bad, "http://k2.example/" + rng.choice(["", "x_"]))]
        ps = gen.all_prefixes(recs)
        canon = {uncps(r["p"]) for r in recs}
        steps = []
        pairs = []
        nontrivial = False
        for _ in range(8):
            r = rng.random()
            k2 = [p for p in ps if delim not in p and not gen.delim_ok(delim, p)]
            if k2 and r < 0.3:
                p = rng.choice(k2)
            elif r < 0.6 and ps:
                p = rng.choice(ps)
            elif r < 0.8 and ps:
                b = rng.choice(ps)
                p = rng.choice([b.upper(), b.lower(), b + "x", b[:-1], b.swapcase()])
            else:
                p = rng.choice(gen.PREFIX_WORDS)
            i = gen.identifier(rng, delim)
            pairs.append((p, i))
            if (p in ps and p not in canon) or (p == "" and p in ps) or delim in i:
                nontrivial = True
        for p, i in pairs:
            s = p + delim + i
            steps += [q(0, "expand", s), q(0, "expand_pair", p, i), q(0, "expand_reference", p, i),
                      q(0, "expand_all", s), q(0, "expand_pair_all", p, i), q(0, "is_curie", s),
                      q(0, "parse_curie", s), q(0, "standardize_prefix", p)]
        for s in gen.curie_probes(rng, recs, delim, 3):
            steps += [q(0, "expand", s), q(0, "expand_all", s), q(0, "is_curie", s)]
        for p, i in pairs[:3]:
            # every flag combination of the three expansion entry points must tell the same story about the prefix
            s = p + delim + i
            for fl in ({"s": True}, {"p": True}, {"s": True, "p": True}):
                steps += [q(0, "expand", s, **fl), q(0, "expand_pair", p, i, **fl), q(0, "expand_reference", p, i, **fl)]
        tags = [f"delim={delim!r}"]
        for p, i in pairs:
            tags.append("prefix=" + ("empty" if p == "" and p in ps else "canonical" if p in canon else
                                     "synonym" if p in ps else "unknown"))
            if delim in i:
                tags.append("identifier-contains-delimiter")
        steps, how = gen.build_steps(rng, recs, delim, steps)
        _build_tag = "build=" + how
        if rng.random() < 0.3:
            # the converter lives on: a record whose synonyms include a name containing the delimiter (legal: such a
            # name can simply never be the prefix of a CURIE) and clean names after it; every name of the record must
            # be resolvable afterwards, and the earlier answers must still hold
            names = sorted(["zq" + delim + "odd", "zr" + gen.word(rng, 1, 1, syms=["a", "b", "1"]), "zs"])
            tail = [{"op": rng.choice(["add_prefix", "add_prefix", "add_record"]), "c": 0}]
            if tail[0]["op"] == "add_prefix":
                tail[0].update({"p": cps("zp"), "u": cps("http://late.example/"), "ps": [cps(x) for x in names], "us": []})
            else:
                tail[0]["record"] = mkrec("zp", "http://late.example/", names)
            tail += [q(0, "records"), q(0, "delimiter")]
            for x in ["zp"] + names:
                tail += [q(0, "expand_pair", x, "1"), q(0, "expand_pair_all", x, "1"), q(0, "standardize_prefix", x)]
                if delim not in x:
                    tail += [q(0, "expand", x + delim + "1"), q(0, "is_curie", x + delim + "1")]
            for pp, ii in pairs[:3]:
                tail += [q(0, "expand", pp + delim + ii), q(0, "expand_pair", pp, ii)]
            for st in tail:
                st["_tail"] = True
            steps = steps + tail
            _build_tag += "+late-record"
        return {"steps": steps, "pairs": pairs, "delim": delim, "nontrivial": nontrivial, "tags": tags + [_build_tag]}

    def laws(self, case, impl):
        g = Getter(case, impl)
        d = case["delim"]
        fails = []
        recs = g("records")
        for p, i in case["pairs"]:
            s = p + d + i
            e, ep, er = g("expand", s), g("expand_pair", p, i), g("expand_reference", p, i)
            ea, epa = g("expand_all", s), g("expand_pair_all", p, i)
            if have(ep, er) and ep != er:
                fails.append(f"expand_pair({p!r},{i!r})={ep!r} but expand_reference gives {er!r}")
            if have(epa, recs) and epa is not None and not is_exc(epa):
                owner = [r for r in recs if p == r["p"] or p in r["ps"]]
                if len(owner) == 1:
                    want = [owner[0]["u"] + i] + [u + i for u in owner[0]["us"]]
                    if epa[0] != want[0] or sorted(epa) != sorted(want):
                        fails.append(f"expand_pair_all({p!r},{i!r})={epa!r}, expected canonical first then synonyms {want!r}")
                    if have(ep) and ep != want[0]:
                        fails.append(f"expand_pair({p!r},{i!r})={ep!r}, expected {want[0]!r}")
            if d not in p:  # the property's quantifier
                if have(e, ep) and e != ep:
                    fails.append(f"expand({s!r})={e!r} but expand_pair({p!r},{i!r})={ep!r} [delimiter {d!r}]")
                if have(ea, epa) and ea != epa:
                    fails.append(f"expand_all({s!r})={ea!r} but expand_pair_all({p!r},{i!r})={epa!r}")
        return fails

    def matches_known(self, entry, case, fails):
        if entry["id"] != "K2":
            return False
        d = case["delim"]
        # every failing law instance involves a prefix that violates DelimOK although it does not contain d
        bad = [p for p, i in case["pairs"] if d not in p and not gen.delim_ok(d, p)]
        return bool(bad) and len(d) > 1 and all(any(repr(p) in f for p in bad) for f in fails)


PROPERTY = C02()
