"""C19 — discover returns a valid converter that compresses the URIs it learned from."""
from __future__ import annotations

from .. import gen
from ..common import q, uncps, cps, rec
from ..progprop import ProgramProperty, Getter, have, is_exc, init_step, pyval

WORDS = ["a", "b", "1", "12", "x9", "é", "²", "Ab", "٣", "a-b", "", "a b", "x.y", "ǅ"]
BASES = ["http://e.org/", "http://e.org/x/", "http://e.org/x/a_", "http://e.org/x#", "urn:x:", "h", "http://e.org/x/a_b_",
         "https://github.com/o/r/issues/", "https://github.com/o/r/", "http://known.example/",
         # a delimiter as the very first symbol; stems one of which begins the other with a next symbol that sorts
         # before the delimiter (the numbering follows the sorted *joined* URI prefixes)
         "#", "_", "/", "http://e.org/x/aB_", "http://e.org/x-y/", "http://e.org/x/a-b#"]


class C19(ProgramProperty):
    id = "C19"
    theorems = ["C19_perm_dup", "C19_wf", "C19_ends", "C19_names", "C19_cutoff", "C19_roundtrip_partial",
                "C19_github_not_learned"]
    lean_modules = ["CuriesVerif.Properties.C19"]
    rule = ("one case = a multiset of 1-12 URIs built from nested bases (x/, x/a_, x#) and identifiers (ASCII and "
            "non-ASCII alphanumerics such as é ² ٣, and non-alphanumeric tails), delimiter lists (default, reordered, "
            "multi-symbol), cutoffs None / 0-4, a metaprefix, optionally a pre-existing converter that already knows "
            "some of the URIs; discover is run on the list, on a shuffled copy and on a shuffled copy with "
            "repetitions; records are read, and with no cutoff every URI is compressed under the result and the "
            "CURIE expanded again (phase 2). Non-trivial = at least two URI prefixes were discovered, one nested in "
            "the other. URIs may start with a delimiter or share stems one of which begins the other; the supplied converter may carry patterns; in 60 % of the cases with a converter it is curated after a discovery run (a merge teaching it a base, or a fresh record) and discovery is run again.")

    def budget(self, tier):
        return 2000 if tier == "quick" else 60000

    def gen(self, rng, tier):
        n = rng.randint(1, 12)
        uris = []
        for _ in range(n):
            b = rng.choice(BASES)
            uris.append(b + rng.choice(WORDS))
        if rng.random() < 0.3:
            uris += [rng.choice(uris) for _ in range(2)]
        delims = rng.choice([[], [], ["#", "/", "_"], ["_", "/", "#"], ["/"], ["/x/", "/"], [":", "/"], ["?id=", "/"], ["%3A"], ["__", "_"]])
        if any(len(d_) > 1 for d_ in delims) and rng.random() < 0.8:
            uris += [rng.choice(["http://e.org/q?id=", "http://e.org/x%3A", "http://e.org/x__", "http://e.org/q?id=a?id="]) + rng.choice(WORDS)
                     for _ in range(3)]
        cutoff = rng.choice([None, None, None, 0, 1, 2, 3, 4])
        meta = rng.choice(["ns", "ns", "p", "", "é"])
        with_conv = rng.random() < 0.3
        steps = []
        src = None
        if with_conv:
            known = [rec("known", "http://known.example/", pat=rng.choice([None, "^\\d{7}$"])),
                     rec("kx", "http://e.org/x/a_", [], rng.choice([[], [], ["http://e.org/x#"], ["http://e.org/", "urn:x:"]]),
                         pat=rng.choice([None, None, "^[A-Z]+$", "^\\d{7}$"]))]
            if rng.random() < 0.6:
                # a URI prefix that runs past the delimiter into the identifier: it recognises only some
                # of the URIs that share a split prefix
                u0 = rng.choice(uris)
                cut = u0[: max(1, len(u0) - rng.choice([0, 1, 1]))]
                if cut not in gen.all_uris(known):
                    known.append(rec("partial", cut))
            steps += [init_step(0, known)]
            src = 0
        orders = [list(uris)]
        s2 = list(uris)
        rng.shuffle(s2)
        orders.append(s2)
        s3 = list(uris) + [rng.choice(uris) for _ in range(3)]
        rng.shuffle(s3)
        orders.append(s3)
        alnum = sorted({ord(ch) for u in uris for ch in u if ch.isalnum()})
        for k, order in enumerate(orders):
            steps.append({"op": "discover", "dst": 10 + k, "src": src, "uris": [cps(u) for u in order],
                          "container": ["list", "generator", "tuple"][k],
                          "delims": [cps(d) for d in delims], "cutoff": cutoff, "metaprefix": cps(meta), "alnum": alnum})
            steps += [q(10 + k, "records"), q(10 + k, "delimiter")]
        if with_conv:
            for u in uris:
                steps.append(q(0, "is_uri", u))
            if rng.random() < 0.6:
                # history: the supplied converter is curated after a discovery run -- by a merge that teaches it the
                # base of some of the URIs, or by a fresh record -- and discovery is run again with it
                b = rng.choice(uris)
                base = b[: max(1, len(b) - rng.choice([1, 2, 3]))]
                if rng.random() < 0.7:
                    tail = [{"op": "add_prefix", "c": 0, "p": cps("known"), "u": cps("http://known.example/"), "ps": [],
                             "us": [cps(base)], "merge": True}]
                else:
                    tail = [{"op": "add_prefix", "c": 0, "p": cps("later"), "u": cps(base), "ps": [], "us": []}]
                tail += [q(0, "records"), q(0, "delimiter")] + [q(0, "is_uri", u) for u in uris]
                tail += [{"op": "discover", "dst": 20, "src": 0, "uris": [cps(u) for u in uris],
                          "delims": [cps(d) for d in delims], "cutoff": cutoff, "metaprefix": cps(meta), "alnum": alnum},
                         q(20, "records"), q(20, "delimiter")]
                for st in tail:
                    st["_tail"] = True
                steps += tail
        return {"steps": steps, "uris": uris, "delims": delims or ["#", "/", "_"], "cutoff": cutoff, "meta": meta,
                "with_conv": with_conv,
                "tags": [f"cutoff={cutoff}", f"delims={len(delims)}", "with-converter" if with_conv else "no-converter"]}

    def phase2(self, case, impl):
        extra = []
        if case["cutoff"] in (None, 0):
            for u in sorted(set(case["uris"])):
                extra.append(q(10, "compress", u))
        return extra

    def run_impl(self, case):
        impl = super().run_impl(case)
        if not case.get("phase3_done"):
            g = Getter(case, impl, 10)
            extra = []
            for u in sorted(set(case["uris"])):
                x = g("compress", u)
                if isinstance(x, str):
                    extra.append(q(10, "expand", x))
            case["phase3_done"] = True
            if extra:
                case["steps"] = case["steps"] + extra
                from .. import common
                impl = common.run_impl(case["steps"])
        return impl

    def nontrivial(self, case, impl):
        g = Getter(case, impl, 10)
        r = g("records")
        if not have(r) or not isinstance(r, list):
            return False
        us = [x["u"] for x in r]
        return any(a != b and b.startswith(a) for a in us for b in us)

    def evaluations(self, case):
        return 3

    def laws(self, case, impl):
        fails = []
        recs = [Getter(case, impl, 10 + k)("records") for k in range(3)]
        if all(have(r) and isinstance(r, list) for r in recs):
            key = lambda rs: [(r["p"], r["u"], tuple(r["ps"]), tuple(r["us"])) for r in rs]
            if not (key(recs[0]) == key(recs[1]) == key(recs[2])):
                fails.append("discover depends on the order or the repetition of the input URIs")
        r = recs[0]
        if not have(r) or not isinstance(r, list):
            for st, v in zip(case["steps"], impl):
                if st["op"] == "discover" and v is not None:
                    fails.append(f"discover raised {v!r}")
            return fails
        for x in r:
            if x["ps"] or x["us"]:
                fails.append("a discovered record has synonyms")
            if not any(x["u"].endswith(d) for d in case["delims"]):
                fails.append(f"discovered URI prefix {x['u']!r} does not end in one of the delimiters {case['delims']}")
        us = sorted(x["u"] for x in r)
        names = {x["u"]: x["p"] for x in r}
        for i, u in enumerate(us, 1):
            if names[u] != f"{case['meta']}{i}":
                fails.append(f"URI prefix #{i} in sorted order is named {names[u]!r}, expected {case['meta']}{i}")
        # expected prefixes by the documented rule
        g0 = Getter(case, impl, 0)
        want = {}
        for u in set(case["uris"]):
            if case["with_conv"]:
                k = g0("is_uri", u)
                if have(k) and k:
                    continue
            if u.startswith("https://github.com") and "issues" in u:
                continue   # known finding F9: such URIs are skipped on purpose
            for d in case["delims"]:
                if d not in u:
                    continue
                pre, luid = u.rsplit(d, 1)
                if luid.isalnum():
                    want.setdefault(pre + d, set()).add(luid)
                    break
        cutoff = case["cutoff"]
        exp = sorted(k for k, v in want.items() if cutoff is None or len(v) >= cutoff)
        if exp != us:
            fails.append(f"discovered URI prefixes {us}, expected {exp} (cutoff {cutoff})")
        # round trip
        if cutoff in (None, 0):
            g = Getter(case, impl, 10)
            for u in sorted(set(case["uris"])):
                qualifies = any(d in u and u.rsplit(d, 1)[1].isalnum() for d in case["delims"])
                if not qualifies:
                    continue
                if case["with_conv"]:
                    k = g0("is_uri", u)
                    if have(k) and k:
                        continue
                x = g("compress", u)
                if not have(x):
                    continue
                if not isinstance(x, str):
                    fails.append(f"{u!r} ends in an alphanumeric identifier after a delimiter but does not compress under the result")
                    continue
                back = g("expand", x)
                if have(back) and back != u:
                    fails.append(f"{u!r} compresses to {x!r} which expands to {back!r}")
        return fails

    def matches_known(self, entry, case, fails):
        if entry["id"] != "F9":
            return False
        gh = [u for u in case["uris"] if u.startswith("https://github.com") and "issues" in u]
        return bool(gh) and all("does not compress under the result" in f and any(repr(u) in f for u in gh) for f in fails)


PROPERTY = C19()
