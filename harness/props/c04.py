"""C04 — strict construction enforces one owner per CURIE prefix and per URI prefix."""
from __future__ import annotations

import copy

from .. import gen
from ..common import q, uncps, cps, rec
from ..progprop import ProgramProperty, results, is_exc, init_step, Getter, have


def plant_clash(rng, recs):
    """Copy of `recs` with one or two planted clashes; returns (records, kinds)."""
    recs = copy.deepcopy(recs)
    kinds = []
    if len(recs) < 2:
        recs.append(rec("zz", "zz:"))
    if rng.random() < 0.2:
        # a whole record repeated: identical, with permuted synonyms, or identical up to ",".join of the synonyms
        i = rng.randrange(len(recs))
        dup = copy.deepcopy(recs[i])
        how = rng.choice(["identical", "permuted", "joined", "pattern-differs", "pattern-differs"])
        if how == "pattern-differs":
            # same canonical prefix and URI prefix, one copy with a pattern and one without (or with another one): whatever
            # the constructor compares or sorts by must cope with the optional field
            dup["ps"], dup["us"] = [], []
            dup["pat"] = None if recs[i].get("pat") is not None else cps("^\\d+$")
        if how == "permuted":
            dup["ps"] = list(reversed(dup["ps"]))
            dup["us"] = list(reversed(dup["us"]))
        elif how == "joined":
            if len(dup["ps"]) >= 2:
                dup["ps"] = [sorted(dup["ps"])[0] + [44] + sorted(dup["ps"])[1]] + sorted(dup["ps"])[2:]
            elif not dup["ps"]:
                dup["ps"] = [[]]
        recs.insert(rng.randrange(len(recs) + 1), dup)
        return recs, [f"clash:whole-record:{how}"]
    for _ in range(rng.choice([1, 1, 2])):
        i, j = rng.sample(range(len(recs)), 2)
        side = rng.choice(["p", "u"])
        syn = "ps" if side == "p" else "us"
        src = rng.choice(["canonical", "synonym"])
        dst = rng.choice(["canonical", "synonym"])
        val = recs[i][side] if src == "canonical" or not recs[i][syn] else rng.choice(recs[i][syn])
        if dst == "canonical":
            if val in recs[j][syn]:
                continue
            recs[j][side] = val
        else:
            if val == recs[j][side]:
                continue
            recs[j][syn] = recs[j][syn] + [val]
        kinds.append(f"clash:{'curie' if side == 'p' else 'uri'}:{src}-{dst}")
    rng.shuffle(recs)
    return recs, kinds


class C04(ProgramProperty):
    id = "C04"
    theorems = ["C04_record", "C04_iff", "C04_which", "C04_listing", "C04_owner", "C04_bimap", "C04_loader_prefix_map",
                "C04_loader_priority", "C04_advertised_prefixes", "C04_advertised_canonical", "C04_advertised_uri",
                "C04_advertised_uri_prefixes", "C04_advertised_prefix_map", "C04_advertised_reverse_map"]
    lean_modules = ["CuriesVerif.Properties.C04", "CuriesVerif.Properties.Advertised"]
    rule = ("one case = one record collection, valid (60%, up to 12 records: no false rejections) or with one or two "
            "planted clashes (canonical-canonical, canonical-synonym, synonym-synonym on the CURIE side, the URI side "
            "or both; a record listing its own canonical value as synonym), in shuffled order, sent through "
            "Converter(...), the duplicate listing, and the loaders that can express it (from_prefix_map, "
            "from_priority_prefix_map, from_reverse_prefix_map, from_extended_prefix_map via records, from_jsonld); "
            "on success bimap / reverse_bimap / get_prefixes / get_uri_prefixes are read back. Non-trivial = a clash "
            "involving a synonym, or clashes on both sides at once. The same collection also goes through the extended-prefix-map loader (dicts, Record objects, load_extended_prefix_map); two history streams: a merge followed by reuse of the records in a new strict converter, and a merge into a sub-converter that claims a name of a parent record outside the restriction (the parent must stay one-owner unique).")

    def budget(self, tier):
        return 3000 if tier == "quick" else 100000

    def exhaustive(self, tier):
        from .. import smallscope

        return smallscope.run_collections(tier)

    def gen(self, rng, tier):
        big = rng.random() < 0.15
        recs = gen.records(rng, ":", nrec=rng.randint(7, 12) if big else None, forbid_delim=False)
        kinds = []
        r = rng.random()
        if r < 0.40:
            recs, kinds = plant_clash(rng, recs)
        elif r < 0.45:
            recs = copy.deepcopy(recs)
            k = rng.randrange(len(recs))
            if rng.random() < 0.5:
                recs[k]["ps"] = recs[k]["ps"] + [recs[k]["p"]]
            else:
                recs[k]["us"] = recs[k]["us"] + [recs[k]["u"]]
            kinds = ["self-synonym"]
        steps = [dict(init_step(0, recs), container=rng.choice(["list", "list", "tuple", "iter", "generator", "dict_values"])),
                 {"op": "dups", "records": recs}]
        steps += [q(0, "records"), q(0, "bimap"), q(0, "reverse_bimap"), q(0, "get_prefixes", s=True),
                  q(0, "get_uri_prefixes", s=True), q(0, "prefix_map"), q(0, "reverse_prefix_map")]
        # what the converter advertises is what it resolves (C04_advertised_*): every name of the collection, and a
        # neighbour of each that is (usually) not registered, is fed back to standardize_prefix / parse_uri
        steps.append(q(0, "get_prefixes"))
        for name in self.probe_names(recs, "p", "ps"):
            steps.append(q(0, "standardize_prefix", name))
        for name in self.probe_names(recs, "u", "us"):
            steps.append(q(0, "parse_uri", name))
        # the loaders, on the projections they can express
        pm = []
        seen = set()
        for rr in recs:
            for p in [rr["p"]] + rr["ps"]:
                if tuple(p) not in seen:        # dict keys are unique
                    seen.add(tuple(p))
                    pm.append([p, rr["u"]])
        steps.append({"op": "load_pm", "dst": 1, "data": pm})
        prio = []
        seen = set()
        for rr in recs:
            if tuple(rr["p"]) not in seen:
                seen.add(tuple(rr["p"]))
                prio.append([rr["p"], [rr["u"]] + rr["us"]])
        steps.append({"op": "load_priority", "dst": 2, "data": prio})
        rev = []
        seen = set()
        for rr in recs:
            for u in [rr["u"]] + rr["us"]:
                if tuple(u) not in seen:
                    seen.add(tuple(u))
                    rev.append([u, rr["p"]])
        rng.shuffle(rev)
        steps.append({"op": "load_reverse", "dst": 3, "data": rev})
        ctx = [[k, {"s": v}] if rng.random() < 0.7 else [k, {"pd": v}] for k, v in pm]
        steps.append({"op": "load_jsonld", "dst": 4, "data": ctx})
        # the extended-prefix-map loader on the very same collection (dicts / Record objects / module-level function)
        steps.append(dict(init_step(9, recs), via=rng.choice(["epm_dicts", "epm_records", "load_epm"])))
        steps += [q(9, "records"), q(9, "bimap")]
        # history stream: a converter acquires a synonym by merge, then its records are reused with a record
        # that claims the acquired synonym (the strict check must look at the records as they are now)
        if not kinds and len(recs) >= 2 and rng.random() < 0.5:
            tgt = rng.choice(recs)
            side = rng.choice(["p", "u"])
            newsyn = cps("acq" + gen.word(rng, 1, 2, syms=["a", "b", "1"]))
            if side == "p":
                steps.append({"op": "add_prefix", "c": 0, "p": newsyn, "u": tgt["u"], "merge": True})
                extra = rec("other", "http://other.example/", [uncps(newsyn)])
            else:
                steps.append({"op": "add_prefix", "c": 0, "p": tgt["p"], "u": newsyn, "merge": True})
                extra = rec("other", "http://other.example/", [], [uncps(newsyn)])
            if "other" not in gen.all_prefixes(recs):
                steps += [q(0, "records"), {"op": "fresh", "dst": 5, "src": 0, "extra": [extra]},
                          {"op": "fresh", "dst": 6, "src": 0, "extra": []}, q(6, "records")]
                kinds = kinds + ["history:merge-then-reuse-records"]
        # history stream 2: a restriction of the converter lives on and legally acquires, by merge, a name that belongs
        # to a record of the parent outside the restriction; the parent (a strict converter) must still be one-owner
        # unique and its records must still be accepted by the strict constructor
        elif not kinds and len(recs) >= 2 and rng.random() < 0.5:
            t, o = rng.sample(recs, 2)
            ext = {"ps": [o["p"]], "us": []} if rng.random() < 0.5 else {"ps": [], "us": [o["u"]]}
            steps += [{"op": "sub", "dst": 7, "src": 0, "prefixes": [t["p"]]},
                      {"op": "add_prefix", "c": 7, "p": t["p"], "u": t["u"], "merge": True, **ext},
                      q(7, "records"), q(0, "records"), q(0, "get_prefixes", s=True), q(0, "get_uri_prefixes", s=True),
                      {"op": "fresh", "dst": 8, "src": 0, "extra": []}, q(8, "records")]
            kinds = kinds + ["history:merge-into-subconverter"]
        nontrivial = any("synonym" in k for k in kinds) or len({k.split(":")[1] for k in kinds if k.startswith("clash")}) == 2
        return {"steps": steps, "nontrivial": nontrivial or (not kinds and len(recs) >= 4),
                "tags": (kinds if any(k.startswith("clash") or k == "self-synonym" for k in kinds)
                         else kinds + ["valid", f"records={len(recs)}"])}

    def tags(self, case, impl):
        out = list(case["tags"])
        v = impl[0]
        out.append("Converter:" + ("ok" if v is None else v.get("e", "?")))
        for st, v in zip(case["steps"], impl):
            if st["op"].startswith("load_"):
                out.append(st["op"] + ":" + ("ok" if v is None else v.get("e", "?")))
        return out

    @staticmethod
    def probe_names(recs, canon, syn):
        names = []
        for rr in recs:
            for x in [rr[canon]] + rr[syn]:
                x = uncps(x)
                for y in (x, x + "x", x[:-1]):
                    if y not in names:
                        names.append(y)
        return names[:40]

    def laws(self, case, impl):
        g = Getter(case, impl)
        fails = []
        # C04_advertised_prefixes / _canonical / _uri_prefixes, evaluated on the implementation's own answers
        gp, gpc, gu = g("get_prefixes", s=True), g("get_prefixes"), g("get_uri_prefixes", s=True)
        recs = next((st["records"] for st in case["steps"] if st["op"] == "init" and st.get("dst") == 0), [])
        if have(gp, gpc) and isinstance(gp, list) and isinstance(gpc, list):
            for name in self.probe_names(recs, "p", "ps"):
                sp = g("standardize_prefix", name)
                if not have(sp) or is_exc(sp):
                    continue
                if (name in gp) != (sp is not None):
                    fails.append(f"get_prefixes(include_synonyms=True) {'lists' if name in gp else 'does not list'} {name!r} "
                                 f"but standardize_prefix answers {sp!r}")
                if (name in gpc) != (sp == name):
                    fails.append(f"get_prefixes() {'lists' if name in gpc else 'does not list'} {name!r} "
                                 f"but standardize_prefix answers {sp!r}")
        if have(gu) and isinstance(gu, list):
            for name in self.probe_names(recs, "u", "us"):
                pu = g("parse_uri", name)
                if not have(pu) or is_exc(pu):
                    continue
                consumed = isinstance(pu, tuple) and pu[1] == ""
                if (name in gu) != consumed:
                    fails.append(f"get_uri_prefixes(include_synonyms=True) {'lists' if name in gu else 'does not list'} "
                                 f"{name!r} but parse_uri answers {pu!r}")
        bm, rbm = g("bimap"), g("reverse_bimap")
        if have(bm, rbm) and isinstance(bm, dict) and isinstance(rbm, dict):
            if {v: k for k, v in bm.items()} != rbm or len(set(bm.values())) != len(bm):
                fails.append(f"bimap {bm!r} and reverse_bimap {rbm!r} are not mutually inverse bijections")
        return fails

    def reductions(self, case):
        # keep the program shape (all steps are derived from the records); shrink via the generic reducer
        yield from super().reductions(case)


PROPERTY = C04()
