"""C05 — incrementally built converters stay consistent with their own records (histories)."""
from __future__ import annotations

import copy

from .. import gen
from ..common import q, uncps, cps, rec
from ..progprop import ProgramProperty, results, is_exc, init_step, Getter, have, pyval

SNAPSHOT = ["records", "prefix_map", "synonym_to_prefix", "reverse_prefix_map", "trie", "pattern_map"]
FOLD_PAIRS = [("ß", "SS"), ("ss", "ß"), ("İ", "i̇"), ("K", "k"), ("ǅ", "ǆ"), ("ſ", "s"), ("ﬁ", "FI"), ("fi", "ﬁ"), ("ς", "Σ")]


def variant(rng, s):
    """A string equal to `s` up to case (str.casefold), different as a string if possible."""
    for a, b in FOLD_PAIRS:
        if a in s and rng.random() < 0.5:
            return s.replace(a, b)
    cands = [s.upper(), s.lower(), s.swapcase(), s.title()]
    cands = [c for c in cands if c != s and c.casefold() == s.casefold()]
    return rng.choice(cands) if cands else s


class C05(ProgramProperty):
    id = "C05"
    theorems = ["C05_step", "C05_reject", "C05_shape", "C05_resolves", "C05_addPrefix", "C05_histories", "C05_fresh",
                "C05_histories_fresh", "C05_lookup_structures", "C05_reject_iff", "C05_afterAdd", "C05_afterAdd_reject",
                "C05_records_refine", "C05_advertised_histories"]
    lean_modules = ["CuriesVerif.Properties.C05", "CuriesVerif.Properties.Advertised"]
    rule = ("one case = a strict start converter and a history of 1-8 (thorough: up to 20) add_record / add_prefix "
            "operations with random case_sensitive / merge flags; each new record is fresh or overlaps existing "
            "records in one of the sixteen ways _match_record distinguishes (new canonical / new synonym x existing "
            "canonical / existing synonym x CURIE side / URI side x exact / equal only up to case, incl. ß/ss, İ), "
            "possibly bridging two records. After EVERY operation the records and the five lookup structures are "
            "read, a probe set (every registered prefix / URI prefix ± one symbol, strings of the new record) is "
            "queried, and the same probes are asked of a converter freshly built from the current records. "
            "Non-trivial = the history contains a merge followed by a rejection or another merge. In 20 % of the cases a twin "
            "converter goes through the same calls first, in 25 % a derivative (chain / get_subconverter / deep copy / pickle) of "
            "the converter is curated at the end and the converter is observed again; the Lean checker expects, after every "
            "add, exactly the records the history denotes (expectedAfterAdd).")
    assumptions = ["str.casefold is a parameter of the model (theorems hold for every folding function); the harness "
                   "ships the real casefold of every string of the case"]

    def budget(self, tier):
        return 1200 if tier == "quick" else 30000

    def exhaustive(self, tier):
        from .. import smallscope

        return smallscope.run_histories(tier)

    def gen(self, rng, tier):
        delim = rng.choice([":", ":", "/", "::"])
        start = gen.records(rng, delim, nrec=rng.choice([0, 1, 2, 3, 4]), forbid_delim=False) if rng.random() < 0.9 else []
        steps = [init_step(0, start, delim)]
        cur = copy.deepcopy(start)  # generator-side guess of the records (only to aim the overlaps)
        nops = rng.randint(1, 8 if tier == "quick" else 20)
        kinds = []
        for k in range(nops):
            # a fifth of the names carry a character whose case folding is not its lower case (ß -> ss, ﬁ -> fi, İ, ſ, final
            # sigma), so that later "equal up to case" overlaps separate str.casefold from str.lower / str.upper
            odd = lambda: rng.choice(["ß", "ﬁ", "İ", "ſ", "ς", "ss", "fi"]) if rng.random() < 0.2 else ""
            new = {"p": cps(gen.word(rng, 1, 3) + odd() + str(k)), "u": cps("n" + str(k) + odd() + gen.word(rng, 1, 2)), "ps": [],
                   "us": [], "pat": None}
            if rng.random() < 0.4:
                new["ps"] = [cps("s" + str(k) + gen.word(rng, 0, 1))]
            if rng.random() < 0.4:
                new["us"] = [cps("m" + str(k) + gen.word(rng, 0, 1))]
            if rng.random() < 0.15:
                new["pat"] = cps(rng.choice(["^\\d+$", "", "x+"]))
            # plant overlaps
            for _ in range(rng.choice([0, 1, 1, 1, 2])):
                if not cur:
                    break
                tgt = rng.choice(cur)
                side = rng.choice(["p", "u"])
                syn = "ps" if side == "p" else "us"
                pool = [tgt[side]] + tgt[syn]
                which = rng.randrange(len(pool))
                val = uncps(pool[which])
                exact = rng.random() < 0.6
                if not exact:
                    val = variant(rng, val)
                as_canon = rng.random() < 0.5
                if as_canon:
                    new[side] = cps(val)
                else:
                    new[syn] = new[syn] + [cps(val)]
                kinds.append(f"overlap:{'curie' if side == 'p' else 'uri'}:new-{'canonical' if as_canon else 'synonym'}:"
                             f"old-{'canonical' if which == 0 else 'synonym'}:{'exact' if exact else 'case'}")
            cs = rng.random() < 0.6
            merge = rng.random() < 0.65
            if new["pat"] is None and rng.random() < 0.4:
                steps.append({"op": "add_prefix", "c": 0, "p": new["p"], "u": new["u"], "ps": new["ps"], "us": new["us"],
                              "cs": cs, "merge": merge})
            else:
                steps.append({"op": "add_record", "c": 0, "record": new, "cs": cs, "merge": merge})
            cur.append(new)
            # observe
            for m in SNAPSHOT:
                steps.append(q(0, m))
            steps.append(q(0, "delimiter"))
            # what the converter advertises after the call is what it resolves (C05_advertised_histories): the names of the
            # new record (whether the call was accepted, merged or rejected) and of an older one are fed back
            steps += [q(0, "get_prefixes", s=True), q(0, "get_prefixes"), q(0, "get_uri_prefixes", s=True)]
            older = cur[(7 * k) % len(cur)]      # no draw from rng: the histories generated for a seed stay what they were
            for name in dict.fromkeys([uncps(new["u"])] + [uncps(x) for x in new["us"]] + [uncps(older["u"])]
                                      + [uncps(x) for x in older["us"]]):
                steps.append(q(0, "parse_uri", name))
            steps.append({"op": "fresh", "dst": 1, "src": 0})
            steps += [q(1, "records"), q(1, "delimiter")]
            probes_u = gen.uri_probes(rng, cur, 4) + [uncps(new["u"]) + "1"] + [uncps(x) + "z" for x in new["us"]]
            probes_p = gen.all_prefixes(cur)
            sel = rng.sample(probes_p, min(3, len(probes_p))) + [uncps(new["p"])] + [uncps(x) for x in new["ps"]]
            for c in (0, 1):
                for u in probes_u:
                    steps += [q(c, "compress", u), q(c, "standardize_uri", u)]
                for p in sel:
                    steps += [q(c, "expand", p + delim + "7"), q(c, "standardize_prefix", p), q(c, "expand_pair_all", p, "7")]
        if rng.random() < 0.2:
            # another converter in the same process went through exactly the same calls before (nothing a call builds
            # or remembers may be shared between converters)
            twin = [dict(init_step(5, start, delim), _tail=True)]
            twin += [dict(st, c=5, _tail=True) for st in steps if st["op"] in ("add_record", "add_prefix")]
            steps = twin + steps
            kinds.append("twin-with-the-same-history-first")
        if cur and rng.random() < 0.25:
            # the converter is derived from (chain / get_subconverter / deep copy / pickle) and the derivative is curated:
            # a merge into one of its records and a new record; the converter itself must not notice
            k = rng.choice(["chain", "sub", "deepcopy", "pickle"] if delim == ":" else ["deepcopy", "pickle"])
            if k == "chain":
                tail = [{"op": "chain", "dst": 6, "srcs": [0]}]
            elif k == "sub":
                tail = [{"op": "sub", "dst": 6, "src": 0, "prefixes": [r["p"] for r in cur]}]
            else:
                tail = [{"op": "clone", "dst": 6, "src": 0, "how": k}]
            t = rng.choice(cur)
            tail += [{"op": "add_prefix", "c": 6, "p": t["p"], "u": cps("http://derived.example/u/"), "ps": [cps("dsyn")],
                      "us": [cps("http://derived.example/u2/")], "merge": True},
                     {"op": "add_prefix", "c": 6, "p": cps("dnew"), "u": cps("http://derived.example/new/"), "ps": [], "us": []}]
            tail += [q(0, m) for m in SNAPSHOT] + [q(0, "delimiter")]
            tail += [q(0, "standardize_prefix", "dsyn"), q(0, "expand_pair", "dnew", "1"), q(0, "compress", "http://derived.example/u/1"),
                     q(0, "standardize_uri", "http://derived.example/u2/1"), q(0, "parse_uri", "http://derived.example/new/1")]
            steps += [dict(st, _tail=True) for st in tail]
            kinds.append("derivative-curated:" + k)
        return {"steps": steps, "delim": delim, "tags": kinds + [f"ops={nops}"]}

    def _ops(self, case, impl):
        """(step index, succeeded?, merged?) per add operation, from the observed record counts."""
        out = []
        last_len = None
        pending = None
        for i, (st, v) in enumerate(zip(case["steps"], impl)):
            if st["op"] in ("add_record", "add_prefix"):
                pending = (i, v is None)
            elif st["op"] == "q" and st["m"] == "records" and st["c"] == 0:
                n = len(v["r"]) if isinstance(v, dict) and "r" in v else None
                if pending is not None:
                    i0, ok = pending
                    out.append((i0, ok, ok and last_len is not None and n == last_len))
                    pending = None
                last_len = n
            elif st["op"] == "init" and st["dst"] == 0:
                last_len = len(st["records"]) if v is None else None
        return out

    def nontrivial(self, case, impl):
        ops = self._ops(case, impl)
        seen_merge = False
        for _, ok, merged in ops:
            if seen_merge and (not ok or merged):
                return True
            if merged:
                seen_merge = True
        return False

    def tags(self, case, impl):
        out = list(case["tags"])
        for _, ok, merged in self._ops(case, impl):
            out.append("op:" + ("merged" if merged else "appended" if ok else "rejected"))
        return out

    def evaluations(self, case):
        return sum(1 for st in case["steps"] if st["op"] in ("add_record", "add_prefix"))

    def size(self, case):
        return sum(1 for st in case["steps"] if st["op"] in ("add_record", "add_prefix"))

    def laws(self, case, impl):
        fails = []
        steps = case["steps"]
        # (1) a rejected call changes nothing; (2) the converter answers like a fresh one built from its records
        prev_snapshot = None
        i = 0
        last = {}
        pending_reject = False
        for st, v in zip(steps, impl):
            if st["op"] in ("add_record", "add_prefix"):
                if v is not None and not (isinstance(v, dict) and v.get("e") in ("valueError", "validation")):
                    fails.append(f"{st['op']} raised {v!r}, expected ValueError")
                pending_reject = v is not None
                prev_snapshot = dict(last)
                last = {}
            elif st["op"] == "q" and st["c"] == 0 and st["m"] in SNAPSHOT:
                from ..common import canon
                last[st["m"]] = canon(v, st["m"])
                if pending_reject and prev_snapshot and st["m"] in prev_snapshot and prev_snapshot[st["m"]] != last[st["m"]]:
                    fails.append(f"a rejected call changed {st['m']}")
        # (3) which calls are rejected: the new record matches several existing records, or one without merge --
        # "matches" meaning shares a CURIE prefix or URI prefix (canonical or synonym), up to case when
        # case_sensitive=False -- judged on the records observed before the call
        cur = None
        for st, v in zip(steps, impl):
            if st["op"] == "q" and st["c"] == 0 and st["m"] == "records" and isinstance(v, dict) and "r" in v:
                cur = pyval(v)
            elif st["op"] in ("add_record", "add_prefix") and st.get("c") == 0:
                if cur is not None and not (isinstance(v, dict) and v.get("e") == "validation"):
                    r = st["record"] if st["op"] == "add_record" else st
                    np_ = [uncps(r["p"])] + [uncps(x) for x in r.get("ps", [])]
                    nu_ = [uncps(r["u"])] + [uncps(x) for x in r.get("us", [])]
                    norm = (lambda x: x) if st.get("cs", True) else (lambda x: x.casefold())
                    hits = [e for e in cur
                            if {norm(x) for x in np_} & {norm(x) for x in [e["p"]] + e["ps"]}
                            or {norm(x) for x in nu_} & {norm(x) for x in [e["u"]] + e["us"]}]
                    must_reject = len(hits) > 1 or (len(hits) == 1 and not st.get("merge", False))
                    if must_reject and v is None:
                        fails.append(f"{st['op']}(case_sensitive={st.get('cs', True)}, merge={st.get('merge', False)}) was accepted "
                                     f"although the new record matches {len(hits)} existing record(s): {[e['p'] for e in hits]}")
                    if not must_reject and v is not None:
                        fails.append(f"{st['op']}(case_sensitive={st.get('cs', True)}, merge={st.get('merge', False)}) raised {v!r} "
                                     f"although the new record matches {len(hits)} existing record(s)")
                cur = None
        # (4) advertised = resolved, after every call (C05_advertised_histories evaluated on the implementation's answers)
        adv = {}
        for st, v in zip(steps, impl):
            if st["op"] in ("add_record", "add_prefix") and st.get("c") == 0:
                adv = {}
            if st["op"] != "q" or st["c"] != 0 or (isinstance(v, dict) and ("e" in v or "bad" in v)):
                continue
            if st["m"] in ("get_prefixes", "get_uri_prefixes"):
                adv[(st["m"], bool(st.get("s")))] = pyval(v)
            elif st["m"] == "standardize_prefix" and not st.get("s") and not st.get("p"):
                name, ans = uncps(st["a"][0]), pyval(v)
                for key, want in ((("get_prefixes", True), ans is not None), (("get_prefixes", False), ans == name)):
                    if key in adv and (name in adv[key]) != want:
                        fails.append(f"get_prefixes(include_synonyms={key[1]}) {'lists' if name in adv[key] else 'does not list'} "
                                     f"{name!r} but standardize_prefix answers {ans!r}")
            elif st["m"] == "parse_uri" and not st.get("s") and len(st.get("a", [])) == 1:
                name, ans = uncps(st["a"][0]), pyval(v)
                key = ("get_uri_prefixes", True)
                consumed = isinstance(ans, tuple) and ans[1] == ""
                if key in adv and (name in adv[key]) != consumed:
                    fails.append(f"get_uri_prefixes(include_synonyms=True) {'lists' if name in adv[key] else 'does not list'} "
                                 f"{name!r} but parse_uri answers {ans!r}")
        # fresh comparison
        by = {}
        for st, v in zip(steps, impl):
            if st["op"] in ("add_record", "add_prefix"):
                by = {}
            if st["op"] == "q" and st["m"] not in SNAPSHOT and st["m"] != "delimiter":
                key = (st["m"], tuple(map(tuple, st.get("a", []))), st.get("s", False), st.get("p", False))
                if st["c"] == 0:
                    by[key] = v
                elif st["c"] == 1 and key in by and by[key] != v:
                    fails.append(f"{st['m']}({', '.join(repr(uncps(a)) for a in st.get('a', []))}) answers {pyval(by[key])!r} "
                                 f"but a converter freshly built from the current records answers {pyval(v)!r}")
        return fails


PROPERTY = C05()
