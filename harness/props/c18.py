"""C18 — the mapping service returns exactly the equivalent URIs, in the requested format."""
from __future__ import annotations

import json
import sys
import types
import warnings

from .. import common, gen
from ..common import cps, uncps, rec
from ..simpleprop import SimpleProperty

warnings.filterwarnings("ignore")
SUPPORTED_EXTRA = ["text/html", "*/*", "application/x-binary-rdf-results-table", "text/tab-separated-values", "text/plain",
                   "application/*", "text/*"]
SAFE = ["a", "b", "1", "_", "-", ".", "G", "O", "é", "日", "Ü", "%20", "𝔘"]


def _stub_multipart():
    if "python_multipart" not in sys.modules:
        m = types.ModuleType("python_multipart")
        m.__version__ = "0.0.20"
        sys.modules["python_multipart"] = m


def sparql(u, direction, placement, pred="owl:sameAs"):
    known, other = ("?s", "?o") if direction == "subject" else ("?o", "?s")
    values = f"VALUES {known} {{ <{u}> }}"
    pat = f"?s {pred} ?o ."
    pre = "PREFIX owl: <http://www.w3.org/2002/07/owl#> PREFIX skos: <http://www.w3.org/2004/02/skos/core#> "
    if placement == "inside":
        return pre + f"SELECT DISTINCT ?s ?o WHERE {{ {values} {pat} }}"
    return pre + f"SELECT DISTINCT ?s ?o WHERE {{ {pat} }} {values}"


def make_header(rng, supported, synonyms):
    pool = list(supported) + list(synonyms) + SUPPORTED_EXTRA
    n = rng.randint(1, 4)
    types_ = rng.sample(pool, n)
    parts, text = [], []
    for t in types_:
        if rng.random() < 0.6:
            q = rng.choice([1000, 900, 800, 500, 501, 100, 1, 0, 0, rng.randint(0, 1000)])
            qs = ("%.3f" % (q / 1000)).rstrip("0").rstrip(".") if rng.random() < 0.7 else "%.3f" % (q / 1000)
            sep = rng.choice([";q=", "; q=", " ;q=", " ; q="])
            params = rng.choice(["", "", "", ";charset=utf-8", "; charset=UTF-8", ";profile=x;charset=utf-8"])   # media-range parameters
            ext = rng.choice(["", "", "", ";ext=1"])                                                             # accept-ext
            text.append(t + params + sep + qs + ext)
        else:
            q = 1000
            text.append(t)
        parts.append([t, q])
    return rng.choice([",", ", ", " , ", ",  "]).join(text), parts


class C18(SimpleProperty):
    id = "C18"
    theorems = ["C18_answers", "C18_answers_expand_all", "C18_unconfigured", "C18_header_supported", "C18_header_absent", "C18_header_max", "C18_header_text"]
    lean_modules = ["CuriesVerif.Properties.C18"]
    rule = ("one case = one strict converter (default delimiter) with overlapping valid-IRI URI prefixes and synonyms, "
            "3 URIs (written with a canonical URI prefix, with a synonym, unrecognised) each queried in both binding "
            "directions with the VALUES block inside and after the WHERE block, over the configured predicate and over "
            "skos:exactMatch, through graph.query with the custom processor, Flask GET and POST, and FastAPI GET; "
            "answers are compared as sets with the model and with expand_all(compress(u)) of the real converter; plus "
            "30 Accept headers built from the RFC 7231 grammar (supported, synonym and unsupported media types, q-values "
            "with up to 3 decimals, optional whitespace around ',' and ';') for handle_header. Non-trivial = a URI "
            "whose record has at least two URI prefixes. URIs include non-ASCII IRIs and percent-escapes; 40 % of the graphs / apps are built from a converter that is still being curated and answer every query once before it acquires the remaining records and synonyms; q-values include 0, media ranges (application/*, text/*) occur, and 8 headers per case are also sent through Flask GET / POST and FastAPI GET, whose Content-Type must be handle_header's answer. The predicate is also written with a graph-bound prefix (no PREFIX declaration) and through initNs, after a second graph over the same converter with the bindings swapped answered the same texts; 30 % of the cases first run a second mapping service with regrouped URI prefixes; URI prefixes include U+00A0 / U+3000 / U+2028; nested URI prefixes of different records are asked about shorter-then-longer.")
    assumptions = ["rdflib's SPARQL parser / evaluator and the VALUES re-ordering are exercised, not modelled",
                   "FastAPI POST cannot run in this sandbox (python-multipart is not installed and not in the wheelhouse); a stub "
                   "module lets the router be built so that FastAPI GET is exercised; FastAPI POST is not covered",
                   "rdflib's _is_valid_uri is the model's validIri parameter (its character table is read from the live module)"]

    def budget(self, tier):
        return 48 if tier == "quick" else 1600

    def gen(self, rng, tier):
        bases = ["http://a.example/", "http://a.example/x_", "https://b.example/id/", "http://c.example/c#", "urn:d:",
                 "http://ü.example/日本/", "https://de.example/wiki/Ü",
                 # characters of the Unicode White_Space class other than the ASCII space are ordinary IRI characters
                 "http://nbsp.example/a\u00a0b/", "http://wide.example/\u3000/x\u2028"]
        n = rng.randint(1, 3)
        uris = rng.sample(bases, min(len(bases), n + rng.randint(0, 2)))
        if n >= 2 and rng.random() < 0.35:
            uris = ["http://a.example/", "http://a.example/x_"] + [u for u in uris if not u.startswith("http://a.example/")][:n]
            rng.shuffle(uris)
        groups = gen.deal(rng, uris, n)
        recs = [rec(f"p{k}", g[0], [f"s{k}"] if rng.random() < 0.5 else [], g[1:]) for k, g in enumerate(groups)]
        qs = []
        allu = [u for g in groups for u in g]
        for _ in range(3):
            r = rng.random()
            ident = "".join(rng.choice(SAFE) for _ in range(rng.choice([0, 1, 2, 3, 4])))   # also exactly a URI prefix
            if r < 0.7:
                qs.append(rng.choice(allu) + ident)
            elif r < 0.85:
                # not a URI of the converter, but shaped like one of its CURIEs (scheme = a registered prefix or synonym)
                names = [uncps(x) for r_ in recs for x in [r_["p"]] + r_["ps"]]
                qs.append(rng.choice(names) + ":" + (ident or "x"))
            else:
                qs.append("http://unknown.example/" + ident)
        nested = [(a, b) for a in allu for b in allu if a != b and b.startswith(a)
                  and not any(a in [uncps(r_["u"])] + [uncps(x) for x in r_["us"]] and b in [uncps(r_["u"])] + [uncps(x) for x in r_["us"]]
                              for r_ in recs)]
        if nested and rng.random() < 0.6:
            # nested URI prefixes owned by different records: a URI only the shorter one matches is asked about immediately
            # before a URI of the longer one (anything remembered from the previous URI must not decide the next one)
            a, b = rng.choice(nested)
            qs = [a + "q1", b + "1"] + qs[:2]
        case = {"records": recs, "uris": qs, "hseed": rng.randrange(10 ** 9)}
        if rng.random() < 0.3:
            case["decoy"] = True
        if rng.random() < 0.4:
            # the graph and the apps are built from a converter that is still being curated: they answer every query
            # once, then the converter acquires the remaining records and synonyms
            first, later = gen.split_history(rng, recs)
            case["hist"] = {"first": first, "later": [[k, r] for k, r in later]}
        return case

    def run_impl(self, case):
        import random

        import rdflib
        from rdflib.plugins.sparql import prepareQuery
        from curies import Converter
        from curies.mapping_service import MappingServiceGraph, MappingServiceSPARQLProcessor, get_flask_mapping_app
        from curies.mapping_service import utils as U

        _stub_multipart()
        hist = case.get("hist")
        if case.get("decoy") and len(case["records"]) > 1:
            # another mapping service lives in the same process: the same URI prefixes, grouped differently (every
            # record keeps its names and takes the next record's URI prefixes); it answers every query first
            n = len(case["records"])
            rot = [common.dec_record(dict(r, u=case["records"][(i + 1) % n]["u"], us=case["records"][(i + 1) % n]["us"]))
                   for i, r in enumerate(case["records"])]
            dconv = Converter(rot)
            dgraph = MappingServiceGraph(converter=dconv)
            dproc = MappingServiceSPARQLProcessor(graph=dgraph)
            dfl = get_flask_mapping_app(dconv).test_client()
            for u in case["uris"]:
                for direction in ("subject", "object"):
                    q = sparql(u, direction, "inside")
                    list(dgraph.query(q, processor=dproc))
                    dfl.get("/sparql", query_string={"query": q}, headers={"accept": "application/json"})
        conv = Converter([common.dec_record(r) for r in (hist["first"] if hist else case["records"])])
        graph = MappingServiceGraph(converter=conv)
        proc = MappingServiceSPARQLProcessor(graph=graph)
        out = {"graph": [], "other_pred": [], "flask_get": [], "flask_post": [], "fastapi_get": [], "expand_all": []}
        fl = get_flask_mapping_app(conv).test_client()
        try:
            from curies.mapping_service import get_fastapi_mapping_app
            from starlette.testclient import TestClient

            fa = TestClient(get_fastapi_mapping_app(conv))
        except Exception as e:  # noqa: BLE001
            fa = None
            out["fastapi_error"] = type(e).__name__

        def rows(res, other):
            return sorted({str(r[other]) for r in res})

        def http_rows(text, other):
            data = json.loads(text)
            return sorted({b[other]["value"] for b in data["results"]["bindings"]})

        if hist:
            for u in case["uris"]:
                for direction in ("subject", "object"):
                    q = sparql(u, direction, "inside")
                    list(graph.query(q, processor=proc))
                    fl.get("/sparql", query_string={"query": q}, headers={"accept": "application/json"})
                    if fa is not None:
                        fa.get("/sparql", params={"query": q}, headers={"accept": "application/json"})
            for kind, r in hist["later"]:
                conv.add_record(common.dec_record(r), merge=(kind == "merge"))
        # the predicate written with a prefix that the *graph* binds (no PREFIX declaration in the text): the service graph
        # binds m: to owl: and m2: to some other vocabulary; a second service graph over the same converter binds them the other
        # way round and is asked the same texts first.  What a prefixed name means is decided per graph and per call.
        OTHER = rdflib.Namespace("http://other.example/vocabulary#")
        graph.bind("m", rdflib.OWL, override=True, replace=True)
        graph.bind("m2", OTHER, override=True, replace=True)
        g2 = MappingServiceGraph(converter=conv)
        g2.bind("m", OTHER, override=True, replace=True)
        g2.bind("m2", rdflib.OWL, override=True, replace=True)
        p2 = MappingServiceSPARQLProcessor(graph=g2)

        def bound_text(u, direction, pfx):
            known = "?s" if direction == "subject" else "?o"
            return f"SELECT DISTINCT ?s ?o WHERE {{ VALUES {known} {{ <{u}> }} ?s {pfx}:sameAs ?o . }}"

        for u in case["uris"]:
            c = conv.compress(u)
            out["expand_all"].append(None if c is None else list(conv.expand_all(c) or []))
            per = {}
            for direction, other in (("subject", "o"), ("object", "s")):
                tm, tm2 = bound_text(u, direction, "m"), bound_text(u, direction, "m2")
                per[f"otherpred-swapped-bindings/{direction}"] = rows(g2.query(tm, processor=p2), other)
                per[f"swapped-bindings/{direction}"] = rows(g2.query(tm2, processor=p2), other)
                per[f"graph-bound-prefix/{direction}"] = rows(graph.query(tm, processor=proc), other)
                per[f"otherpred-graph-bound-prefix/{direction}"] = rows(graph.query(tm2, processor=proc), other)
                per[f"initNs/{direction}"] = rows(graph.query(bound_text(u, direction, "x"), processor=proc, initNs={"x": rdflib.OWL}), other)
                per[f"otherpred-initNs/{direction}"] = rows(graph.query(bound_text(u, direction, "x"), processor=proc, initNs={"x": OTHER}), other)
            for direction, other in (("subject", "o"), ("object", "s")):
                for placement in ("inside", "after"):
                    q = sparql(u, direction, placement)
                    per[f"{direction}/{placement}"] = rows(graph.query(q, processor=proc), other)
                    per[f"prepared/{direction}/{placement}"] = rows(graph.query(prepareQuery(q), processor=proc), other)
                    hdr = {"accept": "application/json"}
                    per[f"flask_get/{direction}/{placement}"] = http_rows(fl.get("/sparql", query_string={"query": q}, headers=hdr).text, other)
                    per[f"flask_post/{direction}/{placement}"] = http_rows(fl.post("/sparql", data={"query": q}, headers=hdr).text, other)
                    if fa is not None:
                        per[f"fastapi_get/{direction}/{placement}"] = http_rows(fa.get("/sparql", params={"query": q}, headers=hdr).text, other)
                per[f"otherpred/{direction}"] = rows(graph.query(sparql(u, direction, "inside", "skos:exactMatch"), processor=proc), other)
            out["graph"].append(per)
        # headers
        rng = random.Random(case["hseed"])
        supported = list(U.CONTENT_TYPE_TO_RDFLIB_FORMAT)
        synonyms = dict(U.CONTENT_TYPE_SYNONYMS)
        hs = [make_header(rng, supported, synonyms) for _ in range(30)]
        hs += [("", None), (None, None)]
        hs += [tuple(x) for x in case.get("extra_headers", [])]
        def negotiate(t):
            try:
                return U.handle_header(t)
            except Exception as e:  # noqa: BLE001   (a well-formed header must not make the parser raise)
                return "raised " + type(e).__name__

        out["headers"] = [{"text": t, "parts": p, "got": negotiate(t)} for t, p in hs]
        # the same negotiation through the transports: the Content-Type of the response to a query sent with that header
        q0 = sparql(case["uris"][0], "subject", "inside")
        via = []
        for t, _p in hs[:8]:
            if t is None:
                continue
            def ctype(call):
                try:
                    r_ = call()
                    return r_.headers.get("content-type") if r_.status_code == 200 else f"status {r_.status_code}"
                except Exception as e:  # noqa: BLE001   (test clients re-raise server errors)
                    return "raised " + type(e).__name__

            row = {"text": t,
                   "flask_get": ctype(lambda: fl.get("/sparql", query_string={"query": q0}, headers={"accept": t})),
                   "flask_post": ctype(lambda: fl.post("/sparql", data={"query": q0}, headers={"accept": t}))}
            if fa is not None:
                row["fastapi_get"] = ctype(lambda: fa.get("/sparql", params={"query": q0}, headers={"accept": t}))
            via.append(row)
        out["via_http"] = via
        out["tables"] = {"supported": supported, "synonyms": synonyms, "default": U.DEFAULT_CONTENT_TYPE}
        from rdflib import term

        out["invalid"] = sorted(ord(ch) for ch in getattr(term, "_invalid_uri_chars", '<>" {}|\\^`'))
        return out

    def request(self, case, impl):
        # two driver requests are needed; pack them into one "multi" request understood below
        return {"k": "mapping", "records": case["records"], "invalid": impl["invalid"], "uris": [cps(u) for u in case["uris"]],
                "_header": {"k": "header", "synonyms": [[cps(k), cps(v)] for k, v in impl["tables"]["synonyms"].items()],
                            "supported": [cps(x) for x in impl["tables"]["supported"]],
                            "default": cps(impl["tables"]["default"]),
                            "headers": [None if h["parts"] is None else [[cps(t), q] for t, q in h["parts"]]
                                        for h in impl["headers"]]}}

    def compare(self, case, impl, resp):
        diffs = []
        model = [sorted(uncps(x) for x in a) for a in resp["answers"]]
        for k, u in enumerate(case["uris"]):
            for key, got in impl["graph"][k].items():
                want = [] if key.startswith("otherpred") else model[k]
                if got != want:
                    diffs.append({"step": k, "op": f"{key} for <{u}>", "implementation": got, "model": want})
        hresp = common.run_driver([self.request(case, impl)["_header"]])[0]
        for h, t in zip(impl["headers"], hresp["types"]):
            if h["got"] != uncps(t):
                diffs.append({"step": 0, "op": f"handle_header({h['text']!r})", "implementation": h["got"], "model": uncps(t)})
        # the header as *text*: split on ',' and ';', strip, find the q parameter, read its value (Model/Header.lean)
        texts = [h["text"] for h in impl["headers"]]
        chars = sorted({ord(ch) for t in texts if t for ch in t})
        treq = {"k": "header_text", "space": [c for c in chars if chr(c).isspace()],
                "synonyms": [[cps(k), cps(v)] for k, v in impl["tables"]["synonyms"].items()],
                "supported": [cps(x) for x in impl["tables"]["supported"]], "default": cps(impl["tables"]["default"]),
                "texts": [None if t is None else cps(t) for t in texts]}
        tresp = common.run_driver([treq])[0]
        for h, t in zip(impl["headers"], tresp["types"]):
            m = t if isinstance(t, dict) else uncps(t)
            if h["got"] != m:
                diffs.append({"step": 0, "op": f"handle_header({h['text']!r}) [text-level model]", "implementation": h["got"], "model": m})
        return diffs

    def laws(self, case, impl):
        fails = []
        for k, u in enumerate(case["uris"]):
            ea = impl["expand_all"][k]
            want = sorted(set(x for x in (ea or []) if not any(ord(ch) in impl["invalid"] for ch in x)))
            for key, got in impl["graph"][k].items():
                w = [] if key.startswith("otherpred") else want
                if got != w:
                    fails.append(f"{key} for <{u}> returns {got}, expected exactly {w}")
        for row in impl.get("via_http", []):
            want = next(h["got"] for h in impl["headers"] if h["text"] == row["text"])
            for k, v in row.items():
                if k != "text" and (v or "").split(";")[0].strip() != want:
                    fails.append(f"{k} with Accept: {row['text']!r} answers Content-Type {v!r}, handle_header says {want!r}")
        t = impl["tables"]
        canon = lambda x: t["synonyms"].get(x, x)
        for h in impl["headers"]:
            got = h["got"]
            if h["parts"] is None:
                if got != t["default"]:
                    fails.append(f"handle_header({h['text']!r}) = {got!r}, expected the default")
                continue
            sup = [(canon(x), q) for x, q in h["parts"] if canon(x) in t["supported"]]
            if not sup:
                if got != t["default"]:
                    fails.append(f"handle_header({h['text']!r}) = {got!r} although no supported type is listed")
            else:
                best = max(q for _, q in sup)
                if got not in {x for x, q in sup if q == best}:
                    fails.append(f"handle_header({h['text']!r}) = {got!r}, expected a supported type with the highest q: "
                                 f"{sorted({x for x, q in sup if q == best})}")
        return fails

    def tags(self, case, impl):
        out = ["second-service-in-process"] if case.get("decoy") else []
        for ea in impl["expand_all"]:
            out.append("answers=" + ("unrecognised" if ea is None else str(min(len(ea), 3))))
        out.append("fastapi=" + ("unavailable" if "fastapi_error" in impl else "get-only"))
        for h in impl["headers"]:
            out.append("header->" + h["got"].split("+")[-1])
        return out

    def nontrivial(self, case, impl):
        return any(ea is not None and len(ea) >= 2 for ea in impl["expand_all"])

    def evaluations(self, case):
        return len(case["uris"]) * 30 + 32

    def readable(self, case, impl):
        recs = "; ".join(common.show_record(r) for r in case["records"])
        out = [f"Converter([{recs}])"]
        if case.get("decoy") and len(case["records"]) > 1:
            out.insert(0, "(first, in the same process: a second mapping service -- every record keeps its names and takes the next "
                          "record's URI prefixes -- answered the same queries)")
        if case.get("hist"):
            out.append("reached by: Converter([" + "; ".join(common.show_record(r) for r in case["hist"]["first"]) + "]), graph and apps "
                       "built and every query asked once, then " + ", ".join(
                           f"add_record({common.show_record(r)}, merge={k == 'merge'})" for k, r in case["hist"]["later"]))
        for k, u in enumerate(case["uris"]):
            out.append(f"<{u}>: expand_all(compress) = {impl['expand_all'][k]}; service answers = {impl['graph'][k]}")
        out += [f"handle_header({h['text']!r}) -> {h['got']}" for h in impl["headers"][:8]]
        return out

    def reductions(self, case):
        for i in range(len(case["uris"])):
            if len(case["uris"]) > 1:
                yield {**case, "uris": [case["uris"][i]]}
        if case.get("hist"):
            yield {k: v for k, v in case.items() if k != "hist"}


PROPERTY = C18()
