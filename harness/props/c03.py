"""C03 — compression is lossless; compress and expand are inverse on prefix-free maps."""
from __future__ import annotations

from .. import gen
from ..common import q, uncps, rec
from ..progprop import case_records, ProgramProperty, results, is_exc, init_step, Getter, have, MISSING


class C03(ProgramProperty):
    id = "C03"
    theorems = ["C03_member", "C03_std", "C03_std_canonical", "C03_expand_compressible", "C03_ce", "C03_ec", "C03_bijection"]
    lean_modules = ["CuriesVerif.Properties.C03"]
    rule = ("one case = one strict converter whose CURIE prefixes do not contain the delimiter, from the overlap "
            "lattice generator (lossless clauses) or, in half of the cases, from the prefix-free generator "
            "(bijection clauses); 6 URIs around the registered URI prefixes (identifiers that look like another "
            "record's URI-prefix tail) and 6 CURIEs with known prefixes / synonyms / the empty prefix. Phase 2 "
            "feeds the implementation's own answers back: expand_all / expand / standardize_curie of what compress "
            "returned, compress / is_uri / standardize_uri of what expand returned. Non-trivial = a URI written "
            "with a URI-prefix synonym or a CURIE written with a prefix synonym round-trips. Converters are built directly or through histories (queried, extended with new records and merges, a rejected call) as in C02.")

    def exhaustive(self, tier):
        from .. import smallscope

        return smallscope.run(self.id, tier)

    def gen(self, rng, tier):
        delim = rng.choice(gen.DELIMS)
        pf = rng.random() < 0.5
        recs = gen.records(rng, delim, prefix_free=pf, patterns=False)
        if len(delim) > 1 and rng.random() < 0.15:
            bad = rng.choice(["a", "GO"]) + delim[:-1]
            if bad not in gen.all_prefixes(recs):
                recs = recs + [rec(bad, "k2:" + rng.choice(["q/", "r_"]))]
                us = gen.all_uris(recs)
                pf = pf and not any(a != b and b.startswith(a) for a in us for b in us)
        uris = gen.uri_probes(rng, recs, 6)
        ps = gen.all_prefixes(recs)
        curies = [rng.choice(ps) + delim + gen.identifier(rng, delim) for _ in range(5)] + \
            gen.curie_probes(rng, recs, delim, 1)
        steps = []
        for u in uris:
            steps += [q(0, "compress", u), q(0, "standardize_uri", u)]
        for c in curies:
            steps += [q(0, "expand", c), q(0, "standardize_curie", c)]
        us = gen.all_uris(recs)
        actually_pf = not any(a != b and b.startswith(a) for a in us for b in us)
        steps, how = gen.build_steps(rng, recs, delim, steps)
        _build_tag = "build=" + how
        return {"steps": steps, "uris": uris, "curies": curies, "delim": delim, "prefix_free": actually_pf,
                "tags": [f"delim={delim!r}", "prefix-free" if actually_pf else "overlapping", _build_tag]}

    def phase2(self, case, impl):
        g = Getter(case, impl)
        extra = []
        for u in case["uris"]:
            x = g("compress", u)
            if isinstance(x, str):
                extra += [q(0, "expand_all", x), q(0, "expand", x), q(0, "standardize_curie", x)]
            su = g("standardize_uri", u)
            if isinstance(su, str):
                extra += [q(0, "compress", su), q(0, "standardize_uri", su)]
        for c in case["curies"]:
            v = g("expand", c)
            if isinstance(v, str):
                extra += [q(0, "is_uri", v), q(0, "compress", v), q(0, "standardize_uri", v)]
        return extra

    def nontrivial(self, case, impl):
        g = Getter(case, impl)
        for u in case["uris"]:
            su = g("standardize_uri", u)
            if isinstance(su, str) and su != u:
                return True
        for c in case["curies"]:
            sc = g("standardize_curie", c)
            if isinstance(sc, str) and sc != c:
                return True
        return False

    def laws(self, case, impl):
        g = Getter(case, impl)
        fails = []
        pf = case["prefix_free"]
        for u in case["uris"]:
            x, su = g("compress", u), g("standardize_uri", u)
            if not isinstance(x, str):
                continue
            ea, ex = g("expand_all", x), g("expand", x)
            if have(ea) and (not isinstance(ea, list) or u not in ea):
                fails.append(f"compress({u!r})={x!r} but {u!r} is not among expand_all({x!r})={ea!r}")
            if have(ex, su) and ex != su:
                fails.append(f"compress({u!r})={x!r}: expand({x!r})={ex!r} differs from standardize_uri({u!r})={su!r}")
        for c in case["curies"]:
            v, sc = g("expand", c), g("standardize_curie", c)
            if not isinstance(v, str):
                continue
            iu, cv = g("is_uri", v), g("compress", v)
            if have(iu) and iu is not True:
                fails.append(f"expand({c!r})={v!r} is not compressible (is_uri={iu!r})")
            if pf and have(cv, sc) and cv != sc:
                fails.append(f"prefix-free map: compress(expand({c!r}))={cv!r} != standardize_curie({c!r})={sc!r}")
        return fails

    def matches_known(self, entry, case, fails):
        if entry["id"] != "K2":
            return False
        d = case["delim"]
        if len(d) < 2:
            return False
        bad = []
        for r in case_records(case):
            for p in [uncps(r["p"])] + [uncps(x) for x in r.get("ps", [])]:
                if d not in p and not gen.delim_ok(d, p):
                    bad.append(p)
        # failing instances must involve a CURIE that starts with such a prefix
        return bool(bad) and all(any(repr(p + d)[1:-1] in f for p in bad) for f in fails)


PROPERTY = C03()
