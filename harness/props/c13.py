"""C13 — every loader yields exactly the converter its input format denotes."""
from __future__ import annotations

import copy
import json
import os
import tempfile
from pathlib import Path

from .. import common, gen
from ..common import q, uncps, cps, rec
from ..progprop import ProgramProperty, Getter, have, is_exc, init_step, pyval

FILE_OPS = {"load_file_pm": "load_pm", "load_file_jsonld": "load_jsonld", "load_file_epm": "init"}


def safe(s: str) -> bool:
    try:
        s.encode("utf-8")
        return True
    except UnicodeEncodeError:
        return False


class C13(ProgramProperty):
    id = "C13"
    theorems = ["C13_pm", "C13_priority", "C13_reverse_canonical", "C13_jsonld", "C13_upgrade_canonical", "C13_upgrade_recOK", "C13_upgrade_ok",
                "C13_upgrade_accepted", "C13_upgrade_perm", "C13_reverse_complete"]
    lean_modules = ["CuriesVerif.Properties.C13"]
    rule = ("one case = one random prefix map (possibly non-bijective: several CURIE prefixes for one URI prefix), "
            "loaded through from_prefix_map, from_priority_prefix_map (grouped), from_reverse_prefix_map, "
            "from_extended_prefix_map (records as dicts), from_jsonld (plain strings, @prefix dictionaries, and "
            "ignored terms: @base, @vocab, '', numbers, null, dictionaries without @prefix), from_rdflib "
            "(bind_namespaces='none', incl. a default namespace), upgrade_prefix_map in two dictionary orders, and "
            "from JSON files given as str and as Path; records, bimap and expand / compress / standardize answers "
            "are read from every loaded converter. Non-trivial = the map is non-bijective or a reverse-map group has "
            "two URI prefixes of the same minimal length. File names include local names that look like 'scheme:rest'. In 40 % of the cases a loaded converter is curated (merge) and the same data is loaded again. In 30 % of the cases every loader of the case is called with delimiter=... and must return a converter with that delimiter.")

    def budget(self, tier):
        return 1200 if tier == "quick" else 30000

    def gen(self, rng, tier):
        recs = gen.records(rng, ":", forbid_delim=False, patterns=False)
        # keep strings JSON-file-safe (no lone surrogates) for the file loaders
        def ok(r):
            return all(safe(uncps(x)) for x in [r["p"], r["u"]] + r["ps"] + r["us"])
        recs = [r for r in recs if ok(r)] or [rec("a", "http://a/")]
        pm = []  # possibly non-bijective prefix map: every prefix -> canonical URI prefix
        for r in recs:
            for p in [r["p"]] + r["ps"]:
                pm.append([p, r["u"]])
        rng.shuffle(pm)
        bij = [[r["p"], r["u"]] for r in recs]
        prio = [[r["p"], [r["u"]] + r["us"]] for r in recs]
        rev = []
        for r in recs:
            for u in [r["u"]] + r["us"]:
                rev.append([u, r["p"]])
        rng.shuffle(rev)
        # every loader hands its keyword arguments on to the constructor: in 30 % of the cases all loaders of the case are
        # called with delimiter=... (the records use ':' freely in their names, so another delimiter is always legal here)
        kw = {"delim": cps(rng.choice(["/", "|", "::", "_"]))} if rng.random() < 0.3 else {}
        steps = []
        steps += [{"op": "load_pm", "dst": 0, "data": bij, **kw}]
        steps += [{"op": "load_priority", "dst": 1, "data": prio, **kw}]
        steps += [{"op": "load_reverse", "dst": 2, "data": rev, **kw}]
        steps += [init_step(3, recs)]                       # from_extended_prefix_map with dicts: see run_impl
        steps[-1]["via"] = "epm_dicts"
        if kw:
            steps[-1]["delim"] = kw["delim"]
        # ... and with Record objects / dicts handed over in other iterable types (generic interpreter)
        steps += [dict(init_step(11, recs), via=rng.choice(["epm_records", "epm_dicts2", "load_epm"]),
                       container=rng.choice(["list", "tuple", "iter", "generator", "dict_values"]), **kw)]
        ctx = []
        for k, v in bij:
            ctx.append([k, {"s": v}] if rng.random() < 0.6 else [k, {"pd": v}])
        for k, v in [("@base", {"s": cps("http://base/")}), ("@vocab", {"s": cps("http://vocab/")}), ("", {"s": cps("http://empty/")}),
                     # keys that start with '@' without being JSON-LD keywords are skipped all the same
                     ("@foo", {"s": cps("http://at-foo/")}), ("@Base", {"pd": cps("http://at-base/")}), ("@", {"s": cps("http://at/")}),
                     ("num", {"o": 5}), ("nul", {"o": None}), ("plain", {"o": {"@id": "http://x/"}}),
                     ("notprefix", {"o": {"@id": "http://y/", "@prefix": False}}), ("lst", {"o": ["a"]})]:
            if rng.random() < 0.4 and not any(uncps(k2) == k for k2, _ in bij):
                ctx.append([cps(k), v])
        rng.shuffle(ctx)
        steps += [{"op": "load_jsonld", "dst": 4, "data": ctx, **kw}]
        steps += [{"op": "load_upgrade", "dst": 5, "data": pm}]
        pm2 = list(pm)
        rng.shuffle(pm2)
        steps += [{"op": "upgrade", "data": pm}, {"op": "upgrade", "data": pm2}]
        steps += [{"op": "load_file_pm", "dst": 6, "data": bij, "as": rng.choice(["str", "relstr"]),
                   "name": rng.choice(["pm.json", "http_prefixes.json", "ftpdata.json", "https.json", "h.json",
                                      # local files whose names look like "scheme:rest" when given as relative str
                                      "obo:prefixes.json", "v1.2:ppm.json", "c:x.json", "file:pm.json", "urn:x:y.json",
                                      # a local file called exactly like a URL scheme
                                      "http", "https", "ftp"])},
                  {"op": "load_file_pm", "dst": 7, "data": bij, "as": "path", **kw},
                  {"op": "load_file_jsonld", "dst": 8, "data": ctx, "as": rng.choice(["str", "path"]), **kw},
                  {"op": "load_file_epm", "dst": 9, "records": recs, "as": rng.choice(["str", "path"]), **kw}]
        rdf = [[r["p"], r["u"]] for r in recs if all(ch.isalnum() for ch in uncps(r["p"])) or uncps(r["p"]) == ""]
        steps += [{"op": "load_rdflib", "dst": 10, "data": rdf, **kw}]
        probes_p = gen.all_prefixes(recs)[:6]
        probes_u = [u + "1" for u in gen.all_uris(recs)[:5]]
        for c in range(0, 12):
            steps += [q(c, "records"), q(c, "delimiter"), q(c, "bimap")]
            for p in probes_p:
                steps += [q(c, "expand_pair", p, "1"), q(c, "standardize_prefix", p)]
            for u in probes_u:
                steps += [q(c, "compress", u)]
        # history: a loaded converter is curated further (merge), then the same data is loaded again
        hist = []
        if rng.random() < 0.4:
            k = rng.choice([0, 1, 2, 4, 5])
            again = dict(next(st for st in steps if st.get("dst") == k and st["op"].startswith("load_")), dst=20)
            steps += gen.live_tail(rng, recs, k, [], redo=[again])
            hist = ["history:load-merge-load-again"]
        nonbij = len(pm) > len(recs)
        tie = any(len({len(u) for u in [r["u"]] + r["us"]}) < len([r["u"]] + r["us"]) for r in recs)
        return {"steps": steps, "recs": recs, "nontrivial": nonbij or tie,
                "tags": ["non-bijective" if nonbij else "bijective"] + (["reverse-tie"] if tie else []) + hist}

    # ---- execution: file / rdflib loaders are harness-level operations --------------------------
    def run_impl(self, case):
        import curies
        from curies import Converter

        steps = case["steps"]
        plain = []
        special = {}
        tmp = tempfile.mkdtemp(prefix="c13-")
        try:
            # run everything through the generic interpreter, substituting the harness-level loaders
            slots_override = {}
            for i, st in enumerate(steps):
                if st["op"] in FILE_OPS or st["op"] == "load_rdflib" or st.get("via") == "epm_dicts":
                    special[i] = st
            out = self._run(steps, special, tmp)
            return out
        finally:
            for f in os.listdir(tmp):
                os.unlink(os.path.join(tmp, f))
            os.rmdir(tmp)

    def _run(self, steps, special, tmp):
        """Like common.run_impl, but with the harness-level loader steps executed here."""
        import curies
        from curies import Converter

        prepared = []
        pending = {}
        # execute specials first into converters / errors, then splice them in via a private hook
        results = {}
        for i, st in special.items():
            try:
                if st.get("via") == "epm_dicts":
                    dicts = [{"prefix": uncps(r["p"]), "uri_prefix": uncps(r["u"]),
                              "prefix_synonyms": [uncps(x) for x in r["ps"]],
                              "uri_prefix_synonyms": [uncps(x) for x in r["us"]],
                              **({"pattern": uncps(r["pat"])} if r.get("pat") is not None else {})} for r in st["records"]]
                    results[i] = Converter.from_extended_prefix_map(
                        dicts, **({"delimiter": uncps(st["delim"])} if st.get("delim", [58]) != [58] else {}))
                elif st["op"] == "load_rdflib":
                    import rdflib

                    g = rdflib.Graph(bind_namespaces="none")
                    for p, u in st["data"]:
                        g.bind(uncps(p), rdflib.Namespace(uncps(u)))
                    st["_namespaces"] = [[cps(str(p)), cps(str(n))] for p, n in g.namespaces()]
                    results[i] = Converter.from_rdflib(g, **common.loader_kwargs(st))
                else:
                    path = os.path.join(tmp, st.get("name") or f"f{i}.json")
                    if st["op"] == "load_file_pm":
                        obj = {uncps(k): uncps(v) for k, v in st["data"]}
                        loader = curies.load_prefix_map
                    elif st["op"] == "load_file_jsonld":
                        obj = {"@context": common.jsonld_context(st["data"])}
                        loader = curies.load_jsonld_context
                    else:
                        obj = [{"prefix": uncps(r["p"]), "uri_prefix": uncps(r["u"]),
                                "prefix_synonyms": [uncps(x) for x in r["ps"]],
                                "uri_prefix_synonyms": [uncps(x) for x in r["us"]]} for r in st["records"]]
                        loader = curies.load_extended_prefix_map
                    with open(path, "w", encoding="utf-8") as f:
                        json.dump(obj, f, ensure_ascii=False)
                    if st["as"] == "relstr":
                        cwd = os.getcwd()
                        os.chdir(tmp)
                        try:
                            results[i] = loader(os.path.basename(path), **common.loader_kwargs(st))   # a relative location given as str
                        finally:
                            os.chdir(cwd)
                    else:
                        results[i] = loader(path if st["as"] == "str" else Path(path), **common.loader_kwargs(st))
            except Exception as e:  # noqa: BLE001
                results[i] = e
        return common.run_impl(steps, injected=results)

    def request(self, case, impl):
        # the model loads the *object*: file loaders are translated to their object counterparts
        dl = lambda st: {"delim": st["delim"]} if "delim" in st else {}
        steps = []
        for st in case["steps"]:
            if st["op"] == "load_file_pm":
                steps.append({"op": "load_pm", "dst": st["dst"], "data": st["data"], **dl(st)})
            elif st["op"] == "load_file_jsonld":
                steps.append({"op": "load_jsonld", "dst": st["dst"], "data": st["data"], **dl(st)})
            elif st["op"] == "load_file_epm":
                steps.append({"op": "init", "dst": st["dst"], "records": st["records"], **dl(st)})
            elif st["op"] == "load_rdflib":
                steps.append({"op": "load_pm", "dst": st["dst"], "data": st.get("_namespaces", st["data"]), **dl(st)})
            else:
                steps.append({k: v for k, v in st.items() if k != "via"})
        return {"k": "prog", "steps": steps, "obs": impl, "fold": []}

    def evaluations(self, case):
        return 11

    def laws(self, case, impl):
        fails = []
        # the keyword arguments reach the constructor: a loader called with delimiter=d returns a converter with that delimiter
        want = {st["dst"]: uncps(st.get("delim", [58])) for st in case["steps"]
                if st.get("dst") is not None and (st["op"].startswith("load_") or st["op"] == "init") and not st.get("_tail")}
        seen = set()
        for st, v in zip(case["steps"], impl):
            if st["op"] == "q" and st["m"] == "delimiter" and st["c"] in want and st["c"] not in seen and isinstance(v, dict) and "s" in v:
                seen.add(st["c"])
                v = uncps(v["s"])
                if v != want[st["c"]]:
                    how = next(s_["op"] + ("/" + s_["via"] if s_.get("via") else "") for s_ in case["steps"] if s_.get("dst") == st["c"])
                    fails.append(f"the converter loaded by {how} with delimiter={want[st['c']]!r} has the delimiter {v!r}")
        ups = [v for st, v in zip(case["steps"], impl) if st["op"] == "upgrade"]
        if len(ups) == 2 and ups[0] != ups[1]:
            fails.append("upgrade_prefix_map depends on the dictionary order")
        for st, v in zip(case["steps"], impl):
            if st["op"] == "load_upgrade" and v is not None:
                fails.append(f"a strict converter rejects the records of upgrade_prefix_map: {v!r}")
        # file loaders agree with object loaders
        g = {c: Getter(case, impl, c) for c in range(11)}
        for a, b, what in ((0, 6, "prefix map from a str path"), (0, 7, "prefix map from a Path"),
                           (4, 8, "JSON-LD context from a file"), (3, 9, "extended prefix map from a file")):
            ra, rb = g[a]("records"), g[b]("records")
            if have(ra, rb) and ra != rb:
                fails.append(f"{what} differs from loading the object")
        # upgrade: canonical prefix is the lexicographically first of its group
        if ups and isinstance(ups[0], dict) and "r" in ups[0]:
            for r in pyval(ups[0]):
                if any(p < r["p"] for p in r["ps"]):
                    fails.append(f"upgrade_prefix_map: {r['p']!r} is not the first of {sorted([r['p']] + r['ps'])}")
        return fails


PROPERTY = C13()
