"""C06 — standardisation is canonical, idempotent and meaning-preserving."""
from __future__ import annotations

from .. import gen
from ..common import q, uncps, rec
from ..progprop import case_records, ProgramProperty, results, is_exc, init_step, Getter, have, MISSING


class C06(ProgramProperty):
    id = "C06"
    theorems = ["C06_prefix", "C06_prefix_idem", "C06_curie", "C06_uri", "C06_curie_idem_partial", "C06_curie_meaning_partial", "C06_curie_idem_fails_without_delimOK", "C06_uri_idem", "C06_uri_meaning", "C06_uri_idem_needs_prefixfree"]
    lean_modules = ["CuriesVerif.Properties.C06"]
    rule = ("one case = one strict converter (half from the prefix-free generator; a low-rate stream plants a "
            "canonical prefix that contains the delimiter, known finding K1) with 4 prefixes, 5 CURIEs and 5 URIs "
            "(known / unknown / synonym / case variant); every function is applied to its own output (phase 2) "
            "and expand / compress are compared before and after standardisation. Non-trivial = some input "
            "is changed by standardisation (it was written with a synonym). Converters are built directly or through histories (queried, extended with new records and merges, a rejected call whose would-be names are probed afterwards).")

    def exhaustive(self, tier):
        from .. import smallscope

        return smallscope.run(self.id, tier)

    def gen(self, rng, tier):
        delim = rng.choice(gen.DELIMS)
        pf = rng.random() < 0.5
        recs = gen.records(rng, delim, prefix_free=pf, patterns=False)
        if rng.random() < 0.04:
            # K1 stream: canonical prefix containing the delimiter, with a clean synonym
            bad = "a" + delim + "b"
            if bad not in gen.all_prefixes(recs) and "k1syn" not in gen.all_prefixes(recs):
                recs = recs + [rec(bad, "k1:" + rng.choice(["q/", "r_"]), ["k1syn"])]
        ps = gen.all_prefixes(recs)
        prefixes = [rng.choice(ps) for _ in range(2)] + [rng.choice(gen.PREFIX_WORDS), rng.choice(ps).swapcase()]
        curies = [rng.choice(ps) + delim + gen.identifier(rng, delim) for _ in range(4)] + \
            gen.curie_probes(rng, recs, delim, 1)
        uris = gen.uri_probes(rng, recs, 5)
        steps = []
        for p in prefixes:
            steps.append(q(0, "standardize_prefix", p))
        for c in curies:
            steps += [q(0, "standardize_curie", c), q(0, "expand", c)]
        for u in uris:
            steps += [q(0, "standardize_uri", u), q(0, "compress", u)]
        us = gen.all_uris(recs)
        actually_pf = not any(a != b and b.startswith(a) for a in us for b in us)
        steps, how = gen.build_steps(rng, recs, delim, steps)
        _build_tag = "build=" + how
        return {"steps": steps, "prefixes": prefixes, "curies": curies, "uris": uris, "delim": delim,
                "prefix_free": actually_pf,
                "tags": [f"delim={delim!r}", "prefix-free" if actually_pf else "overlapping", _build_tag]}

    def phase2(self, case, impl):
        g = Getter(case, impl)
        extra = []
        for p in case["prefixes"]:
            v = g("standardize_prefix", p)
            if isinstance(v, str):
                extra.append(q(0, "standardize_prefix", v))
        for c in case["curies"]:
            v = g("standardize_curie", c)
            if isinstance(v, str):
                extra += [q(0, "standardize_curie", v), q(0, "expand", v)]
        for u in case["uris"]:
            v = g("standardize_uri", u)
            if isinstance(v, str):
                extra += [q(0, "standardize_uri", v), q(0, "compress", v)]
        return extra

    def nontrivial(self, case, impl):
        g = Getter(case, impl)
        return any(isinstance(g("standardize_curie", c), str) and g("standardize_curie", c) != c for c in case["curies"]) \
            or any(isinstance(g("standardize_uri", u), str) and g("standardize_uri", u) != u for u in case["uris"])

    def laws(self, case, impl):
        g = Getter(case, impl)
        fails = []
        pf = case["prefix_free"]
        recs = g("records")
        for p in case["prefixes"]:
            v = g("standardize_prefix", p)
            if have(recs, v) and not is_exc(v):
                owner = [r for r in recs if p == r["p"] or p in r["ps"]]
                want = owner[0]["p"] if len(owner) == 1 else None
                if v != want:
                    fails.append(f"standardize_prefix({p!r})={v!r}, expected {want!r}")
            if isinstance(v, str):
                vv = g("standardize_prefix", v)
                if have(vv) and vv != v:
                    fails.append(f"standardize_prefix not idempotent: {p!r} -> {v!r} -> {vv!r}")
        for c in case["curies"]:
            v = g("standardize_curie", c)
            if not isinstance(v, str):
                continue
            vv, e1, e2 = g("standardize_curie", v), g("expand", c), g("expand", v)
            if have(vv) and vv != v:
                fails.append(f"standardize_curie not idempotent: {c!r} -> {v!r} -> {vv!r}")
            if have(e1, e2) and e1 != e2:
                fails.append(f"standardize_curie changes the meaning: expand({c!r})={e1!r} but expand({v!r})={e2!r}")
        for u in case["uris"]:
            v = g("standardize_uri", u)
            if not isinstance(v, str) or not pf:
                continue
            vv, c1, c2 = g("standardize_uri", v), g("compress", u), g("compress", v)
            if have(vv) and vv != v:
                fails.append(f"prefix-free map: standardize_uri not idempotent: {u!r} -> {v!r} -> {vv!r}")
            if have(c1, c2) and c1 != c2:
                fails.append(f"prefix-free map: compress({u!r})={c1!r} but compress(standardize_uri)={c2!r}")
        return fails

    def matches_known(self, entry, case, fails):
        if entry["id"] != "K1":
            return False
        d = case["delim"]
        bad = []
        for r in case_records(case):
            p = uncps(r["p"])
            if not gen.delim_ok(d, p):
                bad.append(p)
        return bool(bad) and all(("standardize_curie" in f) and any(repr(p + d)[1:-1] in f for p in bad) for f in fails)


PROPERTY = C06()
