"""C16 — bulk operations equal element-wise scalar calls and fail atomically."""
from __future__ import annotations

import csv
import io
import os
import tempfile

from .. import common, gen
from ..common import rec, cps, uncps, classify
from ..simpleprop import SimpleProperty

PD = ["compress", "expand", "standardize_prefix", "standardize_curie", "standardize_uri"]
FILE = ["compress", "expand"]
CELLS = ["", "x", "a b", 'q"uote', "tab\tcell", "nl\ncell", "cr\rcell", "é", "nodelim", ":", "1,2", "'", " lead", "trail "]


def scalar(conv, meth, amb, s, p):
    if meth == "compress":
        f = conv.compress_or_standardize if amb else conv.compress
    elif meth == "expand":
        f = conv.expand_or_standardize if amb else conv.expand
    else:
        f = getattr(conv, meth)
    return lambda cell: f(cell, strict=s, passthrough=p)


class C16(SimpleProperty):
    id = "C16"
    theorems = ["C16_pd", "C16_pd_others", "C16_file", "C16_file_others", "C16_atomic", "C16_file_bytes", "C16_atomic_bytes"]
    lean_modules = ["CuriesVerif.Properties.C16", "CuriesVerif.Properties.Bytes"]
    rule = ("one case = one strict converter, one table of 1-5 rows x 2-4 columns of string cells (convertible URIs / "
            "CURIEs / prefixes, unknown ones, delimiter-free and empty cells, cells with quotes, tabs, newlines, carriage "
            "returns, commas), one of the seven bulk methods with random strict / passthrough / ambiguous flags, column "
            "index, target column (data frames: same, other existing, new), header yes/no and separator tab or ',' "
            "(files). Expected cells come from the scalar method of the implementation itself, cell by cell; for file "
            "operations the bytes before and after are compared when the call raises (the first failing row sits at a "
            "random position). Non-trivial = some cell converts and some does not, or the call raises. 40 % of the converters are long-lived (built from a part of the records, used for the same bulk operation once, then extended by new records and merges); data frames carry a reversed, gapped, labelled or repeated index in half of the cases; the characters of the file before and after the call are compared with the csv model. 10 % of the cases exercise the csv layer alone (harness/csvlayer.py: arbitrary text through csv.reader and the modelled reader, arbitrary tables through csv.writer and the modelled writer, four delimiters), and every text of length <= 6 (thorough: 8) over {delimiter, quote, CR, LF, 'a', ' '} and every table of <= 2 x 2 cells is compared on every run.")
    assumptions = ["pandas Series.map and the csv module store and deliver the cells (exercised on real data frames and files)"]

    def budget(self, tier):
        return 600 if tier == "quick" else 12000

    def exhaustive(self, tier):
        from .. import csvlayer

        return csvlayer.exhaustive(tier)

    def gen(self, rng, tier):
        if rng.random() < 0.1:
            # the csv layer on its own: CPython's csv against Model/Csv.lean on arbitrary text and arbitrary tables
            from .. import csvlayer
            return {"csv": csvlayer.gen_case(rng), "tags": ["csv-layer"], "nontrivial": True}
        delim = rng.choice([":", ":", "/", "_"])
        recs = gen.records(rng, delim, patterns=False, nrec=rng.choice([1, 2, 3]))
        mode = rng.choice(["pd", "file"])
        meth = rng.choice(PD if mode == "pd" else FILE)
        ncol = rng.randint(2, 4)
        nrow = rng.randint(1, 5)
        col = rng.randrange(ncol)
        if meth in ("compress", "standardize_uri"):
            good = gen.uri_probes(rng, recs, 6)
        elif meth == "standardize_prefix":
            good = gen.all_prefixes(recs) + ["unknown"]
        else:
            good = gen.curie_probes(rng, recs, delim, 6)
        flags = {"s": rng.random() < 0.35, "p": rng.random() < 0.4, "amb": rng.random() < 0.3 and meth in ("compress", "expand")}
        if flags["amb"]:
            # ambiguous=True: the column may hold strings of the *target* kind (to be standardised, written with synonyms too)
            # and strings that read both as a URI and as a CURIE (a URI prefix that is a CURIE of the converter)
            if rng.random() < 0.5:
                ps_ = gen.all_prefixes(recs)
                extra = rec(rng.choice(["urn", "zz", "http"]), rng.choice(ps_) + delim + rng.choice(["", "x"]))
                if uncps(extra["u"]) not in gen.all_uris(recs) and uncps(extra["p"]) not in ps_ and delim not in uncps(extra["p"]):
                    recs = recs + [extra]
            good = good + (gen.curie_probes(rng, recs, delim, 6) if meth == "compress" else gen.uri_probes(rng, recs, 6))
        good = [g for g in good if "\ud800" not in g] or ["x"]    # files cannot hold lone surrogates
        rows = []
        for _ in range(nrow):
            row = [rng.choice(CELLS) for _ in range(ncol)]
            row[col] = rng.choice(good) if rng.random() < 0.75 else rng.choice(CELLS)
            rows.append(row)
        case = {"records": recs, "delim": delim, "mode": mode, "meth": meth, "col": col, "rows": rows, **flags}
        if rng.random() < 0.4:
            # a long-lived converter: built from a part of the records, used for the same bulk operation once, then
            # extended (new records, synonyms acquired by merge) to hold `recs`
            first, later = gen.split_history(rng, recs)
            case["hist"] = {"first": first, "later": [[k, r] for k, r in later]}
        if mode == "pd":
            case["target"] = rng.choice([col, col, (col + 1) % ncol, ncol])
            r_ = rng.random()
            if r_ < 0.15:
                case["labels"] = list(range(1, ncol + 1))                      # integer labels shifted against the positions
            elif r_ < 0.3:
                case["labels"] = list(range(ncol - 1, -1, -1))                 # integer labels in another order
            elif r_ < 0.4:
                case["labels"] = [f"c{k}" for k in range(ncol)]
            r_ = rng.random()
            if r_ < 0.2:
                case["index"] = list(range(nrow - 1, -1, -1))                 # reversed (e.g. after sort_values)
            elif r_ < 0.35:
                case["index"] = [3 * k + 5 for k in range(nrow)]              # gaps (e.g. after filtering)
            elif r_ < 0.45:
                case["index"] = [f"row{k}" for k in range(nrow)]              # labels (after set_index)
            elif r_ < 0.5:
                case["index"] = [0] * nrow                                    # repeated labels (after concat)
        else:
            case["header"] = rng.random() < 0.6
            case["sep"] = rng.choice([None, None, ","])
            if case["header"]:
                case["rows"] = [[f"h{i}" for i in range(ncol)]] + rows
        return case

    def run_impl(self, case):
        if case.get("csv"):
            from .. import csvlayer
            return csvlayer.run_python(case["csv"])
        import pandas as pd
        from curies import Converter

        if case.get("hist"):
            conv = Converter([common.dec_record(r) for r in case["hist"]["first"]], delimiter=case["delim"])
            self._warm(conv, case)
            for kind, r in case["hist"]["later"]:
                conv.add_record(common.dec_record(r), merge=(kind == "merge"))
        else:
            conv = Converter([common.dec_record(r) for r in case["records"]], delimiter=case["delim"])
        f = scalar(conv, case["meth"], case["amb"], case["s"], case["p"])
        out = {}
        # the scalar results of the implementation itself, cell by cell
        body = case["rows"][1:] if case.get("header") else case["rows"]
        sc = []
        for row in body:
            try:
                sc.append({"v": f(row[case["col"]])})
            except Exception as e:  # noqa: BLE001
                sc.append({"e": classify(e)})
        out["scalar"] = sc
        if case["mode"] == "pd":
            labels = case.get("labels") or list(range(len(case["rows"][0])))
            df = pd.DataFrame(case["rows"], columns=labels, dtype=object)
            if case.get("index"):
                # row labels other than 0..n-1 in order (a frame that was sorted, filtered or re-indexed before)
                df.index = case["index"]
            kw = dict(strict=case["s"], passthrough=case["p"])
            try:
                m = getattr(conv, "pd_" + case["meth"])
                # columns are addressed by *label*; position `col` carries label labels[col], a new column gets a new label
                tgt = labels[case["target"]] if case["target"] < len(labels) else (
                    "newcol" if isinstance(labels[0], str) else max(labels) + 1)
                if case["meth"] in ("compress", "expand"):
                    m(df, labels[case["col"]], target_column=tgt, ambiguous=case["amb"], **kw)
                else:
                    m(df, column=labels[case["col"]], target_column=tgt, **kw)
                out["rows"] = [[None if (v is None or (isinstance(v, float) and v != v)) else v for v in r]
                               for r in df.values.tolist()]
                out["columns"] = list(df.columns)
            except Exception as e:  # noqa: BLE001
                out["e"] = classify(e)
        else:
            d = tempfile.mkdtemp(prefix="c16-")
            path = os.path.join(d, "t.tsv")
            sep = case["sep"] or "\t"
            try:
                with open(path, "w", newline="") as fh:
                    csv.writer(fh, delimiter=sep).writerows(case["rows"])
                before = open(path, "rb").read()
                out["text0"] = cps(open(path, newline="", encoding="utf-8").read())
                try:
                    m = getattr(conv, "file_" + case["meth"])
                    m(path, case["col"], sep=case["sep"], header=case["header"], strict=case["s"], passthrough=case["p"],
                      ambiguous=case["amb"])
                    out["result"] = None
                except Exception as e:  # noqa: BLE001
                    out["result"] = classify(e)
                after = open(path, "rb").read()
                out["unchanged"] = before == after
                out["text1"] = cps(open(path, newline="", encoding="utf-8").read())
                with open(path, newline="") as fh:
                    out["rows"] = list(csv.reader(fh, delimiter=sep))
            finally:
                for x in os.listdir(d):
                    os.unlink(os.path.join(d, x))
                os.rmdir(d)
        return out

    def _warm(self, conv, case):
        """Use the not yet complete converter for the same bulk operation (on scratch copies of the table)."""
        import pandas as pd

        kw = dict(strict=case["s"], passthrough=case["p"])
        try:
            if case["mode"] == "pd":
                df = pd.DataFrame(case["rows"], columns=list(range(len(case["rows"][0]))), dtype=object)
                m = getattr(conv, "pd_" + case["meth"])
                if case["meth"] in ("compress", "expand"):
                    m(df, case["col"], ambiguous=case["amb"], **kw)
                else:
                    m(df, column=case["col"], **kw)
            else:
                d = tempfile.mkdtemp(prefix="c16w-")
                path = os.path.join(d, "w.tsv")
                try:
                    with open(path, "w", newline="") as fh:
                        csv.writer(fh, delimiter=case["sep"] or "\t").writerows(case["rows"])
                    getattr(conv, "file_" + case["meth"])(path, case["col"], sep=case["sep"], header=case["header"],
                                                          ambiguous=case["amb"], **kw)
                finally:
                    for x in os.listdir(d):
                        os.unlink(os.path.join(d, x))
                    os.rmdir(d)
        except Exception:  # noqa: BLE001  (the incomplete converter may well reject cells)
            pass
        # and once leniently, so that every cell has been seen whatever the flags
        try:
            for row in case["rows"]:
                scalar(conv, case["meth"], case["amb"], False, False)(row[case["col"]])
        except Exception:  # noqa: BLE001
            pass

    def request(self, case, impl):
        if case.get("csv"):
            from .. import csvlayer
            return csvlayer.request(case["csv"])
        req = {"k": "bulk", "records": case["records"], "delim": cps(case["delim"]), "meth": case["meth"], "amb": case["amb"],
               "s": case["s"], "p": case["p"], "col": case["col"], "mode": case["mode"],
               "rows": [[cps(c) for c in r] for r in case["rows"]]}
        if case["mode"] == "pd":
            req["target"] = case["target"]
        else:
            req["header"] = case["header"]
            req["sep"] = ord(case["sep"] or "\t")
        return req

    def compare(self, case, impl, resp):
        if case.get("csv"):
            from .. import csvlayer
            return csvlayer.compare(case["csv"], impl, resp)
        diffs = []
        fam = lambda e: "lib" if e in common.LIB_FAMILY else e
        if case["mode"] == "pd":
            if ("e" in impl) != ("e" in resp):
                diffs.append({"step": 0, "op": "pd_" + case["meth"], "implementation": impl.get("e", "ok"), "model": resp.get("e", "ok")})
            elif "e" in impl:
                if fam(impl["e"]) != fam(resp["e"]):
                    diffs.append({"step": 0, "op": "pd_" + case["meth"], "implementation": impl["e"], "model": resp["e"]})
            else:
                mrows = [[None if c is None else uncps(c) for c in r] for r in resp["rows"]]
                if mrows != impl["rows"]:
                    diffs.append({"step": 0, "op": "pd_" + case["meth"], "implementation": impl["rows"], "model": mrows})
        else:
            mres = resp["result"]
            if (impl["result"] is None) != (mres is None) or (mres is not None and fam(mres) != fam(impl["result"])):
                diffs.append({"step": 0, "op": "file_" + case["meth"], "implementation": impl["result"], "model": mres})
            mrows = [[uncps(c) for c in r] for r in resp["rows"]]
            if mrows != impl["rows"]:
                diffs.append({"step": 0, "op": "file_" + case["meth"] + " rows", "implementation": impl["rows"], "model": mrows})
            # the characters on disk, before and after, against the csv model (Model/Csv.lean, Model/Files.lean)
            for key, what in (("text0", "text of the file before the call"), ("text1", "text of the file after the call")):
                if impl.get(key) != resp.get(key):
                    diffs.append({"step": 0, "op": what, "implementation": uncps(impl.get(key) or []),
                                  "model": uncps(resp.get(key) or [])})
        return diffs

    def laws(self, case, impl):
        if case.get("csv"):
            return []
        fails = []
        sc = impl["scalar"]
        col = case["col"]
        raised = [x for x in sc if "e" in x]
        if case["mode"] == "pd":
            if raised:
                if "e" not in impl:
                    fails.append("a cell makes the scalar method raise but the data-frame method returned")
                return fails
            if "e" in impl:
                return [f"pd_{case['meth']} raised {impl['e']} although every cell converts with the scalar method"]
            tgt = case["target"]
            for r_in, r_out, x in zip(case["rows"], impl["rows"], sc):
                want = list(r_in)
                if tgt < len(want):
                    want[tgt] = x["v"]
                else:
                    want.append(x["v"])
                if r_out != want:
                    fails.append(f"row {r_in!r} became {r_out!r}, expected {want!r}")
        else:
            body = case["rows"][1:] if case["header"] else case["rows"]
            if raised:
                if impl["result"] is None:
                    fails.append("a cell makes the scalar method raise but the file method returned")
                if not impl["unchanged"]:
                    fails.append("the file method raised and the file on disk changed")
                return fails
            if impl["result"] is not None:
                return [f"file_{case['meth']} raised {impl['result']} although every cell converts with the scalar method"]
            want = ([case["rows"][0]] if case["header"] else []) + \
                [r[:col] + [x["v"] or ""] + r[col + 1:] for r, x in zip(body, sc)]
            if impl["rows"] != want:
                fails.append(f"the file holds {impl['rows']!r}, expected {want!r}")
        return fails

    def tags(self, case, impl):
        if case.get("csv"):
            return ["csv-layer", f"delimiter={case['csv']['d']!r}"]
        kinds = ["raise" if "e" in x else ("none" if x["v"] is None else "value") for x in impl["scalar"]]
        return [case["mode"] + ":" + case["meth"], f"strict={case['s']},passthrough={case['p']},ambiguous={case['amb']}"] + \
            ["cell:" + k for k in kinds]

    def nontrivial(self, case, impl):
        if case.get("csv"):
            return True
        kinds = {("raise" if "e" in x else ("none" if x["v"] is None else "value")) for x in impl["scalar"]}
        return len(kinds) > 1 or "raise" in kinds

    def evaluations(self, case):
        return len(case["csv"]["texts"]) + len(case["csv"]["tables"]) if case.get("csv") else 1

    def readable(self, case, impl):
        if case.get("csv"):
            from .. import csvlayer
            return csvlayer.readable(case["csv"], impl)
        flags = f"strict={case['s']}, passthrough={case['p']}, ambiguous={case['amb']}"
        recs = "; ".join(common.show_record(r) for r in case["records"])
        head = f"Converter([{recs}], delimiter={case['delim']!r})"
        if case.get("hist"):
            head += (" reached by: Converter([" + "; ".join(common.show_record(r) for r in case["hist"]["first"]) + "]), the same "
                     "bulk call once, then " + ", ".join(f"add_record({common.show_record(r)}, merge={k == 'merge'})"
                                                          for k, r in case["hist"]["later"]))
        if case["mode"] == "pd":
            return [head, f"pd_{case['meth']}(DataFrame({case['rows']!r}, index={case.get('index')!r}, columns={case.get('labels')!r}), column={case['col']}, target_column={case['target']}, {flags})",
                    f"-> {impl.get('rows', impl.get('e'))!r}", f"scalar results: {impl['scalar']!r}"]
        return [head, f"file_{case['meth']}(<file with rows {case['rows']!r}>, {case['col']}, sep={case['sep']!r}, "
                      f"header={case['header']}, {flags})", f"-> raised {impl['result']!r}; file now {impl['rows']!r}; "
                      f"bytes unchanged: {impl['unchanged']}", f"scalar results: {impl['scalar']!r}"]

    def reductions(self, case):
        if case.get("csv"):
            return
        rows = case["rows"]
        lo = 1 if case.get("header") else 0
        for i in range(len(rows) - 1, lo - 1, -1):
            if len(rows) - lo > 1:
                c2 = {**case, "rows": rows[:i] + rows[i + 1:]}
                if case.get("index"):
                    c2["index"] = case["index"][:i] + case["index"][i + 1:]
                yield c2
        if case.get("hist"):
            # the history and the records belong together: either drop the history, or keep both as they are
            yield {k: v for k, v in case.items() if k != "hist"}
            return
        for i in range(len(case["records"])):
            if len(case["records"]) > 1:
                yield {**case, "records": case["records"][:i] + case["records"][i + 1:]}


PROPERTY = C16()
