"""C01 — URI compression always picks the longest registered URI prefix."""
from __future__ import annotations

from .. import gen
from ..common import q, uncps
from ..progprop import ProgramProperty


class C01(ProgramProperty):
    id = "C01"
    theorems = ["C01_parse_none", "C01_parse_some", "C01_parse_longest", "C01_compress", "C01_isUri",
                "C01_unique_answer", "C01_perm", "C01_incremental", "C01_trie"]
    lean_modules = ["CuriesVerif.Properties.C01", "CuriesVerif.Properties.C09"]
    rule = ("one case = one overlap-lattice record collection (nested / sibling / identical-up-to-one-symbol URI "
            "prefixes, synonyms nested in other records' prefixes, '' in ~12%, delimiters : / :: _ | -:) built four "
            "ways (constructor, shuffled constructor, shuffled add_record sequence from an empty converter, and a converter "
            "that is queried on the probes, extended with add_record/add_prefix and queried again), each "
            "queried with parse_uri / compress / is_uri on 10 probe URIs (registered prefix exactly, minus / plus one "
            "symbol, plus the tail of another registered prefix, random). Non-trivial = at least two registered "
            "URI prefixes are prefixes of some probe; distinct = distinct step lists. Every probe is also put to the real trie object (converter.trie.longest_prefix_item) and compared with the structural trie model; in 30 % of the incremental builds a rejected add_prefix is part of the history and the would-be names are probed.")
    assumptions = ["PyTrie's StringTrie.longest_prefix_item returns the longest key that is a prefix (modelled by "
                   "contract `Conv.lpi`; exercised on every case)"]

    def exhaustive(self, tier):
        from .. import smallscope

        return smallscope.run(self.id, tier)

    def budget(self, tier):
        return 3000 if tier == "quick" else 120000

    def gen(self, rng, tier):
        delim = rng.choice(gen.DELIMS)
        recs = gen.records(rng, delim, forbid_delim=False)
        probes = gen.uri_probes(rng, recs, 10)
        shuffled = list(recs)
        rng.shuffle(shuffled)
        order = list(recs)
        rng.shuffle(order)
        cont = lambda: rng.choice(["list", "list", "tuple", "iter", "generator", "dict_values"])   # any iterable of records
        steps = [{"op": "init", "dst": 0, "records": recs, "delim": [ord(c) for c in delim], "container": cont()},
                 {"op": "init", "dst": 1, "records": shuffled, "delim": [ord(c) for c in delim], "container": cont()},
                 {"op": "init", "dst": 2, "records": [], "delim": [ord(c) for c in delim]}]
        for r in order:
            steps.append({"op": "add_record", "c": 2, "record": r})
        for c in (0, 1, 2):
            steps.append(q(c, "records"))
            steps.append(q(c, "delimiter"))
            for u in probes:
                steps.append(q(c, "parse_uri", u))
                steps.append(q(c, "compress", u))
                steps.append(q(c, "is_uri", u))
                steps.append(q(c, "trie_lpi", u))      # the trie object itself: pytrie against Model/Trie.lean
        # fourth build: a long-lived converter that is queried, extended, and queried again
        qs3 = []
        for u in probes:
            qs3 += [q(3, "parse_uri", u), q(3, "compress", u), q(3, "is_uri", u), q(3, "trie_lpi", u)]
        more, how = gen.build_steps(rng, recs, delim, qs3, slot=3, p_incremental=1.0)
        steps += more
        us = gen.all_uris(recs)
        multi = any(sum(1 for k in us if u.startswith(k)) >= 2 for u in probes)
        tags = [f"delim={delim!r}", f"records={len(recs)}"]
        if "" in us:
            tags.append("empty-uri-prefix")
        if multi:
            tags.append("probe-with->=2-matching-prefixes")
        for u in probes:
            n = sum(1 for k in us if u.startswith(k))
            tags.append(f"matches={min(n, 4)}")
        return {"steps": steps, "nontrivial": multi, "tags": tags}

    def laws(self, case, impl):
        # order independence: the three builds must answer identically (C01's last sentence)
        steps = case["steps"]
        by = {}
        fails = []
        for st, v in zip(steps, impl):
            if st["op"] == "q" and st["m"] in ("parse_uri", "compress", "is_uri") and st["c"] < 50:   # (not the decoy converter)
                key = (st["m"], tuple(map(tuple, st["a"])))
                by.setdefault(key, {})[st["c"]] = v
        for key, d in by.items():
            vals = {repr(v) for v in d.values()}
            if len(vals) > 1:
                fails.append(f"{key[0]}({uncps(key[1][0])!r}) depends on the order in which records were supplied: {d}")
        return fails


PROPERTY = C01()
