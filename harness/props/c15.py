"""C15 — references parse, print, compare and hash consistently."""
from __future__ import annotations

import hashlib
import json
import os
import tempfile

from .. import common, gen
from ..common import cps, uncps, rec, classify
from ..progprop import STD_TRUSTED

IDENTS = ["", "1234", "x", "a:b", ":", "a/b", "#f", "a b", "é", "x::y", "𝔘1", "tab\there", 'q"uote', "nl\nhere", "cr\rhere",
          # characters at which str.splitlines breaks although they end no row of a csv file
          "vt\x0bhere", "ff\x0chere", "fs\x1chere", "nel\x85here", "ls\u2028here", "ps\u2029here",
          "cr\r\nlf", "0", "00", " "]
PREFIXES = ["GO", "go", "CHEBI", "a", "A", "", "x.y", "ß", "doi", "a b", "_", "é", "unknownprefix"]
NAMES = [None, "name", "", "other name", "é"]
CLASSES = ["tuple", "reference", "namable", "named"]


def build(c, p, i, n, via="direct"):
    """The reference of class `c` with the given fields, obtained the way `via` says.  However a reference came to
    be -- constructed, copied with an update from another one that has already been printed / hashed / sorted,
    validated from a dict, converted from another class, deep-copied, pickled -- it is the same value."""
    import copy as _copy
    import pickle

    from curies import NamableReference, NamedReference, Reference, ReferenceTuple

    cls = [ReferenceTuple, Reference, NamableReference, NamedReference][c]
    kw = {"prefix": p, "identifier": i}
    if c == 2:
        kw["name"] = n
    if c == 3:
        kw["name"] = n if n is not None else "n"
    if c == 0:
        o = ReferenceTuple(p, i)
        if via == "copy_update":
            seed = ReferenceTuple(p + "x", "y" + i)
            hash(seed), seed.curie, sorted([seed, seed])
            o = seed._replace(prefix=p, identifier=i)
        elif via in ("deepcopy", "pickle"):
            o = _copy.deepcopy(o) if via == "deepcopy" else pickle.loads(pickle.dumps(o))
        return o
    if via == "copy_update":
        seed = cls(**dict(kw, prefix=p + "x", identifier="y" + i))
        seed.pair, seed.curie, hash(seed), sorted([seed, seed]), {seed}, seed == seed
        return seed.model_copy(update={"prefix": p, "identifier": i})
    if via == "copy_update_one":
        seed = cls(**dict(kw, identifier="y" + i))
        seed.pair, seed.curie, hash(seed), sorted([seed, seed]), {seed}
        return seed.model_copy(update={"identifier": i})
    if via == "validate_dict":
        return cls.model_validate(kw)
    if via == "from_reference" and c == 1:
        return Reference.from_reference(NamableReference(prefix=p, identifier=i, name="other"))
    o = cls(**kw)
    if via == "deepcopy":
        o.pair, hash(o)
        return _copy.deepcopy(o)
    if via == "pickle":
        o.pair, hash(o)
        return pickle.loads(pickle.dumps(o))
    return o


VIAS = ["direct", "direct", "direct", "copy_update", "copy_update_one", "validate_dict", "from_reference", "deepcopy", "pickle"]


class C15:
    id = "C15"
    theorems = ["C15_roundtrip", "C15_reject", "C15_eq_pair", "C15_eq_equiv", "C15_eq_tuple", "C15_hash", "C15_lt_irrefl", "C15_lt_trans",
                "C15_lt_trichotomy", "C15_ctx", "C15_triples_bytes", "C15_from_reference"]
    lean_modules = ["CuriesVerif.Properties.C15", "CuriesVerif.Properties.Bytes"]
    rule = ("one case = 4 references drawn from ReferenceTuple / Reference / NamableReference / NamedReference over a small "
            "pool of prefixes (no ':'), identifiers (empty, containing ':' / tab / quote / newline / carriage return, "
            "Unicode) and names, so that equal pairs occur across classes; observed: .curie, the full ==, hash-equality "
            "and < matrices, sorted(), from_curie of every printed CURIE and of malformed strings for every class, with and "
            "without a converter as validation context (known, synonym and unknown prefixes), model_dump_json / "
            "model_validate_json, assignment to a frozen instance, and write_triples / read_triples through real .tsv and "
            ".tsv.gz files. Non-trivial = two references of different classes with the same pair, or an identifier "
            "containing the separator. References are obtained directly, by model_copy(update=…) / _replace from another reference that has already been printed, hashed and sorted, by model_validate, from_reference, deepcopy and pickle; the validation context is the full converter, a one-record converter or an empty converter; the text of the triples file is compared character for character with the csv model.")
    assumptions = ["Python's hash() of equal tuples is equal; pydantic's frozen config; csv and gzip: exercised, not modelled"]
    trusted_base = STD_TRUSTED[:3] + ["pydantic validation machinery, csv, gzip: exercised by the correspondence only"]

    def budget(self, tier):
        return 1500 if tier == "quick" else 40000

    def gen(self, rng, tier):
        pool_p = rng.sample(PREFIXES, 3)
        pool_i = rng.sample(IDENTS, 3)
        refs = []
        for _ in range(4):
            refs.append({"c": rng.randrange(4), "p": rng.choice(pool_p), "i": rng.choice(pool_i), "n": rng.choice(NAMES),
                         "via": rng.choice(VIAS)})
        for r in refs:
            if r["c"] == 3 and r["n"] is None:
                r["n"] = "n"
            if r["c"] in (0, 1):
                r["n"] = None
        conv = [rec("GO", "http://go/", ["go"]), rec("CHEBI", "http://chebi/"), rec("", "http://default/"),
                rec("doi", "https://doi.org/", ["DOI"])]
        r_ = rng.random()
        if r_ < 0.15:
            conv = []               # a converter without records: every prefix is unknown
        elif r_ < 0.3:
            conv = [rng.choice(conv)]
        parse = []
        for r in refs:
            s = r["p"] + ":" + r["i"]
            for c in range(4):
                parse.append({"c": c, "s": s, "n": r["n"] if c >= 2 else None, "conv": False})
                parse.append({"c": c, "s": s, "n": r["n"] if c >= 2 else None, "conv": True})
        for s in ["nodelim", "", ":", "::", rng.choice(pool_i)]:
            for c in range(4):
                parse.append({"c": c, "s": s, "n": "n" if c >= 2 else None, "conv": False})
        return {"refs": refs, "parse": parse, "conv": conv}

    # ---- implementation --------------------------------------------------------------------
    def run_impl(self, case):
        import curies
        from curies import Converter, NamableReference, NamedReference, Reference, ReferenceTuple
        from curies.triples import Triple, read_triples, write_triples

        objs = [build(r["c"], r["p"], r["i"], r["n"], r.get("via", "direct")) for r in case["refs"]]
        conv = Converter([common.dec_record(r) for r in case["conv"]])
        out = {"curies": [cps(o.curie) for o in objs]}
        out["eq"] = [[bool(a == b) for b in objs] for a in objs]
        out["hasheq"] = [[hash(a) == hash(b) for b in objs] for a in objs]
        lt = []
        for a in objs:
            row = []
            for b in objs:
                if isinstance(a, tuple) == isinstance(b, tuple):
                    row.append(bool(a < b))
                else:
                    row.append(None)
            lt.append(row)
        out["lt"] = lt
        cls = [ReferenceTuple, Reference, NamableReference, NamedReference]
        extra_pre = []
        parsed = []
        for pz in case["parse"]:
            k = cls[pz["c"]]
            try:
                kw = {}
                if pz["conv"] and pz["c"] != 0:
                    kw["converter"] = conv
                if pz["c"] == 2:
                    o = k.from_curie(pz["s"], pz["n"], **kw)
                elif pz["c"] == 3:
                    o = k.from_curie(pz["s"], pz["n"], **kw)
                else:
                    o = k.from_curie(pz["s"], **kw)
                parsed.append({"p": cps(o.prefix), "i": cps(o.identifier), "n": None if getattr(o, "name", None) is None else cps(o.name)})
            except Exception as e:  # noqa: BLE001
                parsed.append({"e": classify(e)})
        out["parse"] = parsed
        # from_reference of every pydantic reference into every pydantic class, with and without the converter
        fr = []
        for pz in self.fromref_plan(case):
            o = objs[pz["src"]]
            try:
                got = cls[pz["c"]].from_reference(o, **({"converter": conv} if pz["conv"] else {}))
                fr.append({"p": cps(got.prefix), "i": cps(got.identifier), "n": None if getattr(got, "name", None) is None else cps(got.name)})
            except Exception as e:  # noqa: BLE001
                fr.append({"e": classify(e)})
        out["fromref"] = fr
        # from_reference: converting an existing reference object, with the converter as validation context, must
        # standardise / reject exactly like parsing its CURIE does -- whatever class the object already has
        known_ = {x: r_.prefix for r_ in conv.records for x in [r_.prefix] + list(r_.prefix_synonyms)}
        for o in objs:
            if isinstance(o, tuple):
                continue
            for k in (Reference, NamableReference):
                try:
                    got = k.from_reference(o, converter=conv)
                    res = (got.prefix, got.identifier)
                except Exception as e:  # noqa: BLE001
                    res = classify(e)
                want = (known_[o.prefix], o.identifier) if o.prefix in known_ else "validation"
                if res != want:
                    extra_pre.append(f"{k.__name__}.from_reference({o!r}, converter) gives {res!r}, expected {want!r}")
                try:
                    plain = k.from_reference(o)
                    if (plain.prefix, plain.identifier) != (o.prefix, o.identifier):
                        extra_pre.append(f"{k.__name__}.from_reference({o!r}) changes the pair to {plain!r}")
                except Exception as e:  # noqa: BLE001
                    extra_pre.append(f"{k.__name__}.from_reference({o!r}) raised {type(e).__name__}")
        # laws that need the live objects
        extra = list(extra_pre)
        for o, r in zip(objs, case["refs"]):
            if r["c"] != 0:
                try:
                    back = type(o).model_validate_json(o.model_dump_json())
                    if back != o or getattr(back, "name", None) != getattr(o, "name", None):
                        extra.append(f"JSON round trip of {o!r} gives {back!r}")
                except Exception as e:  # noqa: BLE001
                    extra.append(f"JSON round trip of {o!r} raised {type(e).__name__}")
                try:
                    o.prefix = "changed"
                    extra.append(f"{type(o).__name__} instance is mutable")
                except Exception:  # noqa: BLE001
                    pass
                try:
                    via_str = type(o).model_validate(o.curie) if r["c"] == 1 else None
                    if via_str is not None and via_str != o:
                        extra.append(f"string validation of {o.curie!r} gives {via_str!r}")
                except Exception as e:  # noqa: BLE001
                    extra.append(f"string validation of {o.curie!r} raised {type(e).__name__}")
        pyd = [o for o in objs if not isinstance(o, tuple)]
        if len(pyd) >= 3:
            d = tempfile.mkdtemp(prefix="c15-")
            try:
                for name in ("t.tsv", "t.tsv.gz"):
                    path = os.path.join(d, name)
                    triples = [Triple(subject=Reference.from_reference(pyd[0]), predicate=Reference.from_reference(pyd[1]),
                                      object=Reference.from_reference(pyd[2]))]
                    try:
                        write_triples(triples, path)
                        back = read_triples(path)
                        if back != triples:
                            extra.append(f"write_triples / read_triples ({name}) turns {triples!r} into {back!r}")
                        if name == "t.tsv":
                            out["_triples"] = {
                                "triples": [[[cps(r_.prefix), cps(r_.identifier)] for r_ in (t.subject, t.predicate, t.object)]
                                            for t in triples],
                                "text": cps(open(path, newline="", encoding="utf-8").read()),
                                "back": [[[cps(r_.prefix), cps(r_.identifier)] for r_ in (t.subject, t.predicate, t.object)]
                                         for t in back]}
                    except Exception as e:  # noqa: BLE001
                        extra.append(f"write_triples / read_triples ({name}) raised {type(e).__name__} for {triples!r}")
            finally:
                for f in os.listdir(d):
                    os.unlink(os.path.join(d, f))
                os.rmdir(d)
        srt = sorted(pyd)
        keys = [(o.prefix, o.identifier) for o in srt]
        if keys != sorted(keys):
            extra.append(f"sorted() does not order by (prefix, identifier): {keys!r}")
        out["_extra"] = extra
        return out

    @staticmethod
    def fromref_plan(case):
        return [{"c": c, "src": k, "conv": cv} for k, r in enumerate(case["refs"]) if r["c"] != 0
                for c in (1, 2, 3) for cv in (False, True)]

    def request(self, case, impl):
        return {"k": "refs", "fromref": self.fromref_plan(case), "refs": [{"c": r["c"], "p": cps(r["p"]), "i": cps(r["i"]), "n": None if r["n"] is None else cps(r["n"])}
                                      for r in case["refs"]],
                "parse": [{"c": p["c"], "s": cps(p["s"]), "n": None if p["n"] is None else cps(p["n"]), "conv": p["conv"]}
                          for p in case["parse"]],
                "conv": case["conv"]}

    def compare(self, case, impl, resp):
        diffs = []
        for key in ("curies", "eq", "hasheq"):
            if impl[key] != resp[key]:
                diffs.append({"step": 0, "op": key, "implementation": impl[key], "model": resp[key]})
        for i, (ra, rb) in enumerate(zip(impl["lt"], resp["lt"])):
            for j, (a, b) in enumerate(zip(ra, rb)):
                if a is not None and a != b:
                    diffs.append({"step": 0, "op": f"lt[{i}][{j}]", "implementation": a, "model": b})
        for i, (a, b) in enumerate(zip(impl["parse"], resp["parse"])):
            a2 = {"e": "lib" if a.get("e") in common.LIB_FAMILY else a["e"]} if "e" in a else a
            b2 = {"e": "lib" if b.get("e") in common.LIB_FAMILY else b["e"]} if "e" in b else b
            if a2 != b2:
                pz = case["parse"][i]
                diffs.append({"step": i, "op": f"from_curie[{CLASSES[pz['c']]}]({pz['s']!r}, conv={pz['conv']})",
                              "implementation": a, "model": b})
        for pz, a, b in zip(self.fromref_plan(case), impl.get("fromref", []), resp.get("fromref", [])):
            a2 = {"e": "lib" if a.get("e") in common.LIB_FAMILY else a["e"]} if "e" in a else a
            b2 = {"e": "lib" if b.get("e") in common.LIB_FAMILY else b["e"]} if "e" in b else b
            if a2 != b2:
                diffs.append({"step": 0, "op": f"{CLASSES[pz['c']]}.from_reference(reference #{pz['src']}, converter={pz['conv']})",
                              "implementation": a, "model": b})
        return diffs + self.compare_triples(impl)

    def compare_triples(self, impl):
        """The text write_triples put on disk against the csv model (Files.triplesText), and read_triples against
        Files.readTriples."""
        tr = impl.get("_triples")
        if not tr:
            return []
        from curies.triples import HEADER

        r = common.run_driver([{"k": "triples", "header": [cps(h) for h in HEADER], "triples": tr["triples"]}])[0]
        diffs = []
        if r.get("text") != tr["text"]:
            diffs.append({"step": 0, "op": "text written by write_triples", "implementation": uncps(tr["text"]),
                          "model": uncps(r.get("text", []))})
        if r.get("read") != tr["back"]:
            diffs.append({"step": 0, "op": "read_triples", "implementation": tr["back"], "model": r.get("read")})
        return diffs

    def extra_fails(self, case, impl, resp):
        fails = list(impl.get("_extra", []))
        refs = case["refs"]
        n = len(refs)
        eq, he, lt = impl["eq"], impl["hasheq"], impl["lt"]
        for i in range(n):
            if not eq[i][i]:
                fails.append(f"reference {refs[i]} is not equal to itself")
            for j in range(n):
                same_pair = (refs[i]["p"], refs[i]["i"]) == (refs[j]["p"], refs[j]["i"])
                both_pyd = refs[i]["c"] != 0 and refs[j]["c"] != 0
                both_tup = refs[i]["c"] == 0 and refs[j]["c"] == 0
                want = same_pair and (both_pyd or both_tup)
                if eq[i][j] != want:
                    fails.append(f"{refs[i]} == {refs[j]} is {eq[i][j]}, expected {want}")
                if eq[i][j] and not he[i][j]:
                    fails.append(f"{refs[i]} == {refs[j]} but their hashes differ")
                if lt[i][j] is not None:
                    w = (refs[i]["p"], refs[i]["i"]) < (refs[j]["p"], refs[j]["i"])
                    if lt[i][j] != w:
                        fails.append(f"{refs[i]} < {refs[j]} is {lt[i][j]}, expected {w}")
        for pz, got in zip(case["parse"], impl["parse"]):
            s = pz["s"]
            if ":" not in s:
                if "e" not in got:
                    fails.append(f"{CLASSES[pz['c']]}.from_curie({s!r}) accepted a separator-free string")
                continue
            p, _, i = s.partition(":")
            if pz["c"] == 3 and pz["n"] is None:
                if got.get("e") != "validation":
                    fails.append(f"NamedReference.from_curie({s!r}, None) gives {got}, expected a validation error")
                continue
            if pz["conv"] and pz["c"] != 0:
                known = {uncps(x): uncps(r_["p"]) for r_ in case["conv"] for x in [r_["p"]] + r_["ps"]}
                if p in known:
                    if got.get("p") != cps(known[p]) or got.get("i") != cps(i):
                        fails.append(f"{CLASSES[pz['c']]}.from_curie({s!r}, converter) gives {got}, expected prefix {known[p]!r}")
                elif got.get("e") != "validation":
                    fails.append(f"{CLASSES[pz['c']]}.from_curie({s!r}, converter) with an unknown prefix gives {got}")
            elif "e" not in got and (got["p"] != cps(p) or got["i"] != cps(i)):
                fails.append(f"{CLASSES[pz['c']]}.from_curie({s!r}) gives {got}, expected split at the first separator")
        return fails

    def tags(self, case, impl):
        out = ["class=" + CLASSES[r["c"]] for r in case["refs"]]
        out += ["parse:" + (p.get("e", "ok")) for p in impl["parse"]]
        return out

    def size(self, case):
        return len(case["refs"])

    def nontrivial(self, case, impl):
        refs = case["refs"]
        cross = any(a["c"] != b["c"] and (a["p"], a["i"]) == (b["p"], b["i"]) for a in refs for b in refs)
        return cross or any(":" in r["i"] for r in refs)

    def fingerprint(self, case):
        return hashlib.sha1(json.dumps([case["refs"], case["parse"]], sort_keys=True).encode()).hexdigest()[:16]

    def evaluations(self, case):
        return len(case["refs"]) ** 2 + len(case["parse"])

    def sample(self, case, impl):
        return [f"{CLASSES[r['c']]}({r['p']!r}, {r['i']!r}, name={r['n']!r}) [obtained via {r.get('via', 'direct')}] -> curie {uncps(c)!r}"
                for r, c in zip(case["refs"], impl["curies"])]

    def readable(self, case, impl):
        out = self.sample(case, impl)
        out.append("== matrix: " + json.dumps(impl["eq"]))
        out.append("<  matrix: " + json.dumps(impl["lt"]))
        for pz, got in zip(case["parse"], impl["parse"]):
            out.append(f"{CLASSES[pz['c']]}.from_curie({pz['s']!r}, name={pz['n']!r}, converter={pz['conv']}) -> {got}")
        return out

    def matches_known(self, entry, case, fails):
        return False

    def reductions(self, case):
        refs, parse = case["refs"], case["parse"]
        if parse:
            yield {**case, "parse": []}
            for i in range(len(parse)):
                yield {**case, "parse": [parse[i]]}
        for i in range(len(refs)):
            if len(refs) > 1:
                yield {**case, "refs": refs[:i] + refs[i + 1:]}

    def neighbours(self, case):
        return []


PROPERTY = C15()
