"""C10 — deriving a new converter never alters the converters it was derived from (histories)."""
from __future__ import annotations

import copy

from .. import gen
from ..common import q, uncps, cps, rec, canon
from ..progprop import ProgramProperty, Getter, have, is_exc, init_step, pyval

OBSERVE = ["records", "prefix_map", "reverse_prefix_map", "bimap", "pattern_map"]


def observe(slot, probes_p, probes_u):
    steps = [q(slot, m) for m in OBSERVE] + [q(slot, "delimiter"), q(slot, "get_prefixes", s=True),
                                             q(slot, "get_uri_prefixes", s=True)]
    for p in probes_p:
        steps += [q(slot, "expand_pair", p, "1"), q(slot, "standardize_prefix", p)]
    for u in probes_u:
        steps += [q(slot, "compress", u)]
    return steps


class C10(ProgramProperty):
    id = "C10"
    theorems = ["C10_frame_followup", "C10_frame_chain", "C10_frame_copy", "C10_histories",
                "C10_chain_mutates_input_pinned", "C10_chain_refines", "C10_copy_refines"]
    lean_modules = ["CuriesVerif.Properties.C10"]
    rule = ("one case = two strict input converters with overlapping records, one derivation drawn from chain (both "
            "orders, both case modes), get_subconverter, remap_curie_prefixes, remap_uri_prefixes, rewire, "
            "discover(converter=...), and 0-5 follow-up add_record / add_prefix(merge=True) operations on the DERIVED "
            "converter that overlap records inherited from the inputs. Every input is observed (records, prefix_map, "
            "reverse_prefix_map, bimap, pattern_map, get_prefixes, get_uri_prefixes, expand / standardize / compress "
            "probes) before the derivation, after it, and after every follow-up. Non-trivial = the derivation "
            "succeeded and at least one follow-up merged into a record inherited from an input. 20 % of the remappings / rewirings are degenerate (empty mapping, unknown names only) and 30 % of the restrictions are all-or-nothing, so that an 'optimised' identity return shows. In 30 % of the cases the inputs are themselves products of a derivation (slice of a slice, chain of a chain, deep copy, pickle).")

    def budget(self, tier):
        return 1500 if tier == "quick" else 40000

    def gen(self, rng, tier):
        a = gen.records(rng, ":", nrec=rng.choice([1, 2, 3]), forbid_delim=False)
        # second input overlaps the first
        b = []
        for j in range(rng.choice([1, 2])):
            new = rec(f"b{j}" + gen.word(rng, 0, 1), f"http://b{j}.example/")
            if rng.random() < 0.7:
                tgt = rng.choice(a)
                side = rng.choice(["p", "u"])
                syn = "ps" if side == "p" else "us"
                val = rng.choice([tgt[side]] + tgt[syn])
                if rng.random() < 0.5:
                    new[side] = val
                else:
                    new[syn] = [val]
            b.append(new)
        if len(b) == 2 and (set(map(tuple, [b[0]["p"]] + b[0]["ps"])) & set(map(tuple, [b[1]["p"]] + b[1]["ps"]))
                            or set(map(tuple, [b[0]["u"]] + b[0]["us"])) & set(map(tuple, [b[1]["u"]] + b[1]["us"]))):
            b = b[:1]
        pa, ua = gen.all_prefixes(a), gen.all_uris(a)
        probes_p = rng.sample(pa, min(4, len(pa))) + [uncps(b[0]["p"])]
        probes_u = [u + "1" for u in rng.sample(ua, min(3, len(ua)))]
        steps = [init_step(0, a), init_step(1, b)]
        origin = "constructed"
        if rng.random() < 0.3:
            # the inputs are themselves products of a derivation (a slice of a slice, a chain of a chain, a copy): whatever
            # a derivation builds, interns or remembers must not tie its result to later results of equal content
            steps, origin = [], "derived"
            for slot, recs_ in ((0, a), (1, b)):
                k = rng.choice(["sub", "chain", "deepcopy", "pickle"])
                steps.append(init_step(20 + slot, recs_))
                if k == "sub":
                    steps.append({"op": "sub", "dst": slot, "src": 20 + slot, "prefixes": [r["p"] for r in recs_]})
                elif k == "chain":
                    steps.append({"op": "chain", "dst": slot, "srcs": [20 + slot], "cs": True})
                else:
                    steps.append({"op": "clone", "dst": slot, "src": 20 + slot, "how": k})
        steps += observe(0, probes_p, probes_u) + observe(1, probes_p, probes_u)
        kind = rng.choice(["chain", "chain", "chain_rev", "chain_ci", "sub", "remap_curie", "remap_uri", "rewire", "discover"])
        D = 5
        if kind == "chain":
            steps.append({"op": "chain", "dst": D, "srcs": [0, 1], "cs": True})
        elif kind == "chain_rev":
            steps.append({"op": "chain", "dst": D, "srcs": [1, 0], "cs": True})
        elif kind == "chain_ci":
            steps.append({"op": "chain", "dst": D, "srcs": [0, 1], "cs": False})
        elif kind == "sub":
            steps.append({"op": "sub", "dst": D, "src": 0, "prefixes": [cps(x) for x in rng.sample(pa, min(2, len(pa)))]})
        elif kind == "remap_curie":
            keys = rng.sample(pa, min(2, len(pa)))
            mapping = [[cps(k), cps("R" + str(i) + k)] for i, k in enumerate(keys)]
            if len(a) > 1 and rng.random() < 0.6:
                # a pair that is skipped as a clash: its target belongs to another record
                x, y = rng.sample(a, 2)
                mapping = [[x["p"], y["p"]]] + [m for m in mapping if m[0] != x["p"]][:1]
            steps.append({"op": "remap_curie", "dst": D, "src": 0, "mapping": mapping})
        elif kind == "remap_uri":
            keys = rng.sample(ua, min(2, len(ua)))
            mapping = [[cps(k), cps("http://moved.example/" + str(i) + "/")] for i, k in enumerate(keys)]
            if len(a) > 1 and rng.random() < 0.6:
                x, y = rng.sample(a, 2)     # clash: the new URI prefix is owned by another record (no-op branch)
                mapping = [[x["u"], y["u"]]]
            steps.append({"op": "remap_uri", "dst": D, "src": 0, "mapping": mapping})
        elif kind == "rewire":
            keys = rng.sample(pa, min(2, len(pa)))
            mapping = [[cps(k), cps("http://rewired.example/" + str(i) + "/")] for i, k in enumerate(keys)]
            if len(a) > 1 and rng.random() < 0.6:
                x, y = rng.sample(a, 2)     # clash / already-canonical: no-op branches
                mapping = [[x["p"], rng.choice([y["u"], x["u"]])]]
            steps.append({"op": "rewire", "dst": D, "src": 0, "mapping": mapping})
        else:
            uris = [u + "123" for u in ua[:2]] + ["http://disc.example/a_1", "http://disc.example/a_2"]
            steps.append({"op": "discover", "dst": D, "src": 0, "uris": [cps(u) for u in uris], "delims": [],
                          "cutoff": None, "metaprefix": cps("ns"),
                          "alnum": sorted({ord(ch) for u in uris for ch in u if ch.isalnum()})})
        # degenerate arguments (nothing to do): an empty mapping, a mapping of unknown names only, an empty / full subset
        if kind in ("remap_curie", "remap_uri", "rewire") and rng.random() < 0.2:
            steps[-1]["mapping"] = [] if rng.random() < 0.6 else [[cps("nosuch1"), cps("nosuch2")]]
            kind += ":noop"
        elif kind == "sub" and rng.random() < 0.3:
            steps[-1]["prefixes"] = [] if rng.random() < 0.3 else [cps(x) for x in pa]
            kind += ":all-or-nothing"
        steps += [q(D, "records"), q(D, "delimiter")]
        steps += observe(0, probes_p, probes_u) + observe(1, probes_p, probes_u)
        # follow-ups on the derived converter, aimed at records inherited from the inputs
        nf = rng.randint(0, 5)
        for k in range(nf):
            tgt = rng.choice(a + b)
            side = rng.choice(["p", "u"])
            new = rec(f"fu{k}", f"http://fu{k}.example/")
            if rng.random() < 0.85:
                syn = "ps" if side == "p" else "us"
                pool = [tgt[side]] + tgt[syn]
                new[side] = rng.choice(pool)
            if rng.random() < 0.5:
                steps.append({"op": "add_prefix", "c": D, "p": new["p"], "u": new["u"], "ps": [cps(f"fusyn{k}")], "us": [],
                              "merge": True})
            else:
                new["ps"] = [cps(f"fusyn{k}")]
                steps.append({"op": "add_record", "c": D, "record": new, "merge": rng.random() < 0.85})
            steps += [q(D, "records")]
            steps += observe(0, probes_p, probes_u) + observe(1, probes_p, probes_u)
        return {"steps": steps, "kind": kind.split(":")[0], "D": D, "tags": ["derive=" + kind, f"followups={nf}", "inputs=" + origin]}

    def run_impl(self, case):
        """Also observe object identity: the derived converter must not hold any Record object of an input
        (this is what ties the aliasing-level model `Model/Heap.lean` — copies on entry — to the code)."""
        from .. import common

        shared = []
        orig = common.impl_query

        def spy(conv, step):
            return orig(conv, step)

        impl = common.run_impl(case["steps"], observer=lambda slots: shared.append(
            sorted(k for k in (0, 1) if k in slots and case["D"] in slots
                   and {id(r) for r in slots[k].records} & {id(r) for r in slots[case["D"]].records})))
        case["_shared"] = [s for s in shared if s]
        case["phase2_done"] = True
        return impl

    def _segments(self, case, impl):
        """Observation snapshots of the two inputs, in order of time."""
        snaps = {0: [], 1: []}
        cur = {0: None, 1: None}
        for st, v in zip(case["steps"], impl):
            if st["op"] == "q" and st["c"] in (0, 1):
                if st["m"] == "records":
                    cur[st["c"]] = []
                    snaps[st["c"]].append(cur[st["c"]])
                if cur[st["c"]] is not None:
                    key = (st["m"], tuple(map(tuple, st.get("a", []))), st.get("s", False))
                    cur[st["c"]].append((key, canon(v, st["m"])))
        return snaps

    def nontrivial(self, case, impl):
        derived_ok = False
        merged = False
        last = None
        for st, v in zip(case["steps"], impl):
            if st["op"] in ("chain", "sub", "remap_curie", "remap_uri", "rewire", "discover"):
                derived_ok = v is None
            if st["op"] == "q" and st["c"] == case["D"] and st["m"] == "records" and isinstance(v, dict) and "r" in v:
                n = len(v["r"])
                if last is not None and n == last and derived_ok:
                    merged = True
                last = n
        return derived_ok and merged

    def tags(self, case, impl):
        out = list(case["tags"])
        for st, v in zip(case["steps"], impl):
            if st["op"] in ("chain", "sub", "remap_curie", "remap_uri", "rewire", "discover"):
                out.append("derivation:" + ("ok" if v is None else str(v.get("e"))))
        return out

    def evaluations(self, case):
        return 1 + sum(1 for st in case["steps"] if st["op"] in ("add_record", "add_prefix"))

    def laws(self, case, impl):
        fails = []
        if case.get("_shared"):
            fails.append(f"the derived converter shares Record objects with input converter(s) {case['_shared'][0]} "
                         f"(derivation {case['kind']})")
        snaps = self._segments(case, impl)
        for slot, lst in snaps.items():
            for k in range(1, len(lst)):
                if lst[k] != lst[0]:
                    first = dict(lst[0])
                    for key, val in lst[k]:
                        if key in first and first[key] != val:
                            fails.append(f"input converter c{slot} changed after step group {k} (derivation {case['kind']}): "
                                         f"{key[0]}{[uncps(list(a)) for a in key[1]]} was {_short(first[key])} and is now {_short(val)}")
                            break
                    else:
                        if len(lst[k]) == len(lst[0]):
                            fails.append(f"input converter c{slot} changed after step group {k}")
                    break
        return fails


def _short(v):
    from ..common import show_val
    try:
        return show_val(v)[:160]
    except Exception:  # noqa: BLE001
        return str(v)[:160]


PROPERTY = C10()
