"""C11 — CURIE-prefix remapping renames records without losing information."""
from __future__ import annotations

from .. import gen
from ..common import q, uncps, cps, rec
from ..progprop import ProgramProperty, Getter, have, is_exc, init_step, pyval

DOCUMENTED = {"dupKeys", "dupValues", "inconsistent", "cycle"}


class C11(ProgramProperty):
    id = "C11"
    theorems = ["C11_order_errors", "C11_ordering_perm", "C11_skip_unknown", "C11_step_uri_part", "C11_run_uri_part",
                "C11_uri_part", "C11_step_known", "C11_known_partial", "C11_known", "C11_applied", "C11_skipped"]
    lean_modules = ["CuriesVerif.Properties.C11"]
    rule = ("one case = one strict converter (default delimiter) and one remapping dictionary of 1-4 pairs over known "
            "canonical prefixes, known synonyms and unknown strings: plain renames, chains (a->b, b->c), swaps, "
            "partially applicable chains (one leg's key unknown), remappings onto existing synonyms of the same or "
            "another record, two pairs aiming at one prefix, keys that are synonyms of one record; the result's "
            "records and get_prefixes(include_synonyms=True) are read, and compress / expand are compared before "
            "and after on a probe set. Non-trivial = the remapping is accepted and some key is also a value, or "
            "a value is already known to the converter. In 35 % of the cases input and result live on (gen.live_tail): each is extended by a merge, all are observed again, and the remapping and a second remapping are applied to the curated input.")

    def budget(self, tier):
        return 4000 if tier == "quick" else 150000

    def build_case(self, recs, rm, uris):
        """The program for one (converter, remapping): observe the input, remap, observe the result."""
        ps = gen.all_prefixes(recs)
        steps = [init_step(0, recs), q(0, "records"), q(0, "delimiter"), q(0, "get_prefixes", s=True)]
        for u in uris:
            steps.append(q(0, "parse_uri", u))
        for p in ps[:6]:
            steps.append(q(0, "expand", p + ":1"))
        steps.append({"op": "remap_curie", "dst": 1, "src": 0, "mapping": rm})
        steps += [q(1, "records"), q(1, "delimiter"), q(1, "get_prefixes", s=True)]
        for u in uris:
            steps.append(q(1, "parse_uri", u))
        for p in ps[:6] + [uncps(v) for _, v in rm]:
            steps.append(q(1, "expand", p + ":1"))
        kset = {uncps(k) for k, _ in rm}
        vset = {uncps(v) for _, v in rm}
        tags = []
        if kset & vset:
            tags.append("key-is-also-value")
        if vset & set(ps):
            tags.append("value-already-known")
        if kset - set(ps):
            tags.append("unknown-key")
        return {"steps": steps, "rm": rm, "uris": uris, "prefixes": ps[:6], "tags": tags or ["plain"],
                "interesting": bool((kset & vset) or (vset & set(ps)))}

    def exhaustive(self, tier):
        """Every remapping of 1-2 (thorough: 1-3) pairs over a small universe of names, on a fixed three-record converter:
        canonical prefixes, synonyms and unknown names as keys and as values - chains, swaps, clashes, hand-overs,
        duplicate keys / values, all of them."""
        import itertools
        import multiprocessing as mp

        recs = [rec("a", "http://a/", ["A"], ["http://a2/"]), rec("b", "http://b/"), rec("c", "http://c/", ["C"])]
        names = ["a", "A", "b", "c", "C", "x", "y"]
        uris = ["http://a/1", "http://a2/1", "http://b/1", "http://c/1", "http://z/1"]
        maxn = 2 if tier == "quick" else 3
        cases = []
        for n in range(1, maxn + 1):
            for keys in itertools.combinations(names, n):
                for vals in itertools.product(names, repeat=n):
                    for order in ([0], [0, 1], [1, 0], [0, 1, 2], [2, 1, 0], [1, 2, 0])[: 1 if n == 1 else 6]:
                        if len(order) != n:
                            continue
                        rm = [[cps(keys[i]), cps(vals[i])] for i in order]
                        cases.append(self.build_case(recs, rm, uris))
        chunks = [cases[i:i + 100] for i in range(0, len(cases), 100)]
        bad = []
        with mp.get_context("fork").Pool(16) as pool:
            for b in pool.imap_unordered(_scope_worker, chunks):
                bad.extend(b)
        return {"n": len(cases), "bad": bad[:20], "complete": True,
                "scope": f"every remapping of 1..{maxn} pairs (every insertion order) with keys and values drawn from {names} on the "
                         f"converter a(A) b c(C): {len(cases)} remappings"}

    def gen(self, rng, tier):
        recs = gen.records(rng, ":", forbid_delim=False, patterns=True)
        ps = gen.all_prefixes(recs)
        unknown = [w for w in ["x", "y", "zzz", "NEW", "c"] + [gen.word(rng, 1, 2)] if w not in ps]
        pool = list(dict.fromkeys(ps + unknown))    # a remapping is a dict: keys are distinct
        n = rng.choice([1, 1, 2, 2, 3, 4])
        keys = rng.sample(pool, min(n, len(pool)))
        rm = []
        kind = rng.random()
        for i, k in enumerate(keys):
            if kind < 0.35 and i + 1 < len(keys):
                v = keys[i + 1]  # chain: this value is the next key
            elif kind < 0.45 and i == len(keys) - 1 and len(keys) > 1:
                v = keys[0]  # close a cycle
            else:
                v = rng.choice(pool)
            rm.append([cps(k), cps(v)])
        if len(recs) >= 2 and rng.random() < 0.25:
            # a *valid* hand-over chain across records: r1's name -> r2's name -> ... -> a fresh name (2-4 links), often with an
            # unrelated pair next to it, in a random insertion order (the order of application must not depend on it)
            m = rng.randint(2, min(4, len(recs)))
            chain = rng.sample(recs, m)
            names = [uncps(rng.choice([r["p"]] + r["ps"])) for r in chain]
            rm = [[cps(a), cps(b)] for a, b in zip(names, names[1:] + ["fresh" + gen.word(rng, 1, 1, syms=["a", "b", "1"])])]
            rest = [r for r in recs if r not in chain]
            if rest and rng.random() < 0.6:
                rm.append([rng.choice([rest[0]["p"]] + rest[0]["ps"]), cps(rng.choice(["e", "mm", "zzfresh", "b0"]))])
        rng.shuffle(rm)
        uris = gen.uri_probes(rng, recs, 5)
        case = self.build_case(recs, rm, uris)
        steps, tags = case["steps"], [t for t in case["tags"] if t != "plain"]
        if len(recs) >= 2 and rng.random() < 0.25:
            # another converter in the same process, knowing the same names but grouping them differently (the CURIE prefixes
            # rotated over the records), is remapped with the very same mapping first
            if rng.random() < 0.5:
                rot = [dict(r, p=recs[(i + 1) % len(recs)]["p"], ps=recs[(i + 1) % len(recs)]["ps"]) for i, r in enumerate(recs)]
            else:   # (only the synonyms move: every synonym keeps being known, under another canonical prefix)
                rot = [dict(r, ps=recs[(i + 1) % len(recs)]["ps"]) for i, r in enumerate(recs)]
            steps = [init_step(70, rot), {"op": "remap_curie", "dst": 71, "src": 70, "mapping": rm}, q(71, "records")] + steps
            tags.append("same-mapping-on-a-regrouped-converter-first")
        ps = gen.all_prefixes(recs)
        kset = {uncps(k) for k, _ in rm}
        vset = {uncps(v) for _, v in rm}
        if rng.random() < 0.35:
            rm2 = [[k, cps("second" + uncps(v))] for k, v in rm[:2]]
            steps += gen.live_tail(rng, recs, 0, [1], redo=[{"op": "remap_curie", "dst": 5, "src": 0, "mapping": rm},
                                                            {"op": "remap_curie", "dst": 6, "src": 0, "mapping": rm2}])
            tags.append("history:live-objects")
        return {"steps": steps, "rm": rm, "uris": uris, "prefixes": ps[:6], "tags": tags or ["plain"],
                "interesting": bool((kset & vset) or (vset & set(ps)))}

    def _remap_result(self, case, impl):
        for st, v in zip(case["steps"], impl):
            if st["op"] == "remap_curie" and st.get("dst") == 1:
                return v
        return "missing"

    def nontrivial(self, case, impl):
        return self._remap_result(case, impl) is None and case["interesting"]

    def tags(self, case, impl):
        v = self._remap_result(case, impl)
        return case["tags"] + ["result:" + ("ok" if v is None else v.get("e", "?") if isinstance(v, dict) else str(v))]

    def evaluations(self, case):
        return 1

    def laws(self, case, impl):
        fails = []
        v = self._remap_result(case, impl)
        if v == "missing":
            return fails
        if v is not None:
            if not (isinstance(v, dict) and v.get("e") in DOCUMENTED):
                fails.append(f"remap_curie_prefixes raised {v!r}, not one of DuplicateKeys / DuplicateValues / "
                             f"InconsistentMapping / CycleDetected")
            return fails
        g0, g1 = Getter(case, impl, 0), Getter(case, impl, 1)
        r0, r1 = g0("records"), g1("records")
        if not have(r0, r1) or is_exc(r1):
            return fails
        byuri = {r["u"]: r for r in r1}
        for u in case["uris"]:
            a, b = g0("parse_uri", u), g1("parse_uri", u)
            if not have(a, b):
                continue
            if (a is None) != (b is None):
                fails.append(f"parse_uri({u!r}) is {a!r} before and {b!r} after the remapping")
            elif a is not None and a[1] != b[1]:
                fails.append(f"parse_uri({u!r}) has identifier {a[1]!r} before and {b[1]!r} after the remapping")
        p0, p1 = g0("get_prefixes", s=True), g1("get_prefixes", s=True)
        if have(p0, p1) and not set(p0) <= set(p1):
            fails.append(f"prefixes known before but not after the remapping: {sorted(set(p0) - set(p1))}")
        for p in case["prefixes"]:
            a, b = g0("expand", p + ":1"), g1("expand", p + ":1")
            if have(a, b) and a is not None and b is None:
                fails.append(f"expand({p + ':1'!r}) worked before the remapping and returns None after it")
        return fails


PROPERTY = C11()


def _scope_worker(cases):
    from .. import engine

    res = engine.evaluate_cases(PROPERTY, cases)
    return [r for r in res if r["diffs"] or r["fails"]][:5]
