"""Exhaustive small-scope stream: *every* strict converter of a small shape, *every* short query string.

The refinement theorem T0 says the model answers every specified query as the brute-force specification does, for
every converter and every string.  This stream checks the same statement of the *implementation* — and the
model/implementation correspondence — exhaustively on a finite scope, where random generation only samples:

* alphabet: 'a', the delimiter ':' (quick) plus 'b' (thorough);
* registered strings: all strings of length <= 2 over the alphabet (7 resp. 13 of them);
* converters: every one-record converter (prefix, URI prefix) and every strict two-record converter over those
  strings (distinct prefixes, distinct URI prefixes), the second record optionally carrying the first unused string
  as a CURIE-prefix synonym and as a URI-prefix synonym;
* queries: every string of length <= 3 over the alphabet, through each of the property's methods (all three modes
  where the method has them).

A case is one converter with all its queries; the scope is enumerated completely on every run of the tier.
"""
from __future__ import annotations

import itertools
import multiprocessing as mp

from . import common
from .common import cps, q, rec
from .progprop import ProgramProperty


def strings(alphabet, maxlen):
    out = [""]
    for n in range(1, maxlen + 1):
        out += ["".join(t) for t in itertools.product(alphabet, repeat=n)]
    return out


def converters(alphabet):
    reg = strings(alphabet, 2)
    for p, u in itertools.product(reg, reg):
        yield [rec(p, u)]
    for (p1, p2) in itertools.combinations(reg, 2):
        for (u1, u2) in itertools.permutations(reg, 2):
            yield [rec(p1, u1), rec(p2, u2)]
    # synonyms: a third prefix / URI prefix on the second record
    for (p1, p2) in itertools.combinations(reg[:5], 2):
        for (u1, u2) in itertools.permutations(reg[:5], 2):
            ps = next(x for x in reg if x not in (p1, p2))
            us = next(x for x in reg if x not in (u1, u2))
            yield [rec(p1, u1), rec(p2, u2, [ps], [us])]


class _Scope(ProgramProperty):
    """Correspondence and Lean spec verdict only (no property-specific laws)."""
    id = "scope"

    def laws(self, case, impl):
        return []


def _queries(methods, qstrings):
    steps = [q(0, "records"), q(0, "delimiter")]
    for m, arity, modes in methods:
        for s in qstrings:
            if arity == 2:
                # (prefix, identifier): split every way at one position, covering the empty parts too
                for cut in range(len(s) + 1):
                    for st, pt in modes:
                        steps.append(q(0, m, s[:cut], s[cut:], s=st, p=pt))
            else:
                for st, pt in modes:
                    steps.append(q(0, m, s, s=st, p=pt))
    return steps


# a scope case carries the keys the properties' own bookkeeping looks at, empty: their laws have nothing to say about it
SCOPE_KEYS = {"_scope": True, "phase2_done": True, "delim": ":", "pairs": [], "uris": [], "curies": [], "prefixes": [],
              "probes": [], "prefix_free": False, "tags": ["small-scope"], "nontrivial": True}

ALL = [(False, False), (True, False), (False, True), (True, True)]
NOP = [(False, False), (True, False)]
ONE = [(False, False)]

METHODS = {
    "C01": [("parse_uri", 1, NOP), ("compress", 1, ALL), ("is_uri", 1, ONE), ("trie_lpi", 1, ONE)],
    "C02": [("expand", 1, ONE), ("expand_pair", 2, ONE), ("expand_all", 1, ONE), ("expand_pair_all", 2, ONE), ("is_curie", 1, ONE),
            ("parse_curie", 1, ONE)],
    "C03": [("compress", 1, ONE), ("expand", 1, ONE), ("standardize_uri", 1, ONE), ("expand_all", 1, ONE)],
    "C06": [("standardize_prefix", 1, ALL), ("standardize_curie", 1, ALL), ("standardize_uri", 1, ALL)],
    "C07": [("parse", 1, NOP), ("is_uri", 1, ONE), ("is_curie", 1, ONE), ("compress_or_standardize", 1, ALL),
            ("expand_or_standardize", 1, ALL), ("compress_strict", 1, ONE), ("expand_strict", 1, ONE)],
    "C08": [("compress", 1, ALL), ("expand", 1, ALL), ("expand_pair", 2, ALL), ("parse_uri", 1, NOP), ("parse_curie", 1, NOP),
            ("expand_all", 1, NOP), ("standardize_prefix", 1, ALL), ("standardize_curie", 1, ALL), ("standardize_uri", 1, ALL)],
}


def _worker(args):
    prop_id, convs, qstrings = args
    from . import engine

    prop = _Scope()
    cases = [dict(SCOPE_KEYS, steps=[{"op": "init", "dst": 0, "records": recs, "delim": cps(":")}]
                  + _queries(METHODS[prop_id], qstrings)) for recs in convs]
    res = engine.evaluate_cases(prop, cases)
    bad = [r for r in res if r["diffs"] or r["fails"]]
    evals = sum(len(c["steps"]) - 3 for c in cases)
    return len(cases), evals, bad[:5]


def run(prop_id: str, tier: str, procs: int = 16):
    alphabet = ["a", ":"] if tier == "quick" else ["a", "b", ":"]
    qstrings = strings(alphabet, 3)
    convs = list(converters(alphabet))
    chunks = [convs[i:i + 40] for i in range(0, len(convs), 40)]
    n = evals = 0
    bad = []
    ctx = mp.get_context("fork")
    with ctx.Pool(procs) as pool:
        for k, e, b in pool.imap_unordered(_worker, [(prop_id, ch, qstrings) for ch in chunks]):
            n += k
            evals += e
            bad.extend(b)
    return {"n": n, "bad": bad[:20], "complete": True, "queries": evals,
            "scope": f"every strict converter of 1 or 2 records over the {len(strings(alphabet, 2))} strings of length <= 2 over "
                     f"{alphabet} (plus one synonym each on a sub-family), delimiter ':', and every query string of length <= 3 "
                     f"({len(qstrings)} strings) through {[m for m, _, _ in METHODS[prop_id]]} in all their modes: {n} converters, "
                     f"{evals} queries"}


# --------------------------------------------------------------------------------------------
# C05: every one-step history of a small shape (T2 on the implementation, exhaustively)

def _history_cases(reg, snapshot):
    fixed = rec("z", "z:")
    for p1, u1 in itertools.product(reg, reg):
        start = [rec(p1, u1), fixed]
        for p2, u2 in itertools.product(reg, reg):
            for extra in ({}, {"ps": [cps("z")]}, {"us": [cps("z:")]}):
                new = dict(rec(p2, u2), **extra)
                if "z" in (p2,) or "z:" in (u2,):
                    continue
                for cs in (True, False):
                    for merge in (False, True):
                        steps = [{"op": "init", "dst": 0, "records": start, "delim": cps(":")}]
                        steps += [q(0, m) for m in snapshot] + [q(0, "delimiter")]
                        steps.append({"op": "add_record", "c": 0, "record": new, "cs": cs, "merge": merge})
                        steps += [q(0, m) for m in snapshot] + [q(0, "delimiter"),
                                                                 {"op": "fresh", "dst": 1, "src": 0}, q(1, "records"), q(1, "delimiter")]
                        for c in (0, 1):
                            for s in sorted(set(reg) | {"z", "z:"}):
                                steps += [q(c, "standardize_prefix", s), q(c, "expand_pair_all", s, "x"),
                                          q(c, "compress", s + "x"), q(c, "standardize_uri", s + "x")]
                        yield {"steps": steps, "delim": ":", "tags": ["small-scope"], "phase2_done": True}


def _history_worker(args):
    cases = args
    from . import engine
    from .props.c05 import PROPERTY

    res = engine.evaluate_cases(PROPERTY, cases)
    bad = [r for r in res if r["diffs"] or r["fails"]]
    return len(cases), bad[:5]


def run_histories(tier: str, procs: int = 16):
    from .props.c05 import SNAPSHOT

    reg = ["", "a", "A", "aa"] if tier == "quick" else strings(["a", "A"], 2)
    cases = list(_history_cases(reg, list(SNAPSHOT)))
    chunks = [cases[i:i + 60] for i in range(0, len(cases), 60)]
    n = 0
    bad = []
    ctx = mp.get_context("fork")
    with ctx.Pool(procs) as pool:
        for k, b in pool.imap_unordered(_history_worker, chunks):
            n += k
            bad.extend(b)
    return {"n": n, "bad": bad[:20], "complete": True,
            "scope": f"every history 'Converter([r1, z]) ; add_record(r2, case_sensitive, merge)' with r1, r2 over the "
                     f"{len(reg)} strings {reg} as CURIE prefix and URI prefix, r2 optionally bridging to the fixed record z "
                     f"through a CURIE-prefix or URI-prefix synonym, all four flag combinations: {n} histories, each observed "
                     f"(records, the five lookup structures, a fresh converter from the records, every registered string as "
                     f"prefix and as URI) and judged by the C05 laws, the Lean spec checker and the model"}


# --------------------------------------------------------------------------------------------
# C04: every two-record collection of a small shape through the strict constructor

def _collection_cases(reg):
    shapes = []
    for p, u in itertools.product(reg, reg):
        for ps in [[]] + [[x] for x in reg]:
            for us in [[]] + [[y] for y in reg]:
                shapes.append(rec(p, u, ps, us))
    for r1, r2 in itertools.product(shapes, shapes):
        recs = [r1, r2]
        steps = [{"op": "init", "dst": 0, "records": recs, "delim": cps(":"), "strict": True}, {"op": "dups", "records": recs},
                 q(0, "records"), q(0, "bimap"), q(0, "reverse_bimap"), q(0, "prefix_map"), q(0, "reverse_prefix_map"),
                 dict({"op": "init", "dst": 1, "records": recs, "delim": cps(":"), "strict": True}, via="epm_records"),
                 q(1, "records")]
        yield {"steps": steps, "tags": ["small-scope"], "nontrivial": True, "phase2_done": True}


def _collection_worker(cases):
    from . import engine
    from .props.c04 import PROPERTY

    res = engine.evaluate_cases(PROPERTY, cases)
    return len(cases), [r for r in res if r["diffs"] or r["fails"]][:5]


def run_collections(tier: str, procs: int = 16):
    reg = ["", "a"] if tier == "quick" else ["", "a", "b"]
    cases = list(_collection_cases(reg))
    chunks = [cases[i:i + 100] for i in range(0, len(cases), 100)]
    n = 0
    bad = []
    ctx = mp.get_context("fork")
    with ctx.Pool(procs) as pool:
        for k, b in pool.imap_unordered(_collection_worker, chunks):
            n += k
            bad.extend(b)
    return {"n": n, "bad": bad[:20], "complete": True,
            "scope": f"every ordered pair of records with CURIE prefix, URI prefix and at most one synonym on each side drawn from "
                     f"{reg} (self-synonyms included), through Converter(...), the duplicate listing and "
                     f"from_extended_prefix_map: {n} collections"}
