"""Base class for properties whose cases are protocol programs over converter slots."""
from __future__ import annotations

import copy
import hashlib
import json

from . import common
from .common import cps, uncps

STD_TRUSTED = [
    "Lean 4.33.0 kernel; axioms per theorem as listed under coverage.theorems (subset of propext, Classical.choice, Quot.sound)",
    "hand-written Lean model of the anchored code (lean/CuriesVerif/Model), tied to /repo by this run's correspondence check",
    "the harness: generators, canonicalisation (harness/common.py), JSON codec (lean/CuriesVerif/Codec.lean)",
    "CPython str/dict/sorted, pydantic construction of Record, PyTrie longest_prefix_item: modelled by contract, exercised on every case",
]


class ProgramProperty:
    id = "C00"
    theorems: list[str] = []
    lean_modules: list[str] = []
    rule = ""
    assumptions: list[str] = []
    trusted_base = STD_TRUSTED
    check_name: str | None = None  # extra Lean-side law checker

    # ---- generation ------------------------------------------------------------------------
    def budget(self, tier: str) -> int:
        return 2000 if tier == "quick" else 50000

    def gen(self, rng, tier) -> dict:
        raise NotImplementedError

    # ---- execution -------------------------------------------------------------------------
    def run_impl(self, case) -> list:
        return common.run_impl(case["steps"])

    def request(self, case, impl) -> dict:
        req = {"k": "prog", "steps": case["steps"], "obs": impl,
               "fold": common.fold_table(common.program_strings(case["steps"]))}
        if self.check_name:
            req["check"] = self.check_name
        return req

    def compare(self, case, impl, resp) -> list[dict]:
        return common.compare_program(case["steps"], impl, resp["model"])

    def extra_fails(self, case, impl, resp) -> list[str]:
        return []

    # ---- bookkeeping -----------------------------------------------------------------------
    def tags(self, case, impl):
        return case.get("tags", [])

    def size(self, case):
        return sum(len(st.get("records", [])) for st in case["steps"])

    def nontrivial(self, case, impl) -> bool:
        return bool(case.get("nontrivial", True))

    def fingerprint(self, case) -> str:
        return hashlib.sha1(json.dumps(case["steps"], sort_keys=True).encode()).hexdigest()[:16]

    def evaluations(self, case) -> int:
        return sum(1 for st in case["steps"] if st["op"] == "q")

    def sample(self, case, impl):
        lines = common.show_program(case["steps"])
        return [f"{l}  ->  {common.show_val(v)}" for l, v in list(zip(lines, impl))[:12]]

    def readable(self, case, impl):
        lines = common.show_program(case["steps"])
        return [f"{l}  ->  {common.show_val(v)}" for l, v in zip(lines, impl)]

    def matches_known(self, entry, case, fails) -> bool:
        return False

    # ---- shrinking -------------------------------------------------------------------------
    def reductions(self, case):
        """Smaller variants of a case, most aggressive first."""
        steps = case["steps"]
        # drop one step (queries and mutations; never the first construction)
        for i in range(len(steps) - 1, 0, -1):
            c = copy.deepcopy(case)
            del c["steps"][i]
            yield c
        # drop one record of a construction
        for i, st in enumerate(steps):
            if st["op"] == "init":
                for j in range(len(st["records"])):
                    c = copy.deepcopy(case)
                    del c["steps"][i]["records"][j]
                    yield c
        # drop one synonym / the pattern
        for i, st in enumerate(steps):
            recs = st.get("records", []) if st["op"] == "init" else ([st["record"]] if "record" in st else [])
            for j, r in enumerate(recs):
                for fld in ("ps", "us"):
                    for k in range(len(r.get(fld, []))):
                        c = copy.deepcopy(case)
                        rr = c["steps"][i]["records"][j] if st["op"] == "init" else c["steps"][i]["record"]
                        del rr[fld][k]
                        yield c
                if r.get("pat") is not None:
                    c = copy.deepcopy(case)
                    rr = c["steps"][i]["records"][j] if st["op"] == "init" else c["steps"][i]["record"]
                    rr["pat"] = None
                    yield c
        # shorten query arguments
        for i, st in enumerate(steps):
            if st["op"] == "q":
                for k, a in enumerate(st.get("a", [])):
                    if len(a) > 1:
                        for cut in (a[: len(a) // 2], a[1:], a[:-1]):
                            c = copy.deepcopy(case)
                            c["steps"][i]["a"][k] = cut
                            yield c

    def neighbours(self, case):
        """Cases close to a disagreeing case (search after a correspondence break)."""
        out = []
        steps = case["steps"]
        for i, st in enumerate(steps):
            if st["op"] == "q" and st.get("a"):
                for k, a in enumerate(st["a"]):
                    for v in (a[:-1], a + [a[-1] if a else 97], a + [58], a[1:]):
                        c = copy.deepcopy(case)
                        c["steps"][i]["a"][k] = v
                        out.append(c)
                for s in (False, True):
                    for p in (False, True):
                        c = copy.deepcopy(case)
                        c["steps"][i]["s"], c["steps"][i]["p"] = s, p
                        out.append(c)
        return out[:200]
