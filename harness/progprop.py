"""Base class for properties whose cases are protocol programs over converter slots."""
from __future__ import annotations

import copy
import hashlib
import json

from . import common
from .common import cps, uncps

STD_TRUSTED = [
    "Lean 4.33.0 kernel; axioms per theorem as listed under coverage.theorems (subset of propext, Classical.choice, Quot.sound)",
    "hand-written Lean model of the anchored code (lean/CuriesVerif/Model), tied to /repo by this run's correspondence check",
    "the harness: generators, canonicalisation (harness/common.py), JSON codec (lean/CuriesVerif/Codec.lean)",
    "CPython str/dict/sorted and pydantic construction of Record: modelled by contract, exercised on every case; pytrie's "
    "StringTrie is modelled structurally (Model/Trie.lean, proved to refine the contract: C01_trie) and compared with the real "
    "trie by C01; the csv dialect is modelled at byte level (Model/Csv.lean, csv_roundtrip) and compared with the real files by "
    "C14 / C15 / C16; json.dumps / json.loads are modelled on the text (Model/Json.lean, parse_render; numbers excluded) and "
    "compared with CPython's json by C14",
]


class ProgramProperty:
    id = "C00"
    theorems: list[str] = []
    lean_modules: list[str] = []
    rule = ""
    assumptions: list[str] = []
    trusted_base = STD_TRUSTED
    check_name: str | None = None  # extra Lean-side law checker

    # ---- generation ------------------------------------------------------------------------
    def budget(self, tier: str) -> int:
        return 2000 if tier == "quick" else 50000

    def gen(self, rng, tier) -> dict:
        raise NotImplementedError

    # ---- execution -------------------------------------------------------------------------
    def run_impl(self, case) -> list:
        """Run the program on the real library.  A property may add a second phase of steps that
        depend on what the implementation answered in the first (e.g. expand what compress returned);
        the added steps become part of the case, so replays and the model see the same program."""
        impl = common.run_impl(case["steps"])
        if not case.get("phase2_done"):
            extra = self.phase2(case, impl)
            if extra:
                case["steps"] = case["steps"] + extra
                impl = common.run_impl(case["steps"])
            case["phase2_done"] = True
        if case.get("shadow"):
            # a second program that only the implementation runs and only the property's own laws judge (no model): used for
            # histories whose meaning Python, not the library, defines -- copy.copy(converter) aliases every attribute
            case["_shadow_impl"] = common.run_impl(case["shadow"])
        return impl

    def phase2(self, case, impl) -> list:
        return []

    def request(self, case, impl) -> dict:
        req = {"k": "prog", "steps": case["steps"], "obs": impl,
               "fold": common.fold_table(common.program_strings(case["steps"]))}
        if self.check_name:
            req["check"] = self.check_name
        return req

    def compare(self, case, impl, resp) -> list[dict]:
        return common.compare_program(case["steps"], impl, resp["model"])

    def extra_fails(self, case, impl, resp) -> list[str]:
        # steps marked `_tail` (gen.live_tail: the converters live on and are mutated after the operations under
        # test) are judged by the correspondence with the pure model and by the Lean spec checker; the property's own
        # laws speak about the program up to there
        # (phase-2 steps, appended after the tail, are kept: they query converters the tail does not touch)
        if case.get("_scope"):
            return []           # exhaustive small-scope cases (harness/smallscope.py): correspondence and Lean spec verdict only
        shadow = []
        if case.get("shadow") and case.get("_shadow_impl") is not None:
            shadow = ["[after c1 = copy.copy(c0) and additions to c1] " + f
                      for f in self.laws(dict(case, steps=case["shadow"]), case["_shadow_impl"])]
        if not any(st.get("_tail") for st in case["steps"]):
            return self.laws(case, impl) + shadow
        keep = [i for i, st in enumerate(case["steps"]) if not st.get("_tail")]
        return self.laws(dict(case, steps=[case["steps"][i] for i in keep]), [impl[i] for i in keep]) + shadow

    def laws(self, case, impl) -> list[str]:
        """The property's own laws evaluated directly on the implementation's outputs."""
        return []

    # ---- bookkeeping -----------------------------------------------------------------------
    def tags(self, case, impl):
        return case.get("tags", [])

    def size(self, case):
        return sum(len(st.get("records", [])) for st in case["steps"])

    def nontrivial(self, case, impl) -> bool:
        return bool(case.get("nontrivial", True))

    def fingerprint(self, case) -> str:
        return hashlib.sha1(json.dumps(case["steps"], sort_keys=True).encode()).hexdigest()[:16]

    def evaluations(self, case) -> int:
        return sum(1 for st in case["steps"] if st["op"] == "q")

    def sample(self, case, impl):
        lines = common.show_program(case["steps"])
        return [f"{l}  ->  {common.show_val(v)}" for l, v in list(zip(lines, impl))[:12]]

    def readable(self, case, impl):
        lines = common.show_program(case["steps"])
        out = [f"{l}  ->  {common.show_val(v)}" for l, v in zip(lines, impl)]
        if case.get("shadow") and case.get("_shadow_impl") is not None:
            out.append("-- second program (implementation only, judged by the property's laws):")
            out += [f"{l}  ->  {common.show_val(v)}" for l, v in zip(common.show_program(case["shadow"]), case["_shadow_impl"])]
        return out

    def matches_known(self, entry, case, fails) -> bool:
        return False

    # ---- shrinking -------------------------------------------------------------------------
    def reductions(self, case):
        """Smaller variants of a case, most aggressive first."""
        steps = case["steps"]
        # drop whole blocks of steps first (halves, quarters, eighths, ... of everything after the first construction)
        n = len(steps) - 1
        size = n // 2
        while size >= 4:
            for a in range(1, len(steps), size):
                c = copy.deepcopy(case)
                del c["steps"][a:a + size]
                yield c
            size //= 2
        # drop one step (queries and mutations; never the first construction)
        for i in range(len(steps) - 1, 0, -1):
            c = copy.deepcopy(case)
            del c["steps"][i]
            yield c
        # drop one record of a construction
        for i, st in enumerate(steps):
            if st["op"] == "init":
                for j in range(len(st["records"])):
                    c = copy.deepcopy(case)
                    del c["steps"][i]["records"][j]
                    yield c
        # drop one synonym / the pattern
        for i, st in enumerate(steps):
            recs = st.get("records", []) if st["op"] == "init" else ([st["record"]] if "record" in st else [])
            for j, r in enumerate(recs):
                for fld in ("ps", "us"):
                    for k in range(len(r.get(fld, []))):
                        c = copy.deepcopy(case)
                        rr = c["steps"][i]["records"][j] if st["op"] == "init" else c["steps"][i]["record"]
                        del rr[fld][k]
                        yield c
                if r.get("pat") is not None:
                    c = copy.deepcopy(case)
                    rr = c["steps"][i]["records"][j] if st["op"] == "init" else c["steps"][i]["record"]
                    rr["pat"] = None
                    yield c
        # shorten query arguments
        for i, st in enumerate(steps):
            if st["op"] == "q":
                for k, a in enumerate(st.get("a", [])):
                    if len(a) > 1:
                        for cut in (a[: len(a) // 2], a[1:], a[:-1]):
                            c = copy.deepcopy(case)
                            c["steps"][i]["a"][k] = cut
                            yield c

    def neighbours(self, case):
        """Cases close to a disagreeing case (search after a correspondence break)."""
        out = []
        steps = case["steps"]
        for i, st in enumerate(steps):
            if st["op"] == "q" and st.get("a"):
                for k, a in enumerate(st["a"]):
                    for v in (a[:-1], a + [a[-1] if a else 97], a + [58], a[1:]):
                        c = copy.deepcopy(case)
                        c["steps"][i]["a"][k] = v
                        out.append(c)
                for s in (False, True):
                    for p in (False, True):
                        c = copy.deepcopy(case)
                        c["steps"][i]["s"], c["steps"][i]["p"] = s, p
                        out.append(c)
        return out[:200]


# ---- helpers for law checks --------------------------------------------------------------


def results(case, impl) -> dict:
    """(slot, method, args as str tuple, strict, passthrough) -> decoded python value / ('EXC', name)."""
    out = {}
    for st, v in zip(case["steps"], impl):
        if st["op"] != "q" or (isinstance(v, dict) and "bad" in v):
            continue
        key = (st["c"], st["m"], tuple(uncps(a) for a in st.get("a", [])), bool(st.get("s")), bool(st.get("p")))
        out[key] = pyval(v)
    return out


def pyval(v):
    if v is None or isinstance(v, bool):
        return v
    if "s" in v:
        return uncps(v["s"])
    if "pr" in v:
        return (uncps(v["pr"][0]), uncps(v["pr"][1]))
    if "l" in v:
        return [uncps(x) for x in v["l"]]
    if "e" in v:
        return ("EXC", v["e"])
    if "r" in v:
        return [{"p": uncps(r["p"]), "u": uncps(r["u"]), "ps": [uncps(x) for x in r["ps"]],
                 "us": [uncps(x) for x in r["us"]], "pat": None if r.get("pat") is None else uncps(r["pat"])}
                for r in v["r"]]
    if "d" in v:
        return {uncps(k): uncps(x) for k, x in v["d"]}
    return v


class _Missing:
    def __repr__(self):
        return "<not queried>"


MISSING = _Missing()


class Getter:
    """`g(method, *args, s=False, p=False)` -> value, or MISSING if the (shrunk) case has no such query."""

    def __init__(self, case, impl, slot=0):
        self.res = results(case, impl)
        self.slot = slot

    def __call__(self, m, *a, s=False, p=False, c=None):
        return self.res.get((self.slot if c is None else c, m, tuple(a), s, p), MISSING)


def have(*vals) -> bool:
    return all(v is not MISSING for v in vals)


def is_exc(v) -> bool:
    return isinstance(v, tuple) and len(v) == 2 and v[0] == "EXC"


def init_step(dst, recs, delim=":", strict=True):
    return {"op": "init", "dst": dst, "records": recs, "delim": cps(delim), "strict": strict}


def case_records(case) -> list:
    """Every protocol record mentioned by the construction / mutation steps of a case."""
    out = []
    for st in case["steps"]:
        out.extend(st.get("records", []))
        if "record" in st:
            out.append(st["record"])
        if st["op"] == "add_prefix":
            out.append({"p": st["p"], "u": st["u"], "ps": st.get("ps", []), "us": st.get("us", [])})
        if st["op"] == "load_pm":
            out.extend({"p": k, "u": v, "ps": [], "us": []} for k, v in st["data"])
    return out
