"""The csv layer: CPython's `csv` module (as the library uses it: `csv.reader` / `csv.writer` with `delimiter=`, on
files opened with `newline=""`) against `Model/Csv.lean` (csvRead / csvWrite), both directions, on arbitrary text and
arbitrary tables — not only on what the library's own writers produce."""
from __future__ import annotations

import csv
import io
import itertools

from .common import cps, uncps

ALPHABET = ["a", "b", "\"", "\t", ",", "|", "\r", "\n", " ", "é", "'", "\\", ";"]
EXH_CELLS = ["", "a", "\"", "\n", "\r", "a\"", " "]


def py_read(text: str, d: str):
    try:
        return [[cps(c) for c in row] for row in csv.reader(io.StringIO(text, newline=""), delimiter=d)]
    except csv.Error as e:
        return {"error": str(e)}


def py_write(table, d: str):
    f = io.StringIO(newline="")
    csv.writer(f, delimiter=d).writerows(table)
    return cps(f.getvalue())


def gen_case(rng):
    d = rng.choice(["\t", ",", "|", ";"])
    alph = ALPHABET + [d, d, "\"", "\r", "\n"]
    texts = ["".join(rng.choice(alph) for _ in range(rng.randint(0, 14))) for _ in range(12)]
    tables = [[["".join(rng.choice(alph) for _ in range(rng.randint(0, 4))) for _ in range(rng.randint(0, 3))]
               for _ in range(rng.randint(0, 4))] for _ in range(6)]
    return {"d": d, "texts": texts, "tables": tables}


def run_python(cc):
    return {"read": [py_read(t, cc["d"]) for t in cc["texts"]], "written": [py_write(t, cc["d"]) for t in cc["tables"]]}


def request(cc):
    return {"k": "csv", "d": ord(cc["d"]), "texts": [cps(t) for t in cc["texts"]],
            "tables": [[[cps(c) for c in r] for r in t] for t in cc["tables"]]}


def compare(cc, impl, resp):
    diffs = []
    show = lambda rows: rows if isinstance(rows, dict) else [[uncps(c) for c in r] for r in rows]
    for i, (a, b) in enumerate(zip(impl["read"], resp["read"])):
        if a != b:
            diffs.append({"step": i, "op": f"csv.reader({cc['texts'][i]!r}, delimiter={cc['d']!r})", "implementation": show(a),
                          "model": show(b)})
    for i, (a, b) in enumerate(zip(impl["written"], resp["written"])):
        if a != b:
            diffs.append({"step": i, "op": f"csv.writer(delimiter={cc['d']!r}).writerows({cc['tables'][i]!r})",
                          "implementation": uncps(a), "model": uncps(b)})
    return diffs


def readable(cc, impl):
    out = [f"csv.reader({t!r}, delimiter={cc['d']!r})  ->  {r if isinstance(r, dict) else [[uncps(c) for c in row] for row in r]!r}"
           for t, r in zip(cc["texts"], impl["read"])]
    out += [f"csv.writer(delimiter={cc['d']!r}).writerows({t!r})  ->  {uncps(w)!r}" for t, w in zip(cc["tables"], impl["written"])]
    return out


# ---- every short text, every small table ---------------------------------------------------------------------------------
def _bad(cc, diffs):
    return {"case": {"csv": cc, "tags": ["csv-layer"], "nontrivial": True}, "diffs": diffs, "fails": [], "impl": [], "model": []}


def _exh_worker(args):
    from . import common

    d, first, maxlen = args
    alph = [d, "\"", "\r", "\n", "a", " "]
    n, bad, batch = 0, [], []

    def flush():
        nonlocal n, batch
        if not batch:
            return
        cc = {"d": d, "texts": batch, "tables": []}
        impl = run_python(cc)
        resp = common.run_driver([request(cc)])[0]
        for i, (a, b) in enumerate(zip(impl["read"], resp["read"])):
            if a != b and len(bad) < 10:
                one = {"d": d, "texts": [batch[i]], "tables": []}
                bad.append(_bad(one, compare(one, {"read": [a], "written": []}, {"read": [b], "written": []})))
        n += len(batch)
        batch = []

    for L in range(0, maxlen):
        for tail in itertools.product(alph, repeat=L):
            batch.append(first + "".join(tail))
            if len(batch) >= 20000:
                flush()
    flush()
    return n, bad


def exhaustive(tier):
    """Every text of length <= 6 (quick) / <= 8 (thorough) over {delimiter, '"', CR, LF, 'a', ' '} is split into rows by the
    modelled reader and by csv.reader; every table of at most 2 rows x 2 cells over the cells '', 'a', '"', LF, CR, 'a"', ' '
    and the delimiter is written by the modelled writer and by csv.writer; for the delimiters tab and comma."""
    import multiprocessing as mp

    from . import common

    maxlen = 6 if tier == "quick" else 8
    n, bad = 0, []
    jobs = [(d, c, maxlen) for d in ("\t", ",") for c in [d, "\"", "\r", "\n", "a", " "]]
    with mp.get_context("fork").Pool(12) as pool:
        for k, b in pool.imap_unordered(_exh_worker, jobs):
            n += k
            bad.extend(b)
    for d in ("\t", ","):
        cells = EXH_CELLS + [d]
        rows = [[]] + [[a] for a in cells] + [[a, b] for a in cells for b in cells]
        tables = [[]] + [[r] for r in rows] + [[r, s] for r in rows for s in rows]
        for k in range(0, len(tables), 2000):
            cc = {"d": d, "texts": [], "tables": tables[k:k + 2000]}
            impl = run_python(cc)
            resp = common.run_driver([request(cc)])[0]
            for i, (a, b) in enumerate(zip(impl["written"], resp["written"])):
                if a != b and len(bad) < 20:
                    one = {"d": d, "texts": [], "tables": [cc["tables"][i]]}
                    bad.append(_bad(one, compare(one, {"read": [], "written": [a]}, {"read": [], "written": [b]})))
            n += len(cc["tables"])
    return {"n": n, "bad": bad[:20], "complete": True,
            "scope": f"every text of length <= {maxlen} over {{delimiter, '\"', CR, LF, 'a', ' '}} through csv.reader and the modelled "
                     f"reader, every table of <= 2 rows x <= 2 cells over 8 cell values through csv.writer and the modelled writer, "
                     f"delimiters tab and comma: {n} texts and tables"}
