#!/usr/bin/env python3
"""Confirm a seeded change and run checks against it.

usage: tools/seeded.py <dir with patch.diff/demo.py/meta.json> [--checks C01,C02] [--tier quick] [--no-baseline]

Applies the patch to /repo (git apply), confirms the demonstration fails with it and passed without it,
runs the pinned test-suite (must still pass), runs the named checks, and always restores /repo."""
import argparse
import json
import os
import subprocess
import sys
import time
from pathlib import Path

ROOT = Path(__file__).resolve().parent.parent


def sh(cmd, **kw):
    return subprocess.run(cmd, shell=True, capture_output=True, text=True, **kw)


def main():
    ap = argparse.ArgumentParser()
    ap.add_argument("dir")
    ap.add_argument("--checks", default=None)
    ap.add_argument("--tier", default="quick")
    ap.add_argument("--no-baseline", action="store_true")
    ap.add_argument("--seed", default="0")
    a = ap.parse_args()
    d = Path(a.dir).resolve()
    patch = d / "patch.diff"
    demo = d / "demo.py"
    meta = json.loads((d / "meta.json").read_text())
    checks = (a.checks.split(",") if a.checks else [meta["property"]])
    assert sh("git -C /repo status --porcelain").stdout.strip() == "", "/repo not clean"
    res = {"dir": str(d), "property": meta["property"]}
    r = sh(f"/venv/bin/python {demo}", cwd="/tmp")
    res["demo_clean_exit"] = r.returncode
    try:
        r = sh(f"git -C /repo apply {patch}")
        if r.returncode != 0:
            print("patch does not apply:", r.stderr)
            return 2
        r = sh(f"/venv/bin/python {demo}", cwd="/tmp")
        res["demo_patched_exit"] = r.returncode
        if not a.no_baseline:
            r = sh(f"python3 {ROOT}/tools/baseline.py")
            res["baseline_ok"] = r.returncode == 0
            res["baseline"] = r.stdout.strip().splitlines()[0] if r.stdout.strip() else r.stderr[-300:]
        res["checks"] = {}
        for c in checks:
            t0 = time.time()
            env = dict(os.environ, VERIF_SEED=a.seed)
            r = subprocess.run([str(ROOT / "check"), c, "--tier", a.tier], capture_output=True, text=True, env=env,
                               cwd=ROOT)
            viol = [l for l in r.stdout.splitlines() if l.startswith("VIOLATION")]
            res["checks"][c] = {"exit": r.returncode, "violations": viol, "wall_s": round(time.time() - t0, 1),
                                "tail": r.stdout.strip().splitlines()[-1:] + r.stderr.strip().splitlines()[-2:]}
    finally:
        sh("git -C /repo checkout -- .")
    assert sh("git -C /repo status --porcelain").stdout.strip() == ""
    print(json.dumps(res, indent=1))
    return 0


if __name__ == "__main__":
    sys.exit(main())
