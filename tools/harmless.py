#!/usr/bin/env python3
"""Behaviour-preserving refactorings (written by sub-agents that saw only the property text) must not alarm any check.

usage: tools/harmless.py [dir ...]     (default: every directory under /verif/harmless)

For each refactoring: git -C /repo apply patch.diff, run the pinned test-suite and the checks named in RELATED for its
property, expect exit 0 everywhere, git -C /repo checkout -- .  Nothing else may use /repo meanwhile."""
import json
import subprocess
import sys
from pathlib import Path

ROOT = Path(__file__).resolve().parent.parent
RELATED = {"C01": ["C01", "C02", "C05", "C07"], "C05": ["C05", "C09", "C04", "C10"], "C08": ["C08", "C02", "C07", "C06", "C01"],
           "C09": ["C09", "C05", "C10"], "C11": ["C11", "C10"], "C13": ["C13", "C04", "C14"], "C16": ["C16"],
           "C19": ["C19", "C10"],
           # second batch (control flow / correct optimisation / correct copy protocol)
           "C02": ["C02", "C08", "C05", "C04"], "C03": ["C03", "C02", "C01", "C08", "C07", "C06"], "C04": ["C04", "C05", "C09", "C10", "C13"],
           "C06": ["C06", "C08", "C05", "C04"], "C07": ["C07", "C01", "C03", "C08"], "C10": ["C10", "C11", "C12", "C19", "C05"],
           "C12": ["C12", "C10", "C04"], "C14": ["C14", "C13", "C04"], "C15": ["C15"], "C17": ["C17"], "C18": ["C18"], "C20": ["C20"]}


def sh(cmd, **kw):
    return subprocess.run(cmd, shell=True, capture_output=True, text=True, **kw)


def main():
    dirs = [Path(a).resolve() for a in sys.argv[1:]] or sorted(p for p in (ROOT / "harmless").iterdir() if (p / "patch.diff").exists())
    alarms = []
    for d in dirs:
        meta = json.loads((d / "meta.json").read_text())
        prop = meta["property"]
        assert sh("git -C /repo status --porcelain").stdout.strip() == "", "/repo not clean"
        try:
            r = sh(f"git -C /repo apply {d / 'patch.diff'}")
            if r.returncode != 0:
                print(d.name, "patch does not apply", r.stderr[:200])
                continue
            base = sh(f"python3 {ROOT}/tools/baseline.py")
            res = {}
            for c in RELATED.get(prop, [prop]):
                pr = subprocess.run([str(ROOT / "check"), c], capture_output=True, text=True, cwd=ROOT)
                res[c] = pr.returncode
                if pr.returncode != 0:
                    alarms.append((d.name, c, pr.stdout.strip().splitlines()[-3:]))
        finally:
            sh("git -C /repo checkout -- .")
        print(d.name, "baseline", "ok" if base.returncode == 0 else "FAILED", res, flush=True)
        meta["confirmed"] = {"baseline_ok": base.returncode == 0, "checks_exit": res,
                             "ran": "tools/harmless.py (git apply; tools/baseline.py; ./check for each related property; git checkout)"}
        (d / "meta.json").write_text(json.dumps(meta, indent=1))
    print("alarms:", alarms)
    return 1 if alarms else 0


if __name__ == "__main__":
    sys.exit(main())
