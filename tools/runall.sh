#!/bin/bash
# usage: tools/runall.sh <tier> <seed>...   — runs every check once per seed; prints non-zero exits
tier=$1; shift
cd "$(dirname "$0")/.."
for seed in "$@"; do
  for p in C01 C02 C03 C04 C05 C06 C07 C08 C09 C10 C11 C12 C13 C14 C15 C16 C17 C18 C19 C20; do
    out=$(VERIF_SEED=$seed ./check $p --tier $tier 2>&1); rc=$?
    line=$(echo "$out" | grep "^$p $tier" | tail -1)
    if [ $rc -ne 0 ] || echo "$out" | grep -q "^VIOLATION"; then echo "!! seed=$seed $p exit=$rc"; echo "$out" | grep -v KNOWN-FINDING | tail -5; else echo "ok seed=$seed ${line}"; fi
  done
done
