#!/usr/bin/env python3
"""Regenerate MANIFEST.json from the table below (run after adding a check)."""
import json
from pathlib import Path

ROOT = Path(__file__).resolve().parent.parent
props = [json.loads(l) for l in (ROOT / "properties.jsonl").read_text().splitlines() if l.strip()]

NOTE_STD = ("Trusted: Lean 4.33 kernel (+ propext, Classical.choice, Quot.sound where the audit lists them; no "
            "native_decide / sorry / own axioms); the hand-written model in lean/CuriesVerif/Model and the reading of "
            "the property in lean/CuriesVerif/Properties; the correspondence harness (generators, canonicalisation, "
            "JSON codec), which is differential testing and bounded by its generators. Modelled by contract, not "
            "verified: CPython str/dict/sorted, pydantic Record construction, PyTrie longest_prefix_item.")

CHECKS = {
 "C01": dict(
    text="Proof: theorems C01_* (Properties/C01.lean) state longest-match, exact remainder, success iff some registered "
         "URI prefix matches, and independence of record order, for every well-formed converter (every strict "
         "construction, by wf_of_init), every delimiter and every string; proved by the refinement T0 from the trie-index "
         "model to the brute-force specification. The model is tied to /repo on every run by differential execution of "
         "parse_uri/compress/is_uri on overlap-lattice converters built three ways, and the Lean specification is "
         "evaluated on the implementation's own answers. C01_trie discharges the contract of StringTrie.longest_prefix_item the "
         "converter model is written against: the character trie pytrie implements (Model/Trie.lean: nodes, value slots, the walk "
         "remembering the last value seen) refines the dictionary contract for every history of assignments; the structural trie "
         "is compared with the real converter.trie on every probe. Exhaustive small scope on every run: every strict converter of 1-2 records over all strings of length <= 2 over {a, :} (thorough {a, b, :}) and every query string of length <= 3, all modes.",
    design="§7 C01", technique="Lean 4 theorem (refinement of the trie-index model to a brute-force longest-match spec) + model/implementation correspondence"),
 "C02": dict(
    text="Proof: C02_* state that expand splits at the first delimiter, resolves prefix or synonym (the empty prefix "
         "included) to its unique record, keeps the remainder untouched, agrees with expand_pair/expand_reference for "
         "every identifier under DelimOK, and that expand_all/expand_pair_all list canonical first then each URI "
         "synonym and nothing else. Known finding K2 marks the exact boundary (multi-symbol delimiter starting inside "
         "prefix+delimiter). Exhaustive small scope on every run: every strict converter of 1-2 records over all strings of length <= 2 over {a, :} (thorough {a, b, :}) and every query string of length <= 3, all modes.",
    design="§7 C02", technique="Lean 4 theorem (partition lemma + refinement T0) + model/implementation correspondence"),
 "C03": dict(
    text="Proof: C03_member / C03_std / C03_expand_compressible (lossless) for converters whose canonical prefixes satisfy "
         "DelimOK, and C03_ce / C03_ec / C03_bijection for prefix-free maps, for all URIs, CURIEs and identifiers. "
         "Correspondence feeds the implementation's own compress/expand outputs back into it (two-phase cases). Exhaustive small scope on every run: every strict converter of 1-2 records over all strings of length <= 2 over {a, :} (thorough {a, b, :}) and every query string of length <= 3, all modes.",
    design="§7 C03", technique="Lean 4 theorem (round-trip laws over the specification, transferred by T0) + two-phase model/implementation correspondence"),
 "C04": dict(
    text="Proof: C04_iff (strict construction succeeds iff no CURIE prefix / synonym and no URI prefix / synonym has two "
         "owners, for every finite collection in every order), C04_which (URI clashes are reported first), C04_listing "
         "(the error lists exactly the clashing pairs), C04_record (validators), C04_owner and C04_bimap (one owner per "
         "prefix; bimap / reverse_bimap mutually inverse), C04_loader_* (loaders hand validated records to the same "
         "constructor), C04_advertised_* (Properties/Advertised.lean: get_prefixes / get_uri_prefixes, with and without synonyms, and the key sets of prefix_map / reverse_prefix_map / the trie are exactly what standardize_prefix resolves and parse_uri consumes entirely, with the unique owner's canonical names as answers; every name of a case and its neighbours is fed back to the constructed converter and the law is evaluated on the implementation's answers). Correspondence plants every clash orientation and runs constructor, listing and loaders. Every ordered pair of small records (with synonyms and self-synonyms) is enumerated completely on every run.",
    design="§7 C04", technique="Lean 4 theorem (iff between the pairwise duplicate listing and one-owner uniqueness) + model/implementation correspondence"),
 "C05": dict(
    text="Proof: T2 (C05_step: add_record keeps the invariant WF = one owner per prefix + validated records + all indexes "
         "mirror the records, for every flag combination and every case-folding function), lifted by induction to every "
         "finite history (C05_histories), with C05_reject / C05_reject_iff (ValueError, exactly when one match without merge or several "
         "matches; the same rule is evaluated by the Lean checker on every add of the implementation), C05_shape / C05_resolves (append unchanged or merge keeping canonical prefix, URI prefix and pattern), "
         "C05_advertised_histories (after any history the advertised prefix / URI-prefix sets are exactly what standardize_prefix / parse_uri resolve; read and evaluated on the implementation after every call), "
         "C05_afterAdd / C05_afterAdd_reject / C05_records_refine (the records after any history are what folding the index-free list function Spec.afterAdd over the history gives; the Lean checker demands exactly these records of the implementation after every add), and C05_fresh / C05_histories_fresh (answers equal those of a converter freshly built from the current records, "
         "via T0 and permutation invariance of the specification), C05_lookup_structures (after any history prefix_map, synonym_to_prefix, reverse_prefix_map, the trie and pattern_map are, as functions, the ones computed from the current records; the Lean checker evaluates the same statement on the dictionaries the implementation exposes). Correspondence replays histories with planted overlaps "
         "and observes records, all five lookup structures and a probe set after every operation. Every one-step history over names differing only by case (3 072 quick / 28 812 thorough) is enumerated completely on every run.",
    design="§7 C05", technique="Lean 4 theorem (invariant by induction over operation histories, refinement T0) + history correspondence with full observation after each step"),
 "C06": dict(
    text="Proof: C06_prefix, C06_prefix_idem, C06_curie, C06_uri for every strict converter; C06_uri_idem / C06_uri_meaning "
         "for prefix-free maps (with a proved counterexample showing the hypothesis is needed). standardize_curie "
         "idempotence / meaning preservation are proved only under CanonDelimOK (_partial) because the property as "
         "stated is false: C06_curie_idem_fails_without_delimOK proves the negation on a strict converter (known finding K1). Exhaustive small scope on every run: every strict converter of 1-2 records over all strings of length <= 2 over {a, :} (thorough {a, b, :}) and every query string of length <= 3, all modes.",
    design="§7 C06", technique="Lean 4 theorem (corollaries of T0; negation proved on a witness for K1) + model/implementation correspondence"),
 "C07": dict(
    text="Proof: C07_* state the equivalences is_uri⇔compress⇔parse_uri, is_curie⇔delimiter+known prefix⇔expand, URI "
         "precedence of parse, compress_or_standardize / expand_or_standardize as CURIE / canonical URI of parse, "
         "format_curie and the strict aliases, for every well-formed converter and every string. Correspondence uses "
         "converters planted with strings that are both URI and CURIE. Exhaustive small scope on every run: every strict converter of 1-2 records over all strings of length <= 2 over {a, :} (thorough {a, b, :}) and every query string of length <= 3, all modes.",
    design="§7 C07", technique="Lean 4 theorem (unfolding the model against T0) + model/implementation correspondence on ambiguous strings"),
 "C08": dict(
    text="Proof: one generic lemma about the shared tail (modeLaw_of_tail) instantiated for all 14 listed functions "
         "(C08_<function>): default never raises, passthrough returns the default value or the input, strict returns the "
         "default value or a library ValueError-derived error. Correspondence runs every function in all mode "
         "combinations on a malformed-first stream; exception classes are classified from the live class hierarchy. Exhaustive small scope on every run: every strict converter of 1-2 records over all strings of length <= 2 over {a, :} (thorough {a, b, :}) and every query string of length <= 3, all modes.",
    design="§7 C08", technique="Lean 4 theorem (mode law for the shared strict/passthrough tail, per function) + model/implementation correspondence"),
 "C09": dict(
    text="Proof: chain is modelled as written (a fold of add_record(copy, merge=True) into an empty converter), so T2 applies "
         "to every step: C09_wf (the result satisfies C04/C05, both case modes, every folding function), C09_union (it knows "
         "exactly the union of the inputs' CURIE prefixes and URI prefixes; C09_union_advertised: the same in terms of get_prefixes / get_uri_prefixes / standardize_prefix, which the check reads on every input and on the result), C09_error / C09_empty (only ValueError), and for "
         "get_subconverter C09_sub_records (exactly the records with a prefix or synonym in P, well-formed) and C09_sub_expand "
         "(answers as the parent on kept prefixes, None otherwise), C09_priority (case-sensitive: every record of the first "
         "converter survives with its canonical prefix, canonical URI prefix and pattern, so every prefix known to c1 expands "
         "as in c1) and C09_singleton (chain([c]) has c's records). C09_chain_refines / C09_sub_refines (whether chain succeeds and which records it holds is the fold of Spec.afterAdd over the inputs' record lists; get_subconverter holds exactly Spec.subRecords - the Lean checker demands both of the implementation whenever the inputs' records were observed). C09_grouping (every record of every input is contained, "
         "CURIE prefixes and URI prefixes alike, in one record of the result) and C09_ci_separated (with case_sensitive=False no "
         "two records of the result hold CURIE prefixes or URI prefixes equal up to case, for every folding function). The same "
         "laws are evaluated on the implementation's outputs on every run.",
    design="§7 C09", technique="Lean 4 theorem (fold invariant over add_record steps) + model/implementation correspondence with planted overlaps"),
 "C10": dict(
    text="Proof at the aliasing level (Model/Heap.lean: Record objects behind references): C10_frame_chain and C10_frame_copy "
         "(chain, get_subconverter, the three reconciliation functions and discover leave every pre-existing object untouched "
         "and return a converter that references only new objects), C10_frame_followup and C10_histories (any finite follow-up "
         "history on the derived converter leaves every input's view unchanged), plus the negation for the pre-repair chain "
         "on a witness; C10_chain_refines / C10_copy_refines / addRecordH_sim (the aliasing-level operations compute exactly what "
         "the value-level operations of C05 / C09 / C11 / C12 compute, so the frame theorems are about the same objects). Tie to the code: histories that re-observe both inputs (records, lookup dicts, introspection views, "
         "probe queries) after the derivation and after every follow-up, and object identity (the derived converter shares no "
         "Record object with an input).",
    design="§7 C10", technique="Lean 4 theorem (frame theorems over a heap-of-records model, induction over follow-up histories) + history correspondence re-observing the inputs"),
 "C11": dict(
    text="Proof: C11_order_errors (only the four documented errors), C11_ordering_perm (each pair processed exactly "
         "once; the peel-off loop terminates), C11_skip_unknown, C11_uri_part (same number of records; the records correspond one "
         "to one with identical canonical URI prefix, URI-prefix synonyms and pattern: popped-index bookkeeping returns every "
         "record exactly once), C11_known (every CURIE prefix known before is known afterwards, at full strength: chains, partially "
         "applicable chains, remappings onto synonyms - the ordering guarantees that the pair keyed by a handed-over prefix runs "
         "before the pair handing it over, order_ordered), C11_applied (an applicable pair onto an unused prefix, value of no other "
         "pair, makes the new prefix canonical for old's record) and C11_skipped (a pair aiming at a prefix of another, untouched "
         "record leaves both records as they were), C11_skip_unknown. The same clauses are evaluated by the Lean checker "
         "Spec.C11.ok on the implementation's records on every run. Every remapping of 1-2 (thorough 1-3) pairs over a seven-name universe, in every insertion order, is enumerated completely on every run.",
    design="§7 C11", technique="Lean 4 theorem (termination/permutation of the ordering, per-step invariants) + Lean spec checker on implementation output + model/implementation correspondence"),
 "C12": dict(
    text="Proof: C12_transitive_iff (TransitiveError iff some string is both key and value), C12_upgrade (for every record and "
         "selected new URI prefix: CURIE side untouched, every URI prefix kept, at most the new one gained, new one canonical "
         "iff unused or already a synonym of the record with the old canonical demoted to synonym, clash is a no-op), "
         "C12_remap_records / C12_rewire_records (the constructor receives exactly the per-record images), C12_rewire_unknown, "
         "C12_rewire_idem (rewiring the result of a successful rewiring with the same mapping succeeds and changes no record, for "
         "every well-formed converter and every mapping), "
         "C12_rewire_ok / C12_remap_ok (an injective mapping is never rejected, except as transitive by remap_uri_prefixes). "
         "Idempotence and never-rejected are also checked on the implementation on every run; every injective mapping of 1-2 "
         "(thorough 1-3) pairs over a small universe is enumerated completely.",
    design="§7 C12", technique="Lean 4 theorem (per-record upgrade law, transitivity iff) + Lean spec checker on implementation output + model/implementation correspondence"),
 "C13": dict(
    text="Proof: C13_pm (each listed pair expands accordingly and its URI prefix is registered for it), C13_priority (first URI "
         "prefix canonical, rest synonyms in order), C13_reverse_canonical (the canonical URI prefix of a group is a member of "
         "minimal length, the rest are the synonyms), C13_jsonld (exactly which terms are taken), C13_upgrade_canonical / "
         "C13_upgrade_recOK (lexicographically first prefix canonical; records pass the validators), C13_reverse_complete (no reverse-map "
         "item dropped or invented, one record per CURIE prefix), C13_upgrade_ok / C13_upgrade_accepted (for every dictionary "
         "upgrade_prefix_map succeeds, its records denote exactly the input items and a strict converter accepts them), "
         "C13_upgrade_perm (dictionary order irrelevant); all three rest on groupInv_groupBy (the defaultdict grouping is complete "
         "and order-preserving). File loading (str / Path) and from_rdflib rest on the correspondence and on the Lean checker "
         "comparing the implementation's records with the denoted ones.",
    design="§7 C13", technique="Lean 4 theorem (per-loader denotation lemmas) + model/implementation correspondence incl. JSON files and rdflib graphs"),
 "C14": dict(
    text="Proof: C14_epm (a record written by _record_to_dict and read by Record(**dict) keeps prefix, URI prefix, both synonym "
         "sets and the pattern, for arbitrary content), C14_jsonld (the written context, plain or expanded, with or without "
         "synonyms, reads back to exactly the canonical pairs plus the synonyms), C14_shacl_literal / C14_shacl_entry (escaping "
         "then Turtle literal lexing is the identity for every string without '\"', LF, CR - in particular with backslashes - for "
         "prefix, URI prefix and pattern), C14_tsv and C14_tsv_bytes (the text write_tsv puts on disk, through the byte-level model "
         "of the csv dialect - Model/Csv.lean, csv_roundtrip: reading back what the writer wrote is the identity for every table "
         "and every cell content - parses back to exactly the canonical pairs), C14_epm_bytes and C14_jsonld_bytes (the text "
         "write_extended_prefix_map / write_jsonld_context put on disk, through the text-level model of json.dumps and json.loads - "
         "Model/Json.lean, parse_render: reading the written text gives the value back for every value made of Unicode scalar values, "
         "every indent, both ensure_ascii modes - reads back to the record dictionaries resp. the context that was written), "
         "C14_jsonld_file (end to end: terms sorted as sort_keys=True does, written, parsed and filtered by from_jsonld's term rule "
         "give exactly the canonical pairs plus the synonyms), C14_epm_sorted (the record dictionaries are already in sort_keys "
         "order), C14_jsonld_ascii (a JSON-LD file is pure ASCII whatever the prefixes contain). Turtle "
         "files are modelled at the level of the string literals; the real writers and readers are run on real files for every case, "
         "the text of every TSV file is compared character for character with the model, every JSON file is parsed by the modelled "
         "json.loads and compared with CPython's result, and 10 % of the cases exercise the JSON text layer alone against CPython's "
         "json (well-formed and ill-formed documents, both directions).",
    design="§7 C14", technique="Lean 4 theorem (write/read inverse laws over a model of the formats) + round trips through real files"),
 "C15": dict(
    text="Proof: C15_roundtrip (print then from_curie is the identity for every separator-free prefix and every identifier, "
         "split at the first separator), C15_reject, C15_eq_pair / C15_eq_equiv / C15_eq_tuple (== is an equivalence on the "
         "pydantic classes depending only on the pair; a tuple equals only tuples), C15_hash, C15_lt_irrefl / _trans / "
         "_trichotomy (strict lexicographic total order on the pair), C15_ctx (converter as validation context), C15_from_reference (converting an existing reference = parsing its printed CURIE, "
         "whatever class the argument has), C15_triples_bytes "
         "(read_triples of the text write_triples writes gives back the same triples, for all identifiers incl. tabs, quotes, "
         "newlines: through the csv model). JSON round trip, frozen instances, pickling / copying and .tsv.gz are exercised on "
         "every case, not modelled; the text of every triples file is compared character for character with the model.",
    design="§7 C15", technique="Lean 4 theorem (algebraic laws of the reference model) + model/implementation correspondence on reference tuples, triples files"),
 "C16": dict(
    text="Proof: C16_pd / C16_pd_others and C16_file / C16_file_others (each bulk call is, row by row, the scalar function "
         "applied to the chosen cell, None becoming NA resp. an empty cell, every other cell, the header and the row order "
         "kept) and C16_atomic (an error result leaves the disk as it was: two-phase helper), for every scalar function, "
         "table, column and position of the first failing row; C16_file_bytes / C16_atomic_bytes state the same about the characters "
         "on disk (Model/Files.lean: the file is parsed by the csv model, converted in memory, rewritten only on success; "
         "csv_roundtrip), with csv_roundtrip_fails_with_newline_translation pinning the repaired defect F6. The seven real bulk methods are compared, cell by cell, with "
         "the scalar methods of the implementation itself; for files the bytes before/after are compared when the call raises. The csv "
         "model itself is compared with CPython's csv module on every run (harness/csvlayer.py): every text of length <= 6 (thorough 8) "
         "over {delimiter, quote, CR, LF, 'a', ' '} through csv.reader and the modelled reader, every table of <= 2 x 2 cells through "
         "csv.writer and the modelled writer, and 10 % of the cases as random texts and tables over four delimiters.",
    design="§7 C16", technique="Lean 4 theorem (map-over-column and two-phase atomicity of the file helper) + correspondence on real data frames and files"),
 "C17": dict(
    text="Proof: C17_match_sound / C17_match_complete (both route patterns, modelled as greedy slash-free first group + "
         "delimiter + path group, match every request of the promised shape and bind a decomposition of the path), "
         "C17_first_split (re-splitting at the first delimiter recovers prefix and identifier whichever occurrence the pattern "
         "chose), C17_respond (302 + Location = expansion iff the prefix is known, else 422, also for identifiers with '/' or "
         "the delimiter) and C17_agree (Flask = FastAPI). The route-matching models are validated against the real in-process "
         "test clients on every case.",
    design="§7 C17", technique="Lean 4 theorem (route-pattern model + first-delimiter re-split) + correspondence against Flask and Starlette test clients"),
 "C18": dict(
    text="Proof: C18_answers (answers = valid renderings of u under the record owning its longest registered URI prefix; "
         "nothing for unrecognised URIs), C18_answers_expand_all (= expand_all(compress(u)) filtered), C18_unconfigured, "
         "C18_header_supported / _absent / _max (the negotiated type is a supported type whose q is maximal among the supported "
         "ones listed, or the default), for every validity predicate and every media-type table; C18_header_text (the header as text - split on ',' and ';', optional "
         "whitespace stripped, the q parameter found by name and read - is parsed into exactly the parts its pieces denote, so the "
         "negotiation theorems apply to the text; Model/Header.lean, compared with handle_header on every generated header). SPARQL evaluation, VALUES "
         "placement and the HTTP transports (Flask GET/POST, FastAPI GET) are exercised on every case; FastAPI POST cannot run "
         "in this sandbox (python-multipart missing).",
    design="§7 C18", technique="Lean 4 theorem (answer set via T0, maximal-q negotiation over a stable sort) + correspondence through rdflib SPARQL and both web frameworks"),
 "C19": dict(
    text="Proof: C19_perm_dup (the records, hence the converter, are a function of the set of input URIs: any order, any "
         "repetition), C19_wf (valid strict converter, no synonyms), C19_ends (every URI prefix ends in a delimiter and comes "
         "from an unrecognised input URI with an alphanumeric tail), C19_names (named metaprefix1, metaprefix2, ... in sorted "
         "URI-prefix order), C19_cutoff (kept iff at least cutoff distinct identifiers), C19_roundtrip_partial (with no cutoff "
         "every qualifying non-GitHub-issue URI compresses and expands back to itself; metaprefix without ':'), "
         "C19_github_not_learned (the unrestricted round trip is false: known finding F9). For every alnum classification, "
         "delimiter list, cutoff, metaprefix and pre-existing converter.",
    design="§7 C19", technique="Lean 4 theorem (soundness/completeness of the collected prefixes, round trip via C01/C03) + model/implementation correspondence in three input orders"),
 "C20": dict(
    text="Proof: C20_prefix (is_w3c_prefix iff ASCII NCName), C20_luid (the identifier pattern matched in full = whitespace-free "
         "and not starting with //, alternative by alternative), C20_curie (p:r accepted iff p empty or NCName and r a reference; "
         "colon-free strings as bare references), C20_curie_never / C20_curie_no_space. Tie: exhaustive enumeration of all strings "
         "over the 14 class representatives up to length 4 (quick) / 6 (thorough) plus random longer strings, compared with the "
         "model and with the grammar of the property.",
    design="§7 C20", technique="Lean 4 theorem (characterisation of the two fully-matched patterns) + exhaustive bounded correspondence over character-class representatives"),
}

NOT_YET = "check not built yet (work in progress; see DESIGN.md section 7 for the plan)"

checks = []
na = []
for p in props:
    pid = p["id"]
    if pid in CHECKS:
        c = CHECKS[pid]
        checks.append({
            "property_id": pid,
            "quick_cmd": f"./check {pid} --tier quick",
            "thorough_cmd": f"./check {pid} --tier thorough",
            "evidence_file": f"evidence/{pid}.json",
            "replay_cmd_template": f"./check {pid} --replay {{path}}",
            "engine": "lean4-proof+correspondence",
            "level_claimed": {"category": "proof", "text": c["text"], "design_ref": c["design"]},
            "level_note": c.get("note", NOTE_STD),
            "technique": c["technique"],
        })
    else:
        na.append({"property_id": pid, "reason": NOT_YET})

manifest = {
    "version": 1,
    "setup_cmd": "cd lean && lake build",
    "hooks": {
        "guard": "CURIES_VERIF",
        "enable": "no hooks are needed: every observation goes through the public API of /repo's working tree "
                  "(the /venv install is editable); ./check sets CURIES_VERIF=1 for uniformity",
        "baseline_off_cmd": "python3 tools/baseline.py",
        "source_commits": [],
        "add_only": True,
    },
    "engines": [{
        "name": "lean4-proof+correspondence", "path": "check",
        "serves_properties": [c["property_id"] for c in checks],
        "kind_free_text": "Lean 4 theorems about a hand-written executable model (lean/), tied to /repo by a differential "
                          "correspondence harness (harness/) that also evaluates the Lean specification on the "
                          "implementation's outputs",
    }],
    "checks": checks,
    "notes": "Genuine defects found and repaired in /repo by fix: commits are listed in known_findings.json (status "
             "fixed); recorded-not-repaired findings (status known) print KNOWN-FINDING lines. See DESIGN.md.",
    "not_applicable": na,
}
(ROOT / "MANIFEST.json").write_text(json.dumps(manifest, indent=1) + "\n")
print(f"{len(checks)} checks, {len(na)} not yet claimed")
