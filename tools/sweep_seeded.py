#!/usr/bin/env python3
"""Run every seeded change under /verif/seeded against the check of its property (quick tier) and print a table.

usage: tools/sweep_seeded.py [--only R2] [--update]     (--update records the outcome in each meta.json)

/repo is patched and restored for each change, so nothing else may use /repo while this runs."""
import json
import subprocess
import sys
from pathlib import Path

ROOT = Path(__file__).resolve().parent.parent


def main():
    only = sys.argv[sys.argv.index("--only") + 1] if "--only" in sys.argv else None
    update = "--update" in sys.argv
    missed = []
    for d in sorted((ROOT / "seeded").iterdir()):
        if not (d / "patch.diff").exists() or (only and only not in d.name):
            continue
        meta = json.loads((d / "meta.json").read_text())
        prop = meta.get("property") or meta.get("breaks_property")
        r = subprocess.run([sys.executable, str(ROOT / "tools/seeded.py"), str(d), "--no-baseline", "--checks", prop],
                           capture_output=True, text=True)
        try:
            res = json.loads(r.stdout)
            ck = res["checks"][prop]
            detected = ck["exit"] == 1 and bool(ck["violations"])
            demo_ok = res["demo_clean_exit"] == 0 and res["demo_patched_exit"] != 0
        except Exception:
            print(d.name, "ERROR", r.stdout[-300:], r.stderr[-300:])
            missed.append(d.name)
            continue
        # margin: how many generated cases exposed the change (a change found by one or two cases at this seed is a coin flip
        # at another one: such checks get their generators strengthened, see DESIGN §0.5)
        import re
        m = re.search(r"(\d+) disagreements, (\d+) spec failures", " ".join(ck.get("tail", [])))
        margin = None if not m else max(int(m.group(1)), int(m.group(2)))
        thin = detected and margin is not None and margin < 3
        print(f"{d.name:14s} {prop} demo={'ok' if demo_ok else 'BAD'} {'DETECTED' if detected else 'MISSED'} "
              f"exit={ck['exit']} {ck['wall_s']}s margin={margin}{' THIN' if thin else ''} {ck['violations'][:1]}", flush=True)
        if not detected:
            missed.append(d.name)
        if update:
            c = meta.setdefault("confirmed", {})
            first_missed = c.get("detected_by") is None and "check_exit" in c
            c["detected_by"] = f"./check {prop}" if detected else None
            if detected and (first_missed or c.get("how") == "after strengthening"):
                c["how"] = "after strengthening"
            elif detected:
                c.setdefault("how", "direct")
            c["last_sweep"] = {"exit": ck["exit"], "violations": ck["violations"][:3], "failing_cases": margin}
            (d / "meta.json").write_text(json.dumps(meta, indent=1))
    print("missed:", missed)
    return 1 if missed else 0


if __name__ == "__main__":
    sys.exit(main())
