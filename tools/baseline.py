#!/usr/bin/env python3
"""Run the repository's pinned test suite (guard off) and compare with /root/.vp/BASELINE.json.

Exit 0 iff every test in BASELINE.stable_pass passes."""
import json, os, subprocess, sys, tempfile
import xml.etree.ElementTree as ET

base = json.load(open("/root/.vp/BASELINE.json"))
env = dict(os.environ)
env.pop("CURIES_VERIF", None)
with tempfile.TemporaryDirectory() as d:
    xml = os.path.join(d, "junit.xml")
    subprocess.run(
        ["/venv/bin/python", "-m", "pytest", "-ra", "-q", "-p", "no:cacheprovider", "--timeout=900",
         "--continue-on-collection-errors", f"--junitxml={xml}"],
        cwd="/repo", env=env, stdout=subprocess.DEVNULL, stderr=subprocess.DEVNULL)
    passed = set()
    for tc in ET.parse(xml).getroot().iter("testcase"):
        if not any(ch.tag in ("failure", "error", "skipped") for ch in tc):
            passed.add(f"{tc.get('classname')}::{tc.get('name')}")
missing = [t for t in base["stable_pass"] if t not in passed]
print(f"baseline: {len(base['stable_pass']) - len(missing)}/{len(base['stable_pass'])} stable tests pass")
for t in missing:
    print("  NOT PASSING:", t)
sys.exit(1 if missing else 0)
