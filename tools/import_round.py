#!/usr/bin/env python3
"""Import sub-agent output (/tmp/wt/<P>/_out/{A,B,C}.patch, _demo.py, _meta.json) as /verif/seeded/<P>-<round><X>/,
confirm each with tools/seeded.py (demo, baseline, own check) and record the outcome in meta.json.

usage: tools/import_round.py R2 C07 [C09 ...]"""
import json
import shutil
import subprocess
import sys
from pathlib import Path

ROOT = Path(__file__).resolve().parent.parent


def main():
    rnd, props = sys.argv[1], sys.argv[2:]
    for p in props:
        out = Path(f"/tmp/wt/{p}/_out")
        for x in "ABC":
            if not (out / f"{x}.patch").exists():
                print(p, x, "missing")
                continue
            d = ROOT / "seeded" / f"{p}-{rnd}{x}"
            d.mkdir(parents=True, exist_ok=True)
            shutil.copy(out / f"{x}.patch", d / "patch.diff")
            shutil.copy(out / f"{x}_demo.py", d / "demo.py")
            meta = json.loads((out / f"{x}_meta.json").read_text())
            meta["property"] = p
            meta["round"] = rnd
            (d / "meta.json").write_text(json.dumps(meta, indent=1))
            r = subprocess.run([sys.executable, str(ROOT / "tools/seeded.py"), str(d)], capture_output=True, text=True)
            try:
                res = json.loads(r.stdout)
            except Exception:
                print(p, x, "seeded.py failed:", r.stdout[-500:], r.stderr[-500:])
                continue
            ck = res["checks"][p]
            ok = (res["demo_clean_exit"] == 0 and res["demo_patched_exit"] != 0 and res.get("baseline_ok"))
            detected = ck["exit"] == 1 and bool(ck["violations"])
            meta["confirmed"] = {
                "ran": f"tools/seeded.py seeded/{d.name} (git -C /repo apply patch.diff; demo.py; python3 tools/baseline.py; "
                       f"./check {p} --tier quick; git -C /repo checkout -- .)",
                "demo_clean_exit": res["demo_clean_exit"], "demo_patched_exit": res["demo_patched_exit"],
                "baseline": res.get("baseline"), "valid_seed": bool(ok),
                "detected_by": f"./check {p}" if detected else None,
                "check_exit": ck["exit"], "violations": ck["violations"][:3], "wall_s": ck["wall_s"],
            }
            (d / "meta.json").write_text(json.dumps(meta, indent=1))
            print(p, x, "valid" if ok else "INVALID", "DETECTED" if detected else f"MISSED exit={ck['exit']}",
                  ck["violations"][:1], ck["tail"][-1:] if not detected else "")


if __name__ == "__main__":
    main()
