#!/usr/bin/env python3
"""Print a markdown table of the seeded changes of one round (R2, R3) from their meta.json files."""
import json
import sys
from pathlib import Path

ROOT = Path(__file__).resolve().parent.parent
rnd = sys.argv[1]


def short(s, n):
    s = " ".join(str(s).split())
    s = s.replace("|", "/")
    return s if len(s) <= n else s[: n - 1].rsplit(" ", 1)[0] + " …"


print("| id | change | needs | caught by |")
print("|---|---|---|---|")
for d in sorted((ROOT / "seeded").iterdir()):
    if f"-{rnd}" not in d.name:
        continue
    m = json.loads((d / "meta.json").read_text())
    c = m.get("confirmed", {})
    how = c.get("detected_by") or "MISSED"
    if c.get("how") == "after strengthening":
        how += " — strengthened"
    viol = (c.get("last_sweep") or {}).get("violations") or c.get("violations") or []
    if viol and all("no-failing-input-found" in v for v in viol):
        how += " (correspondence; no-failing-input-found)"
    print(f"| {d.name} | {short(m.get('summary', ''), 170)} | {short(m.get('needs', ''), 150)} | {how.replace('./check ', '')} |")
