import CuriesVerif.Model.W3C

/-!
# What C20 says, independently of the regular expressions
-/

namespace Spec.W3C

/-- an ASCII XML NCName: a letter or `_` followed by letters, digits, `.`, `-` or `_` -/
def NCName (s : Str) : Prop :=
  ∃ c cs, s = c :: cs ∧ (_root_.W3C.isAsciiLetter c = true ∨ c = 95) ∧
    ∀ x ∈ cs, _root_.W3C.isAsciiLetter x = true ∨ _root_.W3C.isAsciiDigit x = true ∨ x = 46 ∨ x = 45 ∨ x = 95

/-- a whitespace-free reference not starting with `//` -/
def Reference (space : Nat → Bool) (r : Str) : Prop := (∀ x ∈ r, space x = false) ∧ ¬ [47, 47] <+: r

/-- executable versions, for the checker -/
def ncName (s : Str) : Bool :=
  match s with
  | [] => false
  | c :: cs => (_root_.W3C.isAsciiLetter c || c == 95) &&
      cs.all fun x => _root_.W3C.isAsciiLetter x || _root_.W3C.isAsciiDigit x || x == 46 || x == 45 || x == 95

/-- `r.startswith("//")` -/
def startsSlashSlash : Str → Bool
  | 47 :: 47 :: _ => true
  | _ => false

def reference (space : Nat → Bool) (r : Str) : Bool := r.all (fun x => !space x) && !startsSlashSlash r

/-- the verdict C20 prescribes for `is_w3c_curie` -/
def curie (space : Nat → Bool) (s : Str) : Bool :=
  if s.all space then false                                     -- blank (also the empty string)
  else if s.any space || s.contains 91 || s.contains 93 then false
  else match firstOcc [58] s with
    | none => reference space s                                 -- colon-free: a bare reference
    | some n => (n == 0 || ncName (s.take n)) && reference space (s.drop (n + 1))

end Spec.W3C
