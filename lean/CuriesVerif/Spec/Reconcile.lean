import CuriesVerif.Spec.Answer
import CuriesVerif.Model.Reconcile

/-!
# Specification checkers for C11 (CURIE-prefix remapping) and C12 (URI-prefix remapping, rewiring)

Relations between the records of the input converter, the remapping, and the records of the
returned converter, written as executable checkers returning the list of violated clauses.
They are evaluated on what the *implementation* returned, and proved (Properties/C11, C12) to
accept whatever the model returns.
-/

namespace Spec

def sameSet (a b : List Str) : Bool := a.all b.contains && b.all a.contains

def knownP (recs : List Record) (p : Str) : Bool := (ownerP recs p).isSome
def knownU (recs : List Record) (k : Str) : Bool := (ownerU recs k).isSome

/-- the record of `after` that carries the canonical URI prefix `u` -/
def byUri (after : List Record) (u : Str) : Option Record := after.find? fun r => r.uri == u
/-- the record of `after` that carries the canonical CURIE prefix `p` -/
def byPfx (after : List Record) (p : Str) : Option Record := after.find? fun r => r.pfx == p

/-- modulo synonym order and the library's own reading of an empty pattern -/
def sameRecord (a b : Record) : Bool :=
  a.pfx == b.pfx && a.uri == b.uri && sameSet a.pSyn b.pSyn && sameSet a.uSyn b.uSyn &&
    a.truePattern == b.truePattern

namespace C11

/-- same number of records; every record keeps exactly its URI prefixes, canonical URI prefix
and pattern -/
def uriPart (before after : List Record) : List String :=
  (if before.length == after.length then [] else ["the number of records changed"]) ++
  before.filterMap fun r =>
    match byUri after r.uri with
    | none => some "a record lost its canonical URI prefix"
    | some r' =>
      if sameSet r.uSyn r'.uSyn && r.truePattern == r'.truePattern then none
      else some "a record's URI-prefix synonyms or pattern changed"

/-- every CURIE prefix known before is still known afterwards -/
def known (before after : List Record) : List String :=
  (before.flatMap Record.allP).filterMap fun p =>
    if knownP after p then none else some "a CURIE prefix known before the remapping is unknown afterwards"

/-- each applicable pair `old ↦ new` whose new prefix was unused (and is not aimed at by another
pair) makes `new` the canonical prefix of `old`'s record -/
def applied (before after : List Record) (rm : List (Str × Str)) : List String :=
  rm.filterMap fun (old, new) =>
    match ownerP before old with
    | none => none
    | some r =>
      if knownP before new then none
      else if (rm.filter fun kv => kv.2 == new).length > 1 then none
      else match byUri after r.uri with
        | some r' => if r'.pfx == new then none else some "an applicable pair onto an unused prefix was not applied"
        | none => some "a record lost its canonical URI prefix"

/-- a pair whose new prefix belongs to another, untouched record leaves both records untouched -/
def skipped (before after : List Record) (rm : List (Str × Str)) : List String :=
  rm.filterMap fun (old, new) =>
    match ownerP before old, ownerP before new with
    | some r, some r2 =>
      let touched (x : Record) : Bool := rm.any fun kv => kv.1 != old && (ownerP before kv.1 == some x)
      if r != r2 && !touched r2 && !touched r then
        if after.any (sameRecord r) && after.any (sameRecord r2) then none
        else some "a pair aiming at another record's prefix was not skipped"
      else none
    | _, _ => none

def ok (before after : List Record) (rm : List (Str × Str)) : List String :=
  uriPart before after ++ known before after ++ applied before after rm ++ skipped before after rm

end C11

namespace C12

/-- the relation between one input record and its image, given the new URI prefix `new?` the
mapping selects for it (`none` = no key applies) -/
def recordOk (before : List Record) (r r' : Record) (new? : Option Str) : List String :=
  let curie := if r'.pfx == r.pfx && sameSet r'.pSyn r.pSyn && r'.truePattern == r.truePattern then []
    else ["the CURIE prefixes / synonyms / pattern of a record changed"]
  let keeps := if r.allU.all r'.allU.contains then [] else ["a record forgot one of its URI prefixes"]
  match new? with
  | none => curie ++ keeps ++ (if sameRecord r r' then [] else ["a record no key applies to was changed"])
  | some new =>
    let gains := if r'.allU.all fun k => r.allU.contains k || k == new then []
      else ["a record gained a URI prefix other than the mapped one"]
    let free := !knownU before new || r.allU.contains new
    curie ++ keeps ++ gains ++
      (if free then (if r'.uri == new then [] else ["the mapped URI prefix did not become canonical"])
       else (if sameRecord r r' then [] else ["a clash with another record's URI prefix was not a no-op"]))

def ok (before after : List Record) (sel : Record → Option Str) : List String :=
  (if before.length == after.length then [] else ["the number of records changed"]) ++
  before.flatMap fun r =>
    match byPfx after r.pfx with
    | none => ["a record lost its canonical CURIE prefix"]
    | some r' => recordOk before r r' (sel r)

/-- which new URI prefix `remap_uri_prefixes` selects for a record -/
def selUri (rm : List (Str × Str)) (r : Record) : Option Str := Reconcile.firstUpgrade r.uri r.uSyn rm
/-- which new URI prefix `rewire` selects for a record -/
def selRewire (rw : List (Str × Str)) (r : Record) : Option Str := Reconcile.firstUpgrade r.pfx r.pSyn rw

def transitive (rm : List (Str × Str)) : Bool := (rm.map (·.1)).any fun k => (rm.map (·.2)).contains k

end C12

end Spec
