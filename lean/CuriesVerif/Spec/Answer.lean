import CuriesVerif.Model.Run

/-!
# Specification layer: what every query means, from the record list alone

No indexes, no trie: brute-force definitions over `List Record` that say what the properties
say ("the registered URI prefixes that are a prefix of `u`, pick the longest", "the record
owning `p`").  The refinement theorem `T0` (`Lemmas/Refine.lean`) proves that the index-based
model answers every query exactly like this for every well-formed converter, and the spec
checkers evaluate the *implementation's* answers against these definitions.
-/

namespace Spec

/-- the record that lists `p` as canonical CURIE prefix or synonym -/
def ownerP (recs : List Record) (p : Str) : Option Record := recs.find? fun r => r.allP.contains p
/-- the record that lists `k` as canonical URI prefix or synonym -/
def ownerU (recs : List Record) (k : Str) : Option Record := recs.find? fun r => r.allU.contains k

/-- the pattern registered for the canonical prefix `p` (a pattern that is `None` or empty counts as
no pattern) -/
def patternOf (recs : List Record) (p : Str) : Option Str :=
  (recs.find? fun r => r.pfx == p).bind Record.truePattern

/-- all `(registered URI prefix, owning record)` pairs whose URI prefix is a prefix of `u` -/
def matchesU (recs : List Record) (u : Str) : List (Str × Record) :=
  recs.flatMap fun r => (r.allU.filter fun k => k.isPrefixOf u).map fun k => (k, r)

/-- keep the longer of two candidates (the earlier one on ties) -/
def longer (best : Option (Str × Record)) (kr : Str × Record) : Option (Str × Record) :=
  match best with
  | none => some kr
  | some b => if b.1.length < kr.1.length then some kr else some b

/-- a longest registered URI prefix of `u`, with its owner -/
def longest (recs : List Record) (u : Str) : Option (Str × Record) :=
  (matchesU recs u).foldl longer none

def parseUri (recs : List Record) (u : Str) : Option (Str × Str) :=
  (longest recs u).map fun kr => (kr.2.pfx, u.drop kr.1.length)

def format (d p i : Str) : Str := p ++ d ++ i

def compress (recs : List Record) (d u : Str) : Option Str :=
  (parseUri recs u).map fun pi => format d pi.1 pi.2

def parseCurie (recs : List Record) (d s : Str) : Option (Str × Str) :=
  (partition? d s).bind fun pi => (ownerP recs pi.1).map fun r => (r.pfx, pi.2)

def standardizePrefix (recs : List Record) (p : Str) : Option Str := (ownerP recs p).map (·.pfx)

def expandPair (recs : List Record) (p i : Str) : Option Str := (ownerP recs p).map (·.uri ++ i)

def expand (recs : List Record) (d s : Str) : Option Str :=
  (partition? d s).bind fun pi => expandPair recs pi.1 pi.2

def expandPairAll (recs : List Record) (p i : Str) : Option (List Str) :=
  (ownerP recs p).map fun r => r.allU.map (· ++ i)

def expandAll (recs : List Record) (d s : Str) : Option (List Str) :=
  (partition? d s).bind fun pi => expandPairAll recs pi.1 pi.2

/-- URIs take precedence over CURIEs -/
def parse (recs : List Record) (d s : Str) : Option (Str × Str) :=
  match parseUri recs s with
  | some r => some r
  | none => parseCurie recs d s

def standardizeCurie (recs : List Record) (d s : Str) : Option Str :=
  (parseCurie recs d s).map fun pi => format d pi.1 pi.2

def standardizeUri (recs : List Record) (u : Str) : Option Str :=
  (longest recs u).map fun kr => kr.2.uri ++ u.drop kr.1.length

def compressOrStandardize (recs : List Record) (d s : Str) : Option Str :=
  (parse recs d s).map fun pi => format d pi.1 pi.2

def expandOrStandardize (recs : List Record) (d s : Str) : Option Str :=
  (parse recs d s).bind fun pi => expandPair recs pi.1 pi.2

/-- the three reporting modes, stated once: a value is returned as is; a missing value is
`None`, the caller's input (`passthrough`) or the method's error (`strict`, which wins). -/
def mode (strict passthrough : Bool) (e : Err) (x : Str) : Option Str → Val
  | some v => .str v
  | none => if strict then .err e else if passthrough then .str x else .none

def modePair (strict : Bool) (e : Err) : Option (Str × Str) → Val
  | some (p, i) => .pair p i
  | none => if strict then .err e else .none

def modeStrs (strict : Bool) (e : Err) : Option (List Str) → Val
  | some l => .strs l
  | none => if strict then .err e else .none

/-- `sorted(records, key=prefix)` is the only normalisation the constructor applies -/
def answer (recs : List Record) (d : Str) (q : Query) : Val :=
  match q.meth, q.args with
  | "parse_uri", [u] => modePair q.strict .compression (parseUri recs u)
  | "compress", [u] => mode q.strict q.passthrough .compression u (compress recs d u)
  | "is_uri", [u] => .bool (parseUri recs u).isSome
  | "parse_curie", [s] =>
    modePair q.strict (if (partition? d s).isSome then .prefixStd else .noDelimiter) (parseCurie recs d s)
  | "standardize_prefix", [p] => mode q.strict q.passthrough .prefixStd p (standardizePrefix recs p)
  | "expand_pair", [p, i] => mode q.strict q.passthrough .expansion (format d p i) (expandPair recs p i)
  | "expand_reference", [p, i] => mode q.strict q.passthrough .expansion (format d p i) (expandPair recs p i)
  | "expand", [s] => mode q.strict q.passthrough .expansion s (expand recs d s)
  | "expand_pair_all", [p, i] => modeStrs q.strict .expansion (expandPairAll recs p i)
  | "expand_all", [s] => modeStrs q.strict .prefixStd (expandAll recs d s)
  | "is_curie", [s] => .bool (expand recs d s).isSome
  | "parse", [s] => modePair q.strict .compression (parse recs d s)
  | "compress_or_standardize", [s] => mode q.strict q.passthrough .compression s (compressOrStandardize recs d s)
  | "expand_or_standardize", [s] => mode q.strict q.passthrough .expansion s (expandOrStandardize recs d s)
  | "standardize_curie", [s] => mode q.strict q.passthrough .curieStd s (standardizeCurie recs d s)
  | "standardize_uri", [u] => mode q.strict q.passthrough .uriStd u (standardizeUri recs u)
  | "compress_strict", [u] => mode true false .compression u (compress recs d u)
  | "expand_strict", [s] => mode true false .expansion s (expand recs d s)
  | "format_curie", [p, i] => .str (format d p i)
  | "get_record", [p] => (match ownerP recs p with | some r => .recs [r] | none => .none)
  -- the trie object itself: the longest registered URI prefix of `u` with the canonical prefix of its owner
  | "trie_lpi", [u] => (match longest recs u with | some kr => .pair kr.1 kr.2.pfx | none => .none)
  | m, _ => .bad s!"no spec for {m}"

/-- the queries `answer` gives a meaning to -/
def specified (q : Query) : Bool :=
  match answer [] [58] q with
  | .bad _ => false
  | _ => true

/-! ### well-formedness of a record collection (C04) -/

def disjoint (a b : List Str) : Bool := a.all fun x => !b.contains x

/-- no CURIE prefix or synonym and no URI prefix or synonym is claimed by two different
positions -/
def unique : List Record → Bool
  | [] => true
  | r :: rs => (rs.all fun s => disjoint r.allP s.allP && disjoint r.allU s.allU) && unique rs

/-- the two `Record` validators -/
def recOK (r : Record) : Bool := !r.pSyn.contains r.pfx && !r.uSyn.contains r.uri

/-- no string of the projection `f` is shared by two different positions -/
def uniqueOn (f : Record → List Str) : List Record → Bool
  | [] => true
  | r :: rs => (rs.all fun s => disjoint (f r) (f s)) && uniqueOn f rs

/-- what constructing the records and then a strict converter from them must do (C04):
`none` = success -/
def expectedInit (recs : List Record) : Option Err :=
  if !recs.all recOK then some .validation
  else if !uniqueOn Record.allU recs then some .dupUri
  else if !uniqueOn Record.allP recs then some .dupPrefix
  else none

/-- all clashes `(prefix of one record, prefix of the other, shared string)` over pairs of
different positions -/
def clashes (f : Record → List Str) : List Record → List (Str × Str × Str)
  | [] => []
  | r :: rs => (rs.flatMap fun s => ((f r).filter fun x => (f s).contains x).map fun x => (r.pfx, s.pfx, x))
      ++ clashes f rs

/-- the listing an error must carry: URI clashes if there are any, else CURIE-prefix clashes -/
def expectedListing (recs : List Record) : List (Str × Str × Str) :=
  if !uniqueOn Record.allU recs then clashes Record.allU recs else clashes Record.allP recs

/-- two listing entries denote the same clash (the two records unordered) -/
def sameClash (a b : Str × Str × Str) : Bool :=
  a.2.2 == b.2.2 && ((a.1 == b.1 && a.2.1 == b.2.1) || (a.1 == b.2.1 && a.2.1 == b.1))

end Spec
