import CuriesVerif.Model.Incremental

/-!
# What `add_record` does, as a function on lists of records (C05)

No converter, no lookup structure: the records after a call are a function of the records before, the new
record and the two flags.  `Properties/C05.lean` proves that the model's converter — with its five indexes —
refines this function over whole histories (`C05_records_refine`); `Check.lean` judges the records the
*implementation* shows after every call against it.
-/

namespace Spec

/-- the records `add_record` leaves behind (C05), computed on the records before the call: appended when
nothing matches, merged into the single match when `merge` is set.  `none`: the call must be rejected. -/
def afterAdd (fold : Str → Str) (recs : List Record) (r : Record) (cs merge : Bool) : Option (List Record) :=
  match recs.filter fun x => matchesRec fold cs r x with
  | [] => some (recs ++ [r])
  | [x] => if merge then some (recs.map fun y => if y = x then r.mergeInto x else y) else none
  | _ => none

/-- one call of a history at the level of record lists: a rejected call leaves the list as it is -/
def afterAddOrSame (fold : Str → Str) (recs : List Record) (r : Record) (cs merge : Bool) : List Record :=
  (afterAdd fold recs r cs merge).getD recs

end Spec

namespace Spec

/-- the records of `chain(converters, case_sensitive)` as a function of the record lists of its inputs: every record
of every input, in order, is added with `merge=True` to a list that starts empty; `none`: chain raises -/
def chainRecords (fold : Str → Str) (cs : Bool) (inputs : List (List Record)) : Option (List Record) :=
  inputs.flatten.foldlM (fun acc r => afterAdd fold acc r cs true) []

/-- the records of `get_subconverter(prefixes)`: the records one of whose CURIE prefixes is requested, in order
(the constructor then sorts them by canonical prefix) -/
def subRecords (recs : List Record) (prefixes : List Str) : List Record :=
  recs.filter fun r => r.allP.any fun p => prefixes.contains p

end Spec
