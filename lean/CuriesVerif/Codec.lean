import Lean.Data.Json
import CuriesVerif.Model.Run

/-!
# JSON codec of the line protocol (see `/verif/harness/protocol.md`)

Strings travel as arrays of code points so that lone surrogates, NULs and line separators
survive both JSON layers unchanged.
-/

open Lean (Json)

namespace Codec

abbrev D := Except String

def str (j : Json) : D Str := do
  let a ← j.getArr?
  a.toList.mapM fun x => x.getNat?

def strs (j : Json) : D (List Str) := do
  let a ← j.getArr?
  a.toList.mapM str

def fieldD (j : Json) (k : String) (dflt : Json) : Json :=
  match j.getObjVal? k with
  | .ok v => v
  | .error _ => dflt

def boolD (j : Json) (k : String) (dflt : Bool) : Bool :=
  match j.getObjVal? k with
  | .ok (.bool b) => b
  | _ => dflt

def record (j : Json) : D Record := do
  let pfx ← str (← j.getObjVal? "p")
  let uri ← str (← j.getObjVal? "u")
  let pSyn ← strs (fieldD j "ps" (.arr #[]))
  let uSyn ← strs (fieldD j "us" (.arr #[]))
  let pattern ← match fieldD j "pat" .null with
    | .null => pure none
    | x => some <$> str x
  pure { pfx, uri, pSyn, uSyn, pattern }

def records (j : Json) : D (List Record) := do
  let a ← j.getArr?
  a.toList.mapM record

def pairs (j : Json) : D (List (Str × Str)) := do
  let a ← j.getArr?
  a.toList.mapM fun x => do
    let kv ← x.getArr?
    match kv.toList with
    | [k, v] => pure (← str k, ← str v)
    | _ => throw "pair expected"

def query (j : Json) : D Query := do
  let meth ← (← j.getObjVal? "m").getStr?
  let args ← strs (fieldD j "a" (.arr #[]))
  pure { meth, args, strict := boolD j "s" false, passthrough := boolD j "p" false }

def errOfName (n : String) : Err :=
  match n with
  | "noDelimiter" => .noDelimiter | "compression" => .compression | "expansion" => .expansion
  | "prefixStd" => .prefixStd | "identifierStd" => .identifierStd | "curieStd" => .curieStd
  | "uriStd" => .uriStd | "valueError" => .valueError | "validation" => .validation
  | "dupUri" => .dupUri | "dupPrefix" => .dupPrefix | "dupKeys" => .dupKeys
  | "dupValues" => .dupValues | "inconsistent" => .inconsistent | "cycle" => .cycle
  | "transitive" => .transitive | "keyError" => .keyError | "indexError" => .indexError
  | "typeError" => .typeError
  | "libValue" => .compression    -- an unnamed subclass of ConversionError / StandardizationError
  | _ => .other

/-- decode an observed value (what the implementation returned) -/
def val (j : Json) : D Val :=
  match j with
  | .null => pure .none
  | .bool b => pure (.bool b)
  | _ =>
    match j.getObjVal? "s" with
    | .ok x => .str <$> str x
    | .error _ =>
    match j.getObjVal? "pr" with
    | .ok x => do
      match (← x.getArr?).toList with
      | [p, i] => pure (.pair (← str p) (← str i))
      | _ => throw "pair expected"
    | .error _ =>
    match j.getObjVal? "l" with
    | .ok x => .strs <$> strs x
    | .error _ =>
    match j.getObjVal? "r" with
    | .ok x => .recs <$> records x
    | .error _ =>
    match j.getObjVal? "d" with
    | .ok x => .dict <$> pairs x
    | .error _ =>
    match j.getObjVal? "e" with
    | .ok x => do pure (.err (errOfName (← x.getStr?)))
    | .error _ =>
    match j.getObjVal? "bad" with
    | .ok x => do pure (.bad (← x.getStr?))
    | .error _ => throw s!"cannot decode value {j.compress}"

/-! ### encoding -/

def encStr (s : Str) : Json := .arr (s.map fun (n : Nat) => Json.num (Lean.JsonNumber.fromNat n)).toArray
def encStrs (l : List Str) : Json := .arr (l.map encStr).toArray
def encOptStr : Option Str → Json
  | some s => encStr s
  | none => .null

def encRecord (r : Record) : Json :=
  Json.mkObj [("p", encStr r.pfx), ("u", encStr r.uri), ("ps", encStrs r.pSyn),
    ("us", encStrs r.uSyn), ("pat", encOptStr r.pattern)]

def encPairs (l : List (Str × Str)) : Json :=
  .arr (l.map fun (k, v) => Json.arr #[encStr k, encStr v]).toArray

def encVal : Val → Json
  | .none => .null
  | .str s => Json.mkObj [("s", encStr s)]
  | .pair p i => Json.mkObj [("pr", .arr #[encStr p, encStr i])]
  | .strs l => Json.mkObj [("l", encStrs l)]
  | .bool b => .bool b
  | .recs l => Json.mkObj [("r", .arr (l.map encRecord).toArray)]
  | .dict l => Json.mkObj [("d", encPairs l)]
  | .err e => Json.mkObj [("e", .str e.name)]
  | .bad m => Json.mkObj [("bad", .str m)]

end Codec
