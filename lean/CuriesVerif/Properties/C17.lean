import CuriesVerif.Model.Resolver
import CuriesVerif.Lemmas.Refine

/-!
# C17 — the resolver redirects exactly where expand points, on both web frameworks

For a one-symbol delimiter `dl` (the property's `:` and `/`), prefixes that are non-empty, contain
neither `/` nor the delimiter, and identifiers that are non-empty and do not start with `/`
(non-empty segments joined by `/`), possibly containing the delimiter.
-/

open Resolver

/-- whichever occurrence of the delimiter the route pattern splits at, re-splitting at the first
delimiter recovers exactly `(p, i)` -/
theorem C17_first_split (dl : Nat) (p i a b : Str) (hp : dl ∉ p) (h : a ++ [dl] ++ b = p ++ [dl] ++ i) :
    firstSplit [dl] a b = (p, i) := by
  have h' : a ++ ([dl] ++ b) = p ++ ([dl] ++ i) := by simpa using h
  rcases List.append_eq_append_iff.mp h' with ⟨a', e1, e2⟩ | ⟨c', e1, e2⟩
  · -- p = a ++ a'
    cases a' with
    | nil =>
      simp at e1 e2
      subst e1
      have : b = i := by simpa using e2
      subst this
      unfold firstSplit partition?
      have hnone : firstOcc [dl] p = none := firstOcc_none_of_not_mem dl p hp
      simp [hnone]
    | cons x xs =>
      have : x = dl := by
        have := congrArg List.head? e2
        simpa using this.symm
      subst this
      exact absurd (by rw [e1]; simp) hp
  · -- a = p ++ c'
    cases c' with
    | nil =>
      simp at e1 e2
      subst e1
      have : b = i := by simpa using e2.symm
      subst this
      unfold firstSplit partition?
      have hnone : firstOcc [dl] a = none := firstOcc_none_of_not_mem dl a hp
      simp [hnone]
    | cons x xs =>
      have hx : x = dl := by
        have := congrArg List.head? e2
        simpa using this.symm
      subst hx
      have hi : i = xs ++ [x] ++ b := by
        have := congrArg List.tail e2
        simpa using this
      subst e1
      unfold firstSplit
      have : (p ++ x :: xs) = p ++ [x] ++ xs := by simp
      rw [this, partition?_append [x] p xs (by simp) (delimOK_single x p hp)]
      simp [hi]
where
  firstOcc_none_of_not_mem (dl : Nat) : ∀ (s : Str), dl ∉ s → firstOcc [dl] s = none
    | [], _ => by simp [firstOcc]
    | c :: cs, h => by
      have hc : c ≠ dl := fun e => h (by simp [e])
      have ih := firstOcc_none_of_not_mem dl cs (fun h' => h (by simp [h']))
      simp only [firstOcc, ih, Option.map_none]
      have : List.isPrefixOf [dl] (c :: cs) = false := by
        simp only [List.isPrefixOf]
        have : (dl == c) = false := by simpa using fun e => hc e.symm
        simp [this]
      simp [this]

/-- **C17 (route matching, soundness).** What either route pattern binds is a decomposition of the
request path at an occurrence of the delimiter, with a non-empty slash-free first part. -/
theorem C17_match_sound (fw : Framework) (d rest a b : Str) (h : matchRoute fw d rest = some (a, b)) :
    rest = a ++ d ++ b ∧ a ≠ [] ∧ 47 ∉ a := by
  unfold matchRoute at h
  cases hf : (List.range (rest.length + 1)).reverse.find? (validSplit fw d rest) with
  | none => simp [hf] at h
  | some n =>
    simp only [hf, Option.map_some, Option.some.injEq, Prod.mk.injEq] at h
    obtain ⟨rfl, rfl⟩ := h
    have hv := List.find?_some hf
    unfold validSplit at hv
    simp only [Bool.and_eq_true, decide_eq_true_eq, Bool.not_eq_true'] at hv
    obtain ⟨⟨⟨hn, hslash⟩, hpre⟩, _⟩ := hv
    have hnl : n ≤ rest.length := by
      have := List.mem_of_find?_eq_some hf
      simp at this; omega
    refine ⟨?_, ?_, ?_⟩
    · obtain ⟨t, ht⟩ := List.isPrefixOf_iff_prefix.mp hpre
      have : rest.drop (n + d.length) = t := by
        rw [← List.drop_drop, ← ht]; simp
      rw [this, List.append_assoc, ht, List.take_append_drop]
    · intro e
      have hl : (rest.take n).length = n := by rw [List.length_take]; omega
      rw [e] at hl
      simp at hl; omega
    · simpa using hslash

/-- **C17 (route matching, completeness).** A request of the promised shape is matched by both
route patterns. -/
theorem C17_match_complete (fw : Framework) (d p i : Str) (hp : p ≠ []) (hs : 47 ∉ p) (c : Nat) (cs : Str)
    (hi : i = c :: cs) (hc : c ≠ 47) : (matchRoute fw d (p ++ d ++ i)).isSome = true := by
  unfold matchRoute
  rw [Option.isSome_map, List.find?_isSome]
  refine ⟨p.length, by simp; omega, ?_⟩
  unfold validSplit
  have h1 : (p ++ d ++ i).take p.length = p := by simp [List.append_assoc]
  have h2 : (p ++ d ++ i).drop p.length = d ++ i := by simp [List.append_assoc]
  simp only [h1, h2]
  have hpl : 0 < p.length := by
    cases p with
    | nil => exact absurd rfl hp
    | cons _ _ => simp
  have hpre : d.isPrefixOf (d ++ i) = true := List.isPrefixOf_iff_prefix.mpr (List.prefix_append d i)
  cases fw with
  | fastapi => simp [hpl, hs, hpre]
  | flask => subst hi; simp [hpl, hs, hpre, hc]

/-- **C17.** For a resolver built from any well-formed converter with a one-symbol delimiter, with
Flask or with FastAPI, `GET /<p><dl><i>` answers 302 with `Location` = the expansion of the CURIE
when the prefix (canonical or synonym) is known, and 422 otherwise — also when the identifier
contains `/` or the delimiter itself. -/
theorem C17_respond (fw : Framework) {c : Conv} (dl : Nat) (hd : c.delim = [dl]) (p i : Str)
    (hp : p ≠ []) (hs : 47 ∉ p) (hdl : dl ∉ p) (ch : Nat) (cs : Str) (hi : i = ch :: cs) (hc : ch ≠ 47) :
    respond fw c (p ++ [dl] ++ i) =
      match c.expandPair p i with
      | .ok (some loc) => (302, some loc)
      | _ => (422, none) := by
  unfold respond
  rw [hd]
  have hsome := C17_match_complete fw [dl] p i hp hs ch cs hi hc
  cases hm : matchRoute fw [dl] (p ++ [dl] ++ i) with
  | none => rw [hm] at hsome; cases hsome
  | some ab =>
    obtain ⟨a, b⟩ := ab
    have ⟨hdec, _, _⟩ := C17_match_sound fw [dl] _ a b hm
    simp only
    rw [C17_first_split dl p i a b hdl hdec.symm]
    cases c.expandPair p i with
    | error e => rfl
    | ok o => cases o <;> rfl

/-- **C17.** Both frameworks give the same status and the same `Location` for the same request. -/
theorem C17_agree {c : Conv} (dl : Nat) (hd : c.delim = [dl]) (p i : Str)
    (hp : p ≠ []) (hs : 47 ∉ p) (hdl : dl ∉ p) (ch : Nat) (cs : Str) (hi : i = ch :: cs) (hc : ch ≠ 47) :
    respond .flask c (p ++ [dl] ++ i) = respond .fastapi c (p ++ [dl] ++ i) := by
  rw [C17_respond .flask dl hd p i hp hs hdl ch cs hi hc, C17_respond .fastapi dl hd p i hp hs hdl ch cs hi hc]

/-- Non-vacuity: a DOI-like identifier with `/`, an identifier containing the delimiter twice, a
synonym, an unknown prefix — the same on both frameworks. -/
example :
    (let c := Conv.build [58] [⟨[100], [104, 47], [[68]], [], none⟩]
     [respond .flask c [100, 58, 49, 48, 46, 49, 47, 97], respond .fastapi c [100, 58, 49, 48, 46, 49, 47, 97],
      respond .flask c [68, 58, 97, 58, 98, 58, 99], respond .fastapi c [68, 58, 97, 58, 98, 58, 99],
      respond .flask c [120, 58, 49], respond .fastapi c [120, 58, 49]])
    = [(302, some [104, 47, 49, 48, 46, 49, 47, 97]), (302, some [104, 47, 49, 48, 46, 49, 47, 97]),
       (302, some [104, 47, 97, 58, 98, 58, 99]), (302, some [104, 47, 97, 58, 98, 58, 99]),
       (422, none), (422, none)] := by
  decide
