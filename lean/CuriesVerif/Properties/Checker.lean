import CuriesVerif.Check
import CuriesVerif.Properties.C05
import CuriesVerif.Properties.C09
import CuriesVerif.Properties.C04
import CuriesVerif.Lemmas.Refine

/-!
# The spec checker never objects to the model

`specCheck` (Check.lean) judges what the *implementation* returned against the specification layer.
The three judgements it makes about a converter — the answer to a specified query, the contents of
the lookup dictionaries, the acceptance or rejection of an `add_record` — are shown here to be
satisfied by the model's own outputs on every well-formed converter.  So a spec failure on the
unchanged code can only come from a difference between the implementation and the model (which the
correspondence reports), never from the checker demanding more than the model — and the theorems —
deliver.
-/

open Spec

theorem Val.same_refl (v : Val) : Val.same v v = true := by
  cases v <;> simp [Val.same]

/-- queries: the model's answer passes the comparison with `Spec.answer` over the converter's own
records (T0) -/
theorem checker_query_sound {c : Conv} (h : WF c) (hd : c.delim ≠ []) (q : Query) (hs : Spec.specified q = true) :
    Val.same (Spec.answer c.records c.delim q) (c.run q) = true := by
  rw [T0 h hd q hs]; exact Val.same_refl _

theorem get_some_mem_keys {β} (d : Dict β) (k : Str) (v : β) (h : Dict.get d k = some v) : k ∈ Dict.keys d := by
  unfold Dict.get at h
  cases hf : d.find? (fun kv => kv.1 == k) with
  | none => simp [hf] at h
  | some kv =>
    unfold Dict.keys
    rw [List.mem_eraseDups]
    have hm := List.mem_of_find?_eq_some hf
    have hk : kv.1 = k := by simpa using List.find?_some hf
    exact List.mem_map.mpr ⟨kv, hm, hk⟩

theorem mem_items {β} (d : Dict β) (k : Str) (v : β) : (k, v) ∈ Dict.items d ↔ Dict.get d k = some v := by
  unfold Dict.items
  rw [List.mem_filterMap]
  constructor
  · rintro ⟨k', _, hk'⟩
    cases hg : Dict.get d k' with
    | none => simp [hg] at hk'
    | some w =>
      simp only [hg, Option.map_some, Option.some.injEq, Prod.mk.injEq] at hk'
      obtain ⟨rfl, rfl⟩ := hk'
      exact hg
  · intro hg
    exact ⟨k, get_some_mem_keys d k v hg, by simp [hg]⟩

/-- the generic argument for one lookup dictionary -/
theorem checkLookup_sound (idx : Nat) (recs : List Record) (what : String) (d : Dict Str) (keysOf : Record → List Str)
    (want : List Record → Str → Option Str) (hget : ∀ k, Dict.get d k = want recs k)
    (hcover : ∀ r ∈ recs, ∀ k ∈ keysOf r, (want recs k).isSome) :
    checkLookup idx { slot := 0, recs := some recs } what (Dict.items d) keysOf want = [] := by
  unfold checkLookup
  simp only
  split
  · rfl
  · have h1 : ((Dict.items d).all fun kv => want recs kv.1 == some kv.2) = true := by
      rw [List.all_eq_true]
      intro kv hkv
      obtain ⟨k, v⟩ := kv
      have := (mem_items d k v).mp hkv
      simp only
      rw [← hget, this]
      simp
    have h2 : ((recs.flatMap keysOf).all fun k => (Dict.items d).any fun kv => kv.1 == k) = true := by
      rw [List.all_eq_true]
      intro k hk
      obtain ⟨r, hr, hkr⟩ := List.mem_flatMap.mp hk
      have hs := hcover r hr k hkr
      rw [← hget] at hs
      obtain ⟨v, hv⟩ := Option.isSome_iff_exists.mp hs
      rw [List.any_eq_true]
      exact ⟨(k, v), (mem_items d k v).mpr hv, by simp⟩
    simp [h1, h2]

/-- lookup dictionaries: what a well-formed converter of the model exposes passes the checker — all
four dictionaries the checker looks at -/
theorem checker_lookup_sound {c : Conv} (h : WF c) (idx : Nat) :
    checkLookup idx { slot := 0, recs := some c.records } "prefix_map" (Dict.items c.prefixMap) (fun r => r.allP)
      (fun recs k => (Spec.ownerP recs k).map (·.uri)) = [] ∧
    checkLookup idx { slot := 0, recs := some c.records } "synonym_to_prefix" (Dict.items c.synToPrefix) (fun r => r.allP)
      (fun recs k => (Spec.ownerP recs k).map (·.pfx)) = [] ∧
    checkLookup idx { slot := 0, recs := some c.records } "reverse_prefix_map" (Dict.items c.revMap) (fun r => r.allU)
      (fun recs k => (Spec.ownerU recs k).map (·.pfx)) = [] ∧
    checkLookup idx { slot := 0, recs := some c.records } "pattern_map" (Dict.items c.patMap)
      (fun r => if r.truePattern.isSome then [r.pfx] else []) Spec.patternOf = [] := by
  refine ⟨?_, ?_, ?_, ?_⟩
  · exact checkLookup_sound idx _ _ _ _ _ h.mirror.pm (fun r hr k hk => by
      show ((Spec.ownerP c.records k).map (·.uri)).isSome = true
      rw [ownerP_of_mem h.unique hr hk]; rfl)
  · exact checkLookup_sound idx _ _ _ _ _ h.mirror.sp (fun r hr k hk => by
      show ((Spec.ownerP c.records k).map (·.pfx)).isSome = true
      rw [ownerP_of_mem h.unique hr hk]; rfl)
  · exact checkLookup_sound idx _ _ _ _ _ h.mirror.rm (fun r hr k hk => by
      show ((Spec.ownerU c.records k).map (·.pfx)).isSome = true
      rw [ownerU_of_mem h.unique hr hk]; rfl)
  · refine checkLookup_sound idx _ _ _ _ _ h.mirror.pat (fun r hr k hk => ?_)
    by_cases ht : r.truePattern.isSome = true
    · simp only [ht, if_true, List.mem_singleton] at hk
      subst hk
      unfold Spec.patternOf
      rw [find?_pfx_of_mem h.unique hr]
      exact ht
    · simp [ht] at hk

/-- `add_record`: whatever the model does — accept, merge, reject — passes the checker's rule for
which calls are rejected -/
theorem checker_add_sound (fold : Str → Str) {c : Conv} (h : WF c) (idx : Nat) (what : String) (r : Record) (cs merge : Bool) :
    checkAdd idx fold { slot := 0, recs := some c.records } what r cs merge
      (match c.addRecord fold r cs merge with | .ok _ => Val.none | .error e => Val.err e) = [] := by
  unfold checkAdd
  simp only
  split
  · rfl
  · have hiff := C05_reject_iff fold h r cs merge
    generalize hl : (c.records.filter fun x => matchesRec fold cs r x).length = n at hiff ⊢
    cases hres : c.addRecord fold r cs merge with
    | ok c' =>
      simp only
      have hno : ¬ (1 < n ∨ (n = 1 ∧ merge = false)) := by
        intro hh
        obtain ⟨e, he⟩ := hiff.mpr hh
        rw [hres] at he; cases he
      have : (decide (n > 1) || (n == 1 && !merge)) = false := by
        rw [Bool.or_eq_false_iff]
        constructor
        · simpa using fun hgt => hno (Or.inl hgt)
        · cases merge
          · simp only [Bool.not_false, Bool.and_true, beq_eq_false_iff_ne, ne_eq]
            intro e; exact hno (Or.inr ⟨e, rfl⟩)
          · simp
      simp [this]
    | error e =>
      have he := addRecord_error fold h r cs merge e hres
      subst he
      simp only
      have hyes := hiff.mp ⟨_, hres⟩
      have : (decide (n > 1) || (n == 1 && !merge)) = true := by
        rcases hyes with h1 | ⟨h1, h2⟩
        · simp [h1]
        · simp [h1, h2]
      simp [this]


theorem disjoint_iff (a b : List Str) : Spec.disjoint a b = true ↔ Disj a b := by
  unfold Spec.disjoint Disj
  rw [List.all_eq_true]
  constructor
  · intro h x hx hb
    have := h x hx
    simp [hb] at this
  · intro h x hx
    simpa using h x hx

theorem uniqueOn_iff (f : Record → List Str) (recs : List Record) :
    Spec.uniqueOn f recs = true ↔ recs.Pairwise (fun a b => Disj (f a) (f b)) := by
  induction recs with
  | nil => simp [Spec.uniqueOn]
  | cons r rs ih =>
    rw [Spec.uniqueOn, Bool.and_eq_true, List.pairwise_cons, ih, List.all_eq_true]
    constructor
    · rintro ⟨h1, h2⟩
      exact ⟨fun s hs => (disjoint_iff _ _).mp (h1 s hs), h2⟩
    · rintro ⟨h1, h2⟩
      exact ⟨fun s hs => (disjoint_iff _ _).mpr (h1 s hs), h2⟩

/-- strict construction: whatever the model's constructor does with validated records — accept, or
raise one of the two duplicate errors — is what the checker expects (`Spec.expectedInit`) -/
theorem checker_init_sound (idx : Nat) (what : String) (recs : List Record) (d : Str) (hok : ∀ r ∈ recs, RecOK r) :
    checkInit idx what (.ok recs) true
      (match Conv.init? recs d true with | .ok _ => Val.none | .error e => Val.err e) = [] := by
  have hall : recs.all Spec.recOK = true := by
    rw [List.all_eq_true]
    intro r hr
    have := hok r hr
    unfold Spec.recOK RecOK at *
    simp [this.1, this.2]
  unfold checkInit Spec.expectedInit
  simp only [Bool.true_eq_false, if_false, Bool.not_true, hall, Bool.not_eq_true']
  by_cases hU : recs.Pairwise (fun a b => Disj a.allU b.allU)
  · have hu := (uniqueOn_iff Record.allU recs).mpr hU
    by_cases hP : recs.Pairwise (fun a b => Disj a.allP b.allP)
    · have hp := (uniqueOn_iff Record.allP recs).mpr hP
      have : Unique recs := List.pairwise_and_iff.mpr ⟨hP, hU⟩
      obtain ⟨c, hc⟩ := (C04_iff recs d).mpr this
      simp [hu, hp, hc]
    · have hp : Spec.uniqueOn Record.allP recs = false := by
        cases h : Spec.uniqueOn Record.allP recs with
        | false => rfl
        | true => exact absurd ((uniqueOn_iff _ _).mp h) hP
      rw [(C04_which recs d).2 hU hP]
      simp [hu, hp, Val.errFamily, Err.isLibraryValueError]
  · have hu : Spec.uniqueOn Record.allU recs = false := by
      cases h : Spec.uniqueOn Record.allU recs with
      | false => rfl
      | true => exact absurd ((uniqueOn_iff _ _).mp h) hU
    rw [(C04_which recs d).1 hU]
    simp [hu, Val.errFamily, Err.isLibraryValueError]

/-- what the checker expects the records to be after an accepted `add_record` is what the model's
`add_record` leaves (on every well-formed converter): `C05_afterAdd` -/
theorem checker_add_expect_sound (fold : Str → Str) {c c' : Conv} (h : WF c) (r : Record) (cs merge : Bool)
    (hok : c.addRecord fold r cs merge = .ok c') :
    expectedAfterAdd fold c.records r cs merge = some c'.records :=
  C05_afterAdd fold h r cs merge hok

/-- a rejected call leaves the records as they were: what the checker expects then is the list it had observed -/
theorem checker_add_reject_expect (fold : Str → Str) (o : SlotObs) (recs : List Record) (ho : o.recs = some recs)
    (hu : Spec.unique recs = true) (r : Record) (cs merge : Bool) (e : Err) :
    expectAfterAdd fold o r cs merge (.err e) = some recs := by
  unfold expectAfterAdd
  rw [ho]
  simp [hu]

/-- what the checker expects of `chain` — success or failure, and the records of the result — is what the model's
`chain` delivers on well-formed inputs (`C09_chain_refines`) -/
theorem checker_chain_expect_sound (fold : Str → Str) (convs : List Conv) (cs : Bool) (hne : convs ≠ [])
    (hw : ∀ c ∈ convs, WF c) :
    Spec.chainRecords fold cs (convs.map (·.records)) = (Conv.chain fold convs cs).toOption.map (·.records) :=
  (C09_chain_refines fold convs cs hne hw).symm

/-- what the checker expects of `get_subconverter` is, up to the constructor's sorting, what the model holds -/
theorem checker_sub_expect_sound {c c' : Conv} (P : List Str) (hc' : c.getSubconverter P = .ok c') :
    (Spec.subRecords c.records P).Perm c'.records :=
  (C09_sub_refines P hc').symm
