import CuriesVerif.Lemmas.Longest
import CuriesVerif.Lemmas.Trie

/-!
# C01 — URI compression always picks the longest registered URI prefix

Statements are about the *model* (`Conv.parseUri`, `Conv.compress`, `Conv.isUri`, which look the
URI up in the trie index) for every well-formed converter `c` — in particular every converter
produced by the strict constructor (`wf_of_init`) — every delimiter, and every string `u`.
-/

open Spec

/-- **C01 (failure side).** `parse_uri` finds nothing exactly when no registered URI prefix
(canonical or synonym, of any record) is a prefix of `u`. -/
theorem C01_parse_none {c : Conv} (h : WF c) (u : Str) :
    c.parseUri u false = .ok none ↔ ∀ r ∈ c.records, ∀ k ∈ r.allU, ¬ k <+: u := by
  rw [parseUri_eq h]
  unfold Spec.parseUri
  cases hl : longest c.records u with
  | none =>
    have hm := (longest_none_iff _ _).mp hl
    simp only [Option.map_none, Bool.false_eq_true, if_false, true_iff]
    intro r hr k hk hp
    have : (k, r) ∈ matchesU c.records u := (mem_matchesU _ _ _ _).mpr ⟨hr, hk, hp⟩
    rw [hm] at this; cases this
  | some kr =>
    have hi := isLongest_of_longest hl
    simp only [Option.map_some]
    constructor
    · intro hc; cases hc
    · intro hc; exact absurd hi.2.2.1 (hc kr.2 hi.1 kr.1 hi.2.1)

/-- **C01 (success side).** If `parse_uri` answers `(p, i)` then `p` is the canonical CURIE prefix
of the record owning a longest registered URI prefix `k` of `u`, and `i` is the rest of `u`
after `k`. -/
theorem C01_parse_some {c : Conv} (h : WF c) (u p i : Str) (s : Bool)
    (hp : c.parseUri u s = .ok (some (p, i))) :
    ∃ k r, IsLongest c.records u k r ∧ p = r.pfx ∧ k ++ i = u := by
  rw [parseUri_eq h] at hp
  unfold Spec.parseUri at hp
  cases hl : longest c.records u with
  | none => rw [hl] at hp; cases s <;> simp at hp
  | some kr =>
    rw [hl] at hp
    simp only [Option.map_some, Except.ok.injEq, Option.some.injEq, Prod.mk.injEq] at hp
    have hi := isLongest_of_longest hl
    refine ⟨kr.1, kr.2, hi, hp.1.symm, ?_⟩
    rw [← hp.2]
    obtain ⟨t, ht⟩ := hi.2.2.1
    rw [← ht]; simp

/-- **C01 (completeness).** Whenever some registered URI prefix `k` owned by `r` is a longest
prefix of `u`, `parse_uri` answers `(r.prefix, u[len(k):])` — in every mode. -/
theorem C01_parse_longest {c : Conv} (h : WF c) (u k : Str) (r : Record) (s : Bool)
    (hl : IsLongest c.records u k r) : c.parseUri u s = .ok (some (r.pfx, u.drop k.length)) := by
  rw [parseUri_eq h]
  unfold Spec.parseUri
  rw [(longest_iff h.unique u k r).mpr hl]
  rfl

/-- **C01.** `compress` is `parse_uri` joined by the converter's delimiter. -/
theorem C01_compress {c : Conv} (h : WF c) (u : Str) :
    c.compress u false false =
      match c.parseUri u false with
      | .ok (some (p, i)) => .ok (some (p ++ c.delim ++ i))
      | _ => .ok none := by
  rw [compress_eq h, parseUri_eq h]
  unfold Spec.compress
  cases Spec.parseUri c.records u with
  | none => rfl
  | some r => rfl

/-- **C01.** `is_uri(u)` iff `compress(u)` is not `None` iff `parse_uri` finds a reference iff some
registered URI prefix is a prefix of `u`. -/
theorem C01_isUri {c : Conv} (h : WF c) (u : Str) :
    c.isUri u = true ↔ ∃ r ∈ c.records, ∃ k ∈ r.allU, k <+: u := by
  rw [isUri_eq h]
  unfold Spec.parseUri
  cases hl : longest c.records u with
  | none =>
    have hm := (longest_none_iff _ _).mp hl
    simp only [Option.map_none, Option.isSome_none, Bool.false_eq_true, false_iff]
    rintro ⟨r, hr, k, hk, hp⟩
    have : (k, r) ∈ matchesU c.records u := (mem_matchesU _ _ _ _).mpr ⟨hr, hk, hp⟩
    rw [hm] at this; cases this
  | some kr =>
    have hi := isLongest_of_longest hl
    simp only [Option.map_some, Option.isSome_some, true_iff]
    exact ⟨kr.2, hi.1, kr.1, hi.2.1, hi.2.2.1⟩

/-- **C01 (the answer is a function of the *set* of records).** -/
theorem C01_unique_answer {l₁ l₂ : List Record} (hu : Unique l₁) (p : l₁.Perm l₂) (u : Str) :
    Spec.parseUri l₁ u = Spec.parseUri l₂ u := by
  have hu2 : Unique l₂ := (Unique.perm p).mp hu
  unfold Spec.parseUri
  cases h1 : longest l₁ u with
  | none =>
    have hm := (longest_none_iff _ _).mp h1
    have : longest l₂ u = none := by
      rw [longest_none_iff]
      cases hm2 : matchesU l₂ u with
      | nil => rfl
      | cons x xs =>
        have hx : (x.1, x.2) ∈ matchesU l₂ u := by rw [hm2]; simp
        have ⟨a, b, cc⟩ := (mem_matchesU _ _ _ _).mp hx
        have : (x.1, x.2) ∈ matchesU l₁ u := (mem_matchesU _ _ _ _).mpr ⟨p.mem_iff.mpr a, b, cc⟩
        rw [hm] at this; cases this
    rw [this]
  | some kr =>
    have := (longest_iff hu2 u kr.1 kr.2).mpr ((isLongest_of_longest h1).perm p)
    rw [this]

/-- **C01 (order independence).** Two strict converters built from the same records supplied in
different orders answer `parse_uri`, `compress` and `is_uri` identically, in every mode. -/
theorem C01_perm {recs recs' : List Record} {d : Str} {c c' : Conv}
    (hok : ∀ r ∈ recs, RecOK r) (p : recs.Perm recs')
    (hc : Conv.init? recs d true = .ok c) (hc' : Conv.init? recs' d true = .ok c') (u : Str) (s pt : Bool) :
    c.parseUri u s = c'.parseUri u s ∧ c.compress u s pt = c'.compress u s pt ∧ c.isUri u = c'.isUri u := by
  have hw := wf_of_init hok hc
  have hw' := wf_of_init (fun r hr => hok r (p.mem_iff.mpr hr)) hc'
  have ⟨e1, d1⟩ := init?_records hc
  have ⟨e2, d2⟩ := init?_records hc'
  have pp : c.records.Perm c'.records := by
    rw [e1, e2]
    exact ((sortRecords_perm recs).trans p).trans (sortRecords_perm recs').symm
  have key := C01_unique_answer hw.unique pp u
  refine ⟨?_, ?_, ?_⟩
  · rw [parseUri_eq hw, parseUri_eq hw', key]
  · rw [compress_eq hw, compress_eq hw']
    unfold Spec.compress
    rw [key, d1, d2]
  · rw [isUri_eq hw, isUri_eq hw', key]

/-- Non-vacuity: a strict converter with nested URI prefixes (`h/` ⊂ `h/G`), a synonym of one
record nested inside another record's prefix (`h` ⊂ `h/`), and the empty URI prefix. -/
example :
    (match Conv.init? [⟨[71,79], [104,47], [], [], none⟩, ⟨[79], [104,47,71], [], [[104]], none⟩,
        ⟨[68], [], [], [], none⟩] [58] true with
     | .ok c => [c.run ⟨"parse_uri", [[104,47,71,49]], false, false⟩, c.run ⟨"parse_uri", [[104,47,49]], false, false⟩,
                 c.run ⟨"parse_uri", [[104,49]], false, false⟩, c.run ⟨"compress", [[120]], false, false⟩]
     | .error _ => [])
    = [.pair [79] [49], .pair [71,79] [49], .pair [79] [49], .str [68,58,120]] := by
  decide

/-- **C01 (the trie itself).** The model above is written against the *contract* of
`StringTrie.longest_prefix_item` (the longest key that is a prefix of the query).  This theorem
discharges the contract for the character trie `pytrie` implements (`Model/Trie.lean`: one node per
character, a value slot, the walk that remembers the last value seen): the trie that received
every assignment the converter ever made — `StringTrie(reverse_prefix_map)` in the constructor,
`trie[uri_prefix] = prefix` in `_index` — answers exactly as the contract over the dictionary of
those assignments says, for every history of assignments and every query. -/
theorem C01_trie (c : Conv) (u : Str) : (Trie.ofList c.trie.reverse).lpi u = Conv.lpi c.trie u :=
  Trie.lpi_log c.trie u

/-- Non-vacuity: nested keys, the empty key, an overwritten key; the walk stops at the first
missing child and reports the last value seen. -/
example :
    (let t := Trie.ofList [([104], [97]), ([104, 47, 120], [98]), ([], [101]), ([104], [99])]
     ([t.lpi [104, 47, 120, 49], t.lpi [104, 47], t.lpi [122]], t.get [104, 47]))
    = ([some ([104, 47, 120], [98]), some ([104], [99]), some ([], [101])], none) := by
  decide
