import CuriesVerif.Spec.Answer

theorem C01_placeholder : True := trivial
