import CuriesVerif.Model.Reference
import CuriesVerif.Lemmas.Refine

/-!
# C15 — references parse, print, compare and hash consistently
-/

open Ref

/-- **C15 (parse ∘ print).** For every prefix without the separator and *every* identifier (also one
containing separators), a reference prints as `prefix:identifier` and `from_curie` of that string
gives back the same pair: the split is at the first separator only. -/
theorem C15_roundtrip (cls : RefClass) (p i : Str) (name : Option Str) (hp : 58 ∉ p)
    (hn : cls = .named → name.isSome = true) :
    ∃ r, fromCurie cls (Ref.curie { cls, pfx := p, ident := i, name }) name none = .ok r ∧
      r.cls = cls ∧ r.pfx = p ∧ r.ident = i := by
  unfold fromCurie Ref.curie Conv.split
  simp only [List.isEmpty_cons, Bool.false_eq_true, if_false]
  rw [partition?_append [58] p i (by simp) (delimOK_single 58 p hp)]
  simp only
  by_cases hc : cls = .named
  · have := hn hc
    cases name with
    | none => cases this
    | some n => subst hc; exact ⟨_, rfl, rfl, rfl, rfl⟩
  · have : (cls == RefClass.named && name.isNone) = false := by
      cases cls <;> simp_all
    rw [if_neg (by rw [this]; exact Bool.false_ne_true)]
    exact ⟨_, rfl, rfl, rfl, rfl⟩

/-- **C15.** Separator-free strings are rejected (`NoCURIEDelimiterError`), for every class. -/
theorem C15_reject (cls : RefClass) (s : Str) (name : Option Str) (conv : Option Conv) (hs : 58 ∉ s) :
    fromCurie cls s name conv = .error .noDelimiter := by
  have hf : firstOcc [58] s = none := by
    induction s with
    | nil => simp [firstOcc]
    | cons c cs ih =>
      have hc : c ≠ 58 := fun e => hs (by simp [e])
      have ih' := ih (fun h => hs (by simp [h]))
      simp only [firstOcc, ih', Option.map_none]
      have : List.isPrefixOf [58] (c :: cs) = false := by
        simp only [List.isPrefixOf]
        have : (58 == c) = false := by simpa using fun e => hc e.symm
        simp [this]
      simp [this]
  unfold fromCurie Conv.split partition?
  simp [hf]

/-- **C15 (equality).** On the three pydantic classes `==` is an equivalence relation that depends
only on `(prefix, identifier)`: neither the name nor the class matters. -/
theorem C15_eq_pair (a b : Ref) (ha : a.isPydantic = true) (hb : b.isPydantic = true) :
    Ref.eq a b = true ↔ (a.pfx = b.pfx ∧ a.ident = b.ident) := by
  unfold Ref.eq
  simp [ha, hb]

theorem C15_eq_equiv :
    (∀ a : Ref, Ref.eq a a = true) ∧
    (∀ a b : Ref, Ref.eq a b = true → Ref.eq b a = true) ∧
    (∀ a b c : Ref, Ref.eq a b = true → Ref.eq b c = true → Ref.eq a c = true) := by
  refine ⟨?_, ?_, ?_⟩
  · intro a; unfold Ref.eq; cases h : a.isPydantic <;> simp [h]
  · intro a b; unfold Ref.eq
    cases ha : a.isPydantic <;> cases hb : b.isPydantic <;> simp [ha, hb] <;>
      (intro h1 h2; exact ⟨h1.symm, h2.symm⟩)
  · intro a b c; unfold Ref.eq
    cases ha : a.isPydantic <;> cases hb : b.isPydantic <;> cases hc : c.isPydantic <;> simp [ha, hb, hc] <;>
      (intro h1 h2 h3 h4; exact ⟨h1.trans h3, h2.trans h4⟩)

/-- a `ReferenceTuple` is equal only to tuples -/
theorem C15_eq_tuple (a b : Ref) (ha : a.isPydantic = false) (hb : b.isPydantic = true) :
    Ref.eq a b = false ∧ Ref.eq b a = false := by
  unfold Ref.eq; simp [ha, hb]

/-- **C15 (hash).** Equal references have equal hashes (the hash is computed from the pair). -/
theorem C15_hash (a b : Ref) (h : Ref.eq a b = true) : a.hashKey = b.hashKey := by
  unfold Ref.eq at h
  unfold Ref.hashKey
  cases ha : a.isPydantic <;> cases hb : b.isPydantic <;> simp [ha, hb] at h <;> simp [h.1, h.2]

theorem lt_iff (a b : Ref) :
    Ref.lt a b = true ↔ (a.pfx < b.pfx ∨ (a.pfx = b.pfx ∧ a.ident < b.ident)) := by
  unfold Ref.lt strLt
  simp

/-- **C15 (order).** `<` is the strict lexicographic order on `(prefix, identifier)`: irreflexive,
transitive, and any two references are related by `<`, by `>` or have the same pair. -/
theorem C15_lt_irrefl (a : Ref) : Ref.lt a a = false := by
  cases h : Ref.lt a a with
  | false => rfl
  | true =>
    rcases (lt_iff a a).mp h with h1 | ⟨_, h1⟩
    · exact absurd h1 (List.lt_irrefl _)
    · exact absurd h1 (List.lt_irrefl _)

theorem C15_lt_trans (a b c : Ref) (h1 : Ref.lt a b = true) (h2 : Ref.lt b c = true) : Ref.lt a c = true := by
  rw [lt_iff] at *
  rcases h1 with h1 | ⟨e1, h1⟩ <;> rcases h2 with h2 | ⟨e2, h2⟩
  · exact Or.inl (List.lt_trans h1 h2)
  · exact Or.inl (e2 ▸ h1)
  · exact Or.inl (e1 ▸ h2)
  · exact Or.inr ⟨e1.trans e2, List.lt_trans h1 h2⟩

theorem str_trichotomy (x y : Str) : x < y ∨ x = y ∨ y < x := by
  rcases List.le_total (l₁ := x) (l₂ := y) with h | h
  · rcases List.le_iff_lt_or_eq.mp h with h | h
    · exact Or.inl h
    · exact Or.inr (Or.inl h)
  · rcases List.le_iff_lt_or_eq.mp h with h | h
    · exact Or.inr (Or.inr h)
    · exact Or.inr (Or.inl h.symm)

theorem C15_lt_trichotomy (a b : Ref) :
    Ref.lt a b = true ∨ (a.pfx = b.pfx ∧ a.ident = b.ident) ∨ Ref.lt b a = true := by
  rw [lt_iff, lt_iff]
  rcases str_trichotomy a.pfx b.pfx with h | h | h
  · exact Or.inl (Or.inl h)
  · rcases str_trichotomy a.ident b.ident with h2 | h2 | h2
    · exact Or.inl (Or.inr ⟨h, h2⟩)
    · exact Or.inr (Or.inl ⟨h, h2⟩)
    · exact Or.inr (Or.inr (Or.inr ⟨h.symm, h2⟩))
  · exact Or.inr (Or.inr (Or.inl h))

/-- **C15 (converter as validation context).** With a well-formed converter as context the prefix
of a pydantic reference is replaced by the canonical prefix of its record, and an unknown prefix
is rejected with a validation error. -/
theorem C15_ctx {c : Conv} (h : WF c) (cls : RefClass) (hcls : cls ≠ .tuple) (p i : Str) (name : Option Str)
    (hp : 58 ∉ p) (hn : cls = .named → name.isSome = true) :
    (∀ r ∈ c.records, p ∈ r.allP →
      ∃ x, fromCurie cls (p ++ [58] ++ i) name (some c) = .ok x ∧ x.pfx = r.pfx ∧ x.ident = i) ∧
    ((∀ r ∈ c.records, p ∉ r.allP) → fromCurie cls (p ++ [58] ++ i) name (some c) = .error .validation) := by
  have hnamed : (cls == RefClass.named && name.isNone) = false := by
    by_cases hc : cls = .named
    · have := hn hc
      cases name with
      | none => cases this
      | some n => simp
    · cases cls <;> simp_all
  have htuple : (cls == RefClass.tuple) = false := by cases cls <;> simp_all
  constructor
  · intro r hr hpr
    unfold fromCurie Conv.split
    simp only [List.isEmpty_cons, Bool.false_eq_true, if_false]
    rw [partition?_append [58] p i (by simp) (delimOK_single 58 p hp)]
    simp only [hnamed, Bool.false_eq_true, if_false, htuple]
    rw [h.mirror.sp, ownerP_of_mem h.unique hr hpr]
    exact ⟨_, rfl, rfl, rfl⟩
  · intro hunk
    unfold fromCurie Conv.split
    simp only [List.isEmpty_cons, Bool.false_eq_true, if_false]
    rw [partition?_append [58] p i (by simp) (delimOK_single 58 p hp)]
    simp only [hnamed, Bool.false_eq_true, if_false, htuple]
    rw [h.mirror.sp, Spec.ownerP]
    have : c.records.find? (fun r => r.allP.contains p) = none := by
      rw [List.find?_eq_none]; intro x hx; simpa using hunk x hx
    rw [this]; rfl

/-- Non-vacuity: an identifier containing the separator; equality across classes ignoring the
name; a tuple is not equal to a model with the same pair, but hashes agree. -/
example :
    (fromCurie .reference [97, 58, 98, 58, 99]).toOption = some ⟨.reference, [97], [98, 58, 99], none⟩ ∧
    Ref.eq ⟨.namable, [97], [49], some [110]⟩ ⟨.reference, [97], [49], none⟩ = true ∧
    Ref.eq ⟨.tuple, [97], [49], none⟩ ⟨.reference, [97], [49], none⟩ = false ∧
    (⟨.tuple, [97], [49], none⟩ : Ref).hashKey = (⟨.named, [97], [49], some [110]⟩ : Ref).hashKey ∧
    Ref.lt ⟨.reference, [97], [50], none⟩ ⟨.reference, [97, 97], [49], none⟩ = true := by
  decide


/-- **C15 (`from_reference`).** Converting an existing reference, with or without a converter as
validation context, is parsing its printed CURIE (with the name it carries, if the argument is of a
named class): the same standardisation, the same rejections — whatever class the argument has. -/
theorem C15_from_reference (cls : RefClass) (r : Ref) (conv : Option Conv) (hp : 58 ∉ r.pfx)
    (hnamedarg : cls = .named → (r.cls = .namable ∨ r.cls = .named)) :
    fromReference cls r conv =
      fromCurie cls r.curie (if r.cls == .namable || r.cls == .named then r.name else none) conv := by
  unfold fromReference fromCurie Ref.curie Conv.split
  simp only [List.isEmpty_cons, Bool.false_eq_true, if_false]
  rw [partition?_append [58] r.pfx r.ident (by simp) (delimOK_single 58 r.pfx hp)]
  simp only
  by_cases hc : cls = .named
  · have hn := hnamedarg hc
    have hb : (r.cls == RefClass.namable || r.cls == RefClass.named) = true := by
      rcases hn with h | h <;> simp [h]
    subst hc
    simp [hb]
  · have : (cls == RefClass.named) = false := by cases cls <;> simp_all
    simp [this]
