import CuriesVerif.Lemmas.Incremental
import CuriesVerif.Spec.Add

/-!
# C05 — incrementally built converters stay consistent with their own records

Everything here holds for **every** case-folding function `fold` (the model's stand-in for
`str.casefold`), every flag combination, and every finite history, starting from any
well-formed converter.
-/

open Spec

/-! ### the specification is a function of the *set* of records -/

theorem ownerP_perm {l₁ l₂ : List Record} (hu : Unique l₁) (p : l₁.Perm l₂) (x : Str) :
    ownerP l₁ x = ownerP l₂ x := by
  have hu2 := (Unique.perm p).mp hu
  cases ho : ownerP l₁ x with
  | some r => exact (ownerP_of_mem hu2 (p.mem_iff.mp (ownerP_some ho).1) (ownerP_some ho).2).symm
  | none =>
    symm
    exact ownerP_eq_none_of_forall fun y hy => ownerP_none ho y (p.mem_iff.mpr hy)

theorem longest_perm {l₁ l₂ : List Record} (hu : Unique l₁) (p : l₁.Perm l₂) (u : Str) :
    longest l₁ u = longest l₂ u := by
  have hu2 := (Unique.perm p).mp hu
  cases h1 : longest l₁ u with
  | none =>
    have hm := (longest_none_iff _ _).mp h1
    symm
    rw [longest_none_iff]
    cases hm2 : matchesU l₂ u with
    | nil => rfl
    | cons y ys =>
      have hy : (y.1, y.2) ∈ matchesU l₂ u := by rw [hm2]; simp
      have ⟨a, b, cc⟩ := (mem_matchesU _ _ _ _).mp hy
      have : (y.1, y.2) ∈ matchesU l₁ u := (mem_matchesU _ _ _ _).mpr ⟨p.mem_iff.mpr a, b, cc⟩
      rw [hm] at this; cases this
  | some kr => exact ((longest_iff hu2 u kr.1 kr.2).mpr ((isLongest_of_longest h1).perm p)).symm

/-- every specified answer depends only on the set of records -/
theorem answer_perm {l₁ l₂ : List Record} (hu : Unique l₁) (p : l₁.Perm l₂) (d : Str) (q : Query) :
    Spec.answer l₁ d q = Spec.answer l₂ d q := by
  have hP := ownerP_perm hu p
  have hL := longest_perm hu p
  unfold Spec.answer
  simp only [Spec.parseUri, Spec.compress, Spec.parseCurie, Spec.standardizePrefix, Spec.expandPair, Spec.expand,
    Spec.expandPairAll, Spec.expandAll, Spec.parse, Spec.standardizeCurie, Spec.standardizeUri,
    Spec.compressOrStandardize, Spec.expandOrStandardize, hP, hL]

/-! ### the property -/

/-- **C05 (one step).** A successful `add_record` — merge or not, case-sensitive or not — leaves
the one-owner uniqueness of C04, the record validators and all five lookup structures
consistent with the records. -/
theorem C05_step (fold : Str → Str) {c c' : Conv} (h : WF c) {r : Record} (hr : RecOK r) {cs merge : Bool}
    (hok : c.addRecord fold r cs merge = .ok c') : WF c' := wf_addRecord fold h hr hok

/-- **C05 (rejection).** A rejected call raises `ValueError`; it happens exactly when the new
record matches an existing one without `merge`, or matches several; and the converter is
unchanged (the model returns no new state). -/
theorem C05_reject (fold : Str → Str) {c : Conv} (h : WF c) (r : Record) (cs merge : Bool) (e : Err)
    (herr : c.addRecord fold r cs merge = .error e) :
    e = .valueError ∧
    ((∃ x ∈ c.records, matchesRec fold cs r x = true ∧ merge = false) ∨
     (∃ x ∈ c.records, ∃ y ∈ c.records, x ≠ y ∧ matchesRec fold cs r x = true ∧ matchesRec fold cs r y = true)) := by
  refine ⟨addRecord_error fold h r cs merge e herr, ?_⟩
  rcases addRecord_spec fold h r cs merge with ⟨_, he⟩ | ⟨j, hj, _, hm, he⟩ | ⟨hx, _⟩
  · rw [he] at herr; cases herr
  · left
    rw [he] at herr
    cases merge with
    | true => simp at herr
    | false => exact ⟨_, List.getElem_mem hj, hm, rfl⟩
  · exact Or.inr hx

/-- **C05 (shape of a successful call).** Either nothing matched and the record is appended
unchanged, or exactly one record matched (and `merge` was given) and that record — and only
it — is replaced by a record with the *same* canonical prefix, canonical URI prefix and pattern
whose prefixes / URI prefixes are the union of both (everything new became a synonym). -/
theorem C05_shape (fold : Str → Str) {c c' : Conv} (h : WF c) (r : Record) (cs merge : Bool)
    (hok : c.addRecord fold r cs merge = .ok c') :
    c'.records = c.records ++ [r] ∨
    ∃ j, ∃ hj : j < c.records.length, ∃ m : Record,
      c'.records = c.records.set j m ∧ merge = true ∧
      m.pfx = c.records[j].pfx ∧ m.uri = c.records[j].uri ∧ m.pattern = c.records[j].pattern ∧
      (∀ s, s ∈ m.allP ↔ s ∈ c.records[j].allP ∨ s ∈ r.allP) ∧
      (∀ s, s ∈ m.allU ↔ s ∈ c.records[j].allU ∨ s ∈ r.allU) := by
  rcases addRecord_spec fold h r cs merge with ⟨_, he⟩ | ⟨j, hj, _, _, he⟩ | ⟨_, he⟩
  · rw [he] at hok; cases hok; exact Or.inl rfl
  · rw [he] at hok
    cases merge with
    | false => simp at hok
    | true =>
      simp at hok
      subst hok
      exact Or.inr ⟨j, hj, r.mergeInto c.records[j], rfl, rfl, rfl, rfl, rfl,
        mem_mergeInto_allP r _, mem_mergeInto_allU r _⟩
  · rw [he] at hok; cases hok

/-- **C05 (resolution).** After a successful call every prefix and every URI prefix of the added
record resolves to one and the same record of the converter. -/
theorem C05_resolves (fold : Str → Str) {c c' : Conv} (h : WF c) {r : Record} (hr : RecOK r) (cs merge : Bool)
    (hok : c.addRecord fold r cs merge = .ok c') :
    ∃ m ∈ c'.records, (∀ p ∈ r.allP, ownerP c'.records p = some m) ∧ (∀ k ∈ r.allU, ownerU c'.records k = some m) := by
  have hw := wf_addRecord fold h hr hok
  rcases C05_shape fold h r cs merge hok with e | ⟨j, hj, m, e, _, _, _, _, hP, hU⟩
  · have hm : r ∈ c'.records := by rw [e]; simp
    exact ⟨r, hm, fun p hp => ownerP_of_mem hw.unique hm hp, fun k hk => ownerU_of_mem hw.unique hm hk⟩
  · have hm : m ∈ c'.records := by
      rw [e, List.mem_iff_getElem]; exact ⟨j, by simpa using hj, by simp⟩
    exact ⟨m, hm, fun p hp => ownerP_of_mem hw.unique hm ((hP p).mpr (Or.inr hp)),
      fun k hk => ownerU_of_mem hw.unique hm ((hU k).mpr (Or.inr hk))⟩

/-- `add_prefix` is `add_record` on the validated record with sorted synonym lists -/
theorem C05_addPrefix (fold : Str → Str) (c : Conv) (p u : Str) (ps us : List Str) (cs merge : Bool) :
    c.addPrefix fold p u ps us cs merge =
      if p ∈ ps ∨ u ∈ us then .error .validation
      else c.addRecord fold { pfx := p, uri := u, pSyn := sortStrs ps, uSyn := sortStrs us } cs merge := by
  unfold Conv.addPrefix Record.validate
  by_cases h1 : p ∈ ps <;> by_cases h2 : u ∈ us <;> simp [h1, h2, mem_sortStrs]

/-- one operation of a history -/
structure AddOp where
  r : Record
  cs : Bool
  merge : Bool

/-- run a history; rejected calls leave the converter as it is -/
def runOps (fold : Str → Str) (c : Conv) (ops : List AddOp) : Conv :=
  ops.foldl (fun c op => match c.addRecord fold op.r op.cs op.merge with | .ok c' => c' | .error _ => c) c

/-- **C05 (histories).** After any finite sequence of `add_record` / `add_prefix` calls with any
flags, including rejected calls, starting from any well-formed converter, the converter is
well-formed: one owner per prefix, and every index agrees with the records. -/
theorem C05_histories (fold : Str → Str) (c : Conv) (h : WF c) (ops : List AddOp) (hr : ∀ op ∈ ops, RecOK op.r) :
    WF (runOps fold c ops) := by
  unfold runOps
  induction ops generalizing c with
  | nil => exact h
  | cons op ops ih =>
    simp only [List.foldl_cons]
    apply ih
    · cases hok : c.addRecord fold op.r op.cs op.merge with
      | ok c' => exact wf_addRecord fold h (hr op (by simp)) hok
      | error e => exact h
    · intro o ho; exact hr o (by simp [ho])

/-- the delimiter never changes -/
theorem runOps_delim (fold : Str → Str) (c : Conv) (ops : List AddOp) : (runOps fold c ops).delim = c.delim := by
  unfold runOps
  induction ops generalizing c with
  | nil => rfl
  | cons op ops ih =>
    simp only [List.foldl_cons]
    rw [ih]
    cases hok : c.addRecord fold op.r op.cs op.merge with
    | error e => rfl
    | ok c' =>
      simp only
      unfold Conv.addRecord at hok
      split at hok
      · cases hok; rfl
      · split at hok
        · cases hok
        · split at hok
          · cases hok
          · split at hok
            · cases hok
            · cases hok; rfl
      · cases hok

/-- **C05 (freshness).** A well-formed converter — in particular one reached by any history —
answers every query exactly as a converter freshly constructed from its current records does. -/
theorem C05_fresh {c : Conv} (h : WF c) (hd : c.delim ≠ []) :
    ∃ c₂, Conv.init? c.records c.delim true = .ok c₂ ∧
      ∀ q, Spec.specified q = true → c.run q = c₂.run q := by
  obtain ⟨c₂, hc₂⟩ := (init?_ok_iff c.records c.delim).mpr h.unique
  refine ⟨c₂, hc₂, fun q hq => ?_⟩
  have hw₂ := wf_of_init h.recOK hc₂
  have ⟨e1, e2⟩ := init?_records hc₂
  rw [T0 h hd q hq, T0 hw₂ (by rw [e2]; exact hd) q hq, e1, e2]
  exact answer_perm h.unique (sortRecords_perm c.records).symm c.delim q

/-- C05 for whole histories: after any history the converter answers like a fresh one. -/
theorem C05_histories_fresh (fold : Str → Str) (c : Conv) (h : WF c) (hd : c.delim ≠ []) (ops : List AddOp)
    (hr : ∀ op ∈ ops, RecOK op.r) :
    ∃ c₂, Conv.init? (runOps fold c ops).records c.delim true = .ok c₂ ∧
      ∀ q, Spec.specified q = true → (runOps fold c ops).run q = c₂.run q := by
  have := C05_fresh (C05_histories fold c h ops hr) (by rw [runOps_delim]; exact hd)
  rw [runOps_delim] at this
  exact this

/-- **C05 (all five lookup structures).** After any history each of `prefix_map`,
`synonym_to_prefix`, `reverse_prefix_map`, the trie and `pattern_map`, read as a function, is the
function computed from the current records: a CURIE prefix maps to the URI prefix / canonical
prefix of the record owning it, a URI prefix to the canonical prefix of its owner, and a canonical
prefix to the (non-empty) pattern of its record. -/
theorem C05_lookup_structures (fold : Str → Str) (c : Conv) (h : WF c) (ops : List AddOp)
    (hr : ∀ op ∈ ops, RecOK op.r) :
    let c' := runOps fold c ops
    (∀ p, Dict.get c'.prefixMap p = (Spec.ownerP c'.records p).map (·.uri)) ∧
    (∀ p, Dict.get c'.synToPrefix p = (Spec.ownerP c'.records p).map (·.pfx)) ∧
    (∀ k, Dict.get c'.revMap k = (Spec.ownerU c'.records k).map (·.pfx)) ∧
    (∀ k, Dict.get c'.trie k = (Spec.ownerU c'.records k).map (·.pfx)) ∧
    (∀ p, Dict.get c'.patMap p = Spec.patternOf c'.records p) := by
  have hw := C05_histories fold c h ops hr
  exact ⟨hw.mirror.pm, hw.mirror.sp, hw.mirror.rm, hw.mirror.tr, hw.mirror.pat⟩

/-- Non-vacuity for the pattern map: a record with a pattern is appended, a merge into it brings
no pattern, a record with an empty pattern is appended: the map holds exactly the first pattern. -/
example :
    (let c := runOps id Conv.empty
       [⟨⟨[71], [103, 47], [], [], some [94, 36]⟩, true, false⟩,
        ⟨⟨[71], [104, 47], [], [], some [120]⟩, true, true⟩,
        ⟨⟨[72], [105, 47], [], [], some []⟩, true, false⟩]
     (Dict.get c.patMap [71], Dict.get c.patMap [72], c.records.length))
    = (some [94, 36], none, 2) := by
  decide

/-- Non-vacuity: a history with a merge through a URI-prefix synonym, a rejection, and a
case-insensitive merge; the synonym acquired by merge expands. -/
example :
    (let fold : Str → Str := fun s => s.map fun ch => if 65 ≤ ch ∧ ch ≤ 90 then ch + 32 else ch
     let c := runOps fold Conv.empty
       [⟨⟨[71], [103, 47], [], [[104, 47]], none⟩, true, false⟩,      -- G -> g/ (syn h/)
        ⟨⟨[88], [104, 47], [[120]], [], none⟩, true, true⟩,           -- X(x) -> h/ : merges into G
        ⟨⟨[89], [103, 47], [], [], none⟩, true, false⟩,               -- rejected (matches, no merge)
        ⟨⟨[103], [122, 47], [], [], none⟩, false, true⟩]              -- "g" merges into G case-insensitively
     [c.run ⟨"expand", [[120, 58, 49]], false, false⟩, c.run ⟨"compress", [[122, 47, 49]], false, false⟩,
      c.run ⟨"records", [], false, false⟩])
    = [.str [103, 47, 49], .str [71, 58, 49],
       .recs [⟨[71], [103, 47], [[88], [103], [120]], [[104, 47], [122, 47]], none⟩]] := by
  decide


theorem filter_length_one {α} (p : α → Bool) (l : List α) (j : Nat) (hj : j < l.length)
    (hothers : ∀ i (hi : i < l.length), i ≠ j → p l[i] = false) (hjt : p l[j] = true) :
    (l.filter p).length = 1 := by
  induction l generalizing j with
  | nil => simp at hj
  | cons a as ih =>
    cases j with
    | zero =>
      have hall : ∀ x ∈ as, p x = false := by
        intro x hx
        obtain ⟨i, hi, rfl⟩ := List.mem_iff_getElem.mp hx
        have := hothers (i + 1) (by simp; omega) (by omega)
        simpa using this
      have ha : p a = true := by simpa using hjt
      rw [List.filter_cons, if_pos ha]
      have : as.filter p = [] := List.filter_eq_nil_iff.mpr (fun x hx => by simp [hall x hx])
      simp [this]
    | succ j' =>
      have ha : p a = false := by
        have := hothers 0 (by simp) (by omega)
        simpa using this
      rw [List.filter_cons, if_neg (by simp [ha])]
      exact ih j' (by simpa using hj) (fun i hi hne => by
        have := hothers (i + 1) (by simp; omega) (by omega)
        simpa using this) (by simpa using hjt)

theorem filter_length_two {α} [DecidableEq α] (p : α → Bool) (l : List α) (x y : α) (hx : x ∈ l) (hy : y ∈ l) (hne : x ≠ y)
    (hpx : p x = true) (hpy : p y = true) : 1 < (l.filter p).length := by
  have hx' : x ∈ l.filter p := List.mem_filter.mpr ⟨hx, hpx⟩
  have hy' : y ∈ l.filter p := List.mem_filter.mpr ⟨hy, hpy⟩
  generalize l.filter p = f at hx' hy'
  match f, hx', hy' with
  | [], h, _ => cases h
  | [a], h1, h2 =>
    simp only [List.mem_singleton] at h1 h2
    exact absurd (h1.trans h2.symm) hne
  | _ :: _ :: _, _, _ => simp

/-- **C05 (which calls are rejected).** `add_record` raises exactly when the new record matches several
existing records, or one without `merge` — "matches" meaning one of the eight comparisons of
`_match_record` hits, exactly or up to case — and then it raises `ValueError`. -/
theorem C05_reject_iff (fold : Str → Str) {c : Conv} (h : WF c) (r : Record) (cs merge : Bool) :
    (∃ e, c.addRecord fold r cs merge = .error e) ↔
      (1 < (c.records.filter fun x => matchesRec fold cs r x).length ∨
        ((c.records.filter fun x => matchesRec fold cs r x).length = 1 ∧ merge = false)) := by
  rcases addRecord_spec fold h r cs merge with ⟨hnone, e⟩ | ⟨j, hj, hothers, hjt, e⟩ | ⟨⟨x, hx, y, hy, hne, hpx, hpy⟩, e⟩
  · have : c.records.filter (fun x => matchesRec fold cs r x) = [] :=
      List.filter_eq_nil_iff.mpr (fun x hx => by simp [hnone x hx])
    rw [e, this]
    simp
  · have hl := filter_length_one (fun x => matchesRec fold cs r x) c.records j hj hothers hjt
    rw [e, hl]
    cases merge <;> simp
  · have hl := filter_length_two (fun x => matchesRec fold cs r x) c.records x y hx hy hne hpx hpy
    rw [e]
    constructor
    · intro _; exact Or.inl hl
    · intro _; exact ⟨_, rfl⟩

theorem filter_eq_singleton {α} (p : α → Bool) (l : List α) (j : Nat) (hj : j < l.length)
    (hothers : ∀ i (hi : i < l.length), i ≠ j → p l[i] = false) (hjt : p l[j] = true) :
    l.filter p = [l[j]] := by
  induction l generalizing j with
  | nil => simp at hj
  | cons a as ih =>
    cases j with
    | zero =>
      have hall : ∀ x ∈ as, p x = false := by
        intro x hx
        obtain ⟨i, hi, rfl⟩ := List.mem_iff_getElem.mp hx
        have := hothers (i + 1) (by simp; omega) (by omega)
        simpa using this
      have ha : p a = true := by simpa using hjt
      rw [List.filter_cons, if_pos ha]
      have : as.filter p = [] := List.filter_eq_nil_iff.mpr (fun x hx => by simp [hall x hx])
      simp [this]
    | succ j' =>
      have ha : p a = false := by
        have := hothers 0 (by simp) (by omega)
        simpa using this
      rw [List.filter_cons, if_neg (by simp [ha])]
      simpa using ih j' (by simpa using hj) (fun i hi hne => by
        have := hothers (i + 1) (by simp; omega) (by omega)
        simpa using this) (by simpa using hjt)

theorem map_replace_eq_set {α} [DecidableEq α] (l : List α) (hn : l.Nodup) (j : Nat) (hj : j < l.length) (m : α) :
    l.map (fun y => if y = l[j] then m else y) = l.set j m := by
  induction l generalizing j with
  | nil => simp at hj
  | cons a as ih =>
    have hp := List.nodup_cons.mp hn
    cases j with
    | zero =>
      simp only [List.getElem_cons_zero, List.map_cons, if_true, List.set_cons_zero]
      congr 1
      have : ∀ y ∈ as, (if y = a then m else y) = y := fun y hy => by
        rw [if_neg]; rintro rfl; exact hp.1 hy
      conv => rhs; rw [← List.map_id as]
      exact List.map_congr_left (fun y hy => by simpa using this y hy)
    | succ j' =>
      have hj' : j' < as.length := by simpa using hj
      simp only [List.getElem_cons_succ, List.map_cons, List.set_cons_succ]
      have hne : a ≠ as[j'] := fun e => hp.1 (e ▸ List.getElem_mem hj')
      rw [if_neg hne, ih hp.2 j' hj']

theorem Unique.nodup {recs : List Record} (h : Unique recs) : recs.Nodup := by
  unfold Unique at h
  exact List.Pairwise.imp (fun {a b} hab e => hab.1 a.pfx (by simp [Record.allP]) (by rw [e]; simp [Record.allP])) h

/-- **C05 (the records after an accepted call).** On every well-formed converter an accepted `add_record` leaves
exactly the records `Spec.afterAdd` computes from the records before: the new record appended when nothing
matches, merged into the single matching record otherwise. -/
theorem C05_afterAdd (fold : Str → Str) {c c' : Conv} (h : WF c) (r : Record) (cs merge : Bool)
    (hok : c.addRecord fold r cs merge = .ok c') :
    Spec.afterAdd fold c.records r cs merge = some c'.records := by
  rcases addRecord_spec fold h r cs merge with ⟨hnone, e⟩ | ⟨j, hj, hothers, hjt, e⟩ | ⟨_, e⟩
  · have hf : c.records.filter (fun x => matchesRec fold cs r x) = [] :=
      List.filter_eq_nil_iff.mpr (fun x hx => by simp [hnone x hx])
    rw [e] at hok
    injection hok with hok
    subst hok
    unfold Spec.afterAdd
    rw [hf]
    rfl
  · have hf := filter_eq_singleton (fun x => matchesRec fold cs r x) c.records j hj hothers hjt
    rw [e] at hok
    cases merge with
    | false => simp at hok
    | true =>
      simp only [if_true] at hok
      injection hok with hok
      subst hok
      unfold Spec.afterAdd
      rw [hf]
      simp only [if_true]
      show some (List.map _ c.records) = some (c.records.set j _)
      rw [map_replace_eq_set c.records h.1.nodup j hj]
  · rw [e] at hok
    cases hok


/-- **C05 (rejected calls, at the level of records).** Whenever the model rejects, the list-level function does. -/
theorem C05_afterAdd_reject (fold : Str → Str) {c : Conv} (h : WF c) (r : Record) (cs merge : Bool) (e : Err)
    (herr : c.addRecord fold r cs merge = .error e) :
    Spec.afterAdd fold c.records r cs merge = none := by
  rcases addRecord_spec fold h r cs merge with ⟨_, e'⟩ | ⟨j, hj, hothers, hjt, e'⟩ | ⟨⟨x, hx, y, hy, hne, hpx, hpy⟩, _⟩
  · rw [e'] at herr; cases herr
  · have hf := filter_eq_singleton (fun x => matchesRec fold cs r x) c.records j hj hothers hjt
    rw [e'] at herr
    cases merge with
    | true => simp at herr
    | false =>
      unfold Spec.afterAdd
      rw [hf]
      simp
  · have hl := filter_length_two (fun x => matchesRec fold cs r x) c.records x y hx hy hne hpx hpy
    unfold Spec.afterAdd
    match hm : c.records.filter (fun x => matchesRec fold cs r x), hl with
    | [], hl => simp at hl
    | [_], hl => simp at hl
    | _ :: _ :: _, _ => rfl

/-- **C05 (histories refine a function on record lists).** After any history of `add_record` / `add_prefix` calls —
accepted, merged or rejected — from any well-formed converter, the records of the converter are what folding
`Spec.afterAddOrSame` over the history gives: the five lookup structures, the matching through them and the
re-indexing after merges never make the records differ from this index-free description. -/
theorem C05_records_refine (fold : Str → Str) (c : Conv) (h : WF c) (ops : List AddOp) (hr : ∀ op ∈ ops, RecOK op.r) :
    (runOps fold c ops).records =
      ops.foldl (fun recs op => Spec.afterAddOrSame fold recs op.r op.cs op.merge) c.records := by
  unfold runOps
  induction ops generalizing c with
  | nil => rfl
  | cons op ops ih =>
    simp only [List.foldl_cons]
    cases hok : c.addRecord fold op.r op.cs op.merge with
    | ok c' =>
      simp only
      rw [ih c' (wf_addRecord fold h (hr op (by simp)) hok) (fun o ho => hr o (by simp [ho]))]
      unfold Spec.afterAddOrSame
      rw [C05_afterAdd fold h op.r op.cs op.merge hok]
      rfl
    | error e =>
      simp only
      rw [ih c h (fun o ho => hr o (by simp [ho]))]
      unfold Spec.afterAddOrSame
      rw [C05_afterAdd_reject fold h op.r op.cs op.merge e hok]
      rfl

/-- the premises are satisfiable: a one-record converter, a merge that adds a synonym -/
example : Spec.afterAdd id [{ pfx := [97], uri := [104] }] { pfx := [97], uri := [105], pSyn := [[98]] } true true =
    some [{ pfx := [97], uri := [104], pSyn := [[98]], uSyn := [[105]] }] := by decide
