import CuriesVerif.Model.Bulk
import CuriesVerif.Lemmas.MapM

/-!
# C16 — bulk operations equal element-wise scalar calls and fail atomically

`f` is the scalar method with its flags (any function `Str → Except Err (Option Str)`), so the
statements hold for all seven bulk methods and all flag combinations at once.
-/

open Bulk

/-- **C16 (data frames).** A successful `pd_*` call transforms, row by row, the source cell with the
scalar function and stores the result (`None` ↦ NA) in the target column; the row order and the
number of rows are preserved. -/
theorem C16_pd (f : Str → Except Err (Option Str)) (col target : Nat) (rows out : List (List (Option Str)))
    (h : pdMap f col target rows = .ok out) :
    Forall2 (fun row row' => ∃ cell v, row[col]? = some (some cell) ∧ f cell = .ok v ∧
      row' = (if target < row.length then row.set target v else row ++ [v])) rows out := by
  unfold pdMap at h
  refine (mapM_ok_forall₂ _ _ _ h).imp ?_
  intro row row' hr
  unfold pdRow at hr
  cases hc : row[col]? with
  | none => simp [hc] at hr
  | some o =>
    cases o with
    | none => simp [hc] at hr
    | some cell =>
      simp only [hc] at hr
      cases hf : f cell with
      | error e => simp [hf] at hr
      | ok v =>
        simp only [hf, Except.ok.injEq] at hr
        exact ⟨cell, v, rfl, hf, hr.symm⟩

/-- **C16.** All other columns are untouched; in particular `target_column` leaves the source column
intact. -/
theorem C16_pd_others (row : List (Option Str)) (target : Nat) (v : Option Str) (j : Nat) (hj : j ≠ target)
    (hjl : j < row.length) :
    (if target < row.length then row.set target v else row ++ [v])[j]? = row[j]? := by
  split
  · rw [List.getElem?_set]; simp [Ne.symm hj]
  · exact List.getElem?_append_left hjl

/-- **C16 (files).** A successful `file_*` call keeps the header row, the row order and every other
cell, and replaces the chosen cell of every data row by the scalar result (`None` ↦ empty cell). -/
theorem C16_file (f : Str → Except Err (Option Str)) (col : Nat) (hdr : List Str) (body : List (List Str))
    (disk' : List (List Str)) (hh : hdr ≠ [])
    (h : fileHelper f col true (hdr :: body) = (.ok (), disk')) :
    ∃ rows, disk' = hdr :: rows ∧
      Forall2 (fun row row' => ∃ cell v, row[col]? = some cell ∧ f cell = .ok v ∧ row' = row.set col (v.getD [])) body rows := by
  unfold fileHelper at h
  simp only [if_true] at h
  cases hm : body.mapM (fileRow f col) with
  | error e => simp [hm] at h
  | ok rows =>
    simp only [hm, Prod.mk.injEq, true_and] at h
    have he : hdr.isEmpty = false := by
      cases hdr with
      | nil => exact absurd rfl hh
      | cons _ _ => rfl
    simp only [he, Bool.false_eq_true, if_false, List.singleton_append] at h
    refine ⟨rows, h.symm, (mapM_ok_forall₂ _ _ _ hm).imp ?_⟩
    intro row row' hr
    unfold fileRow at hr
    cases hc : row[col]? with
    | none => simp [hc] at hr
    | some cell =>
      simp only [hc] at hr
      cases hf : f cell with
      | error e => simp [hf] at hr
      | ok v =>
        simp only [hf, Except.ok.injEq] at hr
        exact ⟨cell, v, rfl, hf, hr.symm⟩

theorem C16_file_others (row : List Str) (col : Nat) (v : Str) (j : Nat) (hj : j ≠ col) :
    (row.set col v)[j]? = row[j]? := by
  rw [List.getElem?_set]; simp [Ne.symm hj]

/-- **C16 (atomicity).** If any cell makes a file operation raise — whatever the table, the column,
the header setting and the position of the first failing row — the file on disk is what it was
before the call. -/
theorem C16_atomic (f : Str → Except Err (Option Str)) (col : Nat) (header : Bool) (disk disk' : List (List Str))
    (e : Err) (h : fileHelper f col header disk = (.error e, disk')) : disk' = disk := by
  unfold fileHelper at h
  simp only at h
  split at h
  · simp only [Prod.mk.injEq] at h; exact h.2.symm
  · split at h
    · simp only [Prod.mk.injEq] at h; exact h.2.symm
    · simp at h

/-- Non-vacuity: the second of three rows fails in strict mode; the disk is unchanged. With
passthrough the same table converts, missing results becoming empty cells. -/
example :
    (let c := Conv.build [58] [⟨[97], [104, 47], [], [], none⟩]
     let disk : List (List Str) := [[[104, 49]], [[104, 47, 49]], [[120]], [[104, 47, 50]]]
     (match (fileHelper (scalar c "compress" false true false) 0 true disk).1 with | .ok _ => none | .error e => some e,
      (fileHelper (scalar c "compress" false true false) 0 true disk).2 == disk,
      (fileHelper (scalar c "compress" false false false) 0 true disk).2))
    = (some .compression, true, [[[104, 49]], [[97, 58, 49]], [[]], [[97, 58, 50]]]) := by
  decide
