import CuriesVerif.Properties.C04
import CuriesVerif.Lemmas.GroupBy

/-!
# C13 — every loader yields exactly the converter its input format denotes

Each loader is modelled as a function from its input (an association list with distinct keys,
in dictionary order) to the records handed to the strict constructor; by `wf_of_init` the
result is well-formed and C01/C02 say how it answers.  Proved here:

* `C13_pm`: every listed `(prefix, URI prefix)` pair expands accordingly and the URI prefix is
  registered for that prefix;
* `C13_priority`: the first URI prefix of a priority list is canonical, the rest synonyms, in order;
* `C13_reverse_canonical`: the canonical URI prefix chosen for a reverse-map group is an element of
  the group of minimal length, and the synonyms are exactly the rest;
* `C13_jsonld`: which terms are taken and which are ignored;
* `C13_upgrade_canonical`: within a group, `upgrade_prefix_map` makes the lexicographically first
  CURIE prefix canonical and the rest synonyms; every produced record passes the validators.

* `groupInv_groupBy` (`Lemmas/GroupBy.lean`): the `defaultdict(list)` grouping is complete and
  order-preserving; from it `C13_reverse_complete` (no reverse-map item dropped or invented, one
  record per CURIE prefix), `C13_upgrade_ok` / `C13_upgrade_accepted` (for every dictionary
  `upgrade_prefix_map` succeeds, its records denote exactly the input items and a strict converter
  accepts them) and `C13_upgrade_perm` (the dictionary order is irrelevant).

Resting on the correspondence (and on the Lean checker comparing the implementation's records
with the denoted ones on every run): file loading (str / Path), `from_rdflib`.
-/

open Spec Loaders

/-- **C13.** `from_prefix_map`: each listed pair `(p, u)` expands as `u ++ i`, and `u` is
registered for `p`'s record. -/
theorem C13_pm (pm : List (Str × Str)) (d : Str) (c : Conv)
    (hok : Conv.init? (prefixMapRecords pm) d true = .ok c) (p u : Str) (hpu : (p, u) ∈ pm) (i : Str) :
    c.expandPair p i false false = .ok (some (u ++ i)) ∧
    (ownerU c.records u).map (·.pfx) = some p ∧
    (∀ r ∈ c.records, r.pSyn = [] ∧ r.uSyn = []) := by
  have hw := (C04_loader_prefix_map pm d).2 c hok
  have hmem : ({ pfx := p, uri := u } : Record) ∈ c.records := by
    rw [(init?_records hok).1, (sortRecords_perm _).mem_iff]
    exact List.mem_map.mpr ⟨(p, u), hpu, rfl⟩
  refine ⟨C02_known_aux hw p i _ hmem (by simp [Record.allP]), ?_, ?_⟩
  · rw [ownerU_of_mem hw.unique hmem (by simp [Record.allU])]; rfl
  · intro r hr
    rw [(init?_records hok).1, (sortRecords_perm _).mem_iff] at hr
    obtain ⟨kv, _, rfl⟩ := List.mem_map.mp hr
    exact ⟨rfl, rfl⟩
where
  C02_known_aux {c : Conv} (h : WF c) (p i : Str) (r : Record) (hr : r ∈ c.records) (hp : p ∈ r.allP) :
      c.expandPair p i false false = .ok (some (r.uri ++ i)) := by
    unfold Conv.expandPair
    rw [expandReference_eq h]
    simp [Spec.expandPair, ownerP_of_mem h.unique hr hp]

/-- **C13.** `from_priority_prefix_map`: record by record, the first URI prefix of the list is
canonical and the rest are the synonyms, in order; nothing else is produced. -/
theorem C13_priority (data : List (Str × List Str)) (recs : List Record) (h : priorityRecords data = .ok recs) :
    Forall2 (fun kv r => ∃ u us, kv.2 = u :: us ∧ r = { pfx := kv.1, uri := u, uSyn := us } ∧ u ∉ us) data recs := by
  unfold priorityRecords at h
  have := mapM_ok_forall₂ _ _ _ h
  refine this.imp ?_
  intro kv r hf
  cases hk : kv.2 with
  | nil => simp [hk] at hf
  | cons u us =>
    simp only [hk] at hf
    have := validate_ok hf
    exact ⟨u, us, rfl, this.1, this.2.2⟩

theorem sortByLen_perm (l : List Str) : (sortByLen l).Perm l := isort_perm _ l

theorem sortByLen_sorted (l : List Str) : (sortByLen l).Pairwise (fun a b => a.length ≤ b.length) := by
  have := isort_sorted (fun a b : Str => decide (a.length ≤ b.length))
    (fun a b => by simp only [decide_eq_true_eq]; exact Nat.le_total _ _)
    (fun a b c h1 h2 => by simp only [decide_eq_true_eq] at *; exact Nat.le_trans h1 h2) l
  exact this.imp (fun h => by simpa using h)

/-- **C13.** `from_reverse_prefix_map`, one group: the canonical URI prefix is a member of the group
of minimal length, and canonical + synonyms are exactly the group. -/
theorem C13_reverse_canonical (group : List Str) (u : Str) (us : List Str) (h : sortByLen group = u :: us) :
    u ∈ group ∧ (∀ k ∈ group, u.length ≤ k.length) ∧ (u :: us).Perm group := by
  have hp := sortByLen_perm group
  have hs := sortByLen_sorted group
  rw [h] at hp hs
  refine ⟨hp.mem_iff.mp (by simp), ?_, hp⟩
  intro k hk
  have hk' : k ∈ u :: us := hp.mem_iff.mpr hk
  rcases List.mem_cons.mp hk' with rfl | hk'
  · exact Nat.le_refl _
  · exact (List.pairwise_cons.mp hs).1 k hk'

/-- whether `from_jsonld` takes a term, and as which `(prefix, URI prefix)` pair -/
def jsonldTaken (kv : Str × JTerm) : Option (Str × Str) :=
  if kv.1.isEmpty || kv.1.head? == some 64 then none
  else match kv.2 with
    | .str s => some (kv.1, s)
    | .prefixDict (some id) => some (kv.1, id)
    | _ => none

theorem jsonld_fold (l : List (Str × JTerm)) (acc out : List (Str × Str))
    (h : l.foldlM (fun acc kv =>
        if kv.1.isEmpty then (.ok acc : Except Err _)
        else if kv.1.head? == some 64 then .ok acc
        else match kv.2 with
          | .str s => .ok (acc ++ [(kv.1, s)])
          | .prefixDict (some id) => .ok (acc ++ [(kv.1, id)])
          | .prefixDict none => .error .keyError
          | .other => .ok acc) acc = .ok out) :
    out = acc ++ l.filterMap jsonldTaken := by
  induction l generalizing acc with
  | nil => simp [List.foldlM, pure, Except.pure] at h; simp [h]
  | cons kv kvs ih =>
    rw [List.foldlM_cons] at h
    rw [List.filterMap_cons]
    by_cases h1 : kv.1.isEmpty = true
    · have ht : jsonldTaken kv = none := by simp [jsonldTaken, h1]
      simp only [h1, if_true, bind, Except.bind] at h
      rw [ht]; exact ih acc h
    · by_cases h2 : (kv.1.head? == some 64) = true
      · have ht : jsonldTaken kv = none := by simp [jsonldTaken, h2]
        simp only [h1, h2, if_true, Bool.false_eq_true, if_false, bind, Except.bind] at h
        rw [ht]; exact ih acc h
      · have hc : (kv.1.isEmpty || kv.1.head? == some 64) = false := by
          simp only [Bool.not_eq_true] at h1 h2; simp [h1, h2]
        cases hk : kv.2 with
        | str s =>
          have ht : jsonldTaken kv = some (kv.1, s) := by simp [jsonldTaken, hc, hk]
          simp only [h1, h2, hk, Bool.false_eq_true, if_false, bind, Except.bind] at h
          rw [ht, ih _ h]; simp
        | prefixDict o =>
          cases o with
          | none => simp [h1, h2, hk, bind, Except.bind] at h
          | some id =>
            have ht : jsonldTaken kv = some (kv.1, id) := by simp [jsonldTaken, hc, hk]
            simp only [h1, h2, hk, Bool.false_eq_true, if_false, bind, Except.bind] at h
            rw [ht, ih _ h]; simp
        | other =>
          have ht : jsonldTaken kv = none := by simp [jsonldTaken, hc, hk]
          simp only [h1, h2, hk, Bool.false_eq_true, if_false, bind, Except.bind] at h
          rw [ht]; exact ih acc h

/-- **C13.** `from_jsonld`: a term is taken exactly when its key is non-empty, does not start with
`@`, and its value is a string or a dictionary with `"@prefix": true` (whose `@id` is used);
everything else is ignored.  (A `@prefix` dictionary without `@id` raises `KeyError`.) -/
theorem C13_jsonld (ctx : List (Str × JTerm)) (pm : List (Str × Str)) (h : jsonldPrefixMap ctx = .ok pm) :
    pm = ctx.filterMap jsonldTaken := by
  unfold jsonldPrefixMap at h
  simpa using jsonld_fold ctx [] pm h

theorem sortStrs_sorted (l : List Str) : (sortStrs l).Pairwise (fun a b => a ≤ b) := by
  have := isort_sorted (fun a b : Str => strLe a b)
    (fun a b => by simp only [strLe, decide_eq_true_eq]; exact Std.le_total (a := a) (b := b))
    (fun a b c h1 h2 => by simp only [strLe, decide_eq_true_eq] at *; exact Std.le_trans h1 h2) l
  exact this.imp (fun h => by simpa [strLe] using h)

/-- **C13.** `upgrade_prefix_map`, one group of CURIE prefixes sharing a URI prefix: the
lexicographically first becomes canonical, the rest synonyms. -/
theorem C13_upgrade_canonical (group : List Str) (p : Str) (ps : List Str) (h : sortStrs group = p :: ps) :
    p ∈ group ∧ (∀ q ∈ group, p ≤ q) ∧ (p :: ps).Perm group := by
  have hp := sortStrs_perm group
  have hs := sortStrs_sorted group
  rw [h] at hp hs
  refine ⟨hp.mem_iff.mp (by simp), ?_, hp⟩
  intro q hq
  have hq' : q ∈ p :: ps := hp.mem_iff.mpr hq
  rcases List.mem_cons.mp hq' with rfl | hq'
  · exact Std.le_refl _
  · exact (List.pairwise_cons.mp hs).1 q hq'

/-- **C13.** Every record `upgrade_prefix_map` returns passes the `Record` validators. -/
theorem C13_upgrade_recOK (pm : List (Str × Str)) (recs : List Record) (h : upgradePrefixMap pm = .ok recs) :
    ∀ r ∈ recs, RecOK r := by
  unfold upgradePrefixMap at h
  intro r hr
  obtain ⟨g, _, hf⟩ := mapM_ok_mem _ _ _ h r hr
  cases hg : g.2 with
  | nil => simp [hg] at hf
  | cons p ps =>
    simp only [hg] at hf
    have := validate_ok hf
    rw [this.1]; exact this.2

/-- Non-vacuity: a non-bijective prefix map upgraded (dictionary order irrelevant here), a reverse
map with two URI prefixes of different length, a JSON-LD context with ignored terms. -/
example :
    (upgradePrefixMap [([98], [117]), ([97], [117]), ([99], [118])]).toOption
      = some [⟨[97], [117], [[98]], [], none⟩, ⟨[99], [118], [], [], none⟩] ∧
    (reverseRecords [([117, 47, 120], [97]), ([117, 47], [97])]).toOption = some [⟨[97], [117, 47], [], [[117, 47, 120]], none⟩] ∧
    (jsonldPrefixMap [([64, 98], .str [120]), ([], .str [121]), ([97], .str [117]), ([98], .prefixDict (some [118])),
        ([99], .other)]).toOption = some [([97], [117]), ([98], [118])] := by
  decide


theorem mem_valuesOf (kvs : List (Str × Str)) (k v : Str) : v ∈ valuesOf kvs k ↔ (k, v) ∈ kvs := by
  unfold valuesOf
  simp only [List.mem_map, List.mem_filter, beq_iff_eq]
  constructor
  · rintro ⟨kv, ⟨hm, hk⟩, hv⟩
    obtain ⟨a, b⟩ := kv
    simp only at hk hv
    subst hk; subst hv; exact hm
  · intro h
    exact ⟨(k, v), ⟨h, rfl⟩, rfl⟩

theorem valuesOf_perm {kvs kvs' : List (Str × Str)} (h : kvs.Perm kvs') (k : Str) :
    (valuesOf kvs k).Perm (valuesOf kvs' k) := (h.filter _).map _

theorem Forall2.mem_left {α β : Type} {R : α → β → Prop} {l₁ : List α} {l₂ : List β} (h : Forall2 R l₁ l₂)
    {a : α} (ha : a ∈ l₁) : ∃ b ∈ l₂, R a b := by
  induction h with
  | nil => cases ha
  | cons hr _ ih =>
    rcases List.mem_cons.mp ha with rfl | ha
    · exact ⟨_, by simp, hr⟩
    · obtain ⟨b, hb, hR⟩ := ih ha
      exact ⟨b, by simp [hb], hR⟩

theorem mapM_ok_of_forall {α β ε : Type} (f : α → Except ε β) (g : α → β) (l : List α)
    (h : ∀ a ∈ l, f a = .ok (g a)) : l.mapM f = .ok (l.map g) := by
  induction l with
  | nil => rfl
  | cons a as ih =>
    rw [List.mapM_cons, h a (by simp), ih (fun x hx => h x (by simp [hx]))]
    rfl

theorem sortStrs_eq_of_perm {l₁ l₂ : List Str} (h : l₁.Perm l₂) : sortStrs l₁ = sortStrs l₂ := by
  refine List.Perm.eq_of_pairwise (le := fun a b => a ≤ b) ?_ (sortStrs_sorted l₁) (sortStrs_sorted l₂)
    (((sortStrs_perm l₁).trans h).trans (sortStrs_perm l₂).symm)
  intro a b _ _ hab hba
  exact Std.le_antisymm hab hba

/-- sorting by key is determined by the set of entries when the keys are distinct -/
theorem isort_key_eq_of_perm {β : Type} {g₁ g₂ : List (Str × β)} (hp : g₁.Perm g₂) (hn : (g₂.map (·.1)).Nodup) :
    isort (fun (a b : Str × β) => strLe a.1 b.1) g₁ = isort (fun (a b : Str × β) => strLe a.1 b.1) g₂ := by
  have tot : ∀ a b : Str × β, strLe a.1 b.1 = true ∨ strLe b.1 a.1 = true := fun a b => by
    simp only [strLe, decide_eq_true_eq]; exact Std.le_total (a := a.1) (b := b.1)
  have trans : ∀ a b c : Str × β, strLe a.1 b.1 = true → strLe b.1 c.1 = true → strLe a.1 c.1 = true :=
    fun a b c h1 h2 => by simp only [strLe, decide_eq_true_eq] at *; exact Std.le_trans h1 h2
  refine List.Perm.eq_of_pairwise (le := fun a b => strLe a.1 b.1 = true) ?_ (isort_sorted _ tot trans _)
    (isort_sorted _ tot trans _) (((isort_perm _ _).trans hp).trans (isort_perm _ _).symm)
  intro a b ha hb hab hba
  have hk : a.1 = b.1 := by
    simp only [strLe, decide_eq_true_eq] at hab hba
    exact Std.le_antisymm hab hba
  have ha2 : a ∈ g₂ := hp.mem_iff.mp ((mem_isort _ _ _).mp ha)
  have hb2 : b ∈ g₂ := (mem_isort _ _ _).mp hb
  obtain ⟨a1, a2⟩ := a
  obtain ⟨b1, b2⟩ := b
  simp only at hk
  subst hk
  rw [Discovery.unique_of_nodup_keys hn ha2 hb2]

/-- the sorted groups `upgrade_prefix_map` works on -/
def upgradeGroups (pm : List (Str × Str)) : List (Str × List Str) :=
  isort (fun (a b : Str × List Str) => strLe a.1 b.1)
    ((groupBy (pm.map fun kv => (kv.2, kv.1))).map fun g => (g.1, sortStrs g.2))

def upgradeRec (g : Str × List Str) : Except Err Record :=
  match g.2 with
  | [] => .error .indexError
  | p :: ps => Record.validate { pfx := p, uri := g.1, pSyn := ps }

theorem upgradePrefixMap_eq (pm : List (Str × Str)) : upgradePrefixMap pm = (upgradeGroups pm).mapM upgradeRec := rfl

/-- the record denoted by a sorted group -/
def groupRec (g : Str × List Str) : Record := { pfx := g.2.headD [], uri := g.1, pSyn := g.2.tail }

/-- what the sorted groups are: distinct URI prefixes, each with the sorted, duplicate-free,
non-empty list of the CURIE prefixes mapped to it -/
theorem upgradeGroups_spec (pm : List (Str × Str)) (hn : (pm.map (·.1)).Nodup) :
    ((upgradeGroups pm).map (·.1)).Nodup ∧
    (∀ g ∈ upgradeGroups pm, g.2 ≠ [] ∧ g.2.Nodup ∧ ∀ p, p ∈ g.2 ↔ (p, g.1) ∈ pm) ∧
    (∀ p u, (p, u) ∈ pm → ∃ g ∈ upgradeGroups pm, g.1 = u) := by
  have inv := groupInv_groupBy (pm.map fun kv => (kv.2, kv.1))
  have hmem : ∀ p u, (u, p) ∈ pm.map (fun kv => (kv.2, kv.1)) ↔ (p, u) ∈ pm := by
    intro p u
    simp only [List.mem_map, Prod.mk.injEq]
    constructor
    · rintro ⟨⟨a, b⟩, hm, h1, h2⟩; simp only at h1 h2; subst h1; subst h2; exact hm
    · intro h; exact ⟨(p, u), h, rfl, rfl⟩
  have hvn : ∀ k, (valuesOf (pm.map fun kv => (kv.2, kv.1)) k).Nodup := by
    intro k
    unfold valuesOf
    rw [List.filter_map, List.map_map]
    exact (List.Pairwise.sublist (List.Sublist.map _ List.filter_sublist) hn)
  refine ⟨?_, ?_, ?_⟩
  · unfold upgradeGroups
    refine ((isort_perm _ _).map _).nodup_iff.mpr ?_
    rw [List.map_map]
    exact inv.keys
  · intro g hg
    unfold upgradeGroups at hg
    rw [mem_isort] at hg
    obtain ⟨g0, hg0, rfl⟩ := List.mem_map.mp hg
    have hgr := inv.group g0 hg0
    refine ⟨?_, ?_, ?_⟩
    · intro he
      have := (sortStrs_perm g0.2).length_eq
      simp only at he
      rw [he] at this
      exact hgr.2 (List.length_eq_zero_iff.mp this.symm)
    · exact (sortStrs_perm g0.2).nodup_iff.mpr (by rw [hgr.1]; exact hvn _)
    · intro p
      simp only
      rw [mem_sortStrs, hgr.1, mem_valuesOf, hmem]
  · intro p u hpu
    obtain ⟨g0, hg0, he⟩ := inv.cover (u, p) ((hmem p u).mpr hpu)
    refine ⟨(g0.1, sortStrs g0.2), ?_, he⟩
    unfold upgradeGroups
    rw [mem_isort]
    exact List.mem_map.mpr ⟨g0, hg0, rfl⟩

theorem upgradeRec_ok {g : Str × List Str} (h1 : g.2 ≠ []) (h2 : g.2.Nodup) : upgradeRec g = .ok (groupRec g) := by
  obtain ⟨u, ps⟩ := g
  cases ps with
  | nil => exact absurd rfl h1
  | cons p ps =>
    have hp : p ∉ ps := (List.nodup_cons.mp h2).1
    unfold upgradeRec Record.validate groupRec
    simp [hp]

theorem allP_groupRec {g : Str × List Str} (h1 : g.2 ≠ []) : (groupRec g).allP = g.2 := by
  obtain ⟨u, ps⟩ := g
  cases ps with
  | nil => exact absurd rfl h1
  | cons p ps => rfl

/-- **C13.** Given a dictionary (distinct keys), `upgrade_prefix_map` never raises; the records it
returns pass the validators and the strict constructor's uniqueness test (`Unique`), carry no URI
prefix synonyms, and denote exactly the input: `(p, u)` is an item of the prefix map iff the
record with URI prefix `u` has `p` as canonical prefix or synonym. -/
theorem C13_upgrade_ok (pm : List (Str × Str)) (hn : (pm.map (·.1)).Nodup) :
    ∃ recs, upgradePrefixMap pm = .ok recs ∧ Unique recs ∧ (∀ r ∈ recs, RecOK r ∧ r.uSyn = []) ∧
      (∀ p u, (p, u) ∈ pm ↔ ∃ r ∈ recs, r.uri = u ∧ p ∈ r.allP) := by
  obtain ⟨hkeys, hgrp, hcov⟩ := upgradeGroups_spec pm hn
  have hok : upgradePrefixMap pm = .ok ((upgradeGroups pm).map groupRec) := by
    rw [upgradePrefixMap_eq]
    exact mapM_ok_of_forall _ _ _ (fun g hg => upgradeRec_ok (hgrp g hg).1 (hgrp g hg).2.1)
  refine ⟨_, hok, ?_, ?_, ?_⟩
  · unfold Unique
    rw [List.pairwise_map]
    have hpk : (upgradeGroups pm).Pairwise (fun a b => a.1 ≠ b.1) := List.pairwise_map.mp hkeys
    refine hpk.imp_of_mem ?_
    intro a b ha hb hab
    constructor
    · intro x hxa hxb
      rw [allP_groupRec (hgrp a ha).1] at hxa
      rw [allP_groupRec (hgrp b hb).1] at hxb
      have h1 := ((hgrp a ha).2.2 x).mp hxa
      have h2 := ((hgrp b hb).2.2 x).mp hxb
      exact hab (Discovery.unique_of_nodup_keys hn h1 h2)
    · intro x hxa hxb
      simp only [groupRec, Record.allU, List.mem_singleton] at hxa hxb
      exact hab (hxa.symm.trans hxb)
  · intro r hr
    obtain ⟨g, hg, rfl⟩ := List.mem_map.mp hr
    refine ⟨⟨?_, by simp [groupRec]⟩, rfl⟩
    obtain ⟨u, ps⟩ := g
    cases ps with
    | nil => exact absurd rfl (hgrp _ hg).1
    | cons p ps => exact (List.nodup_cons.mp (hgrp _ hg).2.1).1
  · intro p u
    constructor
    · intro hpu
      obtain ⟨g, hg, he⟩ := hcov p u hpu
      refine ⟨groupRec g, List.mem_map.mpr ⟨g, hg, rfl⟩, he, ?_⟩
      rw [allP_groupRec (hgrp g hg).1, (hgrp g hg).2.2 p, he]
      exact hpu
    · rintro ⟨r, hr, hu, hp⟩
      obtain ⟨g, hg, rfl⟩ := List.mem_map.mp hr
      rw [allP_groupRec (hgrp g hg).1, (hgrp g hg).2.2 p] at hp
      have : g.1 = u := hu
      rw [← this]; exact hp

/-- **C13.** … so a strict converter accepts them, for every delimiter. -/
theorem C13_upgrade_accepted (pm : List (Str × Str)) (hn : (pm.map (·.1)).Nodup) (d : Str) :
    ∃ recs c, upgradePrefixMap pm = .ok recs ∧ Conv.init? recs d true = .ok c ∧ WF c := by
  obtain ⟨recs, hok, hu, hr, _⟩ := C13_upgrade_ok pm hn
  obtain ⟨c, hc⟩ := (init?_ok_iff recs d).mpr hu
  exact ⟨recs, c, hok, hc, wf_of_init (fun r h => (hr r h).1) hc⟩

/-- **C13 (dictionary order).** Two dictionaries with the same items in different insertion order
are upgraded to the same list of records. -/
theorem C13_upgrade_perm (pm pm' : List (Str × Str)) (hp : pm.Perm pm') (hn : (pm.map (·.1)).Nodup) :
    upgradePrefixMap pm = upgradePrefixMap pm' := by
  have hn' : (pm'.map (·.1)).Nodup := (hp.map _).nodup_iff.mp hn
  rw [upgradePrefixMap_eq, upgradePrefixMap_eq]
  congr 1
  unfold upgradeGroups
  have hsw : (pm.map fun kv => (kv.2, kv.1)).Perm (pm'.map fun kv => (kv.2, kv.1)) := hp.map _
  have inv := groupInv_groupBy (pm.map fun kv => (kv.2, kv.1))
  have inv' := groupInv_groupBy (pm'.map fun kv => (kv.2, kv.1))
  -- membership in the list of sorted groups, from the invariant alone
  have memG : ∀ (kvs : List (Str × Str)) (G : List (Str × List Str)), GroupInv kvs G → ∀ x : Str × List Str,
      x ∈ G.map (fun g => (g.1, sortStrs g.2)) ↔ x.2 = sortStrs (valuesOf kvs x.1) ∧ valuesOf kvs x.1 ≠ [] := by
    intro kvs G hG x
    constructor
    · intro hx
      obtain ⟨g, hg, rfl⟩ := List.mem_map.mp hx
      have := hG.group g hg
      exact ⟨by simp only; rw [this.1], by simp only; rw [← this.1]; exact this.2⟩
    · rintro ⟨h1, h2⟩
      obtain ⟨v, hv⟩ := List.exists_mem_of_ne_nil _ h2
      obtain ⟨g, hg, he⟩ := hG.cover (x.1, v) ((mem_valuesOf _ _ _).mp hv)
      refine List.mem_map.mpr ⟨g, hg, ?_⟩
      obtain ⟨x1, x2⟩ := x
      simp only at h1 he ⊢
      rw [(hG.group g hg).1, he, h1]
  have nodupG : ∀ (G : List (Str × List Str)), (G.map (·.1)).Nodup → (G.map (fun g => (g.1, sortStrs g.2))).Nodup := by
    intro G hG
    refine Discovery.nodup_of_map_nodup (·.1) _ ?_
    rw [List.map_map]; exact hG
  have hperm : ((groupBy (pm.map fun kv => (kv.2, kv.1))).map fun g => (g.1, sortStrs g.2)).Perm
      ((groupBy (pm'.map fun kv => (kv.2, kv.1))).map fun g => (g.1, sortStrs g.2)) := by
    rw [List.perm_ext_iff_of_nodup (nodupG _ inv.keys) (nodupG _ inv'.keys)]
    intro x
    rw [memG _ _ inv, memG _ _ inv']
    have hv := valuesOf_perm hsw x.1
    rw [sortStrs_eq_of_perm hv]
    constructor
    · rintro ⟨h1, h2⟩
      exact ⟨h1, fun he => h2 (List.length_eq_zero_iff.mp (by rw [hv.length_eq, he]; rfl))⟩
    · rintro ⟨h1, h2⟩
      exact ⟨h1, fun he => h2 (List.length_eq_zero_iff.mp (by rw [← hv.length_eq, he]; rfl))⟩
  refine isort_key_eq_of_perm hperm ?_
  rw [List.map_map]; exact inv'.keys

/-- **C13.** `from_reverse_prefix_map` drops nothing and invents nothing: a successful load yields one
record per distinct CURIE prefix, and `u` is a URI prefix (canonical or synonym) of the record of `p`
exactly when `u ↦ p` is an item of the reverse map. -/
theorem C13_reverse_complete (rpm : List (Str × Str)) (recs : List Record) (h : reverseRecords rpm = .ok recs) :
    (recs.map (·.pfx)).Nodup ∧
    (∀ u p, (u, p) ∈ rpm ↔ ∃ r ∈ recs, r.pfx = p ∧ u ∈ r.allU) ∧
    (∀ r ∈ recs, r.pSyn = [] ∧ RecOK r) := by
  unfold reverseRecords at h
  have inv := groupInv_groupBy (rpm.map fun kv => (kv.2, kv.1))
  have hmem : ∀ u p, (p, u) ∈ rpm.map (fun kv => (kv.2, kv.1)) ↔ (u, p) ∈ rpm := by
    intro u p
    simp only [List.mem_map, Prod.mk.injEq]
    constructor
    · rintro ⟨⟨a, b⟩, hm, h1, h2⟩; simp only at h1 h2; subst h1; subst h2; exact hm
    · intro h; exact ⟨(u, p), h, rfl, rfl⟩
  have hf := mapM_ok_forall₂ _ _ _ h
  -- what one successful group conversion says
  have one : ∀ (g : Str × List Str) (r : Record),
      (match sortByLen g.2 with
        | [] => (.error .indexError : Except Err Record)
        | u :: us => Record.validate { pfx := g.1, uri := u, uSyn := us }) = .ok r →
      r.pfx = g.1 ∧ r.pSyn = [] ∧ RecOK r ∧ ∀ u, u ∈ r.allU ↔ u ∈ g.2 := by
    intro g r hr
    cases hs : sortByLen g.2 with
    | nil => simp [hs] at hr
    | cons u us =>
      simp only [hs] at hr
      have hv := validate_ok hr
      rw [hv.1]
      refine ⟨rfl, rfl, hv.2, ?_⟩
      intro x
      have := (sortByLen_perm g.2).mem_iff (a := x)
      rw [hs] at this
      exact this
  have keysEq : recs.map (·.pfx) = (groupBy (rpm.map fun kv => (kv.2, kv.1))).map (·.1) := by
    clear h
    generalize groupBy (rpm.map fun kv => (kv.2, kv.1)) = G at hf
    induction hf with
    | nil => rfl
    | cons hr _ ih => simp only [List.map_cons, ih, (one _ _ hr).1]
  refine ⟨by rw [keysEq]; exact inv.keys, ?_, ?_⟩
  · intro u p
    constructor
    · intro hup
      obtain ⟨g, hg, he⟩ := inv.cover (p, u) ((hmem u p).mpr hup)
      obtain ⟨r, hr, hR⟩ := hf.mem_left hg
      have ho := one g r hR
      refine ⟨r, hr, ho.1.trans he, (ho.2.2.2 u).mpr ?_⟩
      rw [(inv.group g hg).1, mem_valuesOf, he]
      exact (hmem u p).mpr hup
    · rintro ⟨r, hr, hp, hu⟩
      obtain ⟨g, hg, hR⟩ := mapM_ok_mem _ _ _ h r hr
      have ho := one g r hR
      have := (ho.2.2.2 u).mp hu
      rw [(inv.group g hg).1, mem_valuesOf, hmem] at this
      rw [← hp, ho.1]; exact this
  · intro r hr
    obtain ⟨g, hg, hR⟩ := mapM_ok_mem _ _ _ h r hr
    exact ⟨(one g r hR).2.1, (one g r hR).2.2.1⟩

/-- Non-vacuity: two insertion orders of a non-bijective prefix map give the same records; a reverse
map with three URI prefixes for one prefix keeps all three. -/
example :
    (upgradePrefixMap [([98], [117]), ([99], [118]), ([97], [117])]).toOption
      = (upgradePrefixMap [([97], [117]), ([98], [117]), ([99], [118])]).toOption ∧
    (reverseRecords [([117, 47, 120], [97]), ([118], [97]), ([117, 47], [98]), ([119, 119], [97])]).toOption
      = some [⟨[97], [118], [], [[119, 119], [117, 47, 120]], none⟩, ⟨[98], [117, 47], [], [], none⟩] := by
  decide
