import CuriesVerif.Properties.C04

/-!
# C13 — every loader yields exactly the converter its input format denotes

Each loader is modelled as a function from its input (an association list with distinct keys,
in dictionary order) to the records handed to the strict constructor; by `wf_of_init` the
result is well-formed and C01/C02 say how it answers.  Proved here:

* `C13_pm`: every listed `(prefix, URI prefix)` pair expands accordingly and the URI prefix is
  registered for that prefix;
* `C13_priority`: the first URI prefix of a priority list is canonical, the rest synonyms, in order;
* `C13_reverse_canonical`: the canonical URI prefix chosen for a reverse-map group is an element of
  the group of minimal length, and the synonyms are exactly the rest;
* `C13_jsonld`: which terms are taken and which are ignored;
* `C13_upgrade_canonical`: within a group, `upgrade_prefix_map` makes the lexicographically first
  CURIE prefix canonical and the rest synonyms; every produced record passes the validators.

Resting on the correspondence (and on the Lean checker comparing the implementation's records
with the denoted ones on every run): completeness of the grouping (`groupBy`), order
independence of `upgrade_prefix_map`, file loading.
-/

open Spec Loaders

/-- **C13.** `from_prefix_map`: each listed pair `(p, u)` expands as `u ++ i`, and `u` is
registered for `p`'s record. -/
theorem C13_pm (pm : List (Str × Str)) (d : Str) (c : Conv)
    (hok : Conv.init? (prefixMapRecords pm) d true = .ok c) (p u : Str) (hpu : (p, u) ∈ pm) (i : Str) :
    c.expandPair p i false false = .ok (some (u ++ i)) ∧
    (ownerU c.records u).map (·.pfx) = some p ∧
    (∀ r ∈ c.records, r.pSyn = [] ∧ r.uSyn = []) := by
  have hw := (C04_loader_prefix_map pm d).2 c hok
  have hmem : ({ pfx := p, uri := u } : Record) ∈ c.records := by
    rw [(init?_records hok).1, (sortRecords_perm _).mem_iff]
    exact List.mem_map.mpr ⟨(p, u), hpu, rfl⟩
  refine ⟨C02_known_aux hw p i _ hmem (by simp [Record.allP]), ?_, ?_⟩
  · rw [ownerU_of_mem hw.unique hmem (by simp [Record.allU])]; rfl
  · intro r hr
    rw [(init?_records hok).1, (sortRecords_perm _).mem_iff] at hr
    obtain ⟨kv, _, rfl⟩ := List.mem_map.mp hr
    exact ⟨rfl, rfl⟩
where
  C02_known_aux {c : Conv} (h : WF c) (p i : Str) (r : Record) (hr : r ∈ c.records) (hp : p ∈ r.allP) :
      c.expandPair p i false false = .ok (some (r.uri ++ i)) := by
    unfold Conv.expandPair
    rw [expandReference_eq h]
    simp [Spec.expandPair, ownerP_of_mem h.unique hr hp]

/-- **C13.** `from_priority_prefix_map`: record by record, the first URI prefix of the list is
canonical and the rest are the synonyms, in order; nothing else is produced. -/
theorem C13_priority (data : List (Str × List Str)) (recs : List Record) (h : priorityRecords data = .ok recs) :
    Forall2 (fun kv r => ∃ u us, kv.2 = u :: us ∧ r = { pfx := kv.1, uri := u, uSyn := us } ∧ u ∉ us) data recs := by
  unfold priorityRecords at h
  have := mapM_ok_forall₂ _ _ _ h
  refine this.imp ?_
  intro kv r hf
  cases hk : kv.2 with
  | nil => simp [hk] at hf
  | cons u us =>
    simp only [hk] at hf
    have := validate_ok hf
    exact ⟨u, us, rfl, this.1, this.2.2⟩

theorem sortByLen_perm (l : List Str) : (sortByLen l).Perm l := isort_perm _ l

theorem sortByLen_sorted (l : List Str) : (sortByLen l).Pairwise (fun a b => a.length ≤ b.length) := by
  have := isort_sorted (fun a b : Str => decide (a.length ≤ b.length))
    (fun a b => by simp only [decide_eq_true_eq]; exact Nat.le_total _ _)
    (fun a b c h1 h2 => by simp only [decide_eq_true_eq] at *; exact Nat.le_trans h1 h2) l
  exact this.imp (fun h => by simpa using h)

/-- **C13.** `from_reverse_prefix_map`, one group: the canonical URI prefix is a member of the group
of minimal length, and canonical + synonyms are exactly the group. -/
theorem C13_reverse_canonical (group : List Str) (u : Str) (us : List Str) (h : sortByLen group = u :: us) :
    u ∈ group ∧ (∀ k ∈ group, u.length ≤ k.length) ∧ (u :: us).Perm group := by
  have hp := sortByLen_perm group
  have hs := sortByLen_sorted group
  rw [h] at hp hs
  refine ⟨hp.mem_iff.mp (by simp), ?_, hp⟩
  intro k hk
  have hk' : k ∈ u :: us := hp.mem_iff.mpr hk
  rcases List.mem_cons.mp hk' with rfl | hk'
  · exact Nat.le_refl _
  · exact (List.pairwise_cons.mp hs).1 k hk'

/-- whether `from_jsonld` takes a term, and as which `(prefix, URI prefix)` pair -/
def jsonldTaken (kv : Str × JTerm) : Option (Str × Str) :=
  if kv.1.isEmpty || kv.1.head? == some 64 then none
  else match kv.2 with
    | .str s => some (kv.1, s)
    | .prefixDict (some id) => some (kv.1, id)
    | _ => none

theorem jsonld_fold (l : List (Str × JTerm)) (acc out : List (Str × Str))
    (h : l.foldlM (fun acc kv =>
        if kv.1.isEmpty then (.ok acc : Except Err _)
        else if kv.1.head? == some 64 then .ok acc
        else match kv.2 with
          | .str s => .ok (acc ++ [(kv.1, s)])
          | .prefixDict (some id) => .ok (acc ++ [(kv.1, id)])
          | .prefixDict none => .error .keyError
          | .other => .ok acc) acc = .ok out) :
    out = acc ++ l.filterMap jsonldTaken := by
  induction l generalizing acc with
  | nil => simp [List.foldlM, pure, Except.pure] at h; simp [h]
  | cons kv kvs ih =>
    rw [List.foldlM_cons] at h
    rw [List.filterMap_cons]
    by_cases h1 : kv.1.isEmpty = true
    · have ht : jsonldTaken kv = none := by simp [jsonldTaken, h1]
      simp only [h1, if_true, bind, Except.bind] at h
      rw [ht]; exact ih acc h
    · by_cases h2 : (kv.1.head? == some 64) = true
      · have ht : jsonldTaken kv = none := by simp [jsonldTaken, h2]
        simp only [h1, h2, if_true, Bool.false_eq_true, if_false, bind, Except.bind] at h
        rw [ht]; exact ih acc h
      · have hc : (kv.1.isEmpty || kv.1.head? == some 64) = false := by
          simp only [Bool.not_eq_true] at h1 h2; simp [h1, h2]
        cases hk : kv.2 with
        | str s =>
          have ht : jsonldTaken kv = some (kv.1, s) := by simp [jsonldTaken, hc, hk]
          simp only [h1, h2, hk, Bool.false_eq_true, if_false, bind, Except.bind] at h
          rw [ht, ih _ h]; simp
        | prefixDict o =>
          cases o with
          | none => simp [h1, h2, hk, bind, Except.bind] at h
          | some id =>
            have ht : jsonldTaken kv = some (kv.1, id) := by simp [jsonldTaken, hc, hk]
            simp only [h1, h2, hk, Bool.false_eq_true, if_false, bind, Except.bind] at h
            rw [ht, ih _ h]; simp
        | other =>
          have ht : jsonldTaken kv = none := by simp [jsonldTaken, hc, hk]
          simp only [h1, h2, hk, Bool.false_eq_true, if_false, bind, Except.bind] at h
          rw [ht]; exact ih acc h

/-- **C13.** `from_jsonld`: a term is taken exactly when its key is non-empty, does not start with
`@`, and its value is a string or a dictionary with `"@prefix": true` (whose `@id` is used);
everything else is ignored.  (A `@prefix` dictionary without `@id` raises `KeyError`.) -/
theorem C13_jsonld (ctx : List (Str × JTerm)) (pm : List (Str × Str)) (h : jsonldPrefixMap ctx = .ok pm) :
    pm = ctx.filterMap jsonldTaken := by
  unfold jsonldPrefixMap at h
  simpa using jsonld_fold ctx [] pm h

theorem sortStrs_sorted (l : List Str) : (sortStrs l).Pairwise (fun a b => a ≤ b) := by
  have := isort_sorted (fun a b : Str => strLe a b)
    (fun a b => by simp only [strLe, decide_eq_true_eq]; exact Std.le_total (a := a) (b := b))
    (fun a b c h1 h2 => by simp only [strLe, decide_eq_true_eq] at *; exact Std.le_trans h1 h2) l
  exact this.imp (fun h => by simpa [strLe] using h)

/-- **C13.** `upgrade_prefix_map`, one group of CURIE prefixes sharing a URI prefix: the
lexicographically first becomes canonical, the rest synonyms. -/
theorem C13_upgrade_canonical (group : List Str) (p : Str) (ps : List Str) (h : sortStrs group = p :: ps) :
    p ∈ group ∧ (∀ q ∈ group, p ≤ q) ∧ (p :: ps).Perm group := by
  have hp := sortStrs_perm group
  have hs := sortStrs_sorted group
  rw [h] at hp hs
  refine ⟨hp.mem_iff.mp (by simp), ?_, hp⟩
  intro q hq
  have hq' : q ∈ p :: ps := hp.mem_iff.mpr hq
  rcases List.mem_cons.mp hq' with rfl | hq'
  · exact Std.le_refl _
  · exact (List.pairwise_cons.mp hs).1 q hq'

/-- **C13.** Every record `upgrade_prefix_map` returns passes the `Record` validators. -/
theorem C13_upgrade_recOK (pm : List (Str × Str)) (recs : List Record) (h : upgradePrefixMap pm = .ok recs) :
    ∀ r ∈ recs, RecOK r := by
  unfold upgradePrefixMap at h
  intro r hr
  obtain ⟨g, _, hf⟩ := mapM_ok_mem _ _ _ h r hr
  cases hg : g.2 with
  | nil => simp [hg] at hf
  | cons p ps =>
    simp only [hg] at hf
    have := validate_ok hf
    rw [this.1]; exact this.2

/-- Non-vacuity: a non-bijective prefix map upgraded (dictionary order irrelevant here), a reverse
map with two URI prefixes of different length, a JSON-LD context with ignored terms. -/
example :
    (upgradePrefixMap [([98], [117]), ([97], [117]), ([99], [118])]).toOption
      = some [⟨[97], [117], [[98]], [], none⟩, ⟨[99], [118], [], [], none⟩] ∧
    (reverseRecords [([117, 47, 120], [97]), ([117, 47], [97])]).toOption = some [⟨[97], [117, 47], [], [[117, 47, 120]], none⟩] ∧
    (jsonldPrefixMap [([64, 98], .str [120]), ([], .str [121]), ([97], .str [117]), ([98], .prefixDict (some [118])),
        ([99], .other)]).toOption = some [([97], [117]), ([98], [118])] := by
  decide
