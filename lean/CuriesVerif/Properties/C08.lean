import CuriesVerif.Lemmas.Refine

/-!
# C08 — strict, passthrough and default modes differ only in how failure is reported

For every well-formed (strict) converter with a non-empty delimiter, every listed function and
every input string.  `ModeLaw f x` packages the three clauses of the property for a function
`f strict passthrough` whose "input unchanged" value is `x`; `ModeLaw₂` is the variant for the
functions without a `passthrough` parameter.
-/

/-- the three clauses of C08 for one call site -/
structure ModeLaw (f : Bool → Bool → Except Err (Option Str)) (x : Str) : Prop where
  /-- the default call returns a value or `None` and never raises -/
  default_total : ∃ o, f false false = .ok o
  /-- `passthrough=True` returns the same value, or `x` where the default gives `None` -/
  passthrough : ∀ o, f false false = .ok o → f false true = .ok (some (o.getD x))
  /-- `strict=True` returns the same value, or raises a library ValueError-derived conversion /
  standardisation error where the default gives `None` (whatever `passthrough` is) -/
  strict : ∀ o pt, f false false = .ok o →
    match o with
    | some v => f true pt = .ok (some v)
    | none => ∃ e, f true pt = .error e ∧ e.isLibraryValueError = true

structure ModeLaw₂ {α : Type} (f : Bool → Except Err (Option α)) : Prop where
  default_total : ∃ o, f false = .ok o
  strict : ∀ o, f false = .ok o →
    match o with
    | some v => f true = .ok (some v)
    | none => ∃ e, f true = .error e ∧ e.isLibraryValueError = true

/-- every function whose model has the shared tail satisfies the law -/
theorem modeLaw_of_tail (f : Bool → Bool → Except Err (Option Str)) (x : Str) (o : Option Str) (e : Err)
    (he : e.isLibraryValueError = true)
    (hf : ∀ s p, f s p = match o with | some v => .ok (some v) | none => Conv.modeTail s p e x) :
    ModeLaw f x := by
  cases o with
  | some v =>
    refine ⟨⟨some v, by rw [hf]⟩, ?_, ?_⟩
    · intro o' h; rw [hf] at h; cases h; rw [hf]; rfl
    · intro o' pt h; rw [hf] at h; cases h; simp only; rw [hf]
  | none =>
    refine ⟨⟨none, by rw [hf]; rfl⟩, ?_, ?_⟩
    · intro o' h; rw [hf] at h; cases h; rw [hf]; rfl
    · intro o' pt h; rw [hf] at h; cases h; simp only; exact ⟨e, by rw [hf]; rfl, he⟩

theorem modeLaw₂_of_tail {α : Type} (f : Bool → Except Err (Option α)) (o : Option α) (e : Err)
    (he : e.isLibraryValueError = true)
    (hf : ∀ s, f s = match o with | some v => .ok (some v) | none => if s then .error e else .ok none) :
    ModeLaw₂ f := by
  cases o with
  | some v =>
    refine ⟨⟨some v, by rw [hf]⟩, ?_⟩
    intro o' h; rw [hf] at h; cases h; simp only; rw [hf]
  | none =>
    refine ⟨⟨none, by rw [hf]; rfl⟩, ?_⟩
    intro o' h; rw [hf] at h; cases h; simp only; exact ⟨e, by rw [hf]; rfl, he⟩

section
variable {c : Conv} (h : WF c) (hd : c.delim ≠ [])
include h

theorem C08_compress (x : Str) : ModeLaw (fun s p => c.compress x s p) x :=
  modeLaw_of_tail _ x _ .compression rfl (fun s p => compress_eq h x s p)

theorem C08_standardize_prefix (x : Str) : ModeLaw (fun s p => c.standardizePrefix x s p) x :=
  modeLaw_of_tail _ x _ .prefixStd rfl (fun s p => standardizePrefix_eq h x s p)

theorem C08_standardize_uri (x : Str) : ModeLaw (fun s p => c.standardizeUri x s p) x :=
  modeLaw_of_tail _ x _ .uriStd rfl (fun s p => standardizeUri_eq h x s p)

theorem C08_expand_pair (p i : Str) : ModeLaw (fun s pt => c.expandPair p i s pt) (c.formatCurie p i) :=
  modeLaw_of_tail _ _ _ .expansion rfl (fun s pt => expandReference_eq h (p, i) s pt)

theorem C08_expand_reference (r : Str × Str) :
    ModeLaw (fun s pt => c.expandReference r s pt) (c.formatCurie r.1 r.2) :=
  modeLaw_of_tail _ _ _ .expansion rfl (fun s pt => expandReference_eq h r s pt)

theorem C08_parse_uri (x : Str) : ModeLaw₂ (fun s => c.parseUri x s) :=
  modeLaw₂_of_tail _ (Spec.parseUri c.records x) .compression rfl
    (fun s => by rw [parseUri_eq h x s]; cases Spec.parseUri c.records x <;> rfl)

theorem C08_expand_pair_all (p i : Str) : ModeLaw₂ (fun s => c.expandPairAll p i s) :=
  modeLaw₂_of_tail _ (Spec.expandPairAll c.records p i) .expansion rfl
    (fun s => by rw [expandPairAll_eq h p i s]; cases Spec.expandPairAll c.records p i <;> rfl)

include hd

theorem C08_expand (x : Str) : ModeLaw (fun s p => c.expand x s p) x :=
  modeLaw_of_tail _ x _ .expansion rfl (fun s p => expand_eq h hd x s p)

theorem C08_compress_or_standardize (x : Str) : ModeLaw (fun s p => c.compressOrStandardize x s p) x :=
  modeLaw_of_tail _ x _ .compression rfl (fun s p => compressOrStandardize_eq h hd x s p)

theorem C08_expand_or_standardize (x : Str) : ModeLaw (fun s p => c.expandOrStandardize x s p) x :=
  modeLaw_of_tail _ x _ .expansion rfl (fun s p => expandOrStandardize_eq h hd x s p)

theorem C08_standardize_curie (x : Str) : ModeLaw (fun s p => c.standardizeCurie x s p) x :=
  modeLaw_of_tail _ x _ .curieStd rfl (fun s p => standardizeCurie_eq h hd x s p)

theorem C08_expand_all (x : Str) : ModeLaw₂ (fun s => c.expandAll x s) :=
  modeLaw₂_of_tail _ (Spec.expandAll c.records c.delim x) .prefixStd rfl
    (fun s => by rw [expandAll_eq h hd x s]; cases Spec.expandAll c.records c.delim x <;> rfl)

theorem C08_parse (x : Str) : ModeLaw₂ (fun s => c.parse x s) :=
  modeLaw₂_of_tail _ (Spec.parse c.records c.delim x) .compression rfl
    (fun s => by rw [parse_eq h hd x s]; cases Spec.parse c.records c.delim x <;> rfl)

/-- `parse_curie`: the strict error is `NoCURIEDelimiterError` for delimiter-free input and
`PrefixStandardizationError` otherwise — both library ValueErrors. -/
theorem C08_parse_curie (x : Str) : ModeLaw₂ (fun s => c.parseCurie x s) := by
  refine modeLaw₂_of_tail _ (Spec.parseCurie c.records c.delim x)
    (if (partition? c.delim x).isSome then .prefixStd else .noDelimiter) ?_
    (fun s => by rw [parseCurie_eq h hd x s]; cases Spec.parseCurie c.records c.delim x <;> rfl)
  split <;> rfl

end

/-- Non-vacuity: on a strict one-record converter, `expand` of a delimiter-free string returns
`None`, the input, or raises `ExpansionError`, in the three modes. -/
example :
    (match Conv.init? [⟨[97], [104], [], [], none⟩] [58] true with
     | .ok c => [c.run ⟨"expand", [[120]], false, false⟩, c.run ⟨"expand", [[120]], false, true⟩,
                 c.run ⟨"expand", [[120]], true, false⟩, c.run ⟨"expand", [[97, 58, 49]], true, true⟩]
     | .error _ => [])
    = [.none, .str [120], .err .expansion, .str [104, 49]] := by
  decide
