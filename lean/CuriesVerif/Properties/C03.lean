import CuriesVerif.Lemmas.Laws

/-!
# C03 — compression is lossless; compress and expand are inverse on prefix-free maps

Hypotheses, exactly the property's quantifier: a well-formed (strict) converter with a
non-empty delimiter whose canonical CURIE prefixes satisfy `DelimOK` (for a one-symbol delimiter:
do not contain it; see K2 for why "does not contain" is not enough for longer delimiters).
The empty prefix is allowed.  The bijection clauses additionally assume `PrefixFree`.
-/

open Spec

/-- the canonical CURIE prefixes of the converter can be split off again -/
def CanonDelimOK (c : Conv) : Prop := ∀ r ∈ c.records, DelimOK c.delim r.pfx

section
variable {c : Conv} (h : WF c) (hd : c.delim ≠ [])
include h hd

/-- **C03.** Whenever `compress(u)` returns a CURIE `x`, `u` is among `expand_all(x)`. -/
theorem C03_member (hc : CanonDelimOK c) (u x : Str) (hx : c.compress u false false = .ok (some x)) :
    ∃ l, c.expandAll x false = .ok (some l) ∧ u ∈ l := by
  rw [compress_dflt h] at hx
  obtain ⟨k, r, hl, rfl⟩ := compress_some (by simpa using hx)
  refine ⟨r.allU.map (· ++ u.drop k.length), ?_, ?_⟩
  · rw [expandAll_dflt h hd, expandAll_canonical h.unique hd hl.1 (hc r hl.1)]
  · exact List.mem_map.mpr ⟨k, hl.2.1, hl.split.symm⟩

/-- **C03.** … and `expand(x)` equals `standardize_uri(u)`. -/
theorem C03_std (hc : CanonDelimOK c) (u x : Str) (hx : c.compress u false false = .ok (some x)) :
    c.expand x false false = c.standardizeUri u false false ∧ ∃ v, c.expand x false false = .ok (some v) := by
  rw [compress_dflt h] at hx
  obtain ⟨k, r, hl, rfl⟩ := compress_some (by simpa using hx)
  rw [expand_dflt h hd, standardizeUri_dflt h, expand_canonical h.unique hd hl.1 (hc r hl.1),
    standardizeUri_of_isLongest h.unique hl]
  exact ⟨rfl, _, rfl⟩

/-- **C03.** `standardize_uri(u)` is `u` itself when `u` was written with a canonical URI prefix. -/
theorem C03_std_canonical (u k : Str) (r : Record) (hl : IsLongest c.records u k r) (hk : k = r.uri) :
    c.standardizeUri u false false = .ok (some u) := by
  rw [standardizeUri_dflt h, standardizeUri_of_isLongest h.unique hl, ← hk, ← hl.split]

/-- **C03.** Every URI produced by `expand` is itself compressible. -/
theorem C03_expand_compressible (x v : Str) (hv : c.expand x false false = .ok (some v)) :
    c.isUri v = true := by
  rw [expand_dflt h hd] at hv
  have hv' : Spec.expand c.records c.delim x = some v := by simpa using hv
  unfold Spec.expand Spec.expandPair at hv'
  cases hp : partition? c.delim x with
  | none => simp [hp] at hv'
  | some pi =>
    simp [hp] at hv'
    obtain ⟨r, ho, rfl⟩ := hv'
    rw [isUri_eq h]
    unfold Spec.parseUri
    cases hl : longest c.records (r.uri ++ pi.2) with
    | some _ => rfl
    | none =>
      have hm := (longest_none_iff _ _).mp hl
      have : (r.uri, r) ∈ matchesU c.records (r.uri ++ pi.2) :=
        (mem_matchesU _ _ _ _).mpr ⟨(ownerP_some ho).1, by simp [Record.allU], List.prefix_append _ _⟩
      rw [hm] at this; cases this

/-- **C03 (prefix-free).** `compress(expand(x)) = standardize_curie(x)` for every recognised `x`. -/
theorem C03_ce (hpf : PrefixFree c.records) (x v : Str) (hv : c.expand x false false = .ok (some v)) :
    c.compress v false false = c.standardizeCurie x false false ∧
      ∃ y, c.compress v false false = .ok (some y) := by
  rw [expand_dflt h hd] at hv
  have hv' : Spec.expand c.records c.delim x = some v := by simpa using hv
  rw [compress_dflt h, standardizeCurie_dflt h hd]
  unfold Spec.expand Spec.expandPair at hv'
  unfold Spec.standardizeCurie Spec.parseCurie
  cases hp : partition? c.delim x with
  | none => simp [hp] at hv'
  | some pi =>
    simp [hp] at hv'
    obtain ⟨r, ho, rfl⟩ := hv'
    have hr := (ownerP_some ho).1
    have hl : IsLongest c.records (r.uri ++ pi.2) r.uri r := isLongest_append hpf hr (by simp [Record.allU]) pi.2
    rw [compress_of_isLongest h.unique hl]
    simp [ho, Spec.format]

/-- **C03 (prefix-free).** `expand(compress(u)) = standardize_uri(u)` for every recognised `u`. -/
theorem C03_ec (hc : CanonDelimOK c) (u x : Str) (hx : c.compress u false false = .ok (some x)) :
    c.expand x false false = c.standardizeUri u false false :=
  (C03_std h hd hc u x hx).1

/-- **C03 (bijection).** On a prefix-free map, `compress` and `expand` are mutually inverse
between standard URIs (`canonical URI prefix ++ i`) and standard CURIEs
(`canonical prefix ++ delimiter ++ i`), for every record and every identifier `i`; and the
standardisers land in exactly these two sets. -/
theorem C03_bijection (hpf : PrefixFree c.records) (hc : CanonDelimOK c) (r : Record) (hr : r ∈ c.records)
    (i : Str) :
    c.compress (r.uri ++ i) false false = .ok (some (r.pfx ++ c.delim ++ i)) ∧
    c.expand (r.pfx ++ c.delim ++ i) false false = .ok (some (r.uri ++ i)) ∧
    c.standardizeUri (r.uri ++ i) false false = .ok (some (r.uri ++ i)) ∧
    c.standardizeCurie (r.pfx ++ c.delim ++ i) false false = .ok (some (r.pfx ++ c.delim ++ i)) := by
  have hl : IsLongest c.records (r.uri ++ i) r.uri r := isLongest_append hpf hr (by simp [Record.allU]) i
  refine ⟨?_, ?_, ?_, ?_⟩
  · rw [compress_dflt h, compress_of_isLongest h.unique hl]; simp
  · rw [expand_dflt h hd, expand_canonical h.unique hd hr (hc r hr)]
  · rw [standardizeUri_dflt h, standardizeUri_of_isLongest h.unique hl]; simp
  · rw [standardizeCurie_dflt h hd, standardizeCurie_canonical h.unique hd hr (hc r hr)]

end

/-- Non-vacuity of the lossless clauses: overlapping URI prefixes, a URI written with a synonym,
and the empty default prefix. -/
example :
    (match Conv.init? [⟨[], [100, 47], [], [], none⟩, ⟨[71], [103, 47], [], [[100, 47, 103]], none⟩] [58] true with
     | .ok c => [c.run ⟨"compress", [[100, 47, 103, 49]], false, false⟩, c.run ⟨"expand_all", [[71, 58, 49]], false, false⟩,
                 c.run ⟨"standardize_uri", [[100, 47, 103, 49]], false, false⟩, c.run ⟨"compress", [[100, 47, 120]], false, false⟩,
                 c.run ⟨"expand", [[58, 120]], false, false⟩]
     | .error _ => [])
    = [.str [71, 58, 49], .strs [[103, 47, 49], [100, 47, 103, 49]], .str [103, 47, 49], .str [58, 120],
       .str [100, 47, 120]] := by
  decide
