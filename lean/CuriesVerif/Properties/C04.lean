import CuriesVerif.Lemmas.Refine
import CuriesVerif.Model.Loaders
import CuriesVerif.Lemmas.MapM

/-!
# C04 — strict construction enforces one owner per CURIE prefix and per URI prefix
-/

open Spec

/-- **C04.** A single record can never list its own canonical prefix or URI prefix among its
synonyms: the validators accept exactly the `RecOK` records. -/
theorem C04_record (r : Record) :
    (RecOK r → Record.validate r = .ok r) ∧ (¬ RecOK r → Record.validate r = .error .validation) := by
  unfold Record.validate RecOK
  by_cases h1 : r.pfx ∈ r.pSyn <;> by_cases h2 : r.uri ∈ r.uSyn <;> simp [h1, h2]

/-- **C04.** Strict construction succeeds if and only if no CURIE prefix or synonym and no URI
prefix or synonym is claimed by two different records — for every finite collection, in every
input order. -/
theorem C04_iff (recs : List Record) (d : Str) :
    (∃ c, Conv.init? recs d true = .ok c) ↔ Unique recs := init?_ok_iff recs d

/-- **C04.** Otherwise it raises `DuplicateURIPrefixes` if some URI prefix is shared (even when a
CURIE prefix is shared too), else `DuplicatePrefixes`. -/
theorem C04_which (recs : List Record) (d : Str) :
    (¬ recs.Pairwise (fun a b => Disj a.allU b.allU) → Conv.init? recs d true = .error .dupUri) ∧
    (recs.Pairwise (fun a b => Disj a.allU b.allU) → ¬ recs.Pairwise (fun a b => Disj a.allP b.allP) →
      Conv.init? recs d true = .error .dupPrefix) := by
  have hperm := sortRecords_perm recs
  have hU : (sortRecords recs).Pairwise (fun a b => Disj a.allU b.allU) ↔ recs.Pairwise (fun a b => Disj a.allU b.allU) :=
    List.Perm.pairwise_iff (fun h => h.symm) hperm
  have hP : (sortRecords recs).Pairwise (fun a b => Disj a.allP b.allP) ↔ recs.Pairwise (fun a b => Disj a.allP b.allP) :=
    List.Perm.pairwise_iff (fun h => h.symm) hperm
  rw [init?_strict]
  constructor
  · intro h
    have : duplicates Record.allU (sortRecords recs) ≠ [] := by
      rw [Ne, duplicates_nil_iff, hU]; exact h
    simp [this]
  · intro h1 h2
    have e1 : duplicates Record.allU (sortRecords recs) = [] := by rw [duplicates_nil_iff, hU]; exact h1
    have e2 : duplicates Record.allP (sortRecords recs) ≠ [] := by rw [Ne, duplicates_nil_iff, hP]; exact h2
    simp [e1, e2]

theorem mem_combinations2 {α} (l : List α) (a b : α) : (a, b) ∈ combinations2 l ↔ [a, b].Sublist l := by
  induction l with
  | nil => simp [combinations2]
  | cons x xs ih =>
    simp only [combinations2, List.mem_append, List.mem_map, Prod.mk.injEq]
    constructor
    · rintro (⟨y, hy, rfl, rfl⟩ | h)
      · exact List.Sublist.cons_cons _ (List.singleton_sublist.mpr hy)
      · exact List.Sublist.cons _ (ih.mp h)
    · intro h
      cases h with
      | cons _ h' => exact Or.inr (ih.mpr h')
      | cons_cons _ h' => exact Or.inl ⟨b, List.singleton_sublist.mp h', rfl, rfl⟩

/-- **C04.** The error lists exactly the clashes: `(r₁, r₂, x)` is listed iff `r₁` occurs before
`r₂` in the (sorted) record list and `x` is claimed by both — canonical or synonym, on either
side, in every orientation. -/
theorem C04_listing (f : Record → List Str) (recs : List Record) (r1 r2 : Record) (x : Str) :
    (r1, r2, x) ∈ duplicates f recs ↔ [r1, r2].Sublist recs ∧ x ∈ f r1 ∧ x ∈ f r2 := by
  unfold duplicates
  simp only [List.mem_flatMap, List.mem_filterMap, Prod.exists]
  constructor
  · rintro ⟨a, b, hab, y, hy, z, hz, hyz⟩
    by_cases e : y = z
    · subst e
      simp at hyz
      obtain ⟨rfl, rfl, rfl⟩ := hyz
      exact ⟨(mem_combinations2 _ _ _).mp hab, hy, hz⟩
    · simp [e] at hyz
  · rintro ⟨hs, h1, h2⟩
    exact ⟨r1, r2, (mem_combinations2 _ _ _).mpr hs, x, h1, x, h2, by simp⟩

/-- **C04.** In every strict converter each CURIE prefix and each URI prefix (synonyms included)
resolves to exactly one record. -/
theorem C04_owner {c : Conv} (h : WF c) (r r' : Record) (hr : r ∈ c.records) (hr' : r' ∈ c.records) :
    (∀ p, p ∈ r.allP → p ∈ r'.allP → r = r') ∧ (∀ k, k ∈ r.allU → k ∈ r'.allU → r = r') := by
  constructor
  · intro p hp hp'
    have h1 := ownerP_of_mem h.unique hr hp
    have h2 := ownerP_of_mem h.unique hr' hp'
    rw [h1] at h2; exact Option.some.inj h2
  · intro k hk hk'
    have h1 := ownerU_of_mem h.unique hr hk
    have h2 := ownerU_of_mem h.unique hr' hk'
    rw [h1] at h2; exact Option.some.inj h2

theorem get_bimap_fold (key val : Record → Str) (recs : List Record) (p : Str)
    (hexcl : recs.Pairwise (fun a b => ¬ (p ∈ [key a] ∧ p ∈ [key b]))) :
    Dict.get (recs.foldl (fun d r => Dict.set d (key r) (val r)) []) p
      = (recs.find? (fun r => decide (p = key r))).map val := by
  have := get_foldl_idx key (fun _ => []) val recs [] p
  simp only [Dict.setAll, List.foldl_nil] at this
  rw [this, foldl_last_eq_find (fun r => p ∈ [key r]) val recs _ hexcl]
  have e : (fun r : Record => decide (p ∈ [key r])) = (fun r => decide (p = key r)) := by
    funext r; simp
  rw [e]
  generalize List.find? (fun r : Record => decide (p = key r)) recs = o
  cases o <;> rfl

/-- **C04.** `bimap` and `reverse_bimap` are mutually inverse bijections over the records. -/
theorem C04_bimap {c : Conv} (h : WF c) (p u : Str) :
    (Dict.get c.bimap p = some u ↔ ∃ r ∈ c.records, r.pfx = p ∧ r.uri = u) ∧
    (Dict.get c.reverseBimap u = some p ↔ ∃ r ∈ c.records, r.pfx = p ∧ r.uri = u) ∧
    (Dict.get c.bimap p = some u ↔ Dict.get c.reverseBimap u = some p) := by
  have exP : ∀ q, c.records.Pairwise (fun a b => ¬ (q ∈ [a.pfx] ∧ q ∈ [b.pfx])) := fun q =>
    h.unique.imp fun hab hh => by
      simp only [List.mem_singleton] at hh
      exact hab.1 q (by simp [Record.allP, hh.1]) (by simp [Record.allP, hh.2])
  have exU : ∀ q, c.records.Pairwise (fun a b => ¬ (q ∈ [a.uri] ∧ q ∈ [b.uri])) := fun q =>
    h.unique.imp fun hab hh => by
      simp only [List.mem_singleton] at hh
      exact hab.2 q (by simp [Record.allU, hh.1]) (by simp [Record.allU, hh.2])
  have hb : Dict.get c.bimap p = some u ↔ ∃ r ∈ c.records, r.pfx = p ∧ r.uri = u := by
    unfold Conv.bimap
    rw [get_bimap_fold (·.pfx) (·.uri) c.records p (exP p)]
    cases hf : List.find? (fun r : Record => decide (p = r.pfx)) c.records with
    | none =>
      simp only [Option.map_none]
      constructor
      · intro hh; cases hh
      · rintro ⟨r, hr, rfl, rfl⟩
        have := List.find?_eq_none.mp hf r hr
        simp at this
    | some r' =>
      simp only [Option.map_some, Option.some.injEq]
      have hm := List.mem_of_find?_eq_some hf
      have he : p = r'.pfx := by simpa using List.find?_some hf
      constructor
      · intro hh; exact ⟨r', hm, he.symm, hh⟩
      · rintro ⟨r, hr, rfl, rfl⟩
        have := (C04_owner h r r' hr hm).1 r.pfx (by simp [Record.allP]) (by simp [Record.allP, he])
        subst this; rfl
  have hrb : Dict.get c.reverseBimap u = some p ↔ ∃ r ∈ c.records, r.pfx = p ∧ r.uri = u := by
    unfold Conv.reverseBimap
    rw [get_bimap_fold (·.uri) (·.pfx) c.records u (exU u)]
    cases hf : List.find? (fun r : Record => decide (u = r.uri)) c.records with
    | none =>
      simp only [Option.map_none]
      constructor
      · intro hh; cases hh
      · rintro ⟨r, hr, rfl, rfl⟩
        have := List.find?_eq_none.mp hf r hr
        simp at this
    | some r' =>
      simp only [Option.map_some, Option.some.injEq]
      have hm := List.mem_of_find?_eq_some hf
      have he : u = r'.uri := by simpa using List.find?_some hf
      constructor
      · intro hh; exact ⟨r', hm, hh, he.symm⟩
      · rintro ⟨r, hr, rfl, rfl⟩
        have := (C04_owner h r r' hr hm).2 r.uri (by simp [Record.allU]) (by simp [Record.allU, he])
        subst this; rfl
  exact ⟨hb, hrb, hb.trans hrb.symm⟩

theorem validate_ok {r r' : Record} (h : Record.validate r = .ok r') : r' = r ∧ RecOK r := by
  unfold Record.validate at h
  by_cases h1 : r.pfx ∈ r.pSyn <;> by_cases h2 : r.uri ∈ r.uSyn <;> simp [h1, h2] at h
  exact ⟨h.symm, h1, h2⟩

theorem mapM_validate_ok {α} (f : α → Record) (l : List α) (recs : List Record)
    (h : l.mapM (fun a => Record.validate (f a)) = .ok recs) : recs = l.map f ∧ ∀ r ∈ recs, RecOK r := by
  induction l generalizing recs with
  | nil => simp [List.mapM_nil, pure, Except.pure] at h; subst h; simp
  | cons a as ih =>
    rw [List.mapM_cons] at h
    cases hv : Record.validate (f a) with
    | error e => simp [hv, bind, Except.bind] at h
    | ok r' =>
      cases hm : as.mapM (fun a => Record.validate (f a)) with
      | error e => simp [hv, hm, bind, Except.bind] at h
      | ok rs =>
        simp [hv, hm, bind, Except.bind, pure, Except.pure] at h
        subst h
        have ⟨e1, ok1⟩ := validate_ok hv
        have ⟨e2, ok2⟩ := ih rs hm
        subst e1
        refine ⟨by rw [e2]; rfl, ?_⟩
        intro r hr
        rcases List.mem_cons.mp hr with rfl | hr
        · exact ok1
        · exact ok2 r hr

/-- **C04 (loaders).** Every loader hands validated records to the strict constructor, so it
succeeds iff the records it denotes are one-owner unique, and then yields a well-formed
converter (prefix map and priority map shown; reverse map, extended prefix map and JSON-LD go
through the same two functions). -/
theorem C04_loader_prefix_map (pm : List (Str × Str)) (d : Str) :
    ((∃ c, Conv.init? (Loaders.prefixMapRecords pm) d true = .ok c) ↔ Unique (Loaders.prefixMapRecords pm)) ∧
    (∀ c, Conv.init? (Loaders.prefixMapRecords pm) d true = .ok c → WF c) := by
  refine ⟨init?_ok_iff _ _, fun c hc => wf_of_init ?_ hc⟩
  intro r hr
  unfold Loaders.prefixMapRecords at hr
  obtain ⟨kv, _, rfl⟩ := List.mem_map.mp hr
  simp [RecOK]

theorem C04_loader_priority (data : List (Str × List Str)) (recs : List Record) (d : Str)
    (h : Loaders.priorityRecords data = .ok recs) :
    ((∃ c, Conv.init? recs d true = .ok c) ↔ Unique recs) ∧ (∀ c, Conv.init? recs d true = .ok c → WF c) := by
  refine ⟨init?_ok_iff _ _, fun c hc => wf_of_init ?_ hc⟩
  intro r hr
  obtain ⟨kv, _, hf⟩ := mapM_ok_mem _ _ _ h r hr
  cases hk : kv.2 with
  | nil => simp [hk] at hf
  | cons u us =>
    simp only [hk] at hf
    have := validate_ok hf
    rw [this.1]; exact this.2

/-- Non-vacuity and the order of the two errors: a collection with both a URI clash and a CURIE
clash reports the URI clash; a synonym-vs-synonym CURIE clash alone reports `DuplicatePrefixes`. -/
example :
    (match Conv.init? [⟨[97], [117], [[120]], [], none⟩, ⟨[98], [118], [[120]], [[117]], none⟩] [58] true with
      | .error e => some e | .ok _ => none) = some .dupUri ∧
    (match Conv.init? [⟨[97], [117], [[120]], [], none⟩, ⟨[98], [118], [[120]], [], none⟩] [58] true with
      | .error e => some e | .ok _ => none) = some .dupPrefix := by
  decide
