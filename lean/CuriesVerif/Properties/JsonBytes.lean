import CuriesVerif.Model.JsonFiles
import CuriesVerif.Lemmas.Json
import CuriesVerif.Lemmas.Sort
import CuriesVerif.Properties.C14
import CuriesVerif.Properties.C13

/-!
# C14 down to the characters of the JSON files

`Model/Json.lean` models `json.dumps` / `json.loads` on the text; here the two JSON writers of the library are
composed with it: what `write_extended_prefix_map` and `write_jsonld_context` put on disk reads back — through the
modelled parser, not through an assumed inverse — to the record dictionaries resp. the context that was written.
-/

open JsonText JsonFiles Writers

/-- every character of every string of the record is a Unicode scalar value -/
def Record.ScalarStrs (r : Record) : Prop :=
  (∀ c ∈ r.pfx, Scalar c) ∧ (∀ c ∈ r.uri, Scalar c) ∧ (∀ s ∈ r.pSyn, ∀ c ∈ s, Scalar c) ∧
  (∀ s ∈ r.uSyn, ∀ c ∈ s, Scalar c) ∧ (∀ p, r.pattern = some p → ∀ c ∈ p, Scalar c)

theorem wfList_map {α} (f : α → JV) (l : List α) (h : ∀ x ∈ l, Wf (f x)) : WfList (l.map f) := by
  induction l with
  | nil => simp [WfList]
  | cons a as ih =>
    simp only [List.map_cons, WfList]
    exact ⟨h a (by simp), ih (fun x hx => h x (by simp [hx]))⟩

theorem wf_strs (l : List Str) (h : ∀ s ∈ l, ∀ c ∈ s, Scalar c) : Wf (.arr (l.map .str)) := by
  simp only [Wf]
  exact wfList_map _ l (fun s hs => by simpa [Wf] using h s hs)

theorem scalar_key (k : Str) (hk : k ∈ [kPattern, kPrefix, kPSyn, kUri, kUSyn, kContext, kId, kAtPrefix]) :
    ∀ c ∈ k, Scalar c := by
  simp only [List.mem_cons, List.not_mem_nil, or_false] at hk
  rcases hk with rfl | rfl | rfl | rfl | rfl | rfl | rfl | rfl <;>
    simp [kPattern, kPrefix, kPSyn, kUri, kUSyn, kContext, kId, kAtPrefix, Scalar]

theorem wfMembers_append (a b : List (Str × JV)) : WfMembers (a ++ b) ↔ WfMembers a ∧ WfMembers b := by
  induction a with
  | nil => simp [WfMembers]
  | cons kv a ih =>
    obtain ⟨k, v⟩ := kv
    simp only [List.cons_append, WfMembers, ih]
    constructor
    · rintro ⟨h1, h2, h3, h4⟩; exact ⟨⟨h1, h2, h3⟩, h4⟩
    · rintro ⟨⟨h1, h2, h3⟩, h4⟩; exact ⟨h1, h2, h3, h4⟩

theorem wfMembers_optMember (k : Str) (v : Option JV) (hk : ∀ c ∈ k, Scalar c) (hv : ∀ x, v = some x → Wf x) :
    WfMembers (optMember k v) := by
  cases v with
  | none => simp [optMember, WfMembers]
  | some x => simp only [optMember, WfMembers, and_true]; exact ⟨hk, hv x rfl⟩

theorem truePattern_scalar (r : Record) (h : ∀ p, r.pattern = some p → ∀ c ∈ p, Scalar c) :
    ∀ p, r.truePattern = some p → ∀ c ∈ p, Scalar c := by
  intro p hp
  unfold Record.truePattern at hp
  cases hpat : r.pattern with
  | none => simp [hpat] at hp
  | some q =>
    simp only [hpat] at hp
    split at hp
    · cases hp
    · cases hp; exact h _ hpat

theorem wf_dictValue (r : Record) (h : r.ScalarStrs) : Wf (dictValue (recordToDict r)) := by
  obtain ⟨h1, h2, h3, h4, h5⟩ := h
  have hp := truePattern_scalar r h5
  have hps : ∀ s ∈ sortStrs r.pSyn, ∀ c ∈ s, Scalar c := fun s hs => h3 s ((mem_sortStrs _ _).mp hs)
  have hus : ∀ s ∈ sortStrs r.uSyn, ∀ c ∈ s, Scalar c := fun s hs => h4 s ((mem_sortStrs _ _).mp hs)
  unfold dictValue
  simp only [Wf]
  rw [wfMembers_append]
  refine ⟨wfMembers_optMember _ _ (scalar_key _ (by simp)) ?_, ?_⟩
  · intro x hx
    simp only [recordToDict, Option.map_eq_some_iff] at hx
    obtain ⟨p, hp', rfl⟩ := hx
    simpa [Wf] using hp p hp'
  · simp only [WfMembers]
    refine ⟨scalar_key _ (by simp), by simpa [Wf, recordToDict] using h1, ?_⟩
    rw [wfMembers_append]
    refine ⟨wfMembers_optMember _ _ (scalar_key _ (by simp)) ?_, ?_⟩
    · intro x hx
      simp only [recordToDict, Option.map_eq_some_iff] at hx
      obtain ⟨l, hl, rfl⟩ := hx
      split at hl
      · cases hl
      · cases hl; exact wf_strs _ hps
    · simp only [WfMembers]
      refine ⟨scalar_key _ (by simp), by simpa [Wf, recordToDict] using h2, ?_⟩
      refine wfMembers_optMember _ _ (scalar_key _ (by simp)) ?_
      intro x hx
      simp only [recordToDict, Option.map_eq_some_iff] at hx
      obtain ⟨l, hl, rfl⟩ := hx
      split at hl
      · cases hl
      · cases hl; exact wf_strs _ hus

theorem mapM_asStr (l : List Str) : (l.map JV.str).mapM asStr = some l := by
  induction l with
  | nil => rfl
  | cons a as ih => simp [List.mapM_cons, asStr, ih]

theorem asStrList_strs (l : List Str) : asStrList (.arr (l.map .str)) = some l := by
  unfold asStrList
  exact mapM_asStr l

theorem dictOfValue_dictValue (d : RecordDict) : dictOfValue (dictValue d) = some d := by
  obtain ⟨p, u, ps, us, pat⟩ := d
  cases pat <;> cases ps <;> cases us <;>
    simp [dictOfValue, dictValue, lookup, optField, optMember, asStr, asStrList_strs, kPattern, kPrefix, kPSyn, kUri, kUSyn]

/-- **C14 (extended prefix map, on disk).** The text `write_extended_prefix_map` writes — `json.dumps` with
`indent=4`, `sort_keys=True`, `ensure_ascii=False`, modelled character by character — parsed back by the modelled
`json.loads` and read as `Record(**dict)`, gives for every record the record `C14_epm` describes: same prefix, URI
prefix, synonym sets and pattern.  For all records whose strings consist of Unicode scalar values. -/
theorem C14_epm_bytes (recs : List Record) (h : ∀ r ∈ recs, r.ScalarStrs) :
    (epmRead (epmText recs)).map (·.map recordOfDict) = some (epmRoundtrip recs) := by
  have hw : Wf (epmValue recs) := by
    unfold epmValue
    simp only [Wf]
    exact wfList_map _ recs (fun r hr => wf_dictValue r (h r hr))
  unfold epmRead epmText
  rw [parse_render _ _ _ hw]
  unfold epmValue epmRoundtrip
  simp only
  have : (recs.map fun r => dictValue (recordToDict r)).mapM dictOfValue = some (recs.map recordToDict) := by
    induction recs with
    | nil => rfl
    | cons r rs ih =>
      simp only [List.map_cons, List.mapM_cons, dictOfValue_dictValue]
      rw [ih (fun x hx => h x (by simp [hx])) (by
        unfold epmValue at hw ⊢
        simp only [Wf, List.map_cons, WfList] at hw ⊢
        exact hw.2)]
      rfl
  rw [this]
  simp

/-- a context whose strings consist of Unicode scalar values -/
def ScalarCtx (ctx : List (Str × Loaders.JTerm)) : Prop :=
  ∀ kv ∈ ctx, (∀ c ∈ kv.1, Scalar c) ∧
    match kv.2 with
    | .str u => ∀ c ∈ u, Scalar c
    | .prefixDict (some u) => ∀ c ∈ u, Scalar c
    | _ => True

theorem termOfValue_termValue (t : Loaders.JTerm) : termOfValue (termValue t) = t := by
  cases t with
  | str u => rfl
  | prefixDict id =>
    cases id <;> simp [termValue, termOfValue, lookup, kId, kAtPrefix, asStr]
  | other => rfl

/-- **C14 (JSON-LD, on disk).** The text `write_jsonld_context` writes for a context — `json.dump` with `indent=4`
and the default `ensure_ascii=True`, so every non-ASCII character is written as `\uXXXX` escapes, characters beyond
the BMP as surrogate pairs — parsed back by the modelled `json.loads` is the context that was written, term by term:
plain strings, expanded `{"@id": ..., "@prefix": true}` terms, in the same order. -/
theorem C14_jsonld_bytes (ctx : List (Str × Loaders.JTerm)) (h : ScalarCtx ctx) :
    jsonldRead (jsonldText ctx) = some ctx := by
  have hw : Wf (jsonldValue ctx) := by
    unfold jsonldValue
    simp only [Wf, WfMembers, and_true]
    refine ⟨scalar_key _ (by simp), ?_⟩
    induction ctx with
    | nil => simp [WfMembers]
    | cons kv ctx ih =>
      obtain ⟨k, t⟩ := kv
      have hkv := h (k, t) (by simp)
      simp only [List.map_cons, WfMembers]
      refine ⟨hkv.1, ?_, ih (fun x hx => h x (by simp [hx]))⟩
      cases t with
      | str u => simpa [termValue, Wf] using hkv.2
      | prefixDict id =>
        cases id with
        | none => simp [termValue, Wf, WfMembers]; exact scalar_key _ (by simp)
        | some u =>
          simp only [termValue, Wf, WfMembers, and_true]
          exact ⟨scalar_key _ (by simp), by simpa using hkv.2, scalar_key _ (by simp)⟩
      | other => simp [termValue, Wf]
  unfold jsonldRead jsonldText
  rw [parse_render _ _ _ hw]
  simp only [jsonldValue, lookup, List.reverse_cons, List.reverse_nil, List.nil_append, List.find?_cons, beq_self_eq_true,
    Option.map_some, List.map_map]
  congr 1
  clear hw h
  induction ctx with
  | nil => rfl
  | cons kv ctx ih =>
    simp only [List.map_cons, Function.comp, termOfValue_termValue]
    congr 1

/-- **C14 (JSON-LD, on disk: the file is ASCII).** Whatever the prefixes and URI prefixes contain, the text
`write_jsonld_context` writes consists of ASCII characters only (`ensure_ascii=True`): reading it back does not depend
on the encoding the file was opened with, for any ASCII-compatible encoding. -/
theorem C14_jsonld_ascii (ctx : List (Str × Loaders.JTerm)) : ∀ c ∈ jsonldText ctx, c < 128 :=
  render_ascii ⟨some 4, true⟩ rfl (jsonldValue ctx) 0

/-- the reader raises only for a `{"@prefix": true}` term without `@id` -/
theorem jsonldPrefixMap_ok (ctx : List (Str × Loaders.JTerm)) (h : ∀ kv ∈ ctx, kv.2 ≠ .prefixDict none) :
    Loaders.jsonldPrefixMap ctx = .ok (ctx.filterMap jsonldTaken) := by
  have noerr : ∀ (l : List (Str × Loaders.JTerm)) (acc : List (Str × Str)),
      (∀ kv ∈ l, kv.2 ≠ .prefixDict none) →
      ∀ e, l.foldlM (fun acc kv =>
        if kv.1.isEmpty then (.ok acc : Except Err _)
        else if kv.1.head? == some 64 then .ok acc
        else match kv.2 with
          | .str s => .ok (acc ++ [(kv.1, s)])
          | .prefixDict (some id) => .ok (acc ++ [(kv.1, id)])
          | .prefixDict none => .error .keyError
          | .other => .ok acc) acc ≠ .error e := by
    intro l
    induction l with
    | nil => intro acc _ e h; simp [List.foldlM, pure, Except.pure] at h
    | cons kv kvs ih =>
      intro acc hl e h
      rw [List.foldlM_cons] at h
      have hkv := hl kv (by simp)
      have hrest : ∀ x ∈ kvs, x.2 ≠ .prefixDict none := fun x hx => hl x (by simp [hx])
      by_cases h1 : kv.1.isEmpty = true
      · simp only [h1, if_true, bind, Except.bind] at h; exact ih acc hrest e h
      · by_cases h2 : (kv.1.head? == some 64) = true
        · simp only [h1, h2, if_true, Bool.false_eq_true, if_false, bind, Except.bind] at h
          exact ih acc hrest e h
        · cases hk : kv.2 with
          | str s =>
            simp only [h1, h2, hk, Bool.false_eq_true, if_false, bind, Except.bind] at h
            exact ih _ hrest e h
          | prefixDict o =>
            cases o with
            | none => exact hkv hk
            | some id =>
              simp only [h1, h2, hk, Bool.false_eq_true, if_false, bind, Except.bind] at h
              exact ih _ hrest e h
          | other =>
            simp only [h1, h2, hk, Bool.false_eq_true, if_false, bind, Except.bind] at h
            exact ih acc hrest e h
  cases hres : Loaders.jsonldPrefixMap ctx with
  | ok pm => rw [C13_jsonld ctx pm hres]
  | error e =>
    unfold Loaders.jsonldPrefixMap at hres
    exact absurd hres (noerr ctx [] h e)

/-- **C14 (JSON-LD, end to end on the file).** `write_jsonld_context` sorts the terms by key (`sort_keys=True`) and
writes them as ASCII text; `json.load` followed by `from_jsonld`'s term filter, both as modelled, turn that text into
a prefix map holding exactly the canonical pairs — plus every CURIE-prefix synonym when `include_synonyms=True` — in
some order.  For all records with non-empty prefixes that do not start with `@` and strings of Unicode scalar values,
plain and expanded form. -/
theorem C14_jsonld_file (recs : List Record) (expand syn : Bool)
    (hsafe : ∀ r ∈ recs, ∀ p ∈ r.allP, p.isEmpty = false ∧ p.head? ≠ some 64) (hs : ∀ r ∈ recs, r.ScalarStrs) :
    ∃ ctx pm, jsonldRead (jsonldText (sortPairs (jsonldContext recs expand syn))) = some ctx ∧
      Loaders.jsonldPrefixMap ctx = .ok pm ∧
      pm.Perm (recs.flatMap fun r => (r.pfx, r.uri) :: (if syn then r.pSyn.map fun s => (s, r.uri) else [])) := by
  have hmem : ∀ kv ∈ jsonldContext recs expand syn, ∃ r ∈ recs, kv.1 ∈ r.allP ∧
      kv.2 = (if expand then Loaders.JTerm.prefixDict (some r.uri) else .str r.uri) := by
    intro kv hkv
    unfold jsonldContext at hkv
    obtain ⟨r, hr, hm⟩ := List.mem_flatMap.mp hkv
    refine ⟨r, hr, ?_⟩
    rcases List.mem_cons.mp hm with rfl | hm
    · exact ⟨by simp [Record.allP], rfl⟩
    · cases syn with
      | false => simp at hm
      | true =>
        simp only [if_true, List.mem_map] at hm
        obtain ⟨s, hs', rfl⟩ := hm
        exact ⟨by simp [Record.allP, hs'], rfl⟩
  have hperm : (sortPairs (jsonldContext recs expand syn)).Perm (jsonldContext recs expand syn) := isort_perm _ _
  have hsc : ScalarCtx (sortPairs (jsonldContext recs expand syn)) := by
    intro kv hkv
    obtain ⟨r, hr, hk, hv⟩ := hmem kv (hperm.mem_iff.mp hkv)
    obtain ⟨h1, h2, h3, _, _⟩ := hs r hr
    refine ⟨?_, ?_⟩
    · simp only [Record.allP, List.mem_cons] at hk
      rcases hk with e | e
      · rw [e]; exact h1
      · exact h3 _ e
    · rw [hv]; cases expand <;> simpa using h2
  have hne : ∀ kv ∈ sortPairs (jsonldContext recs expand syn), kv.2 ≠ .prefixDict none := by
    intro kv hkv
    obtain ⟨r, _, _, hv⟩ := hmem kv (hperm.mem_iff.mp hkv)
    rw [hv]; cases expand <;> simp
  refine ⟨_, _, C14_jsonld_bytes _ hsc, jsonldPrefixMap_ok _ hne, ?_⟩
  have h1 := C14_jsonld recs expand syn hsafe
  have h2 := jsonldPrefixMap_ok (jsonldContext recs expand syn) (fun kv hkv => by
    obtain ⟨r, _, _, hv⟩ := hmem kv hkv
    rw [hv]; cases expand <;> simp)
  rw [h2] at h1
  injection h1 with h1
  rw [← h1]
  exact hperm.filterMap _

theorem sortKeysList_strs (l : List Str) : sortKeysList (l.map JV.str) = l.map JV.str := by
  induction l with
  | nil => rfl
  | cons a as ih => simp [sortKeysList, JV.sortKeys, ih]

theorem isort_of_sorted {α} (le : α → α → Bool) (l : List α) (h : l.Pairwise (fun a b => le a b = true)) :
    isort le l = l := by
  induction l with
  | nil => rfl
  | cons a as ih =>
    have hp := List.pairwise_cons.mp h
    simp only [isort, ih hp.2]
    cases as with
    | nil => rfl
    | cons b bs => simp [insertBy, hp.1 b (by simp)]

/-- the five keys of a record dictionary are written in the order `sort_keys=True` puts them in: sorting changes nothing -/
theorem sortKeys_dictValue (d : RecordDict) : (dictValue d).sortKeys = dictValue d := by
  obtain ⟨p, u, ps, us, pat⟩ := d
  have k1 : strLe kPattern kPrefix = true := by decide
  have k2 : strLe kPattern kPSyn = true := by decide
  have k3 : strLe kPattern kUri = true := by decide
  have k4 : strLe kPattern kUSyn = true := by decide
  have k5 : strLe kPrefix kPSyn = true := by decide
  have k6 : strLe kPrefix kUri = true := by decide
  have k7 : strLe kPrefix kUSyn = true := by decide
  have k8 : strLe kPSyn kUri = true := by decide
  have k9 : strLe kPSyn kUSyn = true := by decide
  have k10 : strLe kUri kUSyn = true := by decide
  cases pat <;> cases ps <;> cases us <;>
    simp only [dictValue, optMember, JV.sortKeys, sortKeysMembers, sortKeysList_strs, Option.map_some, Option.map_none,
      List.nil_append, List.cons_append, sortPairs] <;>
    (first | rfl | (congr 1; done) | (congr 1; apply isort_of_sorted; simp [k1, k2, k3, k4, k5, k6, k7, k8, k9, k10]))

theorem sortKeys_epmValue (recs : List Record) : (epmValue recs).sortKeys = epmValue recs := by
  unfold epmValue
  simp only [JV.sortKeys]
  congr 1
  induction recs with
  | nil => rfl
  | cons r rs ih => simp only [List.map_cons, sortKeysList, sortKeys_dictValue, ih]

/-- **C14 (extended prefix map: `sort_keys=True` is accounted for).** `epmText` — the text `C14_epm_bytes` speaks
about — is what `json.dumps(..., sort_keys=True)` writes for the list of record dictionaries: sorting the keys of every
object leaves the value as it is. -/
theorem C14_epm_sorted (recs : List Record) :
    render ⟨some 4, false⟩ 0 (epmValue recs).sortKeys = epmText recs := by
  rw [sortKeys_epmValue]; rfl

/-- Non-vacuity: a record with a quote, a line feed, a non-BMP character and a backslash in its strings reads back;
the JSON-LD text of an expanded term with a non-ASCII, non-BMP prefix is pure ASCII and reads back. -/
example :
    (epmRead (epmText [{ pfx := [97, 34, 10], uri := [104, 128512, 92], pSyn := [[233]], pattern := some [94, 92, 100] }])).map
        (·.map recordOfDict) =
      some [{ pfx := [97, 34, 10], uri := [104, 128512, 92], pSyn := [[233]], pattern := some [94, 92, 100] }] := by
  decide +kernel

example :
    (jsonldText [([233, 128512], .prefixDict (some [104]))]).all (· < 128) = true ∧
    (jsonldRead (jsonldText [([233, 128512], .prefixDict (some [104]))])).isSome = true := by
  decide +kernel
