import CuriesVerif.Model.JsonFiles
import CuriesVerif.Lemmas.Json
import CuriesVerif.Lemmas.Sort
import CuriesVerif.Properties.C14

/-!
# C14 down to the characters of the JSON files

`Model/Json.lean` models `json.dumps` / `json.loads` on the text; here the two JSON writers of the library are
composed with it: what `write_extended_prefix_map` and `write_jsonld_context` put on disk reads back — through the
modelled parser, not through an assumed inverse — to the record dictionaries resp. the context that was written.
-/

open JsonText JsonFiles Writers

/-- every character of every string of the record is a Unicode scalar value -/
def Record.ScalarStrs (r : Record) : Prop :=
  (∀ c ∈ r.pfx, Scalar c) ∧ (∀ c ∈ r.uri, Scalar c) ∧ (∀ s ∈ r.pSyn, ∀ c ∈ s, Scalar c) ∧
  (∀ s ∈ r.uSyn, ∀ c ∈ s, Scalar c) ∧ (∀ p, r.pattern = some p → ∀ c ∈ p, Scalar c)

theorem wfList_map {α} (f : α → JV) (l : List α) (h : ∀ x ∈ l, Wf (f x)) : WfList (l.map f) := by
  induction l with
  | nil => simp [WfList]
  | cons a as ih =>
    simp only [List.map_cons, WfList]
    exact ⟨h a (by simp), ih (fun x hx => h x (by simp [hx]))⟩

theorem wf_strs (l : List Str) (h : ∀ s ∈ l, ∀ c ∈ s, Scalar c) : Wf (.arr (l.map .str)) := by
  simp only [Wf]
  exact wfList_map _ l (fun s hs => by simpa [Wf] using h s hs)

theorem scalar_key (k : Str) (hk : k ∈ [kPattern, kPrefix, kPSyn, kUri, kUSyn, kContext, kId, kAtPrefix]) :
    ∀ c ∈ k, Scalar c := by
  simp only [List.mem_cons, List.not_mem_nil, or_false] at hk
  rcases hk with rfl | rfl | rfl | rfl | rfl | rfl | rfl | rfl <;>
    simp [kPattern, kPrefix, kPSyn, kUri, kUSyn, kContext, kId, kAtPrefix, Scalar]

theorem wfMembers_append (a b : List (Str × JV)) : WfMembers (a ++ b) ↔ WfMembers a ∧ WfMembers b := by
  induction a with
  | nil => simp [WfMembers]
  | cons kv a ih =>
    obtain ⟨k, v⟩ := kv
    simp only [List.cons_append, WfMembers, ih]
    constructor
    · rintro ⟨h1, h2, h3, h4⟩; exact ⟨⟨h1, h2, h3⟩, h4⟩
    · rintro ⟨⟨h1, h2, h3⟩, h4⟩; exact ⟨h1, h2, h3, h4⟩

theorem wfMembers_optMember (k : Str) (v : Option JV) (hk : ∀ c ∈ k, Scalar c) (hv : ∀ x, v = some x → Wf x) :
    WfMembers (optMember k v) := by
  cases v with
  | none => simp [optMember, WfMembers]
  | some x => simp only [optMember, WfMembers, and_true]; exact ⟨hk, hv x rfl⟩

theorem truePattern_scalar (r : Record) (h : ∀ p, r.pattern = some p → ∀ c ∈ p, Scalar c) :
    ∀ p, r.truePattern = some p → ∀ c ∈ p, Scalar c := by
  intro p hp
  unfold Record.truePattern at hp
  cases hpat : r.pattern with
  | none => simp [hpat] at hp
  | some q =>
    simp only [hpat] at hp
    split at hp
    · cases hp
    · cases hp; exact h _ hpat

theorem wf_dictValue (r : Record) (h : r.ScalarStrs) : Wf (dictValue (recordToDict r)) := by
  obtain ⟨h1, h2, h3, h4, h5⟩ := h
  have hp := truePattern_scalar r h5
  have hps : ∀ s ∈ sortStrs r.pSyn, ∀ c ∈ s, Scalar c := fun s hs => h3 s ((mem_sortStrs _ _).mp hs)
  have hus : ∀ s ∈ sortStrs r.uSyn, ∀ c ∈ s, Scalar c := fun s hs => h4 s ((mem_sortStrs _ _).mp hs)
  unfold dictValue
  simp only [Wf]
  rw [wfMembers_append]
  refine ⟨wfMembers_optMember _ _ (scalar_key _ (by simp)) ?_, ?_⟩
  · intro x hx
    simp only [recordToDict, Option.map_eq_some_iff] at hx
    obtain ⟨p, hp', rfl⟩ := hx
    simpa [Wf] using hp p hp'
  · simp only [WfMembers]
    refine ⟨scalar_key _ (by simp), by simpa [Wf, recordToDict] using h1, ?_⟩
    rw [wfMembers_append]
    refine ⟨wfMembers_optMember _ _ (scalar_key _ (by simp)) ?_, ?_⟩
    · intro x hx
      simp only [recordToDict, Option.map_eq_some_iff] at hx
      obtain ⟨l, hl, rfl⟩ := hx
      split at hl
      · cases hl
      · cases hl; exact wf_strs _ hps
    · simp only [WfMembers]
      refine ⟨scalar_key _ (by simp), by simpa [Wf, recordToDict] using h2, ?_⟩
      refine wfMembers_optMember _ _ (scalar_key _ (by simp)) ?_
      intro x hx
      simp only [recordToDict, Option.map_eq_some_iff] at hx
      obtain ⟨l, hl, rfl⟩ := hx
      split at hl
      · cases hl
      · cases hl; exact wf_strs _ hus

theorem mapM_asStr (l : List Str) : (l.map JV.str).mapM asStr = some l := by
  induction l with
  | nil => rfl
  | cons a as ih => simp [List.mapM_cons, asStr, ih]

theorem asStrList_strs (l : List Str) : asStrList (.arr (l.map .str)) = some l := by
  unfold asStrList
  exact mapM_asStr l

theorem dictOfValue_dictValue (d : RecordDict) : dictOfValue (dictValue d) = some d := by
  obtain ⟨p, u, ps, us, pat⟩ := d
  cases pat <;> cases ps <;> cases us <;>
    simp [dictOfValue, dictValue, lookup, optField, optMember, asStr, asStrList_strs, kPattern, kPrefix, kPSyn, kUri, kUSyn]

/-- **C14 (extended prefix map, on disk).** The text `write_extended_prefix_map` writes — `json.dumps` with
`indent=4`, `sort_keys=True`, `ensure_ascii=False`, modelled character by character — parsed back by the modelled
`json.loads` and read as `Record(**dict)`, gives for every record the record `C14_epm` describes: same prefix, URI
prefix, synonym sets and pattern.  For all records whose strings consist of Unicode scalar values. -/
theorem C14_epm_bytes (recs : List Record) (h : ∀ r ∈ recs, r.ScalarStrs) :
    (epmRead (epmText recs)).map (·.map recordOfDict) = some (epmRoundtrip recs) := by
  have hw : Wf (epmValue recs) := by
    unfold epmValue
    simp only [Wf]
    exact wfList_map _ recs (fun r hr => wf_dictValue r (h r hr))
  unfold epmRead epmText
  rw [parse_render _ _ _ hw]
  unfold epmValue epmRoundtrip
  simp only
  have : (recs.map fun r => dictValue (recordToDict r)).mapM dictOfValue = some (recs.map recordToDict) := by
    induction recs with
    | nil => rfl
    | cons r rs ih =>
      simp only [List.map_cons, List.mapM_cons, dictOfValue_dictValue]
      rw [ih (fun x hx => h x (by simp [hx])) (by
        unfold epmValue at hw ⊢
        simp only [Wf, List.map_cons, WfList] at hw ⊢
        exact hw.2)]
      rfl
  rw [this]
  simp

/-- a context whose strings consist of Unicode scalar values -/
def ScalarCtx (ctx : List (Str × Loaders.JTerm)) : Prop :=
  ∀ kv ∈ ctx, (∀ c ∈ kv.1, Scalar c) ∧
    match kv.2 with
    | .str u => ∀ c ∈ u, Scalar c
    | .prefixDict (some u) => ∀ c ∈ u, Scalar c
    | _ => True

theorem termOfValue_termValue (t : Loaders.JTerm) : termOfValue (termValue t) = t := by
  cases t with
  | str u => rfl
  | prefixDict id =>
    cases id <;> simp [termValue, termOfValue, lookup, kId, kAtPrefix, asStr]
  | other => rfl

/-- **C14 (JSON-LD, on disk).** The text `write_jsonld_context` writes for a context — `json.dump` with `indent=4`
and the default `ensure_ascii=True`, so every non-ASCII character is written as `\uXXXX` escapes, characters beyond
the BMP as surrogate pairs — parsed back by the modelled `json.loads` is the context that was written, term by term:
plain strings, expanded `{"@id": ..., "@prefix": true}` terms, in the same order. -/
theorem C14_jsonld_bytes (ctx : List (Str × Loaders.JTerm)) (h : ScalarCtx ctx) :
    jsonldRead (jsonldText ctx) = some ctx := by
  have hw : Wf (jsonldValue ctx) := by
    unfold jsonldValue
    simp only [Wf, WfMembers, and_true]
    refine ⟨scalar_key _ (by simp), ?_⟩
    induction ctx with
    | nil => simp [WfMembers]
    | cons kv ctx ih =>
      obtain ⟨k, t⟩ := kv
      have hkv := h (k, t) (by simp)
      simp only [List.map_cons, WfMembers]
      refine ⟨hkv.1, ?_, ih (fun x hx => h x (by simp [hx]))⟩
      cases t with
      | str u => simpa [termValue, Wf] using hkv.2
      | prefixDict id =>
        cases id with
        | none => simp [termValue, Wf, WfMembers]; exact scalar_key _ (by simp)
        | some u =>
          simp only [termValue, Wf, WfMembers, and_true]
          exact ⟨scalar_key _ (by simp), by simpa using hkv.2, scalar_key _ (by simp)⟩
      | other => simp [termValue, Wf]
  unfold jsonldRead jsonldText
  rw [parse_render _ _ _ hw]
  simp only [jsonldValue, lookup, List.reverse_cons, List.reverse_nil, List.nil_append, List.find?_cons, beq_self_eq_true,
    Option.map_some, List.map_map]
  congr 1
  clear hw h
  induction ctx with
  | nil => rfl
  | cons kv ctx ih =>
    simp only [List.map_cons, Function.comp, termOfValue_termValue]
    congr 1

/-- Non-vacuity: a record with a quote, a line feed, a non-BMP character and a backslash in its strings reads back;
the JSON-LD text of an expanded term with a non-ASCII, non-BMP prefix is pure ASCII and reads back. -/
example :
    (epmRead (epmText [{ pfx := [97, 34, 10], uri := [104, 128512, 92], pSyn := [[233]], pattern := some [94, 92, 100] }])).map
        (·.map recordOfDict) =
      some [{ pfx := [97, 34, 10], uri := [104, 128512, 92], pSyn := [[233]], pattern := some [94, 92, 100] }] := by
  decide +kernel

example :
    (jsonldText [([233, 128512], .prefixDict (some [104]))]).all (· < 128) = true ∧
    (jsonldRead (jsonldText [([233, 128512], .prefixDict (some [104]))])).isSome = true := by
  decide +kernel
