import CuriesVerif.Properties.C06
import CuriesVerif.Properties.C05
import CuriesVerif.Properties.C09

/-!
# What a converter advertises is what it resolves (C04 / C05, `get_prefixes` / `get_uri_prefixes`)

`get_prefixes` and `get_uri_prefixes` read the record list; `standardize_prefix` reads the
`synonym_to_prefix` dictionary and `parse_uri` the trie.  For every well-formed converter — every
strict construction (`T1`) and every history of `add_record` / `add_prefix` on one
(`C05_histories`) — the two views coincide:

* a string is advertised as a CURIE prefix (synonyms included) iff `standardize_prefix` resolves it,
  and as a canonical one iff it is its own standard form;
* a string is advertised as a URI prefix (synonyms included) iff `parse_uri` consumes it entirely,
  and then the prefix it answers is the canonical prefix of the owning record.

These are the statements a user relies on when iterating over `get_prefixes()` and feeding the
elements back to the converter; the correspondence check reads `get_prefixes` / `get_uri_prefixes`
(with `include_synonyms=True`) of the implementation after every construction and history.
-/

open Spec

section
variable {c : Conv} (h : WF c)
include h

omit h in
theorem mem_getPrefixes_syn (p : Str) : p ∈ c.getPrefixes true ↔ ∃ r ∈ c.records, p ∈ r.allP := by
  simp only [Conv.getPrefixes, if_true, List.mem_append, List.mem_map, List.mem_flatMap, Record.allP,
    List.mem_cons]
  constructor
  · rintro (⟨r, hr, rfl⟩ | ⟨r, hr, hp⟩)
    · exact ⟨r, hr, Or.inl rfl⟩
    · exact ⟨r, hr, Or.inr hp⟩
  · rintro ⟨r, hr, (rfl | hp)⟩
    · exact Or.inl ⟨r, hr, rfl⟩
    · exact Or.inr ⟨r, hr, hp⟩

omit h in
theorem mem_getUriPrefixes_syn (u : Str) : u ∈ c.getUriPrefixes true ↔ ∃ r ∈ c.records, u ∈ r.allU := by
  simp only [Conv.getUriPrefixes, if_true, List.mem_append, List.mem_map, List.mem_flatMap, Record.allU,
    List.mem_cons]
  constructor
  · rintro (⟨r, hr, rfl⟩ | ⟨r, hr, hp⟩)
    · exact ⟨r, hr, Or.inl rfl⟩
    · exact ⟨r, hr, Or.inr hp⟩
  · rintro ⟨r, hr, (rfl | hp)⟩
    · exact Or.inl ⟨r, hr, rfl⟩
    · exact Or.inr ⟨r, hr, hp⟩

/-- **C04 / C05.** `get_prefixes(include_synonyms=True)` is exactly the set of strings
`standardize_prefix` resolves. -/
theorem C04_advertised_prefixes (p : Str) :
    p ∈ c.getPrefixes true ↔ ∃ q, c.standardizePrefix p false false = .ok (some q) := by
  rw [mem_getPrefixes_syn]
  constructor
  · rintro ⟨r, hr, hp⟩
    exact ⟨r.pfx, (C06_prefix h p r.pfx).mpr ⟨r, hr, hp, rfl⟩⟩
  · rintro ⟨q, hq⟩
    obtain ⟨r, hr, hp, _⟩ := (C06_prefix h p q).mp hq
    exact ⟨r, hr, hp⟩

/-- **C04 / C05.** `get_prefixes()` (canonical prefixes only) is exactly the set of fixed points of
`standardize_prefix`. -/
theorem C04_advertised_canonical (p : Str) :
    p ∈ c.getPrefixes false ↔ c.standardizePrefix p false false = .ok (some p) := by
  rw [C06_prefix h p p]
  simp only [Conv.getPrefixes, Bool.false_eq_true, if_false, List.append_nil, List.mem_map]
  constructor
  · rintro ⟨r, hr, rfl⟩
    exact ⟨r, hr, by simp [Record.allP], rfl⟩
  · rintro ⟨r, hr, _, hq⟩
    exact ⟨r, hr, hq.symm⟩

/-- **C04 / C05.** Every advertised URI prefix (synonyms included) is consumed entirely by `parse_uri`,
which answers the canonical prefix of the unique record that lists it. -/
theorem C04_advertised_uri (u : Str) (r : Record) (hr : r ∈ c.records) (hu : u ∈ r.allU) (s : Bool) :
    c.parseUri u s = .ok (some (r.pfx, [])) := by
  have hl : IsLongest c.records u u r :=
    ⟨hr, hu, List.prefix_refl u, fun _ _ _ _ hp => hp.length_le⟩
  have := (longest_iff h.unique u u r).mpr hl
  rw [parseUri_eq h]
  simp [Spec.parseUri, this]

/-- **C04 / C05.** `get_uri_prefixes(include_synonyms=True)` is exactly the set of strings `parse_uri`
consumes entirely. -/
theorem C04_advertised_uri_prefixes (u : Str) :
    u ∈ c.getUriPrefixes true ↔ ∃ p, c.parseUri u false = .ok (some (p, [])) := by
  rw [mem_getUriPrefixes_syn]
  constructor
  · rintro ⟨r, hr, hu⟩
    exact ⟨r.pfx, C04_advertised_uri h u r hr hu false⟩
  · rintro ⟨p, hp⟩
    rw [parseUri_eq h] at hp
    unfold Spec.parseUri at hp
    cases hlo : longest c.records u with
    | none => rw [hlo] at hp; simp at hp
    | some kr =>
      obtain ⟨k, r⟩ := kr
      rw [hlo] at hp
      simp only [Option.map_some, Except.ok.injEq, Option.some.injEq, Prod.mk.injEq] at hp
      have hl := isLongest_of_longest hlo
      have hk : k = u := by
        have hsplit := hl.split
        rw [hp.2] at hsplit
        simpa using hsplit.symm
      exact ⟨r, hl.1, hk ▸ hl.2.1⟩

/-- **C04 / C05.** The keys of `prefix_map` are exactly the advertised CURIE prefixes (synonyms included), and the
value under each is the canonical URI prefix of the unique record that lists it. -/
theorem C04_advertised_prefix_map (p : Str) :
    ((Dict.get c.prefixMap p).isSome = true ↔ p ∈ c.getPrefixes true) ∧
    ∀ r ∈ c.records, p ∈ r.allP → Dict.get c.prefixMap p = some r.uri ∧ Dict.get c.synToPrefix p = some r.pfx := by
  refine ⟨?_, fun r hr hp => ?_⟩
  · rw [h.mirror.pm, mem_getPrefixes_syn]
    cases ho : ownerP c.records p with
    | none =>
      simp only [Option.map_none, Option.isSome_none, Bool.false_eq_true, false_iff]
      rintro ⟨r, hr, hp⟩
      exact ownerP_none ho r hr hp
    | some r =>
      simp only [Option.map_some, Option.isSome_some, true_iff]
      exact ⟨r, (ownerP_some ho).1, (ownerP_some ho).2⟩
  · rw [h.mirror.pm, h.mirror.sp, ownerP_of_mem h.unique hr hp]
    exact ⟨rfl, rfl⟩

/-- **C04 / C05.** The keys of `reverse_prefix_map` and of the trie are exactly the advertised URI prefixes
(synonyms included), and the value under each is the canonical CURIE prefix of the unique record that lists it. -/
theorem C04_advertised_reverse_map (u : Str) :
    ((Dict.get c.revMap u).isSome = true ↔ u ∈ c.getUriPrefixes true) ∧
    ((Dict.get c.trie u).isSome = true ↔ u ∈ c.getUriPrefixes true) ∧
    ∀ r ∈ c.records, u ∈ r.allU → Dict.get c.revMap u = some r.pfx ∧ Dict.get c.trie u = some r.pfx := by
  have key : ((ownerU c.records u).map (·.pfx)).isSome = true ↔ u ∈ c.getUriPrefixes true := by
    rw [mem_getUriPrefixes_syn]
    cases ho : ownerU c.records u with
    | none =>
      simp only [Option.map_none, Option.isSome_none, Bool.false_eq_true, false_iff]
      rintro ⟨r, hr, hp⟩
      exact ownerU_none ho r hr hp
    | some r =>
      simp only [Option.map_some, Option.isSome_some, true_iff]
      exact ⟨r, (ownerU_some ho).1, (ownerU_some ho).2⟩
  refine ⟨by rw [h.mirror.rm]; exact key, by rw [h.mirror.tr]; exact key, fun r hr hu => ?_⟩
  rw [h.mirror.rm, h.mirror.tr, ownerU_of_mem h.unique hr hu]
  exact ⟨rfl, rfl⟩

end

/-- **C05 (histories).** After any history of `add_record` / `add_prefix` calls (any flags, any case folding,
rejected calls included) on a well-formed converter, the advertised sets are still exactly what the converter
resolves: the instantiation of the four `C04_advertised_*` theorems at every reachable state. -/
theorem C05_advertised_histories (fold : Str → Str) (c : Conv) (h : WF c) (ops : List AddOp)
    (hr : ∀ op ∈ ops, RecOK op.r) :
    let c' := runOps fold c ops
    (∀ p, p ∈ c'.getPrefixes true ↔ ∃ q, c'.standardizePrefix p false false = .ok (some q)) ∧
    (∀ p, p ∈ c'.getPrefixes false ↔ c'.standardizePrefix p false false = .ok (some p)) ∧
    (∀ u, u ∈ c'.getUriPrefixes true ↔ ∃ p, c'.parseUri u false = .ok (some (p, []))) ∧
    (∀ p, (Dict.get c'.prefixMap p).isSome = true ↔ p ∈ c'.getPrefixes true) ∧
    (∀ u, (Dict.get c'.revMap u).isSome = true ↔ u ∈ c'.getUriPrefixes true) := by
  intro c'
  have h' : WF c' := C05_histories fold c h ops hr
  exact ⟨C04_advertised_prefixes h', C04_advertised_canonical h', C04_advertised_uri_prefixes h',
    fun p => (C04_advertised_prefix_map h' p).1, fun u => (C04_advertised_reverse_map h' u).1⟩

/-- **C09 (union, in terms of the public getters).** A chain advertises exactly the union of what its inputs advertise,
on the CURIE side and on the URI side, and — being well-formed (`C09_wf`) — resolves exactly that. -/
theorem C09_union_advertised (fold : Str → Str) (convs : List Conv) (cs : Bool) (hw : ∀ c ∈ convs, WF c) (c' : Conv)
    (hok : Conv.chain fold convs cs = .ok c') :
    (∀ p, p ∈ c'.getPrefixes true ↔ ∃ c ∈ convs, p ∈ c.getPrefixes true) ∧
    (∀ k, k ∈ c'.getUriPrefixes true ↔ ∃ c ∈ convs, k ∈ c.getUriPrefixes true) ∧
    (∀ p, (∃ q, c'.standardizePrefix p false false = .ok (some q)) ↔ ∃ c ∈ convs, p ∈ c.getPrefixes true) := by
  obtain ⟨hP, hU⟩ := C09_union fold convs cs hw c' hok
  have h1 : ∀ p, p ∈ c'.getPrefixes true ↔ ∃ c ∈ convs, p ∈ c.getPrefixes true := by
    intro p
    rw [mem_getPrefixes_syn, hP p]
    constructor
    · rintro ⟨c, hc, hx⟩; exact ⟨c, hc, (mem_getPrefixes_syn p).mpr hx⟩
    · rintro ⟨c, hc, hx⟩; exact ⟨c, hc, (mem_getPrefixes_syn p).mp hx⟩
  refine ⟨h1, ?_, ?_⟩
  · intro k
    rw [mem_getUriPrefixes_syn, hU k]
    constructor
    · rintro ⟨c, hc, hx⟩; exact ⟨c, hc, (mem_getUriPrefixes_syn k).mpr hx⟩
    · rintro ⟨c, hc, hx⟩; exact ⟨c, hc, (mem_getUriPrefixes_syn k).mp hx⟩
  · intro p
    rw [← C04_advertised_prefixes (C09_wf fold convs cs hw c' hok) p]
    exact h1 p

/-- non-vacuity: the hypotheses are met by a concrete well-formed converter (the one of known finding K1), and the
advertised sets are not empty there -/
example : WF k1Conv ∧ k1Conv.getPrefixes true ≠ [] ∧ k1Conv.getUriPrefixes true ≠ [] :=
  ⟨k1Conv_wf, by decide, by decide⟩
