import CuriesVerif.Properties.C03

/-!
# C06 — standardisation is canonical, idempotent and meaning-preserving

`standardize_prefix` and `standardize_uri` clauses hold for every well-formed (strict)
converter.  The two `standardize_curie` laws (idempotence, meaning preservation) are proved
under `CanonDelimOK` (canonical prefixes can be split off again) and carry the suffix
`_partial`: the property quantifies over *all* strict converters, and there they are **false**
— `C06_curie_idem_fails_without_delimOK` proves the negation on a concrete strict converter
whose canonical prefix contains the delimiter (known finding K1).  The `standardize_uri` laws
are proved for prefix-free maps, as the property states, and
`C06_uri_idem_needs_prefixfree` shows the hypothesis is needed.
-/

open Spec

section
variable {c : Conv} (h : WF c)
include h

/-- **C06.** `standardize_prefix` maps every canonical prefix or synonym to the canonical prefix of
its record and nothing else. -/
theorem C06_prefix (p q : Str) :
    c.standardizePrefix p false false = .ok (some q) ↔ ∃ r ∈ c.records, p ∈ r.allP ∧ q = r.pfx := by
  rw [standardizePrefix_dflt h]
  unfold Spec.standardizePrefix
  cases ho : ownerP c.records p with
  | none =>
    simp only [Option.map_none, Except.ok.injEq]
    constructor
    · intro hh; cases hh
    · rintro ⟨r, hr, hp, _⟩; exact absurd hp (ownerP_none ho r hr)
  | some r =>
    simp only [Option.map_some, Except.ok.injEq, Option.some.injEq]
    constructor
    · intro hh; exact ⟨r, (ownerP_some ho).1, (ownerP_some ho).2, hh.symm⟩
    · rintro ⟨r', hr', hp', rfl⟩
      have := ownerP_of_mem h.unique hr' hp'
      rw [ho] at this
      cases this; rfl

/-- **C06.** `standardize_prefix` is idempotent. -/
theorem C06_prefix_idem (p q : Str) (hq : c.standardizePrefix p false false = .ok (some q)) :
    c.standardizePrefix q false false = .ok (some q) := by
  obtain ⟨r, hr, _, rfl⟩ := (C06_prefix h p q).mp hq
  exact (C06_prefix h r.pfx r.pfx).mpr ⟨r, hr, by simp [Record.allP], rfl⟩

/-- **C06.** `standardize_uri(u)` replaces the longest matching URI prefix of `u` by its record's
canonical URI prefix and keeps the identifier. -/
theorem C06_uri (u v : Str) :
    c.standardizeUri u false false = .ok (some v) ↔
      ∃ k r, IsLongest c.records u k r ∧ v = r.uri ++ u.drop k.length := by
  rw [standardizeUri_dflt h]
  constructor
  · intro hv; exact standardizeUri_some (by simpa using hv)
  · rintro ⟨k, r, hl, rfl⟩; rw [standardizeUri_of_isLongest h.unique hl]

/-- **C06 (prefix-free).** `standardize_uri` is idempotent. -/
theorem C06_uri_idem (hpf : PrefixFree c.records) (u v : Str)
    (hv : c.standardizeUri u false false = .ok (some v)) : c.standardizeUri v false false = .ok (some v) := by
  obtain ⟨k, r, hl, rfl⟩ := (C06_uri h u v).mp hv
  have hl' : IsLongest c.records (r.uri ++ u.drop k.length) r.uri r :=
    isLongest_append hpf hl.1 (by simp [Record.allU]) _
  rw [standardizeUri_dflt h, standardizeUri_of_isLongest h.unique hl']; simp

/-- **C06 (prefix-free).** `standardize_uri(u)` compresses to the same CURIE as `u`. -/
theorem C06_uri_meaning (hpf : PrefixFree c.records) (u v : Str)
    (hv : c.standardizeUri u false false = .ok (some v)) :
    c.compress v false false = c.compress u false false := by
  obtain ⟨k, r, hl, rfl⟩ := (C06_uri h u v).mp hv
  have hl' : IsLongest c.records (r.uri ++ u.drop k.length) r.uri r :=
    isLongest_append hpf hl.1 (by simp [Record.allU]) _
  rw [compress_dflt h, compress_dflt h, compress_of_isLongest h.unique hl', compress_of_isLongest h.unique hl]
  simp

variable (hd : c.delim ≠ [])
include hd

/-- **C06.** `standardize_curie` rewrites only the prefix part: split at the first delimiter,
replace the prefix by the canonical prefix of its record, keep the identifier. -/
theorem C06_curie (x : Str) :
    c.standardizeCurie x false false = .ok
      ((partition? c.delim x).bind fun pi =>
        (ownerP c.records pi.1).map fun r => r.pfx ++ c.delim ++ pi.2) := by
  rw [standardizeCurie_dflt h hd]
  unfold Spec.standardizeCurie Spec.parseCurie
  cases partition? c.delim x with
  | none => rfl
  | some pi =>
    simp only [Option.bind_some]
    cases ownerP c.records pi.1 <;> rfl

/-- **C06 (partial: canonical prefixes satisfy `DelimOK`).** `standardize_curie` is idempotent. -/
theorem C06_curie_idem_partial (hc : CanonDelimOK c) (x y : Str)
    (hy : c.standardizeCurie x false false = .ok (some y)) :
    c.standardizeCurie y false false = .ok (some y) := by
  rw [C06_curie h hd] at hy
  cases hp : partition? c.delim x with
  | none => simp [hp] at hy
  | some pi =>
    simp [hp] at hy
    obtain ⟨r, ho, rfl⟩ := hy
    have hr := (ownerP_some ho).1
    rw [standardizeCurie_dflt h hd, ← List.append_assoc, standardizeCurie_canonical h.unique hd hr (hc r hr)]

/-- **C06 (partial).** `standardize_curie(x)` expands to the same URI as `x`. -/
theorem C06_curie_meaning_partial (hc : CanonDelimOK c) (x y : Str)
    (hy : c.standardizeCurie x false false = .ok (some y)) :
    c.expand y false false = c.expand x false false := by
  rw [C06_curie h hd] at hy
  cases hp : partition? c.delim x with
  | none => simp [hp] at hy
  | some pi =>
    simp [hp] at hy
    obtain ⟨r, ho, rfl⟩ := hy
    have hr := (ownerP_some ho).1
    rw [expand_dflt h hd, expand_dflt h hd, ← List.append_assoc, expand_canonical h.unique hd hr (hc r hr)]
    unfold Spec.expand Spec.expandPair
    simp [hp, ho]

end

/-- the strict converter of known finding K1: `Record(prefix="a:b", prefix_synonyms=["ab"])` -/
def k1Conv : Conv := Conv.build [58] [⟨[97, 58, 98], [104], [[97, 98]], [], none⟩]

theorem k1Conv_wf : WF k1Conv :=
  ⟨by simp [k1Conv, Conv.build, Unique], by simp [k1Conv, Conv.build, RecOK],
   mirror_build _ (by simp [Unique])⟩

/-- **C06 is false for all strict converters (K1).** On a strict converter whose canonical prefix
contains the delimiter, `standardize_curie` is neither idempotent nor meaning-preserving:
`"ab:x" ↦ "a:b:x" ↦ None`, and `expand("ab:x") = "hx"` while `expand("a:b:x") = None`. -/
theorem C06_curie_idem_fails_without_delimOK :
    WF k1Conv ∧
    k1Conv.run ⟨"standardize_curie", [[97, 98, 58, 120]], false, false⟩ = .str [97, 58, 98, 58, 120] ∧
    k1Conv.run ⟨"standardize_curie", [[97, 58, 98, 58, 120]], false, false⟩ = .none ∧
    k1Conv.run ⟨"expand", [[97, 98, 58, 120]], false, false⟩ = .str [104, 120] ∧
    k1Conv.run ⟨"expand", [[97, 58, 98, 58, 120]], false, false⟩ = .none :=
  ⟨k1Conv_wf, by decide, by decide, by decide, by decide⟩

/-- a strict converter that is not prefix-free: `h/` (syn `x`) and `q/` (syn `h/a`) -/
def npfConv : Conv :=
  Conv.build [58] [⟨[65], [104, 47], [], [[120]], none⟩, ⟨[66], [113, 47], [], [[104, 47, 97]], none⟩]

/-- **The prefix-free hypothesis of `C06_uri_idem` is needed.** `"xa1" ↦ "h/a1" ↦ "q/1"`. -/
theorem C06_uri_idem_needs_prefixfree :
    Unique npfConv.records ∧
    npfConv.run ⟨"standardize_uri", [[120, 97, 49]], false, false⟩ = .str [104, 47, 97, 49] ∧
    npfConv.run ⟨"standardize_uri", [[104, 47, 97, 49]], false, false⟩ = .str [113, 47, 49] :=
  ⟨by simp [npfConv, Conv.build, Unique, Disj, Record.allP, Record.allU], by decide, by decide⟩

/-- Non-vacuity of the positive theorems: a prefix-free strict converter with synonyms on both
sides; inputs written with synonyms are changed, canonical ones are fixed points. -/
example :
    (match Conv.init? [⟨[71], [103, 47], [[103]], [[104, 47]], none⟩, ⟨[], [100, 47], [], [], none⟩] [58] true with
     | .ok c => [c.run ⟨"standardize_prefix", [[103]], false, false⟩, c.run ⟨"standardize_curie", [[103, 58, 49]], false, false⟩,
                 c.run ⟨"standardize_curie", [[71, 58, 49]], false, false⟩, c.run ⟨"standardize_uri", [[104, 47, 49]], false, false⟩,
                 c.run ⟨"standardize_uri", [[103, 47, 49]], false, false⟩, c.run ⟨"standardize_prefix", [[]], false, false⟩]
     | .error _ => [])
    = [.str [71], .str [71, 58, 49], .str [71, 58, 49], .str [103, 47, 49], .str [103, 47, 49], .str []] := by
  decide
