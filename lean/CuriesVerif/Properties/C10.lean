import CuriesVerif.Model.Heap
import CuriesVerif.Lemmas.Basic

/-!
# C10 — deriving a new converter never alters the converters it was derived from

Frame theorems at the aliasing level: every object that existed before a derivation has the
same content after it — hence every input converter has the same *view* (records, lookup
structures, and by `T0` every answer) — and the derived converter only references objects
created by the derivation, so follow-up `add_record` / `add_prefix(merge=True)` calls on it,
which write only to objects the converter references, cannot reach the inputs either.
The pre-repair `chain` is shown to violate the frame on a two-converter witness.
-/

/-- every object of `h` is still there, unchanged, in `h'` -/
def Frame (h h' : Heap) : Prop := ∀ i, i < h.length → h'[i]? = h[i]?

theorem Frame.refl (h : Heap) : Frame h h := fun _ _ => rfl

theorem Frame.trans {a b c : Heap} (h1 : Frame a b) (h2 : Frame b c) (hl : a.length ≤ b.length) : Frame a c :=
  fun i hi => (h2 i (Nat.lt_of_lt_of_le hi hl)).trans (h1 i hi)

theorem Frame.length_le {a b : Heap} (h : Frame a b) : a.length ≤ b.length := by
  cases ha : a.length with
  | zero => exact Nat.zero_le _
  | succ n =>
    have := h n (by omega)
    have h1 : a[n]? ≠ none := by
      rw [Ne, List.getElem?_eq_none_iff]; omega
    rw [← this] at h1
    have : n < b.length := by
      rcases Nat.lt_or_ge n b.length with h' | h'
      · exact h'
      · exact absurd (List.getElem?_eq_none_iff.mpr h') h1
    omega

theorem frame_append (h : Heap) (l : List Record) : Frame h (h ++ l) := by
  intro i hi
  exact List.getElem?_append_left hi

theorem frame_set (h : Heap) (n ref : Nat) (r : Record) (hn : n ≤ ref) :
    ∀ i, i < n → (h.set ref r)[i]? = h[i]? := by
  intro i hi
  rw [List.getElem?_set]
  have : ¬ ref = i := by omega
  simp [this]

/-- the view of a converter only depends on the objects it references -/
theorem view_frame (h h' : Heap) (c : HConv) (hf : Frame h h') (hr : ∀ r ∈ c.refs, r < h.length) :
    c.view h' = c.view h := by
  unfold HConv.view
  have : (c.refs.mapM fun r => h'[r]?) = (c.refs.mapM fun r => h[r]?) := by
    have : ∀ l : List Nat, (∀ r ∈ l, r < h.length) → (l.mapM fun r => h'[r]?) = (l.mapM fun r => h[r]?) := by
      intro l
      induction l with
      | nil => intro _; rfl
      | cons a as ih =>
        intro hl
        rw [List.mapM_cons, List.mapM_cons, hf a (hl a (by simp)), ih (fun r hr => hl r (by simp [hr]))]
    exact this c.refs hr
  rw [this]

/-- **C10 (one follow-up step).** `add_record` on a converter all of whose references are at or
above `n`, given a record object at or above `n`, leaves every object below `n` untouched, and
the converter still references only objects at or above `n`. -/
theorem C10_frame_followup (fold : Str → Str) (h h' : Heap) (c c' : HConv) (rnew n : Nat) (cs merge : Bool)
    (hown : ∀ r ∈ c.refs, n ≤ r) (hnew : n ≤ rnew)
    (hok : addRecordH fold h c rnew cs merge = .ok (h', c')) :
    (∀ i, i < n → h'[i]? = h[i]?) ∧ (∀ r ∈ c'.refs, n ≤ r) ∧ h'.length = h.length := by
  unfold addRecordH at hok
  split at hok
  · rename_i cv r hv hr
    split at hok
    · cases hok
      refine ⟨fun _ _ => rfl, ?_, rfl⟩
      intro x hx
      simp only [HConv.ofConv, List.mem_append, List.mem_singleton] at hx
      rcases hx with hx | hx
      · exact hown x hx
      · omega
    · split at hok
      · cases hok
      · split at hok
        · cases hok
        · split at hok
          · rename_i j _ ref existing href _
            cases hok
            have hmem : ref ∈ c.refs := List.mem_of_getElem? href
            exact ⟨frame_set h n ref _ (hown ref hmem), fun x hx => hown x hx, by simp⟩
          · cases hok
    · cases hok
  · cases hok

/-- **C10 (chain).** `chain` leaves every pre-existing object untouched, and the chained converter
references only objects created by the call. -/
theorem C10_frame_chain (fold : Str → Str) (h h' : Heap) (convs : List HConv) (cs : Bool) (c' : HConv)
    (hok : chainH fold h convs cs = .ok (h', c')) :
    Frame h h' ∧ ∀ r ∈ c'.refs, h.length ≤ r := by
  unfold chainH at hok
  split at hok
  · cases hok
  · -- invariant of the fold: frame w.r.t. `h`, ownership above `h.length`
    have key : ∀ (refs : List Nat) (acc : Heap × HConv),
        Frame h acc.1 → h.length ≤ acc.1.length → (∀ r ∈ acc.2.refs, h.length ≤ r) →
        refs.foldlM (fun (acc : Heap × HConv) ref =>
          match allocCopy acc.1 ref with
          | none => (.error .other : Except Err (Heap × HConv))
          | some (h', cp) => addRecordH fold h' acc.2 cp cs true) acc = .ok (h', c') →
        Frame h h' ∧ ∀ r ∈ c'.refs, h.length ≤ r := by
      intro refs
      induction refs with
      | nil =>
        intro acc hf _ hown hres
        simp [List.foldlM, pure, Except.pure] at hres
        subst hres; exact ⟨hf, hown⟩
      | cons ref rest ih =>
        intro acc hf hlen hown hres
        rw [List.foldlM_cons] at hres
        cases ha : allocCopy acc.1 ref with
        | none => simp [ha, bind, Except.bind] at hres
        | some hc =>
          obtain ⟨h1, cp⟩ := hc
          simp only [ha, bind, Except.bind] at hres
          unfold allocCopy at ha
          cases hr : acc.1[ref]? with
          | none => simp [hr] at ha
          | some rr =>
            simp [hr] at ha
            obtain ⟨rfl, rfl⟩ := ha
            cases hstep : addRecordH fold (acc.1 ++ [rr]) acc.2 acc.1.length cs true with
            | error e => simp [hstep] at hres
            | ok res =>
              obtain ⟨h2, c2⟩ := res
              simp only [hstep] at hres
              have ⟨f2, own2, len2⟩ := C10_frame_followup fold _ _ _ _ _ h.length cs true hown hlen hstep
              apply ih (h2, c2) ?_ ?_ own2 hres
              · intro i hi
                rw [f2 i hi, List.getElem?_append_left (Nat.lt_of_lt_of_le hi hlen)]
                exact hf i hi
              · simp only; rw [len2]; simp; omega
    exact key _ (h, HConv.ofConv Conv.empty []) (Frame.refl h) (Nat.le_refl _) (by simp [HConv.ofConv]) hok

/-- **C10 (get_subconverter, remap_curie_prefixes, remap_uri_prefixes, rewire, discover).** A
derivation that copies on entry leaves every pre-existing object untouched and returns a
converter that references only new objects. -/
theorem C10_frame_copy (h h' : Heap) (c c' : HConv) (f : Conv → Except Err Conv)
    (hok : deriveByCopyH h c f = .ok (h', c')) :
    Frame h h' ∧ ∀ r ∈ c'.refs, h.length ≤ r := by
  unfold deriveByCopyH at hok
  split at hok
  · cases hok
  · split at hok
    · cases hok
    · cases hok
      refine ⟨frame_append h _, ?_⟩
      intro r hr
      simp only [HConv.ofConv, List.mem_map, List.mem_range] at hr
      obtain ⟨a, _, rfl⟩ := hr
      omega

/-- follow-up history on a derived converter: each operation adds a record object created for the
call (`add_prefix` builds it; `add_record` is given one the inputs do not hold) -/
def followUps (fold : Str → Str) (h : Heap) (c : HConv) : List (Record × Bool × Bool) → Heap × HConv
  | [] => (h, c)
  | (r, cs, merge) :: ops =>
    match addRecordH fold (h ++ [r]) c h.length cs merge with
    | .ok (h', c') => followUps fold h' c' ops
    | .error _ => followUps fold (h ++ [r]) c ops

/-- **C10 (histories).** After a derivation and *any* finite sequence of follow-up operations on
the derived converter, every input converter has exactly the view it had before. -/
theorem C10_histories (fold : Str → Str) (n : Nat) (ops : List (Record × Bool × Bool)) (h : Heap) (c : HConv)
    (hn : n ≤ h.length) (hown : ∀ r ∈ c.refs, n ≤ r) (input : HConv) (hin : ∀ r ∈ input.refs, r < n) :
    ∀ h0 : Heap, h0.length = n → Frame h0 h → input.view (followUps fold h c ops).1 = input.view h0 := by
  induction ops generalizing h c with
  | nil =>
    intro h0 hl hf
    exact view_frame h0 h input hf (fun r hr => by rw [hl]; exact hin r hr)
  | cons op ops ih =>
    intro h0 hl hf
    obtain ⟨r, cs, merge⟩ := op
    simp only [followUps]
    have hf1 : Frame h0 (h ++ [r]) := fun i hi => by
      rw [List.getElem?_append_left (by omega)]; exact hf i hi
    cases hstep : addRecordH fold (h ++ [r]) c h.length cs merge with
    | error e =>
      simp only
      exact ih (h ++ [r]) c (by simp; omega) hown h0 hl hf1
    | ok res =>
      obtain ⟨h', c'⟩ := res
      simp only
      have ⟨f2, own2, len2⟩ := C10_frame_followup fold _ _ _ _ _ n cs merge hown hn hstep
      apply ih h' c' (by rw [len2]; simp; omega) own2 h0 hl
      intro i hi
      rw [f2 i (by omega)]; exact hf1 i hi

/-- **The pre-repair `chain` violated C10.**  Chaining `c1 = [A]` with `c2 = [A (synonym a)]`
without copying merges `a` into *c1's own* record object: object 0 of the heap changes. -/
theorem C10_chain_mutates_input_pinned :
    let h : Heap := [⟨[65], [117], [], [], none⟩, ⟨[65], [117], [[97]], [], none⟩]
    let c1 := HConv.ofConv (Conv.build [58] [⟨[65], [117], [], [], none⟩]) [0]
    let c2 := HConv.ofConv (Conv.build [58] [⟨[65], [117], [[97]], [], none⟩]) [1]
    (match chainPinnedH id h [c1, c2] true with
      | .ok (h', _) => h'[0]?
      | .error _ => none) = some ⟨[65], [117], [[97]], [], none⟩ ∧
    (match chainH id h [c1, c2] true with
      | .ok (h', _) => h'[0]?
      | .error _ => none) = some ⟨[65], [117], [], [], none⟩ := by
  decide



/-! ### the aliasing-level operations compute what the value-level operations compute -/

theorem mapM_getElem?_append {h : Heap} {refs : List Nat} {recs : List Record} (hv : refs.mapM (fun r => h[r]?) = some recs)
    (extra : List Record) : refs.mapM (fun r => (h ++ extra)[r]?) = some recs := by
  induction refs generalizing recs with
  | nil => simpa using hv
  | cons r rs ih =>
    rw [List.mapM_cons] at hv ⊢
    cases hr : h[r]? with
    | none => simp [hr] at hv
    | some x =>
      have hlt : r < h.length := by
        rcases Nat.lt_or_ge r h.length with h' | h'
        · exact h'
        · rw [List.getElem?_eq_none_iff.mpr h'] at hr; cases hr
      rw [List.getElem?_append_left hlt, hr]
      simp only [hr, Option.bind_eq_bind, Option.bind_some] at hv ⊢
      cases hm : rs.mapM (fun r => h[r]?) with
      | none => simp [hm] at hv
      | some xs =>
        rw [hm] at hv
        rw [ih hm]
        exact hv

theorem view_records {h : Heap} {c : HConv} {cv : Conv} (hv : c.view h = some cv) :
    c.refs.mapM (fun r => h[r]?) = some cv.records ∧ cv.delim = c.delim ∧ cv.prefixMap = c.prefixMap ∧
      cv.synToPrefix = c.synToPrefix ∧ cv.revMap = c.revMap ∧ cv.trie = c.trie ∧ cv.patMap = c.patMap := by
  unfold HConv.view at hv
  cases hm : c.refs.mapM (fun r => h[r]?) with
  | none => simp [hm] at hv
  | some recs =>
    rw [hm] at hv
    simp only [Option.map_some, Option.some.injEq] at hv
    subst hv
    exact ⟨rfl, rfl, rfl, rfl, rfl, rfl, rfl⟩

theorem mapM_snoc {α β : Type} (f : α → Option β) (l : List α) (a : α) (xs : List β) (x : β)
    (hl : l.mapM f = some xs) (ha : f a = some x) : (l ++ [a]).mapM f = some (xs ++ [x]) := by
  induction l generalizing xs with
  | nil =>
    simp only [List.mapM_nil, Option.pure_def, Option.some.injEq] at hl
    subst hl
    simp [List.mapM_cons, ha]
  | cons b bs ih =>
    rw [List.cons_append, List.mapM_cons]
    rw [List.mapM_cons] at hl
    cases hb : f b with
    | none => simp [hb] at hl
    | some y =>
      simp only [hb, Option.bind_eq_bind, Option.bind_some] at hl ⊢
      cases hm : bs.mapM f with
      | none => simp [hm] at hl
      | some ys =>
        rw [hm] at hl
        simp only [Option.bind_some, Option.pure_def, Option.some.injEq] at hl
        subst hl
        rw [ih ys hm]
        rfl

theorem mapM_congr_mem {α β : Type} (f g : α → Option β) (l : List α) (h : ∀ a ∈ l, f a = g a) :
    l.mapM f = l.mapM g := by
  induction l with
  | nil => rfl
  | cons a as ih =>
    rw [List.mapM_cons, List.mapM_cons, h a (by simp), ih (fun x hx => h x (by simp [hx]))]

theorem mapM_set_heap (h : Heap) (refs : List Nat) (recs : List Record) (j ref : Nat) (m : Record)
    (hv : refs.mapM (fun r => h[r]?) = some recs) (hnd : refs.Nodup) (hj : refs[j]? = some ref) :
    refs.mapM (fun r => (h.set ref m)[r]?) = some (recs.set j m) := by
  induction refs generalizing recs j with
  | nil => simp at hj
  | cons r rs ih =>
    rw [List.mapM_cons] at hv ⊢
    have hnd' := List.nodup_cons.mp hnd
    cases hr : h[r]? with
    | none => simp [hr] at hv
    | some x =>
      simp only [hr, Option.bind_eq_bind, Option.bind_some] at hv
      cases hm : rs.mapM (fun r => h[r]?) with
      | none => simp [hm] at hv
      | some xs =>
        rw [hm] at hv
        simp only [Option.bind_some, Option.pure_def, Option.some.injEq] at hv
        subst hv
        have hlt : r < h.length := by
          rcases Nat.lt_or_ge r h.length with h' | h'
          · exact h'
          · rw [List.getElem?_eq_none_iff.mpr h'] at hr; cases hr
        cases j with
        | zero =>
          simp only [List.getElem?_cons_zero, Option.some.injEq] at hj
          subst hj
          -- the head is the updated object; the tail does not mention it
          have htail : rs.mapM (fun q => (h.set r m)[q]?) = some xs := by
            rw [← hm]
            apply mapM_congr_mem
            intro q hq
            rw [List.getElem?_set]
            have : ¬ r = q := fun e => hnd'.1 (e ▸ hq)
            simp [this]
          have hhead : (h.set r m)[r]? = some m := by rw [List.getElem?_set]; simp [hlt]
          rw [hhead, htail]
          rfl
        | succ j' =>
          simp only [List.getElem?_cons_succ] at hj
          have hne : ref ≠ r := by
            intro e; subst e
            exact hnd'.1 (List.mem_of_getElem? hj)
          have := ih xs j' hm hnd'.2 hj
          have hhead : (h.set ref m)[r]? = some x := by rw [List.getElem?_set]; simp [hne, hr]
          rw [hhead, this]
          rfl

/-- **`add_record` at the aliasing level is `add_record` at the value level.** If the converter's
references are pairwise different objects and the new record is none of them, a successful
aliasing-level call corresponds to a successful value-level call on the converter's view, and the
new view is the value-level result. -/
theorem addRecordH_sim (fold : Str → Str) (h h' : Heap) (c c' : HConv) (rnew : Nat) (cs merge : Bool) (cv : Conv)
    (r : Record) (hv : c.view h = some cv) (hr : h[rnew]? = some r) (hnd : c.refs.Nodup) (hnew : rnew ∉ c.refs)
    (hok : addRecordH fold h c rnew cs merge = .ok (h', c')) :
    ∃ cv', cv.addRecord fold r cs merge = .ok cv' ∧ c'.view h' = some cv' ∧ c'.refs.Nodup := by
  obtain ⟨hrecs, e1, e2, e3, e4, e5, e6⟩ := view_records hv
  unfold addRecordH at hok
  rw [hv, hr] at hok
  simp only at hok
  unfold Conv.addRecord
  cases hk : cv.matchedKeys fold r cs with
  | nil =>
    rw [hk] at hok
    simp only [Except.ok.injEq, Prod.mk.injEq] at hok
    obtain ⟨rfl, rfl⟩ := hok
    refine ⟨_, rfl, ?_, ?_⟩
    · unfold HConv.view HConv.ofConv
      simp only
      rw [mapM_snoc _ c.refs rnew cv.records r hrecs hr]
      rfl
    · exact List.nodup_append.mpr ⟨hnd, by simp, by
        intro a ha b hb
        simp at hb; subst hb
        intro e; subst e; exact hnew ha⟩
  | cons key rest =>
    cases rest with
    | cons k2 r2 => rw [hk] at hok; cases hok
    | nil =>
      rw [hk] at hok
      simp only at hok
      by_cases hm : merge = true
      · subst hm
        simp only [Bool.not_true, Bool.false_eq_true, if_false] at hok ⊢
        cases hf : cv.records.findIdx? (fun x => x.key == key) with
        | none => rw [hf] at hok; cases hok
        | some j =>
          rw [hf] at hok
          simp only at hok ⊢
          cases hrj : c.refs[j]? with
          | none => rw [hrj] at hok; cases hok
          | some ref =>
            cases hej : cv.records[j]? with
            | none => rw [hrj, hej] at hok; cases hok
            | some existing =>
              rw [hrj, hej] at hok
              simp only [Except.ok.injEq, Prod.mk.injEq] at hok
              obtain ⟨rfl, rfl⟩ := hok
              refine ⟨_, rfl, ?_, hnd⟩
              unfold HConv.view HConv.ofConv
              simp only
              rw [mapM_set_heap h c.refs cv.records j ref _ hrecs hnd hrj]
              rfl
      · have hm' : merge = false := by simpa using hm
        subst hm'
        simp at hok

theorem view_refs_lt {h : Heap} {c : HConv} {cv : Conv} (hv : c.view h = some cv) : ∀ r ∈ c.refs, r < h.length := by
  have hm := (view_records hv).1
  intro r hr
  have key : ∀ (l : List Nat) (xs : List Record), l.mapM (fun q => h[q]?) = some xs → ∀ q ∈ l, q < h.length := by
    intro l
    induction l with
    | nil => intro xs _ q hq; cases hq
    | cons a as ih =>
      intro xs hx q hq
      rw [List.mapM_cons] at hx
      cases ha : h[a]? with
      | none => simp [ha] at hx
      | some y =>
        simp only [ha, Option.bind_eq_bind, Option.bind_some] at hx
        cases hm' : as.mapM (fun q => h[q]?) with
        | none => simp [hm'] at hx
        | some ys =>
          rcases List.mem_cons.mp hq with rfl | hq'
          · rcases Nat.lt_or_ge q h.length with h' | h'
            · exact h'
            · rw [List.getElem?_eq_none_iff.mpr h'] at ha; cases ha
          · exact ih ys hm' q hq'
  exact key _ _ hm r hr

theorem view_append {h : Heap} {c : HConv} {cv : Conv} (hv : c.view h = some cv) (extra : List Record) :
    c.view (h ++ extra) = some cv := by
  have hm := (view_records hv).1
  unfold HConv.view at hv ⊢
  rw [mapM_getElem?_append hm extra]
  rw [hm] at hv
  exact hv

/-- the fold of `chain`, aliasing level against value level: `rs` are the records behind `refs` in
the heap `h0` the inputs live in; the accumulator owns only objects allocated after `h0` -/
theorem chainFoldH_sim (fold : Str → Str) (cs : Bool) (h0 : Heap) :
    ∀ (refs : List Nat) (rs : List Record) (acc : Heap × HConv) (accv : Conv) (h' : Heap) (c' : HConv),
      refs.mapM (fun q => h0[q]?) = some rs →
      acc.2.view acc.1 = some accv → acc.2.refs.Nodup → (∀ r ∈ acc.2.refs, h0.length ≤ r) →
      (∀ i, i < h0.length → acc.1[i]? = h0[i]?) → h0.length ≤ acc.1.length →
      refs.foldlM (fun (acc : Heap × HConv) ref =>
        match allocCopy acc.1 ref with
        | none => (.error .other : Except Err (Heap × HConv))
        | some (h', cp) => addRecordH fold h' acc.2 cp cs true) acc = .ok (h', c') →
      ∃ cv', rs.foldlM (fun a r => a.addRecord fold r cs true) accv = .ok cv' ∧ c'.view h' = some cv' := by
  intro refs
  induction refs with
  | nil =>
    intro rs acc accv h' c' hrs hv _ _ _ _ hres
    simp only [List.mapM_nil, Option.pure_def, Option.some.injEq] at hrs
    subst hrs
    simp [List.foldlM, pure, Except.pure] at hres
    obtain ⟨rfl, rfl⟩ : acc = (h', c') := hres
    exact ⟨accv, rfl, hv⟩
  | cons ref rest ih =>
    intro rs acc accv h' c' hrs hv hnd hown hfr hlen hres
    rw [List.mapM_cons] at hrs
    cases hr0 : h0[ref]? with
    | none => simp [hr0] at hrs
    | some x =>
      simp only [hr0, Option.bind_eq_bind, Option.bind_some] at hrs
      cases hm : rest.mapM (fun q => h0[q]?) with
      | none => simp [hm] at hrs
      | some xs =>
        rw [hm] at hrs
        simp only [Option.bind_some, Option.pure_def, Option.some.injEq] at hrs
        subst hrs
        have hreflt : ref < h0.length := by
          rcases Nat.lt_or_ge ref h0.length with h'' | h''
          · exact h''
          · rw [List.getElem?_eq_none_iff.mpr h''] at hr0; cases hr0
        have hracc : acc.1[ref]? = some x := by rw [hfr ref hreflt]; exact hr0
        rw [List.foldlM_cons] at hres
        have ha : allocCopy acc.1 ref = some (acc.1 ++ [x], acc.1.length) := by
          unfold allocCopy; rw [hracc]; rfl
        rw [ha] at hres
        simp only [bind, Except.bind] at hres
        cases hstep : addRecordH fold (acc.1 ++ [x]) acc.2 acc.1.length cs true with
        | error e => simp [hstep] at hres
        | ok res =>
          obtain ⟨h2, c2⟩ := res
          simp only [hstep] at hres
          have hnew : acc.1.length ∉ acc.2.refs := fun hm' => Nat.lt_irrefl _ (view_refs_lt hv _ hm')
          obtain ⟨cv1, hpure, hv1, hnd1⟩ := addRecordH_sim fold (acc.1 ++ [x]) h2 acc.2 c2 acc.1.length cs true accv x
            (view_append hv [x]) (by simp) hnd hnew hstep
          have ⟨f2, own2, len2⟩ := C10_frame_followup fold _ _ _ _ _ h0.length cs true hown hlen hstep
          obtain ⟨cv', hfold, hview⟩ := ih xs (h2, c2) cv1 h' c' hm hv1 hnd1 own2
            (by
              intro i hi
              rw [f2 i hi, List.getElem?_append_left (Nat.lt_of_lt_of_le hi hlen)]
              exact hfr i hi)
            (by simp only; rw [len2]; simp; omega) hres
          refine ⟨cv', ?_, hview⟩
          rw [List.foldlM_cons, hpure]
          exact hfold

/-- **`chain` at the aliasing level computes `chain` at the value level.** If the aliasing-level
`chain` (records copied on entry, as after the repair F3) succeeds on converters whose views in the
heap are `cvs`, then the value-level `chain` of C09 succeeds on `cvs` and the returned converter's
view is its result — so everything C09 proves about `chain` holds of the object C10 talks about. -/
theorem C10_chain_refines (fold : Str → Str) (h h' : Heap) (convs : List HConv) (cs : Bool) (c' : HConv)
    (cvs : List Conv) (hviews : convs.mapM (fun c => c.view h) = some cvs)
    (hok : chainH fold h convs cs = .ok (h', c')) :
    ∃ cv', Conv.chain fold cvs cs = .ok cv' ∧ c'.view h' = some cv' := by
  unfold chainH at hok
  split at hok
  · cases hok
  · rename_i hne
    -- the records behind all references, in order
    have hall : ∀ (l : List HConv) (vs : List Conv), l.mapM (fun c => c.view h) = some vs →
        (l.flatMap (·.refs)).mapM (fun q => h[q]?) = some (vs.flatMap (·.records)) ∧ (l.isEmpty = vs.isEmpty) := by
      intro l
      induction l with
      | nil => intro vs hvs; simp only [List.mapM_nil, Option.pure_def, Option.some.injEq] at hvs; subst hvs; exact ⟨rfl, rfl⟩
      | cons a as ih =>
        intro vs hvs
        rw [List.mapM_cons] at hvs
        cases hav : a.view h with
        | none => simp [hav] at hvs
        | some av =>
          simp only [hav, Option.bind_eq_bind, Option.bind_some] at hvs
          cases hm : as.mapM (fun c => c.view h) with
          | none => simp [hm] at hvs
          | some avs =>
            rw [hm] at hvs
            simp only [Option.bind_some, Option.pure_def, Option.some.injEq] at hvs
            subst hvs
            have h1 := (view_records hav).1
            have h2 := (ih avs hm).1
            refine ⟨?_, rfl⟩
            rw [List.flatMap_cons, List.flatMap_cons]
            -- mapM over an append
            have app : ∀ (l1 l2 : List Nat) (x1 x2 : List Record), l1.mapM (fun q => h[q]?) = some x1 →
                l2.mapM (fun q => h[q]?) = some x2 → (l1 ++ l2).mapM (fun q => h[q]?) = some (x1 ++ x2) := by
              intro l1
              induction l1 with
              | nil => intro l2 x1 x2 e1 e2; simp only [List.mapM_nil, Option.pure_def, Option.some.injEq] at e1; subst e1; simpa using e2
              | cons b bs ihb =>
                intro l2 x1 x2 e1 e2
                rw [List.cons_append, List.mapM_cons]
                rw [List.mapM_cons] at e1
                cases hb : h[b]? with
                | none => simp [hb] at e1
                | some y =>
                  simp only [hb, Option.bind_eq_bind, Option.bind_some] at e1 ⊢
                  cases hbs : bs.mapM (fun q => h[q]?) with
                  | none => simp [hbs] at e1
                  | some ys =>
                    rw [hbs] at e1
                    simp only [Option.bind_some, Option.pure_def, Option.some.injEq] at e1
                    subst e1
                    rw [ihb l2 ys x2 hbs e2]
                    rfl
            exact app _ _ _ _ h1 h2
    obtain ⟨hrecs, hemp⟩ := hall convs cvs hviews
    have hne' : cvs.isEmpty = false := by rw [← hemp]; simpa using hne
    obtain ⟨cv', hfold, hview⟩ := chainFoldH_sim fold cs h (convs.flatMap (·.refs)) _ (h, HConv.ofConv Conv.empty [])
      Conv.empty h' c' hrecs (by simp [HConv.view, HConv.ofConv, Conv.empty, Conv.build]) (by simp [HConv.ofConv])
      (by simp [HConv.ofConv]) (fun _ _ => rfl) (Nat.le_refl _) hok
    refine ⟨cv', ?_, hview⟩
    unfold Conv.chain
    rw [hne']
    simp only [Bool.false_eq_true, if_false]
    exact hfold

theorem mapM_range_append (h : Heap) (l : List Record) :
    ((List.range l.length).map (· + h.length)).mapM (fun q => (h ++ l)[q]?) = some l := by
  have key : ∀ (l1 l2 : List Record),
      ((List.range l2.length).map (· + (h ++ l1).length)).mapM (fun q => ((h ++ l1) ++ l2)[q]?) = some l2 := by
    intro l1 l2
    induction l2 generalizing l1 with
    | nil => rfl
    | cons x xs ih =>
      rw [List.length_cons, List.range_succ_eq_map, List.map_cons, List.mapM_cons]
      have h0 : ((h ++ l1) ++ x :: xs)[0 + (h ++ l1).length]? = some x := by
        rw [Nat.zero_add, List.getElem?_append_right (Nat.le_refl _)]; simp
      rw [h0]
      simp only [Option.bind_eq_bind, Option.bind_some, List.map_map]
      have := ih (l1 ++ [x])
      have e1 : (h ++ (l1 ++ [x])) ++ xs = (h ++ l1) ++ x :: xs := by simp
      have e2 : (h ++ (l1 ++ [x])).length = (h ++ l1).length + 1 := by simp; omega
      rw [e1, e2] at this
      have e3 : (List.map ((fun x => x + (h ++ l1).length) ∘ Nat.succ) (List.range xs.length)) =
          List.map (fun x => x + ((h ++ l1).length + 1)) (List.range xs.length) := by
        apply List.map_congr_left
        intro a _
        simp only [Function.comp, Nat.succ_eq_add_one]; omega
      rw [e3, this]
      rfl
  have := key [] l
  simpa using this

/-- **The copy-on-entry derivations compute their value-level function.** -/
theorem C10_copy_refines (h h' : Heap) (c c' : HConv) (f : Conv → Except Err Conv)
    (hok : deriveByCopyH h c f = .ok (h', c')) :
    ∃ cv cv', c.view h = some cv ∧ f cv = .ok cv' ∧ c'.view h' = some cv' := by
  unfold deriveByCopyH at hok
  cases hv : c.view h with
  | none => rw [hv] at hok; cases hok
  | some cv =>
    rw [hv] at hok
    simp only at hok
    cases hf : f cv with
    | error e => rw [hf] at hok; cases hok
    | ok cv' =>
      rw [hf] at hok
      simp only [Except.ok.injEq, Prod.mk.injEq] at hok
      obtain ⟨rfl, rfl⟩ := hok
      refine ⟨cv, cv', rfl, hf, ?_⟩
      unfold HConv.view HConv.ofConv
      simp only
      rw [mapM_range_append]
      rfl

/-- Non-vacuity of the refinement: two inputs in one heap, chained at the aliasing level; the view of
the result is the value-level chain, and the inputs' objects are where they were. -/
example :
    (let h : Heap := [⟨[65], [117], [], [], none⟩, ⟨[66], [117], [[98]], [], none⟩]
     let c1 := HConv.ofConv (Conv.build [58] [⟨[65], [117], [], [], none⟩]) [0]
     let c2 := HConv.ofConv (Conv.build [58] [⟨[66], [117], [[98]], [], none⟩]) [1]
     match chainH id h [c1, c2] true with
     | .ok (h', c') => ((c'.view h').map (·.records), h'.take 2 == h, c'.refs)
     | .error _ => (none, false, []))
    = (some [⟨[65], [117], [[66], [98]], [], none⟩], true, [2]) := by
  decide
