import CuriesVerif.Model.Heap
import CuriesVerif.Lemmas.Basic

/-!
# C10 — deriving a new converter never alters the converters it was derived from

Frame theorems at the aliasing level: every object that existed before a derivation has the
same content after it — hence every input converter has the same *view* (records, lookup
structures, and by `T0` every answer) — and the derived converter only references objects
created by the derivation, so follow-up `add_record` / `add_prefix(merge=True)` calls on it,
which write only to objects the converter references, cannot reach the inputs either.
The pre-repair `chain` is shown to violate the frame on a two-converter witness.
-/

/-- every object of `h` is still there, unchanged, in `h'` -/
def Frame (h h' : Heap) : Prop := ∀ i, i < h.length → h'[i]? = h[i]?

theorem Frame.refl (h : Heap) : Frame h h := fun _ _ => rfl

theorem Frame.trans {a b c : Heap} (h1 : Frame a b) (h2 : Frame b c) (hl : a.length ≤ b.length) : Frame a c :=
  fun i hi => (h2 i (Nat.lt_of_lt_of_le hi hl)).trans (h1 i hi)

theorem Frame.length_le {a b : Heap} (h : Frame a b) : a.length ≤ b.length := by
  cases ha : a.length with
  | zero => exact Nat.zero_le _
  | succ n =>
    have := h n (by omega)
    have h1 : a[n]? ≠ none := by
      rw [Ne, List.getElem?_eq_none_iff]; omega
    rw [← this] at h1
    have : n < b.length := by
      rcases Nat.lt_or_ge n b.length with h' | h'
      · exact h'
      · exact absurd (List.getElem?_eq_none_iff.mpr h') h1
    omega

theorem frame_append (h : Heap) (l : List Record) : Frame h (h ++ l) := by
  intro i hi
  exact List.getElem?_append_left hi

theorem frame_set (h : Heap) (n ref : Nat) (r : Record) (hn : n ≤ ref) :
    ∀ i, i < n → (h.set ref r)[i]? = h[i]? := by
  intro i hi
  rw [List.getElem?_set]
  have : ¬ ref = i := by omega
  simp [this]

/-- the view of a converter only depends on the objects it references -/
theorem view_frame (h h' : Heap) (c : HConv) (hf : Frame h h') (hr : ∀ r ∈ c.refs, r < h.length) :
    c.view h' = c.view h := by
  unfold HConv.view
  have : (c.refs.mapM fun r => h'[r]?) = (c.refs.mapM fun r => h[r]?) := by
    have : ∀ l : List Nat, (∀ r ∈ l, r < h.length) → (l.mapM fun r => h'[r]?) = (l.mapM fun r => h[r]?) := by
      intro l
      induction l with
      | nil => intro _; rfl
      | cons a as ih =>
        intro hl
        rw [List.mapM_cons, List.mapM_cons, hf a (hl a (by simp)), ih (fun r hr => hl r (by simp [hr]))]
    exact this c.refs hr
  rw [this]

/-- **C10 (one follow-up step).** `add_record` on a converter all of whose references are at or
above `n`, given a record object at or above `n`, leaves every object below `n` untouched, and
the converter still references only objects at or above `n`. -/
theorem C10_frame_followup (fold : Str → Str) (h h' : Heap) (c c' : HConv) (rnew n : Nat) (cs merge : Bool)
    (hown : ∀ r ∈ c.refs, n ≤ r) (hnew : n ≤ rnew)
    (hok : addRecordH fold h c rnew cs merge = .ok (h', c')) :
    (∀ i, i < n → h'[i]? = h[i]?) ∧ (∀ r ∈ c'.refs, n ≤ r) ∧ h'.length = h.length := by
  unfold addRecordH at hok
  split at hok
  · rename_i cv r hv hr
    split at hok
    · cases hok
      refine ⟨fun _ _ => rfl, ?_, rfl⟩
      intro x hx
      simp only [HConv.ofConv, List.mem_append, List.mem_singleton] at hx
      rcases hx with hx | hx
      · exact hown x hx
      · omega
    · split at hok
      · cases hok
      · split at hok
        · cases hok
        · split at hok
          · rename_i j _ ref existing href _
            cases hok
            have hmem : ref ∈ c.refs := List.mem_of_getElem? href
            exact ⟨frame_set h n ref _ (hown ref hmem), fun x hx => hown x hx, by simp⟩
          · cases hok
    · cases hok
  · cases hok

/-- **C10 (chain).** `chain` leaves every pre-existing object untouched, and the chained converter
references only objects created by the call. -/
theorem C10_frame_chain (fold : Str → Str) (h h' : Heap) (convs : List HConv) (cs : Bool) (c' : HConv)
    (hok : chainH fold h convs cs = .ok (h', c')) :
    Frame h h' ∧ ∀ r ∈ c'.refs, h.length ≤ r := by
  unfold chainH at hok
  split at hok
  · cases hok
  · -- invariant of the fold: frame w.r.t. `h`, ownership above `h.length`
    have key : ∀ (refs : List Nat) (acc : Heap × HConv),
        Frame h acc.1 → h.length ≤ acc.1.length → (∀ r ∈ acc.2.refs, h.length ≤ r) →
        refs.foldlM (fun (acc : Heap × HConv) ref =>
          match allocCopy acc.1 ref with
          | none => (.error .other : Except Err (Heap × HConv))
          | some (h', cp) => addRecordH fold h' acc.2 cp cs true) acc = .ok (h', c') →
        Frame h h' ∧ ∀ r ∈ c'.refs, h.length ≤ r := by
      intro refs
      induction refs with
      | nil =>
        intro acc hf _ hown hres
        simp [List.foldlM, pure, Except.pure] at hres
        subst hres; exact ⟨hf, hown⟩
      | cons ref rest ih =>
        intro acc hf hlen hown hres
        rw [List.foldlM_cons] at hres
        cases ha : allocCopy acc.1 ref with
        | none => simp [ha, bind, Except.bind] at hres
        | some hc =>
          obtain ⟨h1, cp⟩ := hc
          simp only [ha, bind, Except.bind] at hres
          unfold allocCopy at ha
          cases hr : acc.1[ref]? with
          | none => simp [hr] at ha
          | some rr =>
            simp [hr] at ha
            obtain ⟨rfl, rfl⟩ := ha
            cases hstep : addRecordH fold (acc.1 ++ [rr]) acc.2 acc.1.length cs true with
            | error e => simp [hstep] at hres
            | ok res =>
              obtain ⟨h2, c2⟩ := res
              simp only [hstep] at hres
              have ⟨f2, own2, len2⟩ := C10_frame_followup fold _ _ _ _ _ h.length cs true hown hlen hstep
              apply ih (h2, c2) ?_ ?_ own2 hres
              · intro i hi
                rw [f2 i hi, List.getElem?_append_left (Nat.lt_of_lt_of_le hi hlen)]
                exact hf i hi
              · simp only; rw [len2]; simp; omega
    exact key _ (h, HConv.ofConv Conv.empty []) (Frame.refl h) (Nat.le_refl _) (by simp [HConv.ofConv]) hok

/-- **C10 (get_subconverter, remap_curie_prefixes, remap_uri_prefixes, rewire, discover).** A
derivation that copies on entry leaves every pre-existing object untouched and returns a
converter that references only new objects. -/
theorem C10_frame_copy (h h' : Heap) (c c' : HConv) (f : Conv → Except Err Conv)
    (hok : deriveByCopyH h c f = .ok (h', c')) :
    Frame h h' ∧ ∀ r ∈ c'.refs, h.length ≤ r := by
  unfold deriveByCopyH at hok
  split at hok
  · cases hok
  · split at hok
    · cases hok
    · cases hok
      refine ⟨frame_append h _, ?_⟩
      intro r hr
      simp only [HConv.ofConv, List.mem_map, List.mem_range] at hr
      obtain ⟨a, _, rfl⟩ := hr
      omega

/-- follow-up history on a derived converter: each operation adds a record object created for the
call (`add_prefix` builds it; `add_record` is given one the inputs do not hold) -/
def followUps (fold : Str → Str) (h : Heap) (c : HConv) : List (Record × Bool × Bool) → Heap × HConv
  | [] => (h, c)
  | (r, cs, merge) :: ops =>
    match addRecordH fold (h ++ [r]) c h.length cs merge with
    | .ok (h', c') => followUps fold h' c' ops
    | .error _ => followUps fold (h ++ [r]) c ops

/-- **C10 (histories).** After a derivation and *any* finite sequence of follow-up operations on
the derived converter, every input converter has exactly the view it had before. -/
theorem C10_histories (fold : Str → Str) (n : Nat) (ops : List (Record × Bool × Bool)) (h : Heap) (c : HConv)
    (hn : n ≤ h.length) (hown : ∀ r ∈ c.refs, n ≤ r) (input : HConv) (hin : ∀ r ∈ input.refs, r < n) :
    ∀ h0 : Heap, h0.length = n → Frame h0 h → input.view (followUps fold h c ops).1 = input.view h0 := by
  induction ops generalizing h c with
  | nil =>
    intro h0 hl hf
    exact view_frame h0 h input hf (fun r hr => by rw [hl]; exact hin r hr)
  | cons op ops ih =>
    intro h0 hl hf
    obtain ⟨r, cs, merge⟩ := op
    simp only [followUps]
    have hf1 : Frame h0 (h ++ [r]) := fun i hi => by
      rw [List.getElem?_append_left (by omega)]; exact hf i hi
    cases hstep : addRecordH fold (h ++ [r]) c h.length cs merge with
    | error e =>
      simp only
      exact ih (h ++ [r]) c (by simp; omega) hown h0 hl hf1
    | ok res =>
      obtain ⟨h', c'⟩ := res
      simp only
      have ⟨f2, own2, len2⟩ := C10_frame_followup fold _ _ _ _ _ n cs merge hown hn hstep
      apply ih h' c' (by rw [len2]; simp; omega) own2 h0 hl
      intro i hi
      rw [f2 i (by omega)]; exact hf1 i hi

/-- **The pre-repair `chain` violated C10.**  Chaining `c1 = [A]` with `c2 = [A (synonym a)]`
without copying merges `a` into *c1's own* record object: object 0 of the heap changes. -/
theorem C10_chain_mutates_input_pinned :
    let h : Heap := [⟨[65], [117], [], [], none⟩, ⟨[65], [117], [[97]], [], none⟩]
    let c1 := HConv.ofConv (Conv.build [58] [⟨[65], [117], [], [], none⟩]) [0]
    let c2 := HConv.ofConv (Conv.build [58] [⟨[65], [117], [[97]], [], none⟩]) [1]
    (match chainPinnedH id h [c1, c2] true with
      | .ok (h', _) => h'[0]?
      | .error _ => none) = some ⟨[65], [117], [[97]], [], none⟩ ∧
    (match chainH id h [c1, c2] true with
      | .ok (h', _) => h'[0]?
      | .error _ => none) = some ⟨[65], [117], [], [], none⟩ := by
  decide
