import CuriesVerif.Lemmas.Refine

/-!
# C02 — CURIE expansion resolves any prefix or synonym to the canonical URI prefix

For every well-formed (strict) converter with a non-empty delimiter.  The empty prefix is an
ordinary key everywhere (no hypothesis excludes it).
-/

open Spec

section
variable {c : Conv} (h : WF c) (hd : c.delim ≠ [])
include h hd

/-- **C02.** `expand` splits at the *first* occurrence of the delimiter, resolves the part before
it to its unique record and returns that record's canonical URI prefix followed by the
untouched remainder; no delimiter or an unknown prefix give no result. -/
theorem C02_expand (s : Str) :
    c.expand s false false = .ok
      (match firstOcc c.delim s with
       | none => none
       | some n => (ownerP c.records (s.take n)).map fun r => r.uri ++ s.drop (n + c.delim.length)) := by
  rw [expand_eq h hd]
  unfold Spec.expand Spec.expandPair partition?
  cases firstOcc c.delim s with
  | none => rfl
  | some n =>
    simp only [Option.map_some, Option.bind_some]
    cases ownerP c.records (s.take n) <;> rfl

/-- **C02.** For a prefix in which the delimiter does not start (for a one-symbol delimiter: which
does not contain it) and *every* identifier — also one containing the delimiter — `expand`
agrees with `expand_pair` / `expand_reference` in every mode. -/
theorem C02_pair (p i : Str) (hp : DelimOK c.delim p) (s pt : Bool) :
    c.expand (p ++ c.delim ++ i) s pt = c.expandPair p i s pt ∧
    c.expandReference (p, i) s pt = c.expandPair p i s pt := by
  refine ⟨?_, rfl⟩
  unfold Conv.expandPair
  rw [expand_eq h hd, expandReference_eq h]
  unfold Spec.expand
  rw [partition?_append c.delim p i hd hp]
  rfl

/-- **C02.** `expand_all` / `expand_pair_all` return the canonical expansion first, followed by one
expansion per URI-prefix synonym of that record, and nothing else. -/
theorem C02_all (p i : Str) :
    c.expandPairAll p i false = .ok ((ownerP c.records p).map fun r => (r.uri ++ i) :: r.uSyn.map (· ++ i)) ∧
    (DelimOK c.delim p → c.expandAll (p ++ c.delim ++ i) false = c.expandPairAll p i false) := by
  constructor
  · rw [expandPairAll_eq h]
    unfold Spec.expandPairAll
    cases ownerP c.records p <;> rfl
  · intro hp
    rw [expandAll_eq h hd, expandPairAll_eq h]
    unfold Spec.expandAll
    rw [partition?_append c.delim p i hd hp]
    simp only [Option.bind_some]
    cases Spec.expandPairAll c.records p i <;> rfl

/-- **C02.** The head of `expand_pair_all` is `expand_pair` and its length is `1 + #synonyms`. -/
theorem C02_all_shape (p i : Str) (r : Record) (ho : ownerP c.records p = some r) :
    ∃ l, c.expandPairAll p i false = .ok (some l) ∧ l.head? = some (r.uri ++ i) ∧
      c.expandPair p i false false = .ok (some (r.uri ++ i)) ∧ l.length = 1 + r.uSyn.length := by
  refine ⟨(r.uri ++ i) :: r.uSyn.map (· ++ i), ?_, rfl, ?_, by simp; omega⟩
  · rw [(C02_all h hd p i).1, ho]; rfl
  · unfold Conv.expandPair
    rw [expandReference_eq h]
    simp [Spec.expandPair, ho]

/-- **C02.** Unknown prefixes give no result, in any of the expansion functions. -/
theorem C02_unknown (p i : Str) (hn : ∀ r ∈ c.records, p ∉ r.allP) :
    c.expandPair p i false false = .ok none ∧ c.expandPairAll p i false = .ok none ∧
    (DelimOK c.delim p → c.expand (p ++ c.delim ++ i) false false = .ok none) := by
  have ho : ownerP c.records p = none := by
    cases ho : ownerP c.records p with
    | none => rfl
    | some r => exact absurd (ownerP_some ho).2 (hn r (ownerP_some ho).1)
  refine ⟨?_, ?_, ?_⟩
  · unfold Conv.expandPair; rw [expandReference_eq h]; simp [Spec.expandPair, ho, Conv.modeTail]
  · rw [(C02_all h hd p i).1, ho]; rfl
  · intro hp
    rw [(C02_pair h hd p i hp false false).1]
    unfold Conv.expandPair; rw [expandReference_eq h]; simp [Spec.expandPair, ho, Conv.modeTail]

/-- **C02.** a known prefix or synonym (the empty one included) resolves to its record -/
theorem C02_known (p i : Str) (r : Record) (hr : r ∈ c.records) (hp : p ∈ r.allP) :
    c.expandPair p i false false = .ok (some (r.uri ++ i)) := by
  unfold Conv.expandPair
  rw [expandReference_eq h]
  simp [Spec.expandPair, ownerP_of_mem h.unique hr hp]

/-- **C02.** `is_curie` is "`expand` is not `None`" -/
theorem C02_is_curie (s : Str) : c.isCurie s = true ↔ ∃ v, c.expand s false false = .ok (some v) := by
  rw [isCurie_eq h hd, expand_eq h hd]
  cases Spec.expand c.records c.delim s <;> simp [Conv.modeTail]

end

/-- what `partition` returns decomposes the input at an occurrence of the delimiter -/
theorem C02_first_delimiter (d s p i : Str) (hp : partition? d s = some (p, i)) : s = p ++ d ++ i :=
  partition?_spec d s p i hp

/-- Non-vacuity: empty (default) prefix, synonym, identifier containing the delimiter,
two-symbol delimiter. -/
example :
    (match Conv.init? [⟨[], [100, 47], [], [], none⟩, ⟨[71], [103, 47], [[103]], [[104, 47]], none⟩] [58, 58] true with
     | .ok c => [c.run ⟨"expand", [[58, 58, 120]], false, false⟩, c.run ⟨"expand", [[103, 58, 58, 97, 58, 58, 98]], false, false⟩,
                 c.run ⟨"expand_all", [[103, 58, 58, 49]], false, false⟩, c.run ⟨"expand", [[122, 58, 58, 49]], false, false⟩]
     | .error _ => [])
    = [.str [100, 47, 120], .str [103, 47, 97, 58, 58, 98], .strs [[103, 47, 49], [104, 47, 49]], .none] := by
  decide
