import CuriesVerif.Properties.C12

/-!
# C11 — CURIE-prefix remapping renames records without losing information

Proved here for the model of `remap_curie_prefixes` (after the repairs F3/F4):

* `C11_order_errors` / `C11_ordering_perm`: the validation-and-ordering phase either raises one
  of the four documented errors or returns the pairs in some order, each exactly once (the
  peel-off loop terminates: it is structurally recursive on a fuel that the proof shows is never
  exhausted with pairs left);
* `C11_skip_unknown`: a pair whose old prefix is unknown is skipped;
* `C11_step_uri_part`: every step leaves the number of working records and, position by
  position, the canonical URI prefix, the URI-prefix synonyms and the pattern unchanged — only
  `prefix` / `prefix_synonyms` of one record are ever written;
* `C11_step_known`: a step never makes a prefix unknown unless it hands it over
  (`old ∈ handedOver`), and then only `old` itself.

Not proved (the clauses rest on the correspondence and on the Lean checker `Spec.C11.ok`
evaluated on the implementation's records on every run): that the popped-index bookkeeping
returns every record exactly once (`C11_count`), and `C11_known` for transitive chains at full
strength (a handed-over prefix is always picked up by the record it is handed to).
-/

open Spec Reconcile

theorem peel_errors (fuel : Nat) (d : List (Str × Str)) (e : Err) (h : peel fuel d = .error e) : e = .cycle := by
  induction fuel generalizing d with
  | zero =>
    cases d with
    | nil => simp [peel] at h
    | cons a as => simp [peel] at h; exact h.symm
  | succ n ih =>
    cases d with
    | nil => simp [peel] at h
    | cons a as =>
      simp only [peel] at h
      split at h
      · cases h; rfl
      · split at h
        · cases h
        · rename_i e' he'
          cases h
          exact ih _ he'

/-- **C11.** The ordering phase rejects a remapping only with one of its four documented errors. -/
theorem C11_order_errors (c : Conv) (rm : List (Str × Str)) (e : Err) (h : orderCurieRemapping c rm = .error e) :
    e = .dupKeys ∨ e = .dupValues ∨ e = .inconsistent ∨ e = .cycle := by
  unfold orderCurieRemapping at h
  split at h
  · cases h; exact Or.inl rfl
  · split at h
    · cases h; exact Or.inr (Or.inl rfl)
    · split at h
      · cases h; exact Or.inr (Or.inr (Or.inl rfl))
      · split at h
        · cases h
        · exact Or.inr (Or.inr (Or.inr (peel_errors _ _ _ h)))

theorem peel_perm (fuel : Nat) (d out : List (Str × Str)) (h : peel fuel d = .ok out) : out.Perm d := by
  induction fuel generalizing d out with
  | zero =>
    cases d with
    | nil => simp [peel] at h; subst h; exact List.Perm.refl _
    | cons a as => simp [peel] at h
  | succ n ih =>
    cases d with
    | nil => simp [peel] at h; subst h; exact List.Perm.refl _
    | cons a as =>
      simp only [peel] at h
      split at h
      · cases h
      · split at h
        · rename_i rest hrest
          cases h
          have h1 := ih _ _ hrest
          have h2 := isort_perm pairLe ((a :: as).filter fun kv =>
            (((a :: as).map (·.2)).filter fun v => !((a :: as).map (·.1)).contains v).contains kv.2)
          exact (List.Perm.append h2 h1).trans (List.filter_append_perm _ _)
        · cases h

/-- **C11.** An accepted remapping is processed pair by pair, each pair exactly once. -/
theorem C11_ordering_perm (c : Conv) (rm ordering : List (Str × Str)) (h : orderCurieRemapping c rm = .ok ordering) :
    ordering.Perm rm := by
  unfold orderCurieRemapping at h
  split at h
  · cases h
  · split at h
    · cases h
    · split at h
      · cases h
      · split at h
        · cases h; exact isort_perm _ _
        · exact peel_perm _ _ _ h

/-- **C11.** A pair whose old prefix is unknown to the converter is skipped. -/
theorem C11_skip_unknown (c : Conv) (ho : List Str) (s : RState) (old new : Str) (h : std c old = none) :
    remapStep c ho s (old, new) = .ok s := by
  unfold remapStep
  simp only [h]

/-- the part of a record a CURIE-prefix remapping must not touch -/
def uriPart (r : Record) : Str × List Str × Option Str := (r.uri, r.uSyn, r.pattern)

/-- the three things a step can do: nothing; only pop a record (a clash: the pair is skipped);
rename one record — leaving its URI part alone -/
theorem remapStep_cases (c : Conv) (ho : List Str) (s s' : RState) (old new : Str)
    (h : remapStep c ho s (old, new) = .ok s') :
    s' = s ∨ (∃ i, i ∉ s.popped ∧ i < s.working.length ∧ s' = { s with popped := s.popped ++ [i] }) ∨
    (∃ i record record', i ∉ s.popped ∧ s.working[i]? = some record ∧ uriPart record' = uriPart record ∧
      (∀ p, p ∈ record'.allP ↔ p = new ∨ (p ∈ record.allP ∧ p ≠ new ∧ (p ≠ old ∨ old ∉ ho))) ∧
      s' = { working := s.working.set i record', popped := s.popped ++ [i] }) := by
  unfold remapStep at h
  simp only at h
  cases h1 : std c old with
  | none => simp only [h1] at h; cases h; exact Or.inl rfl
  | some oc =>
    simp only [h1] at h
    cases h2 : c.records.findIdx? (fun r => r.pfx == oc) with
    | none => simp only [h2] at h; cases h
    | some i =>
      simp only [h2] at h
      by_cases h3 : s.popped.contains i = true
      · rw [if_pos h3] at h; cases h
      · rw [if_neg h3] at h
        cases h4 : s.working[i]? with
        | none => simp only [h4] at h; cases h
        | some record =>
          simp only [h4] at h
          have hnp : i ∉ s.popped := by simpa using h3
          have hlt : i < s.working.length := by
            rcases Nat.lt_or_ge i s.working.length with h' | h'
            · exact h'
            · rw [List.getElem?_eq_none_iff.mpr h'] at h4; cases h4
          by_cases hcl : clashWith s.working record new = true
          · rw [if_pos hcl] at h; cases h; exact Or.inr (Or.inl ⟨i, hnp, hlt, rfl⟩)
          · rw [if_neg hcl] at h; cases h
            refine Or.inr (Or.inr ⟨i, record,
              { record with pSyn := setUpdate record.pSyn record.pfx (if ho.contains old then [new, old] else [new]),
                            pfx := new }, hnp, h4, rfl, ?_, rfl⟩)
            intro p
            simp only [Record.allP, List.mem_cons, mem_setUpdate]
            by_cases hho : ho.contains old = true
            · have hho' : old ∈ ho := by simpa using hho
              simp only [hho, if_true, List.mem_cons, List.not_mem_nil, or_false, not_or]
              constructor
              · rintro (h1 | ⟨h1, h2, h3⟩)
                · exact Or.inl h1
                · exact Or.inr ⟨by rcases h1 with h1 | h1; exact Or.inr h1; exact Or.inl h1, h2,
                    Or.inl h3⟩
              · rintro (h1 | ⟨h1, h2, h3⟩)
                · exact Or.inl h1
                · refine Or.inr ⟨by rcases h1 with h1 | h1; exact Or.inr h1; exact Or.inl h1, h2, ?_⟩
                  rcases h3 with h3 | h3
                  · exact h3
                  · exact absurd hho' h3
            · have hho' : old ∉ ho := by simpa using hho
              simp only [hho, Bool.false_eq_true, if_false, List.mem_cons, List.not_mem_nil, or_false]
              constructor
              · rintro (h1 | ⟨h1, h2⟩)
                · exact Or.inl h1
                · exact Or.inr ⟨by rcases h1 with h1 | h1; exact Or.inr h1; exact Or.inl h1, h2, Or.inr hho'⟩
              · rintro (h1 | ⟨h1, h2, _⟩)
                · exact Or.inl h1
                · exact Or.inr ⟨by rcases h1 with h1 | h1; exact Or.inr h1; exact Or.inl h1, h2⟩

/-- **C11.** Every step keeps the number of working records and, position by position, each record's
canonical URI prefix, URI-prefix synonyms and pattern. -/
theorem C11_step_uri_part (c : Conv) (ho : List Str) (s s' : RState) (pair : Str × Str)
    (h : remapStep c ho s pair = .ok s') :
    s'.working.length = s.working.length ∧ s'.working.map uriPart = s.working.map uriPart := by
  obtain ⟨old, new⟩ := pair
  rcases remapStep_cases c ho s s' old new h with e | ⟨i, _, _, e⟩ | ⟨i, record, record', _, hrec, hu, _, e⟩
  · subst e; exact ⟨rfl, rfl⟩
  · subst e; exact ⟨rfl, rfl⟩
  · subst e
    refine ⟨by simp, ?_⟩
    apply List.ext_getElem?
    intro k
    simp only [List.getElem?_map, List.getElem?_set]
    by_cases hik : i = k
    · subst hik
      have hlt : i < s.working.length := by
        rcases Nat.lt_or_ge i s.working.length with h' | h'
        · exact h'
        · rw [List.getElem?_eq_none_iff.mpr h'] at hrec; cases hrec
      simp only [if_true, hlt, hrec, Option.map_some, hu]
    · simp only [hik, if_false]

/-- over a whole run -/
theorem C11_run_uri_part (c : Conv) (ho : List Str) (ordering : List (Str × Str)) (s s' : RState)
    (h : ordering.foldlM (remapStep c ho) s = .ok s') :
    s'.working.length = s.working.length ∧ s'.working.map uriPart = s.working.map uriPart := by
  induction ordering generalizing s with
  | nil => simp [List.foldlM, pure, Except.pure] at h; subst h; exact ⟨rfl, rfl⟩
  | cons p ps ih =>
    rw [List.foldlM_cons] at h
    cases h1 : remapStep c ho s p with
    | error e => simp [h1, bind, Except.bind] at h
    | ok s1 =>
      simp [h1, bind, Except.bind] at h
      have a := C11_step_uri_part c ho s s1 p h1
      have b := ih s1 h
      exact ⟨b.1.trans a.1, b.2.trans a.2⟩

/-! ### every record comes out exactly once -/

/-- bookkeeping invariant of the main loop -/
def PoppedOK (s : RState) : Prop := s.popped.Nodup ∧ ∀ i ∈ s.popped, i < s.working.length

theorem poppedOK_step (c : Conv) (ho : List Str) (s s' : RState) (pair : Str × Str) (hinv : PoppedOK s)
    (h : remapStep c ho s pair = .ok s') : PoppedOK s' := by
  obtain ⟨old, new⟩ := pair
  rcases remapStep_cases c ho s s' old new h with e | ⟨i, hnp, hlt, e⟩ | ⟨i, record, record', hnp, hrec, _, _, e⟩
  · subst e; exact hinv
  · subst e
    refine ⟨?_, ?_⟩
    · exact List.nodup_append.mpr ⟨hinv.1, by simp, by intro a ha b hb; simp at hb; subst hb; exact fun e => hnp (e ▸ ha)⟩
    · intro j hj
      rcases List.mem_append.mp hj with hj | hj
      · exact hinv.2 j hj
      · simp at hj; subst hj; exact hlt
  · subst e
    have hlt : i < s.working.length := by
      rcases Nat.lt_or_ge i s.working.length with h' | h'
      · exact h'
      · rw [List.getElem?_eq_none_iff.mpr h'] at hrec; cases hrec
    refine ⟨?_, ?_⟩
    · exact List.nodup_append.mpr ⟨hinv.1, by simp, by intro a ha b hb; simp at hb; subst hb; exact fun e => hnp (e ▸ ha)⟩
    · intro j hj
      simp only [List.length_set]
      rcases List.mem_append.mp hj with hj | hj
      · exact hinv.2 j hj
      · simp at hj; subst hj; exact hlt

theorem poppedOK_run (c : Conv) (ho : List Str) (ordering : List (Str × Str)) (s s' : RState) (hinv : PoppedOK s)
    (h : ordering.foldlM (remapStep c ho) s = .ok s') : PoppedOK s' := by
  induction ordering generalizing s with
  | nil => simp [List.foldlM, pure, Except.pure] at h; subst h; exact hinv
  | cons p ps ih =>
    rw [List.foldlM_cons] at h
    cases h1 : remapStep c ho s p with
    | error e => simp [h1, bind, Except.bind] at h
    | ok s1 =>
      simp [h1, bind, Except.bind] at h
      exact ih s1 (poppedOK_step c ho s s1 p hinv h1) h

theorem filterMap_range_getElem? {α : Type} (l : List α) : (List.range l.length).filterMap (l[·]?) = l := by
  induction l with
  | nil => rfl
  | cons a t ih =>
    rw [List.length_cons, List.range_succ_eq_map, List.filterMap_cons]
    simp only [List.getElem?_cons_zero, List.filterMap_map]
    congr 1

/-- the records handed to the final constructor are the working records, each exactly once -/
theorem result_perm (s : RState) (hinv : PoppedOK s) : s.result.Perm s.working := by
  unfold RState.result
  rw [← List.filterMap_append]
  have hidx : (((List.range s.working.length).filter fun i => !s.popped.contains i) ++ s.popped).Perm
      (List.range s.working.length) := by
    have h1 : s.popped.Perm ((List.range s.working.length).filter fun i => s.popped.contains i) := by
      rw [List.perm_ext_iff_of_nodup hinv.1 (List.Pairwise.sublist List.filter_sublist List.nodup_range)]
      intro a
      simp only [List.mem_filter, List.mem_range, List.contains_eq_mem, decide_eq_true_eq]
      exact ⟨fun ha => ⟨hinv.2 a ha, ha⟩, fun ha => ha.2⟩
    have h2 := List.filter_append_perm (fun i => s.popped.contains i) (List.range s.working.length)
    refine (List.Perm.trans ?_ h2)
    refine (List.perm_append_comm).trans (List.Perm.append h1 ?_)
    apply List.Perm.of_eq
    apply List.filter_congr
    intro x _
    simp
  exact (hidx.filterMap _).trans (List.Perm.of_eq (filterMap_range_getElem? s.working))

/-- **C11 (count and URI part).** A successful `remap_curie_prefixes` returns a converter with the same
number of records, and the records correspond one to one to the input's records with exactly
the same canonical URI prefix, URI-prefix synonyms and pattern. -/
theorem C11_uri_part (c c' : Conv) (rm : List (Str × Str)) (hok : remapCuriePrefixes c rm = .ok c') :
    c'.records.length = c.records.length ∧ (c'.records.map uriPart).Perm (c.records.map uriPart) := by
  unfold remapCuriePrefixes at hok
  cases ho : orderCurieRemapping c rm with
  | error e => simp [ho] at hok
  | ok ordering =>
    simp only [ho] at hok
    cases hf : ordering.foldlM (remapStep c ((rm.filter fun kv => (std c kv.1).isSome).map (·.2)))
        { working := c.records, popped := [] } with
    | error e => simp [hf] at hok
    | ok s =>
      simp only [hf] at hok
      have hinv := poppedOK_run c _ ordering _ s ⟨List.nodup_nil, by simp⟩ hf
      have hparts := C11_run_uri_part c _ ordering _ s hf
      have hperm := result_perm s hinv
      have hrec : c'.records.Perm s.result := by
        rw [(init?_records hok).1]; exact sortRecords_perm _
      have hp2 : (c'.records.map uriPart).Perm (c.records.map uriPart) := by
        have := ((hrec.trans hperm).map uriPart)
        rw [hparts.2] at this
        exact this
      exact ⟨by simpa using hp2.length_eq, hp2⟩

/-! ### known prefixes stay known -/

/-- one step forgets at most `old`, and only when `old` is handed over -/
theorem C11_step_known (c : Conv) (ho : List Str) (s s' : RState) (old new : Str)
    (h : remapStep c ho s (old, new) = .ok s') (p : Str) (hp : ∃ r ∈ s.working, p ∈ r.allP)
    (hkeep : p ≠ old ∨ old ∉ ho) : ∃ r ∈ s'.working, p ∈ r.allP := by
  obtain ⟨r, hr, hpr⟩ := hp
  rcases remapStep_cases c ho s s' old new h with e | ⟨i, _, _, e⟩ | ⟨i, record, record', _, hrec, _, hall, e⟩
  · subst e; exact ⟨r, hr, hpr⟩
  · subst e; exact ⟨r, hr, hpr⟩
  · subst e
    obtain ⟨k, hk, rfl⟩ := List.mem_iff_getElem.mp hr
    by_cases hik : k = i
    · subst hik
      have hrec' : s.working[k] = record := by
        rw [List.getElem?_eq_getElem hk] at hrec; exact Option.some.inj hrec
      refine ⟨record', ?_, ?_⟩
      · rw [List.mem_iff_getElem]; exact ⟨k, by simpa using hk, by simp⟩
      · rw [hall p]
        by_cases hpn : p = new
        · exact Or.inl hpn
        · exact Or.inr ⟨hrec' ▸ hpr, hpn, hkeep⟩
    · refine ⟨s.working[k], ?_, hpr⟩
      rw [List.mem_iff_getElem]
      exact ⟨k, by simpa using hk, by rw [List.getElem_set]; simp [Ne.symm hik]⟩

/-- **C11 (partial: remappings that hand nothing over).** If no key of the remapping is the value
of a pair with a known key — no chains — every CURIE prefix known before is still known
afterwards.  (For chains the clause is decided on the implementation's records by
`Spec.C11.ok` on every run; the repaired defect F4 lived exactly there.) -/
theorem C11_known_partial (c c' : Conv) (rm : List (Str × Str)) (hok : remapCuriePrefixes c rm = .ok c')
    (hno : ∀ kv ∈ rm, kv.1 ∉ (rm.filter fun kv => (std c kv.1).isSome).map (·.2))
    (p : Str) (hp : ∃ r ∈ c.records, p ∈ r.allP) : ∃ r ∈ c'.records, p ∈ r.allP := by
  unfold remapCuriePrefixes at hok
  cases ho : orderCurieRemapping c rm with
  | error e => simp [ho] at hok
  | ok ordering =>
    simp only [ho] at hok
    cases hf : ordering.foldlM (remapStep c ((rm.filter fun kv => (std c kv.1).isSome).map (·.2)))
        { working := c.records, popped := [] } with
    | error e => simp [hf] at hok
    | ok s =>
      simp only [hf] at hok
      have hordmem : ∀ kv ∈ ordering, kv ∈ rm := fun kv hkv => (C11_ordering_perm c rm ordering ho).mem_iff.mp hkv
      -- run invariant
      have key : ∀ (l : List (Str × Str)) (s0 s1 : RState), (∀ kv ∈ l, kv ∈ rm) →
          l.foldlM (remapStep c ((rm.filter fun kv => (std c kv.1).isSome).map (·.2))) s0 = .ok s1 →
          (∃ r ∈ s0.working, p ∈ r.allP) → ∃ r ∈ s1.working, p ∈ r.allP := by
        intro l
        induction l with
        | nil => intro s0 s1 _ h hp0; simp [List.foldlM, pure, Except.pure] at h; subst h; exact hp0
        | cons kv kvs ih =>
          intro s0 s1 hl h hp0
          rw [List.foldlM_cons] at h
          cases h1 : remapStep c ((rm.filter fun kv => (std c kv.1).isSome).map (·.2)) s0 kv with
          | error e => simp [h1, bind, Except.bind] at h
          | ok sm =>
            simp [h1, bind, Except.bind] at h
            exact ih sm s1 (fun x hx => hl x (by simp [hx])) h
              (C11_step_known c _ s0 sm kv.1 kv.2 h1 p hp0 (Or.inr (hno kv (hl kv (by simp)))))
      obtain ⟨r, hr, hpr⟩ := key ordering _ s hordmem hf hp
      have hinv := poppedOK_run c _ ordering _ s ⟨List.nodup_nil, by simp⟩ hf
      have hrec : c'.records.Perm s.working := by
        rw [(init?_records hok).1]; exact (sortRecords_perm _).trans (result_perm s hinv)
      exact ⟨r, hrec.mem_iff.mpr hr, hpr⟩

/-- Non-vacuity and the repaired defect F4: a chain through a synonym keeps every prefix known, a
hand-over whose key is unknown drops nothing, a swap is a cycle, two keys of one record are
duplicate keys. -/
example :
    (let c := Conv.build [58] [⟨[65], [117, 47], [[97]], [], none⟩, ⟨[66], [118, 47], [[98]], [], none⟩]
     [match remapCuriePrefixes c [([98], [99]), ([97], [98])] with | .ok x => Val.recs x.records | .error e => .err e,
      match remapCuriePrefixes c [([98], [99]), ([122], [98])] with | .ok x => Val.recs x.records | .error e => .err e,
      match remapCuriePrefixes c [([97], [98]), ([98], [97])] with | .ok x => Val.recs x.records | .error e => .err e,
      match remapCuriePrefixes c [([97], [120]), ([65], [121])] with | .ok x => Val.recs x.records | .error e => .err e])
    = [.recs [⟨[98], [117, 47], [[65], [97]], [], none⟩, ⟨[99], [118, 47], [[66]], [], none⟩],
       .recs [⟨[65], [117, 47], [[97]], [], none⟩, ⟨[99], [118, 47], [[66], [98]], [], none⟩],
       .err .cycle, .err .dupKeys] := by
  decide
