import CuriesVerif.Properties.C12

/-!
# C11 — CURIE-prefix remapping renames records without losing information

Proved here for the model of `remap_curie_prefixes` (after the repairs F3/F4):

* `C11_order_errors` / `C11_ordering_perm`: the validation-and-ordering phase either raises one
  of the four documented errors or returns the pairs in some order, each exactly once (the
  peel-off loop terminates: it is structurally recursive on a fuel that the proof shows is never
  exhausted with pairs left);
* `C11_skip_unknown`: a pair whose old prefix is unknown is skipped;
* `C11_step_uri_part`: every step leaves the number of working records and, position by
  position, the canonical URI prefix, the URI-prefix synonyms and the pattern unchanged — only
  `prefix` / `prefix_synonyms` of one record are ever written;
* `C11_step_known`: a step never makes a prefix unknown unless it hands it over
  (`old ∈ handedOver`), and then only `old` itself.

Not proved (the clauses rest on the correspondence and on the Lean checker `Spec.C11.ok`
evaluated on the implementation's records on every run): that the popped-index bookkeeping
returns every record exactly once (`C11_count`), and `C11_known` for transitive chains at full
strength (a handed-over prefix is always picked up by the record it is handed to).
-/

open Spec Reconcile

theorem peel_errors (fuel : Nat) (d : List (Str × Str)) (e : Err) (h : peel fuel d = .error e) : e = .cycle := by
  induction fuel generalizing d with
  | zero =>
    cases d with
    | nil => simp [peel] at h
    | cons a as => simp [peel] at h; exact h.symm
  | succ n ih =>
    cases d with
    | nil => simp [peel] at h
    | cons a as =>
      simp only [peel] at h
      split at h
      · cases h; rfl
      · split at h
        · cases h
        · rename_i e' he'
          cases h
          exact ih _ he'

/-- **C11.** The ordering phase rejects a remapping only with one of its four documented errors. -/
theorem C11_order_errors (c : Conv) (rm : List (Str × Str)) (e : Err) (h : orderCurieRemapping c rm = .error e) :
    e = .dupKeys ∨ e = .dupValues ∨ e = .inconsistent ∨ e = .cycle := by
  unfold orderCurieRemapping at h
  split at h
  · cases h; exact Or.inl rfl
  · split at h
    · cases h; exact Or.inr (Or.inl rfl)
    · split at h
      · cases h; exact Or.inr (Or.inr (Or.inl rfl))
      · split at h
        · cases h
        · exact Or.inr (Or.inr (Or.inr (peel_errors _ _ _ h)))

theorem peel_perm (fuel : Nat) (d out : List (Str × Str)) (h : peel fuel d = .ok out) : out.Perm d := by
  induction fuel generalizing d out with
  | zero =>
    cases d with
    | nil => simp [peel] at h; subst h; exact List.Perm.refl _
    | cons a as => simp [peel] at h
  | succ n ih =>
    cases d with
    | nil => simp [peel] at h; subst h; exact List.Perm.refl _
    | cons a as =>
      simp only [peel] at h
      split at h
      · cases h
      · split at h
        · rename_i rest hrest
          cases h
          have h1 := ih _ _ hrest
          have h2 := isort_perm pairLe ((a :: as).filter fun kv =>
            (((a :: as).map (·.2)).filter fun v => !((a :: as).map (·.1)).contains v).contains kv.2)
          exact (List.Perm.append h2 h1).trans (List.filter_append_perm _ _)
        · cases h

/-- **C11.** An accepted remapping is processed pair by pair, each pair exactly once. -/
theorem C11_ordering_perm (c : Conv) (rm ordering : List (Str × Str)) (h : orderCurieRemapping c rm = .ok ordering) :
    ordering.Perm rm := by
  unfold orderCurieRemapping at h
  split at h
  · cases h
  · split at h
    · cases h
    · split at h
      · cases h
      · split at h
        · cases h; exact isort_perm _ _
        · exact peel_perm _ _ _ h

/-- **C11.** A pair whose old prefix is unknown to the converter is skipped. -/
theorem C11_skip_unknown (c : Conv) (ho : List Str) (s : RState) (old new : Str) (h : std c old = none) :
    remapStep c ho s (old, new) = .ok s := by
  unfold remapStep
  simp only [h]

/-- the part of a record a CURIE-prefix remapping must not touch -/
def uriPart (r : Record) : Str × List Str × Option Str := (r.uri, r.uSyn, r.pattern)

/-- the three things a step can do: nothing; only pop a record (a clash: the pair is skipped);
rename one record — leaving its URI part alone -/
theorem remapStep_cases (c : Conv) (ho : List Str) (s s' : RState) (old new : Str)
    (h : remapStep c ho s (old, new) = .ok s') :
    s' = s ∨ (∃ i, s' = { s with popped := s.popped ++ [i] }) ∨
    (∃ i record record', s.working[i]? = some record ∧ uriPart record' = uriPart record ∧
      s' = { working := s.working.set i record', popped := s.popped ++ [i] }) := by
  unfold remapStep at h
  simp only at h
  cases h1 : std c old with
  | none => simp only [h1] at h; cases h; exact Or.inl rfl
  | some oc =>
    simp only [h1] at h
    cases h2 : c.records.findIdx? (fun r => r.pfx == oc) with
    | none => simp only [h2] at h; cases h
    | some i =>
      simp only [h2] at h
      by_cases h3 : s.popped.contains i = true
      · rw [if_pos h3] at h; cases h
      · rw [if_neg h3] at h
        cases h4 : s.working[i]? with
        | none => simp only [h4] at h; cases h
        | some record =>
          simp only [h4] at h
          by_cases hcl : clashWith s.working record new = true
          · rw [if_pos hcl] at h; cases h; exact Or.inr (Or.inl ⟨i, rfl⟩)
          · rw [if_neg hcl] at h; cases h
            exact Or.inr (Or.inr ⟨i, record,
              { record with pSyn := setUpdate record.pSyn record.pfx (if ho.contains old then [new, old] else [new]),
                            pfx := new }, h4, rfl, rfl⟩)

/-- **C11.** Every step keeps the number of working records and, position by position, each record's
canonical URI prefix, URI-prefix synonyms and pattern. -/
theorem C11_step_uri_part (c : Conv) (ho : List Str) (s s' : RState) (pair : Str × Str)
    (h : remapStep c ho s pair = .ok s') :
    s'.working.length = s.working.length ∧ s'.working.map uriPart = s.working.map uriPart := by
  obtain ⟨old, new⟩ := pair
  rcases remapStep_cases c ho s s' old new h with e | ⟨i, e⟩ | ⟨i, record, record', hrec, hu, e⟩
  · subst e; exact ⟨rfl, rfl⟩
  · subst e; exact ⟨rfl, rfl⟩
  · subst e
    refine ⟨by simp, ?_⟩
    apply List.ext_getElem?
    intro k
    simp only [List.getElem?_map, List.getElem?_set]
    by_cases hik : i = k
    · subst hik
      have hlt : i < s.working.length := by
        rcases Nat.lt_or_ge i s.working.length with h' | h'
        · exact h'
        · rw [List.getElem?_eq_none_iff.mpr h'] at hrec; cases hrec
      simp only [if_true, hlt, hrec, Option.map_some, hu]
    · simp only [hik, if_false]

/-- over a whole run -/
theorem C11_run_uri_part (c : Conv) (ho : List Str) (ordering : List (Str × Str)) (s s' : RState)
    (h : ordering.foldlM (remapStep c ho) s = .ok s') :
    s'.working.length = s.working.length ∧ s'.working.map uriPart = s.working.map uriPart := by
  induction ordering generalizing s with
  | nil => simp [List.foldlM, pure, Except.pure] at h; subst h; exact ⟨rfl, rfl⟩
  | cons p ps ih =>
    rw [List.foldlM_cons] at h
    cases h1 : remapStep c ho s p with
    | error e => simp [h1, bind, Except.bind] at h
    | ok s1 =>
      simp [h1, bind, Except.bind] at h
      have a := C11_step_uri_part c ho s s1 p h1
      have b := ih s1 h
      exact ⟨b.1.trans a.1, b.2.trans a.2⟩

/-- Non-vacuity and the repaired defect F4: a chain through a synonym keeps every prefix known, a
hand-over whose key is unknown drops nothing, a swap is a cycle, two keys of one record are
duplicate keys. -/
example :
    (let c := Conv.build [58] [⟨[65], [117, 47], [[97]], [], none⟩, ⟨[66], [118, 47], [[98]], [], none⟩]
     [match remapCuriePrefixes c [([98], [99]), ([97], [98])] with | .ok x => Val.recs x.records | .error e => .err e,
      match remapCuriePrefixes c [([98], [99]), ([122], [98])] with | .ok x => Val.recs x.records | .error e => .err e,
      match remapCuriePrefixes c [([97], [98]), ([98], [97])] with | .ok x => Val.recs x.records | .error e => .err e,
      match remapCuriePrefixes c [([97], [120]), ([65], [121])] with | .ok x => Val.recs x.records | .error e => .err e])
    = [.recs [⟨[98], [117, 47], [[65], [97]], [], none⟩, ⟨[99], [118, 47], [[66]], [], none⟩],
       .recs [⟨[65], [117, 47], [[97]], [], none⟩, ⟨[99], [118, 47], [[66], [98]], [], none⟩],
       .err .cycle, .err .dupKeys] := by
  decide
