import CuriesVerif.Properties.C12

/-!
# C11 — CURIE-prefix remapping renames records without losing information

Proved here for the model of `remap_curie_prefixes` (after the repairs F3/F4):

* `C11_order_errors` / `C11_ordering_perm`: the validation-and-ordering phase either raises one
  of the four documented errors or returns the pairs in some order, each exactly once (the
  peel-off loop terminates: it is structurally recursive on a fuel that the proof shows is never
  exhausted with pairs left);
* `C11_skip_unknown`: a pair whose old prefix is unknown is skipped;
* `C11_step_uri_part`: every step leaves the number of working records and, position by
  position, the canonical URI prefix, the URI-prefix synonyms and the pattern unchanged — only
  `prefix` / `prefix_synonyms` of one record are ever written;
* `C11_step_known`: a step never makes a prefix unknown unless it hands it over
  (`old ∈ handedOver`), and then only `old` itself.

* `C11_uri_part`: same number of records, each keeping its URI part (the popped-index bookkeeping
  returns every record exactly once);
* `C11_known`: every CURIE prefix known before is known afterwards, at full strength — for chains
  the ordering guarantees (`order_ordered`) that the pair keyed by a handed-over prefix runs before
  the pair that hands it over, so the prefix is picked up as canonical prefix by the record it is
  handed to (this is where the repaired defect F4 lived);
* `C11_applied`: an applicable pair onto an unused prefix (the value of no other pair) makes the new
  prefix canonical for old's record; `C11_skipped`: a pair aiming at a prefix of another, untouched
  record leaves both records as they were.
-/

open Spec Reconcile

theorem peel_errors (fuel : Nat) (d : List (Str × Str)) (e : Err) (h : peel fuel d = .error e) : e = .cycle := by
  induction fuel generalizing d with
  | zero =>
    cases d with
    | nil => simp [peel] at h
    | cons a as => simp [peel] at h; exact h.symm
  | succ n ih =>
    cases d with
    | nil => simp [peel] at h
    | cons a as =>
      simp only [peel] at h
      split at h
      · cases h; rfl
      · split at h
        · cases h
        · rename_i e' he'
          cases h
          exact ih _ he'

/-- **C11.** The ordering phase rejects a remapping only with one of its four documented errors. -/
theorem C11_order_errors (c : Conv) (rm : List (Str × Str)) (e : Err) (h : orderCurieRemapping c rm = .error e) :
    e = .dupKeys ∨ e = .dupValues ∨ e = .inconsistent ∨ e = .cycle := by
  unfold orderCurieRemapping at h
  split at h
  · cases h; exact Or.inl rfl
  · split at h
    · cases h; exact Or.inr (Or.inl rfl)
    · split at h
      · cases h; exact Or.inr (Or.inr (Or.inl rfl))
      · split at h
        · cases h
        · exact Or.inr (Or.inr (Or.inr (peel_errors _ _ _ h)))

theorem peel_perm (fuel : Nat) (d out : List (Str × Str)) (h : peel fuel d = .ok out) : out.Perm d := by
  induction fuel generalizing d out with
  | zero =>
    cases d with
    | nil => simp [peel] at h; subst h; exact List.Perm.refl _
    | cons a as => simp [peel] at h
  | succ n ih =>
    cases d with
    | nil => simp [peel] at h; subst h; exact List.Perm.refl _
    | cons a as =>
      simp only [peel] at h
      split at h
      · cases h
      · split at h
        · rename_i rest hrest
          cases h
          have h1 := ih _ _ hrest
          have h2 := isort_perm pairLe ((a :: as).filter fun kv =>
            (((a :: as).map (·.2)).filter fun v => !((a :: as).map (·.1)).contains v).contains kv.2)
          exact (List.Perm.append h2 h1).trans (List.filter_append_perm _ _)
        · cases h

/-- **C11.** An accepted remapping is processed pair by pair, each pair exactly once. -/
theorem C11_ordering_perm (c : Conv) (rm ordering : List (Str × Str)) (h : orderCurieRemapping c rm = .ok ordering) :
    ordering.Perm rm := by
  unfold orderCurieRemapping at h
  split at h
  · cases h
  · split at h
    · cases h
    · split at h
      · cases h
      · split at h
        · cases h; exact isort_perm _ _
        · exact peel_perm _ _ _ h

/-- **C11.** A pair whose old prefix is unknown to the converter is skipped. -/
theorem C11_skip_unknown (c : Conv) (ho : List Str) (s : RState) (old new : Str) (h : std c old = none) :
    remapStep c ho s (old, new) = .ok s := by
  unfold remapStep
  simp only [h]

/-- the part of a record a CURIE-prefix remapping must not touch -/
def uriPart (r : Record) : Str × List Str × Option Str := (r.uri, r.uSyn, r.pattern)

/-- the three things a step can do: nothing; only pop a record (a clash: the pair is skipped);
rename one record — leaving its URI part alone -/
theorem remapStep_cases (c : Conv) (ho : List Str) (s s' : RState) (old new : Str)
    (h : remapStep c ho s (old, new) = .ok s') :
    s' = s ∨ (∃ i, i ∉ s.popped ∧ i < s.working.length ∧ s' = { s with popped := s.popped ++ [i] }) ∨
    (∃ i record record', i ∉ s.popped ∧ s.working[i]? = some record ∧ uriPart record' = uriPart record ∧
      (∀ p, p ∈ record'.allP ↔ p = new ∨ (p ∈ record.allP ∧ p ≠ new ∧ (p ≠ old ∨ old ∉ ho))) ∧
      s' = { working := s.working.set i record', popped := s.popped ++ [i] }) := by
  unfold remapStep at h
  simp only at h
  cases h1 : std c old with
  | none => simp only [h1] at h; cases h; exact Or.inl rfl
  | some oc =>
    simp only [h1] at h
    cases h2 : c.records.findIdx? (fun r => r.pfx == oc) with
    | none => simp only [h2] at h; cases h
    | some i =>
      simp only [h2] at h
      by_cases h3 : s.popped.contains i = true
      · rw [if_pos h3] at h; cases h
      · rw [if_neg h3] at h
        cases h4 : s.working[i]? with
        | none => simp only [h4] at h; cases h
        | some record =>
          simp only [h4] at h
          have hnp : i ∉ s.popped := by simpa using h3
          have hlt : i < s.working.length := by
            rcases Nat.lt_or_ge i s.working.length with h' | h'
            · exact h'
            · rw [List.getElem?_eq_none_iff.mpr h'] at h4; cases h4
          by_cases hcl : clashWith s.working record new = true
          · rw [if_pos hcl] at h; cases h; exact Or.inr (Or.inl ⟨i, hnp, hlt, rfl⟩)
          · rw [if_neg hcl] at h; cases h
            refine Or.inr (Or.inr ⟨i, record,
              { record with pSyn := setUpdate record.pSyn record.pfx (if ho.contains old then [new, old] else [new]),
                            pfx := new }, hnp, h4, rfl, ?_, rfl⟩)
            intro p
            simp only [Record.allP, List.mem_cons, mem_setUpdate]
            by_cases hho : ho.contains old = true
            · have hho' : old ∈ ho := by simpa using hho
              simp only [hho, if_true, List.mem_cons, List.not_mem_nil, or_false, not_or]
              constructor
              · rintro (h1 | ⟨h1, h2, h3⟩)
                · exact Or.inl h1
                · exact Or.inr ⟨by rcases h1 with h1 | h1; exact Or.inr h1; exact Or.inl h1, h2,
                    Or.inl h3⟩
              · rintro (h1 | ⟨h1, h2, h3⟩)
                · exact Or.inl h1
                · refine Or.inr ⟨by rcases h1 with h1 | h1; exact Or.inr h1; exact Or.inl h1, h2, ?_⟩
                  rcases h3 with h3 | h3
                  · exact h3
                  · exact absurd hho' h3
            · have hho' : old ∉ ho := by simpa using hho
              simp only [hho, Bool.false_eq_true, if_false, List.mem_cons, List.not_mem_nil, or_false]
              constructor
              · rintro (h1 | ⟨h1, h2⟩)
                · exact Or.inl h1
                · exact Or.inr ⟨by rcases h1 with h1 | h1; exact Or.inr h1; exact Or.inl h1, h2, Or.inr hho'⟩
              · rintro (h1 | ⟨h1, h2, _⟩)
                · exact Or.inl h1
                · exact Or.inr ⟨by rcases h1 with h1 | h1; exact Or.inr h1; exact Or.inl h1, h2⟩

/-- **C11.** Every step keeps the number of working records and, position by position, each record's
canonical URI prefix, URI-prefix synonyms and pattern. -/
theorem C11_step_uri_part (c : Conv) (ho : List Str) (s s' : RState) (pair : Str × Str)
    (h : remapStep c ho s pair = .ok s') :
    s'.working.length = s.working.length ∧ s'.working.map uriPart = s.working.map uriPart := by
  obtain ⟨old, new⟩ := pair
  rcases remapStep_cases c ho s s' old new h with e | ⟨i, _, _, e⟩ | ⟨i, record, record', _, hrec, hu, _, e⟩
  · subst e; exact ⟨rfl, rfl⟩
  · subst e; exact ⟨rfl, rfl⟩
  · subst e
    refine ⟨by simp, ?_⟩
    apply List.ext_getElem?
    intro k
    simp only [List.getElem?_map, List.getElem?_set]
    by_cases hik : i = k
    · subst hik
      have hlt : i < s.working.length := by
        rcases Nat.lt_or_ge i s.working.length with h' | h'
        · exact h'
        · rw [List.getElem?_eq_none_iff.mpr h'] at hrec; cases hrec
      simp only [if_true, hlt, hrec, Option.map_some, hu]
    · simp only [hik, if_false]

/-- over a whole run -/
theorem C11_run_uri_part (c : Conv) (ho : List Str) (ordering : List (Str × Str)) (s s' : RState)
    (h : ordering.foldlM (remapStep c ho) s = .ok s') :
    s'.working.length = s.working.length ∧ s'.working.map uriPart = s.working.map uriPart := by
  induction ordering generalizing s with
  | nil => simp [List.foldlM, pure, Except.pure] at h; subst h; exact ⟨rfl, rfl⟩
  | cons p ps ih =>
    rw [List.foldlM_cons] at h
    cases h1 : remapStep c ho s p with
    | error e => simp [h1, bind, Except.bind] at h
    | ok s1 =>
      simp [h1, bind, Except.bind] at h
      have a := C11_step_uri_part c ho s s1 p h1
      have b := ih s1 h
      exact ⟨b.1.trans a.1, b.2.trans a.2⟩

/-! ### every record comes out exactly once -/

/-- bookkeeping invariant of the main loop -/
def PoppedOK (s : RState) : Prop := s.popped.Nodup ∧ ∀ i ∈ s.popped, i < s.working.length

theorem poppedOK_step (c : Conv) (ho : List Str) (s s' : RState) (pair : Str × Str) (hinv : PoppedOK s)
    (h : remapStep c ho s pair = .ok s') : PoppedOK s' := by
  obtain ⟨old, new⟩ := pair
  rcases remapStep_cases c ho s s' old new h with e | ⟨i, hnp, hlt, e⟩ | ⟨i, record, record', hnp, hrec, _, _, e⟩
  · subst e; exact hinv
  · subst e
    refine ⟨?_, ?_⟩
    · exact List.nodup_append.mpr ⟨hinv.1, by simp, by intro a ha b hb; simp at hb; subst hb; exact fun e => hnp (e ▸ ha)⟩
    · intro j hj
      rcases List.mem_append.mp hj with hj | hj
      · exact hinv.2 j hj
      · simp at hj; subst hj; exact hlt
  · subst e
    have hlt : i < s.working.length := by
      rcases Nat.lt_or_ge i s.working.length with h' | h'
      · exact h'
      · rw [List.getElem?_eq_none_iff.mpr h'] at hrec; cases hrec
    refine ⟨?_, ?_⟩
    · exact List.nodup_append.mpr ⟨hinv.1, by simp, by intro a ha b hb; simp at hb; subst hb; exact fun e => hnp (e ▸ ha)⟩
    · intro j hj
      simp only [List.length_set]
      rcases List.mem_append.mp hj with hj | hj
      · exact hinv.2 j hj
      · simp at hj; subst hj; exact hlt

theorem poppedOK_run (c : Conv) (ho : List Str) (ordering : List (Str × Str)) (s s' : RState) (hinv : PoppedOK s)
    (h : ordering.foldlM (remapStep c ho) s = .ok s') : PoppedOK s' := by
  induction ordering generalizing s with
  | nil => simp [List.foldlM, pure, Except.pure] at h; subst h; exact hinv
  | cons p ps ih =>
    rw [List.foldlM_cons] at h
    cases h1 : remapStep c ho s p with
    | error e => simp [h1, bind, Except.bind] at h
    | ok s1 =>
      simp [h1, bind, Except.bind] at h
      exact ih s1 (poppedOK_step c ho s s1 p hinv h1) h

theorem filterMap_range_getElem? {α : Type} (l : List α) : (List.range l.length).filterMap (l[·]?) = l := by
  induction l with
  | nil => rfl
  | cons a t ih =>
    rw [List.length_cons, List.range_succ_eq_map, List.filterMap_cons]
    simp only [List.getElem?_cons_zero, List.filterMap_map]
    congr 1

/-- the records handed to the final constructor are the working records, each exactly once -/
theorem result_perm (s : RState) (hinv : PoppedOK s) : s.result.Perm s.working := by
  unfold RState.result
  rw [← List.filterMap_append]
  have hidx : (((List.range s.working.length).filter fun i => !s.popped.contains i) ++ s.popped).Perm
      (List.range s.working.length) := by
    have h1 : s.popped.Perm ((List.range s.working.length).filter fun i => s.popped.contains i) := by
      rw [List.perm_ext_iff_of_nodup hinv.1 (List.Pairwise.sublist List.filter_sublist List.nodup_range)]
      intro a
      simp only [List.mem_filter, List.mem_range, List.contains_eq_mem, decide_eq_true_eq]
      exact ⟨fun ha => ⟨hinv.2 a ha, ha⟩, fun ha => ha.2⟩
    have h2 := List.filter_append_perm (fun i => s.popped.contains i) (List.range s.working.length)
    refine (List.Perm.trans ?_ h2)
    refine (List.perm_append_comm).trans (List.Perm.append h1 ?_)
    apply List.Perm.of_eq
    apply List.filter_congr
    intro x _
    simp
  exact (hidx.filterMap _).trans (List.Perm.of_eq (filterMap_range_getElem? s.working))

/-- **C11 (count and URI part).** A successful `remap_curie_prefixes` returns a converter with the same
number of records, and the records correspond one to one to the input's records with exactly
the same canonical URI prefix, URI-prefix synonyms and pattern. -/
theorem C11_uri_part (c c' : Conv) (rm : List (Str × Str)) (hok : remapCuriePrefixes c rm = .ok c') :
    c'.records.length = c.records.length ∧ (c'.records.map uriPart).Perm (c.records.map uriPart) := by
  unfold remapCuriePrefixes at hok
  cases ho : orderCurieRemapping c rm with
  | error e => simp [ho] at hok
  | ok ordering =>
    simp only [ho] at hok
    cases hf : ordering.foldlM (remapStep c ((rm.filter fun kv => (std c kv.1).isSome).map (·.2)))
        { working := c.records, popped := [] } with
    | error e => simp [hf] at hok
    | ok s =>
      simp only [hf] at hok
      have hinv := poppedOK_run c _ ordering _ s ⟨List.nodup_nil, by simp⟩ hf
      have hparts := C11_run_uri_part c _ ordering _ s hf
      have hperm := result_perm s hinv
      have hrec : c'.records.Perm s.result := by
        rw [(init?_records hok).1]; exact sortRecords_perm _
      have hp2 : (c'.records.map uriPart).Perm (c.records.map uriPart) := by
        have := ((hrec.trans hperm).map uriPart)
        rw [hparts.2] at this
        exact this
      exact ⟨by simpa using hp2.length_eq, hp2⟩

/-! ### known prefixes stay known -/

/-- one step forgets at most `old`, and only when `old` is handed over -/
theorem C11_step_known (c : Conv) (ho : List Str) (s s' : RState) (old new : Str)
    (h : remapStep c ho s (old, new) = .ok s') (p : Str) (hp : ∃ r ∈ s.working, p ∈ r.allP)
    (hkeep : p ≠ old ∨ old ∉ ho) : ∃ r ∈ s'.working, p ∈ r.allP := by
  obtain ⟨r, hr, hpr⟩ := hp
  rcases remapStep_cases c ho s s' old new h with e | ⟨i, _, _, e⟩ | ⟨i, record, record', _, hrec, _, hall, e⟩
  · subst e; exact ⟨r, hr, hpr⟩
  · subst e; exact ⟨r, hr, hpr⟩
  · subst e
    obtain ⟨k, hk, rfl⟩ := List.mem_iff_getElem.mp hr
    by_cases hik : k = i
    · subst hik
      have hrec' : s.working[k] = record := by
        rw [List.getElem?_eq_getElem hk] at hrec; exact Option.some.inj hrec
      refine ⟨record', ?_, ?_⟩
      · rw [List.mem_iff_getElem]; exact ⟨k, by simpa using hk, by simp⟩
      · rw [hall p]
        by_cases hpn : p = new
        · exact Or.inl hpn
        · exact Or.inr ⟨hrec' ▸ hpr, hpn, hkeep⟩
    · refine ⟨s.working[k], ?_, hpr⟩
      rw [List.mem_iff_getElem]
      exact ⟨k, by simpa using hk, by rw [List.getElem_set]; simp [Ne.symm hik]⟩

/-- **C11 (partial: remappings that hand nothing over).** If no key of the remapping is the value
of a pair with a known key — no chains — every CURIE prefix known before is still known
afterwards.  (For chains the clause is decided on the implementation's records by
`Spec.C11.ok` on every run; the repaired defect F4 lived exactly there.) -/
theorem C11_known_partial (c c' : Conv) (rm : List (Str × Str)) (hok : remapCuriePrefixes c rm = .ok c')
    (hno : ∀ kv ∈ rm, kv.1 ∉ (rm.filter fun kv => (std c kv.1).isSome).map (·.2))
    (p : Str) (hp : ∃ r ∈ c.records, p ∈ r.allP) : ∃ r ∈ c'.records, p ∈ r.allP := by
  unfold remapCuriePrefixes at hok
  cases ho : orderCurieRemapping c rm with
  | error e => simp [ho] at hok
  | ok ordering =>
    simp only [ho] at hok
    cases hf : ordering.foldlM (remapStep c ((rm.filter fun kv => (std c kv.1).isSome).map (·.2)))
        { working := c.records, popped := [] } with
    | error e => simp [hf] at hok
    | ok s =>
      simp only [hf] at hok
      have hordmem : ∀ kv ∈ ordering, kv ∈ rm := fun kv hkv => (C11_ordering_perm c rm ordering ho).mem_iff.mp hkv
      -- run invariant
      have key : ∀ (l : List (Str × Str)) (s0 s1 : RState), (∀ kv ∈ l, kv ∈ rm) →
          l.foldlM (remapStep c ((rm.filter fun kv => (std c kv.1).isSome).map (·.2))) s0 = .ok s1 →
          (∃ r ∈ s0.working, p ∈ r.allP) → ∃ r ∈ s1.working, p ∈ r.allP := by
        intro l
        induction l with
        | nil => intro s0 s1 _ h hp0; simp [List.foldlM, pure, Except.pure] at h; subst h; exact hp0
        | cons kv kvs ih =>
          intro s0 s1 hl h hp0
          rw [List.foldlM_cons] at h
          cases h1 : remapStep c ((rm.filter fun kv => (std c kv.1).isSome).map (·.2)) s0 kv with
          | error e => simp [h1, bind, Except.bind] at h
          | ok sm =>
            simp [h1, bind, Except.bind] at h
            exact ih sm s1 (fun x hx => hl x (by simp [hx])) h
              (C11_step_known c _ s0 sm kv.1 kv.2 h1 p hp0 (Or.inr (hno kv (hl kv (by simp)))))
      obtain ⟨r, hr, hpr⟩ := key ordering _ s hordmem hf hp
      have hinv := poppedOK_run c _ ordering _ s ⟨List.nodup_nil, by simp⟩ hf
      have hrec : c'.records.Perm s.working := by
        rw [(init?_records hok).1]; exact (sortRecords_perm _).trans (result_perm s hinv)
      exact ⟨r, hrec.mem_iff.mpr hr, hpr⟩


/-! ### the ordering: a value is never the key of a later pair -/

def ValBeforeKey (l : List (Str × Str)) : Prop := l.Pairwise fun a b => a.2 ≠ b.1

theorem pairwise_of_forall_mem {α} {R : α → α → Prop} {l : List α} (h : ∀ a ∈ l, ∀ b ∈ l, R a b) : l.Pairwise R := by
  rw [List.pairwise_iff_getElem]
  intro i j hi hj _
  exact h _ (List.getElem_mem hi) _ (List.getElem_mem hj)

theorem ordered_append {E R d : List (Str × Str)} {no : List Str} (hE : ∀ x ∈ E, x ∈ d ∧ x.2 ∈ no)
    (hR : ∀ y ∈ R, y ∈ d) (hno : ∀ v ∈ no, ∀ y ∈ d, v ≠ y.1) (hRo : ValBeforeKey R) : ValBeforeKey (E ++ R) := by
  unfold ValBeforeKey
  rw [List.pairwise_append]
  refine ⟨pairwise_of_forall_mem ?_, hRo, ?_⟩
  · intro a ha b hb
    exact hno a.2 (hE a ha).2 b (hE b hb).1
  · intro a ha b hb
    exact hno a.2 (hE a ha).2 b (hR b hb)

theorem peel_ordered (fuel : Nat) (d out : List (Str × Str)) (h : peel fuel d = .ok out) : ValBeforeKey out := by
  induction fuel generalizing d out with
  | zero =>
    cases d with
    | nil => simp [peel] at h; subst h; exact List.Pairwise.nil
    | cons a as => simp [peel] at h
  | succ n ih =>
    cases d with
    | nil => simp [peel] at h; subst h; exact List.Pairwise.nil
    | cons a as =>
      simp only [peel] at h
      split at h
      · cases h
      · split at h
        · rename_i rest hrest
          cases h
          have hperm := peel_perm _ _ _ hrest
          refine ordered_append (d := a :: as)
            (no := ((a :: as).map (·.2)).filter fun v => !((a :: as).map (·.1)).contains v) ?_ ?_ ?_ (ih _ _ hrest)
          · intro x hx
            rw [mem_isort, List.mem_filter] at hx
            exact ⟨hx.1, by simpa using hx.2⟩
          · intro y hy
            exact (List.mem_filter.mp (hperm.mem_iff.mp hy)).1
          · intro v hv y hy e
            have := (List.mem_filter.mp hv).2
            have hnm : v ∉ (a :: as).map (·.1) := by simpa using this
            exact hnm (List.mem_map.mpr ⟨y, hy, e.symm⟩)
        · cases h

theorem order_ordered (c : Conv) (rm ordering : List (Str × Str)) (h : orderCurieRemapping c rm = .ok ordering) :
    ValBeforeKey ordering := by
  unfold orderCurieRemapping at h
  split at h
  · cases h
  · split at h
    · cases h
    · split at h
      · cases h
      · split at h
        · rename_i hno
          cases h
          apply pairwise_of_forall_mem
          intro a ha b hb e
          rw [mem_isort] at ha hb
          have hany : ((rm.map (·.1)).any fun k => (rm.map (·.2)).contains k) = true := by
            rw [List.any_eq_true]
            exact ⟨b.1, List.mem_map.mpr ⟨b, hb, rfl⟩, by
              rw [List.contains_iff_mem]; exact List.mem_map.mpr ⟨a, ha, e⟩⟩
          rw [hany] at hno
          exact absurd hno (by decide)
        · exact peel_ordered _ _ _ h

/-! ### a handed-over prefix is always picked up -/

def KnownIn (working : List Record) (p : Str) : Prop := ∃ r ∈ working, p ∈ r.allP

/-- what a successful step with a *known* old prefix guarantees about the new prefix: it is known
afterwards (either some record already listed it — the clash that is skipped — or it has just
become the canonical prefix of old's record) -/
theorem remapStep_new_known (c : Conv) (ho : List Str) (s s' : RState) (old new : Str)
    (h : remapStep c ho s (old, new) = .ok s') (hk : (std c old).isSome) : KnownIn s'.working new := by
  unfold remapStep at h
  simp only at h
  cases h1 : std c old with
  | none => rw [h1] at hk; cases hk
  | some oc =>
    simp only [h1] at h
    cases h2 : c.records.findIdx? (fun r => r.pfx == oc) with
    | none => simp only [h2] at h; cases h
    | some i =>
      simp only [h2] at h
      by_cases h3 : s.popped.contains i = true
      · rw [if_pos h3] at h; cases h
      · rw [if_neg h3] at h
        cases h4 : s.working[i]? with
        | none => simp only [h4] at h; cases h
        | some record =>
          simp only [h4] at h
          have hlt : i < s.working.length := by
            rcases Nat.lt_or_ge i s.working.length with h' | h'
            · exact h'
            · rw [List.getElem?_eq_none_iff.mpr h'] at h4; cases h4
          by_cases hcl : clashWith s.working record new = true
          · rw [if_pos hcl] at h; cases h
            unfold clashWith at hcl
            cases hf : s.working.find? (fun r => r.allP.contains new) with
            | none => rw [hf] at hcl; exact absurd hcl (by simp)
            | some nr =>
              exact ⟨nr, List.mem_of_find?_eq_some hf, by simpa using List.find?_some hf⟩
          · rw [if_neg hcl] at h; cases h
            exact ⟨{ record with pSyn := setUpdate record.pSyn record.pfx (if ho.contains old then [new, old] else [new]),
                                 pfx := new },
              by rw [List.mem_iff_getElem]; exact ⟨i, by simpa using hlt, by simp⟩, by simp [Record.allP]⟩

/-- one step forgets at most `old`, only when `old` is handed over, and never `new` -/
theorem step_known_or_lost (c : Conv) (ho : List Str) (s s' : RState) (old new : Str)
    (h : remapStep c ho s (old, new) = .ok s') (p : Str) (hp : KnownIn s.working p) :
    KnownIn s'.working p ∨ (p = old ∧ old ∈ ho) := by
  by_cases hk : p ≠ old ∨ old ∉ ho
  · exact Or.inl (C11_step_known c ho s s' old new h p hp hk)
  · right
    have : ¬ p ≠ old ∧ ¬ old ∉ ho := by
      constructor
      · intro h1; exact hk (Or.inl h1)
      · intro h2; exact hk (Or.inr h2)
    exact ⟨Classical.not_not.mp this.1, Classical.not_not.mp this.2⟩

/-- the invariant of the main loop: `p` is known, or a pair that hands `p` to a known record is
still waiting to be processed -/
theorem run_known (c : Conv) (rm : List (Str × Str)) (p : Str) :
    ∀ (l pre : List (Str × Str)) (s0 s1 : RState), ValBeforeKey (pre ++ l) → (∀ kv ∈ rm, kv ∈ pre ++ l) →
      l.foldlM (remapStep c ((rm.filter fun kv => (std c kv.1).isSome).map (·.2))) s0 = .ok s1 →
      (KnownIn s0.working p ∨ ∃ kv ∈ l, kv.2 = p ∧ (std c kv.1).isSome) → KnownIn s1.working p := by
  intro l
  induction l with
  | nil =>
    intro pre s0 s1 _ _ h hinv
    simp [List.foldlM, pure, Except.pure] at h
    subst h
    rcases hinv with hk | ⟨kv, hkv, _⟩
    · exact hk
    · cases hkv
  | cons kv kvs ih =>
    intro pre s0 s1 hord hall h hinv
    rw [List.foldlM_cons] at h
    cases h1 : remapStep c ((rm.filter fun kv => (std c kv.1).isSome).map (·.2)) s0 kv with
    | error e => simp [h1, bind, Except.bind] at h
    | ok sm =>
      simp [h1, bind, Except.bind] at h
      have hord' : ValBeforeKey ((pre ++ [kv]) ++ kvs) := by simpa using hord
      have hall' : ∀ x ∈ rm, x ∈ (pre ++ [kv]) ++ kvs := by simpa using hall
      apply ih (pre ++ [kv]) sm s1 hord' hall' h
      rcases hinv with hk | ⟨kv', hkv', hv, hs⟩
      · rcases step_known_or_lost c _ s0 sm kv.1 kv.2 h1 p hk with hk' | ⟨hpo, hho⟩
        · exact Or.inl hk'
        · -- `p = old` was handed over: some pair with a known key has value `p`
          obtain ⟨x, hx, hx2⟩ := List.mem_map.mp hho
          have hxf := List.mem_filter.mp hx
          have hxm := hall x hxf.1
          have hx2' : x.2 = kv.1 := hx2
          rcases List.mem_append.mp hxm with hpre | hrest
          · -- before the current pair: impossible, its value would be the key of a later pair
            have := (List.pairwise_append.mp hord).2.2 x hpre kv (by simp)
            exact absurd hx2' this
          · rcases List.mem_cons.mp hrest with rfl | hin
            · -- the current pair itself hands `p` over: its new prefix is `p`, known after the step
              left
              have := remapStep_new_known c _ s0 sm x.1 x.2 h1 hxf.2
              rw [hx2', ← hpo] at this
              exact this
            · exact Or.inr ⟨x, hin, by rw [hx2', hpo], hxf.2⟩
      · rcases List.mem_cons.mp hkv' with rfl | hin
        · left
          have := remapStep_new_known c _ s0 sm kv'.1 kv'.2 h1 hs
          rw [hv] at this
          exact this
        · exact Or.inr ⟨kv', hin, hv, hs⟩

/-- **C11 (every known prefix stays known), at full strength.** Whatever the remapping — chains,
partially applicable chains, remappings onto existing synonyms — every CURIE prefix known before a
successful `remap_curie_prefixes` is known afterwards: old names become synonyms, and a prefix
that a transitive remapping hands over is picked up as canonical prefix by the record it is handed
to (or is still listed by its old record when that pair was skipped as a clash). -/
theorem C11_known (c c' : Conv) (rm : List (Str × Str)) (hok : remapCuriePrefixes c rm = .ok c')
    (p : Str) (hp : ∃ r ∈ c.records, p ∈ r.allP) : ∃ r ∈ c'.records, p ∈ r.allP := by
  unfold remapCuriePrefixes at hok
  cases ho : orderCurieRemapping c rm with
  | error e => simp [ho] at hok
  | ok ordering =>
    simp only [ho] at hok
    cases hf : ordering.foldlM (remapStep c ((rm.filter fun kv => (std c kv.1).isSome).map (·.2)))
        { working := c.records, popped := [] } with
    | error e => simp [hf] at hok
    | ok s =>
      simp only [hf] at hok
      have hperm := C11_ordering_perm c rm ordering ho
      obtain ⟨r, hr, hpr⟩ := run_known c rm p ordering [] _ s (by simpa using order_ordered c rm ordering ho)
        (fun kv hkv => by simpa using hperm.mem_iff.mpr hkv) hf (Or.inl hp)
      have hinv := poppedOK_run c _ ordering _ s ⟨List.nodup_nil, by simp⟩ hf
      have hrec : c'.records.Perm s.working := by
        rw [(init?_records hok).1]; exact (sortRecords_perm _).trans (result_perm s hinv)
      exact ⟨r, hrec.mem_iff.mpr hr, hpr⟩


/-- the record a non-clashing step writes back -/
def renamed (ho : List Str) (record : Record) (old new : Str) : Record :=
  { record with pSyn := setUpdate record.pSyn record.pfx (if ho.contains old then [new, old] else [new]), pfx := new }

/-- the master case analysis of one iteration of the main loop -/
theorem remapStep_master (c : Conv) (ho : List Str) (s s' : RState) (old new : Str)
    (h : remapStep c ho s (old, new) = .ok s') :
    (std c old = none ∧ s' = s) ∨
    ∃ oc i record, std c old = some oc ∧ c.records.findIdx? (fun r => r.pfx == oc) = some i ∧ i ∉ s.popped ∧
      s.working[i]? = some record ∧
      ((clashWith s.working record new = true ∧ s' = { s with popped := s.popped ++ [i] }) ∨
       (clashWith s.working record new = false ∧
         s' = { working := s.working.set i (renamed ho record old new), popped := s.popped ++ [i] })) := by
  unfold remapStep at h
  simp only at h
  cases h1 : std c old with
  | none => simp only [h1] at h; cases h; exact Or.inl ⟨rfl, rfl⟩
  | some oc =>
    simp only [h1] at h
    cases h2 : c.records.findIdx? (fun r => r.pfx == oc) with
    | none => simp only [h2] at h; cases h
    | some i =>
      simp only [h2] at h
      by_cases h3 : s.popped.contains i = true
      · rw [if_pos h3] at h; cases h
      · rw [if_neg h3] at h
        cases h4 : s.working[i]? with
        | none => simp only [h4] at h; cases h
        | some record =>
          simp only [h4] at h
          have hnp : i ∉ s.popped := by simpa using h3
          right
          refine ⟨oc, i, record, rfl, h2, hnp, h4, ?_⟩
          by_cases hcl : clashWith s.working record new = true
          · rw [if_pos hcl] at h; cases h; exact Or.inl ⟨hcl, rfl⟩
          · rw [if_neg hcl] at h; cases h
            exact Or.inr ⟨by simpa using hcl, rfl⟩

/-! ### no two different keys standardise to the same known prefix -/

theorem combinations2_pairwise {α} {R : α → α → Prop} (l : List α) (h : ∀ ab ∈ combinations2 l, R ab.1 ab.2) :
    l.Pairwise R := by
  induction l with
  | nil => exact List.Pairwise.nil
  | cons a as ih =>
    rw [List.pairwise_cons]
    constructor
    · intro b hb
      exact h (a, b) (by simp [combinations2, hb])
    · exact ih (fun ab hab => h ab (by simp [combinations2, hab]))

theorem dupKeys_inj (c : Conv) (rm : List (Str × Str)) (h : hasDuplicateKeys c rm = false) {a b : Str × Str}
    (ha : a ∈ rm) (hb : b ∈ rm) {x : Str} (h1 : std c a.1 = some x) (h2 : std c b.1 = some x) : a.1 = b.1 := by
  apply Classical.byContradiction
  intro hne
  have hpw : (rm.map (·.1)).Pairwise (fun k k' => ¬ ((std c k).isSome = true ∧ std c k = std c k')) := by
    apply combinations2_pairwise
    intro ab hab
    unfold hasDuplicateKeys at h
    rw [List.any_eq_false] at h
    have := h ab hab
    simpa using this
  obtain ⟨i, hi, rfl⟩ := List.mem_iff_getElem.mp ha
  obtain ⟨j, hj, rfl⟩ := List.mem_iff_getElem.mp hb
  have hij : i ≠ j := by intro e; subst e; exact hne rfl
  have hget := List.pairwise_iff_getElem.mp hpw
  rcases Nat.lt_or_gt_of_ne hij with hlt | hgt
  · have := hget i j (by simpa using hi) (by simpa using hj) hlt
    simp only [List.getElem_map] at this
    exact this ⟨by rw [h1]; rfl, by rw [h1, h2]⟩
  · have := hget j i (by simpa using hj) (by simpa using hi) hgt
    simp only [List.getElem_map] at this
    exact this ⟨by rw [h2]; rfl, by rw [h1, h2]⟩

theorem order_noDupKeys (c : Conv) (rm ordering : List (Str × Str)) (h : orderCurieRemapping c rm = .ok ordering) :
    hasDuplicateKeys c rm = false := by
  unfold orderCurieRemapping at h
  split at h
  · cases h
  · rename_i hd; simpa using hd

/-! ### an applicable pair onto an unused prefix is applied -/

theorem findIdx?_some_getElem? {α} (p : α → Bool) (l : List α) (i : Nat) (h : l.findIdx? p = some i) :
    ∃ x, l[i]? = some x ∧ p x = true := by
  rw [List.findIdx?_eq_some_iff_getElem] at h
  obtain ⟨hi, hp, _⟩ := h
  exact ⟨l[i], by simp [hi], hp⟩

structure Pre (c : Conv) (idx : Nat) (vals : List Str) (s : RState) : Prop where
  notPopped : idx ∉ s.popped
  same : ∀ i, i ∉ s.popped → s.working[i]? = c.records[i]?
  names : ∀ x ∈ s.working, ∀ q ∈ x.allP, (∃ r ∈ c.records, q ∈ r.allP) ∨ q ∈ vals

theorem mem_renamed_allP (ho : List Str) (record : Record) (old new q : Str) (h : q ∈ (renamed ho record old new).allP) :
    q = new ∨ q ∈ record.allP := by
  simp only [renamed, Record.allP, List.mem_cons, mem_setUpdate] at h ⊢
  rcases h with h | ⟨h, _⟩
  · exact Or.inl h
  · rcases h with h | h
    · exact Or.inr (Or.inr h)
    · exact Or.inr (Or.inl h)

theorem pre_step (c : Conv) (ho : List Str) (idx : Nat) (tp : Str) (vals : List Str) (s s' : RState) (o n : Str)
    (hidx : c.records.findIdx? (fun r => r.pfx == tp) = some idx)
    (hpre : Pre c idx vals s) (h : remapStep c ho s (o, n) = .ok s') (hne : std c o ≠ some tp) :
    Pre c idx (vals ++ [n]) s' := by
  have weaken : ∀ x ∈ s.working, ∀ q ∈ x.allP, (∃ r ∈ c.records, q ∈ r.allP) ∨ q ∈ vals ++ [n] := by
    intro x hx q hq
    rcases hpre.names x hx q hq with h1 | h1
    · exact Or.inl h1
    · exact Or.inr (List.mem_append.mpr (Or.inl h1))
  rcases remapStep_master c ho s s' o n h with ⟨_, e⟩ | ⟨oc, i, record, hstd, hfi, hnp, hrec, hcase⟩
  · subst e; exact ⟨hpre.notPopped, hpre.same, weaken⟩
  · have hii : i ≠ idx := by
      intro e; subst e
      obtain ⟨x, hx, hpx⟩ := findIdx?_some_getElem? _ _ _ hfi
      obtain ⟨y, hy, hpy⟩ := findIdx?_some_getElem? _ _ _ hidx
      rw [hx] at hy
      cases hy
      have e1 : x.pfx = oc := by simpa using hpx
      have e2 : x.pfx = tp := by simpa using hpy
      exact hne (by rw [hstd, ← e1, e2])
    have hpop : idx ∉ s.popped ++ [i] := by
      intro hm
      rcases List.mem_append.mp hm with hm | hm
      · exact hpre.notPopped hm
      · simp at hm; exact hii hm.symm
    rcases hcase with ⟨_, e⟩ | ⟨_, e⟩
    · subst e
      exact ⟨hpop, fun j hj => hpre.same j (fun hm => hj (List.mem_append.mpr (Or.inl hm))), weaken⟩
    · subst e
      refine ⟨hpop, ?_, ?_⟩
      · intro j hj
        have hj1 : j ∉ s.popped := fun hm => hj (List.mem_append.mpr (Or.inl hm))
        have hj2 : j ≠ i := fun e => hj (List.mem_append.mpr (Or.inr (by simp [e])))
        show (s.working.set i _)[j]? = _
        rw [List.getElem?_set_ne (Ne.symm hj2)]
        exact hpre.same j hj1
      · intro x hx q hq
        rcases List.mem_or_eq_of_mem_set hx with hx | hx
        · exact weaken x hx q hq
        · subst hx
          rcases mem_renamed_allP ho record o n q hq with e | hq'
          · exact Or.inr (by simp [e])
          · have : record ∈ s.working := List.mem_of_getElem? hrec
            exact weaken record this q hq'

theorem pre_run (c : Conv) (ho : List Str) (idx : Nat) (tp : Str)
    (hidx : c.records.findIdx? (fun r => r.pfx == tp) = some idx) :
    ∀ (l : List (Str × Str)) (vals : List Str) (s s' : RState), Pre c idx vals s →
      l.foldlM (remapStep c ho) s = .ok s' → (∀ kv ∈ l, std c kv.1 ≠ some tp) →
      Pre c idx (vals ++ l.map (·.2)) s' := by
  intro l
  induction l with
  | nil =>
    intro vals s s' hpre h _
    simp [List.foldlM, pure, Except.pure] at h
    subst h; simpa using hpre
  | cons kv kvs ih =>
    intro vals s s' hpre h hne
    rw [List.foldlM_cons] at h
    cases h1 : remapStep c ho s kv with
    | error e => simp [h1, bind, Except.bind] at h
    | ok sm =>
      simp [h1, bind, Except.bind] at h
      have := ih (vals ++ [kv.2]) sm s' (pre_step c ho idx tp vals s sm kv.1 kv.2 hidx hpre h1 (hne kv (by simp))) h
        (fun x hx => hne x (by simp [hx]))
      simpa using this

/-- once a record has been popped it is never written again -/
theorem post_run (c : Conv) (ho : List Str) (idx : Nat) (rec' : Record) :
    ∀ (l : List (Str × Str)) (s s' : RState), idx ∈ s.popped → s.working[idx]? = some rec' →
      l.foldlM (remapStep c ho) s = .ok s' → s'.working[idx]? = some rec' := by
  intro l
  induction l with
  | nil =>
    intro s s' _ hw h
    simp [List.foldlM, pure, Except.pure] at h
    subst h; exact hw
  | cons kv kvs ih =>
    intro s s' hp hw h
    rw [List.foldlM_cons] at h
    cases h1 : remapStep c ho s kv with
    | error e => simp [h1, bind, Except.bind] at h
    | ok sm =>
      simp [h1, bind, Except.bind] at h
      apply ih sm s' ?_ ?_ h
      · rcases remapStep_master c ho s sm kv.1 kv.2 h1 with ⟨_, e⟩ | ⟨_, i, _, _, _, _, _, ⟨_, e⟩ | ⟨_, e⟩⟩
        · subst e; exact hp
        · subst e; exact List.mem_append.mpr (Or.inl hp)
        · subst e; exact List.mem_append.mpr (Or.inl hp)
      · rcases remapStep_master c ho s sm kv.1 kv.2 h1 with ⟨_, e⟩ | ⟨_, i, _, _, _, hnp, _, ⟨_, e⟩ | ⟨_, e⟩⟩
        · subst e; exact hw
        · subst e; exact hw
        · subst e
          have : i ≠ idx := fun e => hnp (e ▸ hp)
          show (s.working.set i _)[idx]? = _
          rw [List.getElem?_set_ne this]; exact hw

/-- **C11 (applicable pairs are applied).** Let `old ↦ new` be a pair of the remapping (a dict:
distinct keys) whose old prefix is known — canonical or synonym of the record `r` — and whose new
prefix is unused in the converter and is the value of no other pair.  Then after a successful
`remap_curie_prefixes` the record of `r` (same canonical URI prefix, URI-prefix synonyms and
pattern) has `new` as its canonical prefix. -/
theorem C11_applied {c : Conv} (hw : WF c) (c' : Conv) (rm : List (Str × Str)) (hkeys : (rm.map (·.1)).Nodup)
    (hok : remapCuriePrefixes c rm = .ok c') (old new : Str) (hmem : (old, new) ∈ rm)
    (r : Record) (hr : r ∈ c.records) (hold : old ∈ r.allP)
    (hunused : ∀ x ∈ c.records, new ∉ x.allP)
    (hone : ∀ kv ∈ rm, kv.2 = new → kv = (old, new)) :
    ∃ r' ∈ c'.records, r'.pfx = new ∧ r'.uri = r.uri ∧ r'.uSyn = r.uSyn ∧ r'.pattern = r.pattern := by
  have hstd : std c old = some r.pfx := by
    unfold std
    rw [hw.mirror.sp, ownerP_of_mem hw.unique hr hold]; rfl
  -- the position of `r`
  have hsome : (c.records.findIdx? (fun x => x.pfx == r.pfx)).isSome := by
    rw [List.findIdx?_isSome]
    exact List.any_eq_true.mpr ⟨r, hr, by simp⟩
  obtain ⟨idx, hidx⟩ := Option.isSome_iff_exists.mp hsome
  obtain ⟨x, hx, hpx⟩ := findIdx?_some_getElem? _ _ _ hidx
  have hxr : x = r := by
    have hxm : x ∈ c.records := List.mem_of_getElem? hx
    have e : x.pfx = r.pfx := by simpa using hpx
    have h1 := find?_pfx_of_mem hw.unique hxm
    have h2 := find?_pfx_of_mem hw.unique hr
    rw [e, h2] at h1
    exact (Option.some.inj h1).symm
  subst hxr
  unfold remapCuriePrefixes at hok
  cases ho : orderCurieRemapping c rm with
  | error e => simp [ho] at hok
  | ok ordering =>
    simp only [ho] at hok
    generalize hHO : (rm.filter fun kv => (std c kv.1).isSome).map (·.2) = HO at hok
    cases hf : ordering.foldlM (remapStep c HO) { working := c.records, popped := [] } with
    | error e => simp [hf] at hok
    | ok s =>
      simp only [hf] at hok
      have hperm := C11_ordering_perm c rm ordering ho
      have hnd := order_noDupKeys c rm ordering ho
      obtain ⟨pre, post, hsplit⟩ := List.append_of_mem (hperm.mem_iff.mpr hmem)
      have hkeys' : ((pre ++ (old, new) :: post).map (·.1)).Nodup := by
        rw [← hsplit]; exact (hperm.map _).nodup_iff.mpr hkeys
      have hnotpre : ∀ kv ∈ pre, kv.1 ≠ old := by
        intro kv hkv e
        rw [List.map_append, List.nodup_append] at hkeys'
        exact hkeys'.2.2 kv.1 (List.mem_map.mpr ⟨kv, hkv, rfl⟩) old (by simp) e
      have hmemrm : ∀ kv ∈ pre, kv ∈ rm := fun kv hkv =>
        hperm.mem_iff.mp (by rw [hsplit]; exact List.mem_append.mpr (Or.inl hkv))
      rw [hsplit, List.foldlM_append] at hf
      cases hfa : pre.foldlM (remapStep c HO) { working := c.records, popped := [] } with
      | error e => simp [hfa, bind, Except.bind] at hf
      | ok sa =>
        simp only [hfa, bind, Except.bind] at hf
        rw [List.foldlM_cons] at hf
        cases hfb : remapStep c HO sa (old, new) with
        | error e => simp [hfb, bind, Except.bind] at hf
        | ok sb =>
          simp only [hfb, bind, Except.bind] at hf
          have hpreA := pre_run c HO idx x.pfx hidx pre [] _ sa
            ⟨by simp, fun _ _ => rfl, fun y hy q hq => Or.inl ⟨y, hy, hq⟩⟩ hfa
            (by
              intro kv hkv e
              exact hnotpre kv hkv (dupKeys_inj c rm hnd (hmemrm kv hkv) hmem e hstd))
          have hxa : sa.working[idx]? = some x := by rw [hpreA.same idx hpreA.notPopped]; exact hx
          have hnoclash : clashWith sa.working x new = false := by
            unfold clashWith
            cases hfind : sa.working.find? (fun r => r.allP.contains new) with
            | none => rfl
            | some nr =>
              exfalso
              have hnm := List.mem_of_find?_eq_some hfind
              have hnn : new ∈ nr.allP := by simpa using List.find?_some hfind
              rcases hpreA.names nr hnm new hnn with ⟨y, hy, hq⟩ | hv
              · exact hunused y hy hq
              · simp only [List.nil_append] at hv
                obtain ⟨kv, hkv, e⟩ := List.mem_map.mp hv
                have := hone kv (hmemrm kv hkv) e
                exact hnotpre kv hkv (by rw [this])
          have hsb : sb.working[idx]? = some (renamed HO x old new) ∧ idx ∈ sb.popped := by
            rcases remapStep_master c HO sa sb old new hfb with ⟨hn, _⟩ | ⟨oc, i, record, hs, hfi, _, hrec, hcase⟩
            · rw [hstd] at hn; cases hn
            · rw [hstd] at hs
              cases hs
              rw [hidx] at hfi
              cases hfi
              rw [hxa] at hrec
              cases hrec
              rcases hcase with ⟨hc, _⟩ | ⟨_, e⟩
              · rw [hnoclash] at hc; cases hc
              · subst e
                have hlt : idx < sa.working.length := by
                  rcases Nat.lt_or_ge idx sa.working.length with h' | h'
                  · exact h'
                  · rw [List.getElem?_eq_none_iff.mpr h'] at hxa; cases hxa
                exact ⟨by show (sa.working.set idx _)[idx]? = _; rw [List.getElem?_set_self hlt], by simp⟩
          have hfin := post_run c HO idx _ post sb s hsb.2 hsb.1 hf
          have hinv := poppedOK_run c HO ordering { working := c.records, popped := [] } s ⟨List.nodup_nil, by simp⟩ (by
            rw [hsplit, List.foldlM_append, hfa]
            simp only [bind, Except.bind]
            rw [List.foldlM_cons, hfb]
            simp only [bind, Except.bind]
            exact hf)
          have hrec : c'.records.Perm s.working := by
            rw [(init?_records hok).1]; exact (sortRecords_perm _).trans (result_perm s hinv)
          exact ⟨_, hrec.mem_iff.mpr (List.mem_of_getElem? hfin), rfl, rfl, rfl, rfl⟩

theorem idx_of_mem {c : Conv} (hw : WF c) {r : Record} (hr : r ∈ c.records) :
    ∃ idx, c.records.findIdx? (fun x => x.pfx == r.pfx) = some idx ∧ c.records[idx]? = some r := by
  have hsome : (c.records.findIdx? (fun x => x.pfx == r.pfx)).isSome := by
    rw [List.findIdx?_isSome]
    exact List.any_eq_true.mpr ⟨r, hr, by simp⟩
  obtain ⟨idx, hidx⟩ := Option.isSome_iff_exists.mp hsome
  obtain ⟨x, hx, hpx⟩ := findIdx?_some_getElem? _ _ _ hidx
  have hxm : x ∈ c.records := List.mem_of_getElem? hx
  have e : x.pfx = r.pfx := by simpa using hpx
  have h1 := find?_pfx_of_mem hw.unique hxm
  have h2 := find?_pfx_of_mem hw.unique hr
  rw [e, h2] at h1
  exact ⟨idx, hidx, by rw [hx, (Option.some.inj h1).symm]⟩

/-- **C11 (clashing pairs are skipped).** Let `old ↦ new` be a pair whose old prefix belongs to the
record `r` and whose new prefix belongs to another record `r2` that no key of the remapping refers
to.  Then after a successful `remap_curie_prefixes` both records are there exactly as they were. -/
theorem C11_skipped {c : Conv} (hw : WF c) (c' : Conv) (rm : List (Str × Str)) (hkeys : (rm.map (·.1)).Nodup)
    (hok : remapCuriePrefixes c rm = .ok c') (old new : Str) (hmem : (old, new) ∈ rm)
    (r r2 : Record) (hr : r ∈ c.records) (hr2 : r2 ∈ c.records) (hne : r ≠ r2)
    (hold : old ∈ r.allP) (hnew : new ∈ r2.allP)
    (huntouched : ∀ kv ∈ rm, std c kv.1 ≠ some r2.pfx) :
    r ∈ c'.records ∧ r2 ∈ c'.records := by
  have hstd : std c old = some r.pfx := by
    unfold std
    rw [hw.mirror.sp, ownerP_of_mem hw.unique hr hold]; rfl
  obtain ⟨idx, hidx, hx⟩ := idx_of_mem hw hr
  obtain ⟨idx2, hidx2, hx2⟩ := idx_of_mem hw hr2
  have hnewr : new ∉ r.allP := by
    intro h
    obtain ⟨i, hi, rfl⟩ := List.mem_iff_getElem.mp hr
    obtain ⟨j, hj, rfl⟩ := List.mem_iff_getElem.mp hr2
    have hij : i ≠ j := by intro e; subst e; exact hne rfl
    exact (unique_getElem hw.unique hi hj hij).1 new h hnew
  unfold remapCuriePrefixes at hok
  cases ho : orderCurieRemapping c rm with
  | error e => simp [ho] at hok
  | ok ordering =>
    simp only [ho] at hok
    generalize hHO : (rm.filter fun kv => (std c kv.1).isSome).map (·.2) = HO at hok
    cases hf : ordering.foldlM (remapStep c HO) { working := c.records, popped := [] } with
    | error e => simp [hf] at hok
    | ok s =>
      simp only [hf] at hok
      have hperm := C11_ordering_perm c rm ordering ho
      have hnd := order_noDupKeys c rm ordering ho
      have hinv := poppedOK_run c HO ordering { working := c.records, popped := [] } s ⟨List.nodup_nil, by simp⟩ hf
      have hrec : c'.records.Perm s.working := by
        rw [(init?_records hok).1]; exact (sortRecords_perm _).trans (result_perm s hinv)
      have init : ∀ k, Pre c k [] { working := c.records, popped := [] } := fun k =>
        ⟨by simp, fun _ _ => rfl, fun y hy q hq => Or.inl ⟨y, hy, hq⟩⟩
      -- `r2` is never touched
      have h2fin : s.working[idx2]? = some r2 := by
        have := pre_run c HO idx2 r2.pfx hidx2 ordering [] _ s (init idx2) hf
          (fun kv hkv => huntouched kv (hperm.mem_iff.mp hkv))
        rw [this.same idx2 this.notPopped]; exact hx2
      refine ⟨?_, hrec.mem_iff.mpr (List.mem_of_getElem? h2fin)⟩
      obtain ⟨pre, post, hsplit⟩ := List.append_of_mem (hperm.mem_iff.mpr hmem)
      have hkeys' : ((pre ++ (old, new) :: post).map (·.1)).Nodup := by
        rw [← hsplit]; exact (hperm.map _).nodup_iff.mpr hkeys
      have hnotpre : ∀ kv ∈ pre, kv.1 ≠ old := by
        intro kv hkv e
        rw [List.map_append, List.nodup_append] at hkeys'
        exact hkeys'.2.2 kv.1 (List.mem_map.mpr ⟨kv, hkv, rfl⟩) old (by simp) e
      have hmemrm : ∀ kv ∈ pre, kv ∈ rm := fun kv hkv =>
        hperm.mem_iff.mp (by rw [hsplit]; exact List.mem_append.mpr (Or.inl hkv))
      rw [hsplit, List.foldlM_append] at hf
      cases hfa : pre.foldlM (remapStep c HO) { working := c.records, popped := [] } with
      | error e => simp [hfa, bind, Except.bind] at hf
      | ok sa =>
        simp only [hfa, bind, Except.bind] at hf
        rw [List.foldlM_cons] at hf
        cases hfb : remapStep c HO sa (old, new) with
        | error e => simp [hfb, bind, Except.bind] at hf
        | ok sb =>
          simp only [hfb, bind, Except.bind] at hf
          have hpreA := pre_run c HO idx r.pfx hidx pre [] _ sa (init idx) hfa
            (by
              intro kv hkv e
              exact hnotpre kv hkv (dupKeys_inj c rm hnd (hmemrm kv hkv) hmem e hstd))
          have hpreA2 := pre_run c HO idx2 r2.pfx hidx2 pre [] _ sa (init idx2) hfa
            (fun kv hkv => huntouched kv (hmemrm kv hkv))
          have hxa : sa.working[idx]? = some r := by rw [hpreA.same idx hpreA.notPopped]; exact hx
          have hxa2 : sa.working[idx2]? = some r2 := by rw [hpreA2.same idx2 hpreA2.notPopped]; exact hx2
          have hclash : clashWith sa.working r new = true := by
            unfold clashWith
            cases hfind : sa.working.find? (fun y => y.allP.contains new) with
            | none =>
              exfalso
              have := List.find?_eq_none.mp hfind r2 (List.mem_of_getElem? hxa2)
              simp [hnew] at this
            | some nr =>
              have hnn : new ∈ nr.allP := by simpa using List.find?_some hfind
              show (r != nr) = true
              rw [bne_iff_ne]
              intro e; subst e; exact hnewr hnn
          have hsb : sb.working[idx]? = some r ∧ idx ∈ sb.popped := by
            rcases remapStep_master c HO sa sb old new hfb with ⟨hn, _⟩ | ⟨oc, i, record, hs, hfi, _, hrec', hcase⟩
            · rw [hstd] at hn; cases hn
            · rw [hstd] at hs
              cases hs
              rw [hidx] at hfi
              cases hfi
              rw [hxa] at hrec'
              cases hrec'
              rcases hcase with ⟨_, e⟩ | ⟨hc, _⟩
              · subst e; exact ⟨hxa, by simp⟩
              · rw [hclash] at hc; cases hc
          have hfin := post_run c HO idx _ post sb s hsb.2 hsb.1 hf
          exact hrec.mem_iff.mpr (List.mem_of_getElem? hfin)

/-- Non-vacuity and the repaired defect F4: a chain through a synonym keeps every prefix known, a
hand-over whose key is unknown drops nothing, a swap is a cycle, two keys of one record are
duplicate keys. -/
example :
    (let c := Conv.build [58] [⟨[65], [117, 47], [[97]], [], none⟩, ⟨[66], [118, 47], [[98]], [], none⟩]
     [match remapCuriePrefixes c [([98], [99]), ([97], [98])] with | .ok x => Val.recs x.records | .error e => .err e,
      match remapCuriePrefixes c [([98], [99]), ([122], [98])] with | .ok x => Val.recs x.records | .error e => .err e,
      match remapCuriePrefixes c [([97], [98]), ([98], [97])] with | .ok x => Val.recs x.records | .error e => .err e,
      match remapCuriePrefixes c [([97], [120]), ([65], [121])] with | .ok x => Val.recs x.records | .error e => .err e])
    = [.recs [⟨[98], [117, 47], [[65], [97]], [], none⟩, ⟨[99], [118, 47], [[66]], [], none⟩],
       .recs [⟨[65], [117, 47], [[97]], [], none⟩, ⟨[99], [118, 47], [[66], [98]], [], none⟩],
       .err .cycle, .err .dupKeys] := by
  decide

/-- Non-vacuity of `C11_applied` / `C11_skipped`: `a ↦ N` (synonym key, unused new prefix) is applied,
`B ↦ C` aims at another record's prefix and is skipped. -/
example :
    (let c := Conv.build [58] [⟨[65], [117, 47], [[97]], [], none⟩, ⟨[66], [118, 47], [], [], none⟩,
                               ⟨[67], [119, 47], [], [], none⟩]
     match remapCuriePrefixes c [([97], [78]), ([66], [67])] with | .ok x => Val.recs x.records | .error e => .err e)
    = .recs [⟨[66], [118, 47], [], [], none⟩, ⟨[67], [119, 47], [], [], none⟩, ⟨[78], [117, 47], [[65], [97]], [], none⟩] := by
  decide
