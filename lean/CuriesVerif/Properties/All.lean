import CuriesVerif.Properties.C01
import CuriesVerif.Properties.C08
import CuriesVerif.Properties.C07
import CuriesVerif.Properties.C02
import CuriesVerif.Properties.C03
import CuriesVerif.Properties.C06
