import CuriesVerif.Properties.C01
import CuriesVerif.Properties.C08
import CuriesVerif.Properties.C07
import CuriesVerif.Properties.C02
import CuriesVerif.Properties.C03
import CuriesVerif.Properties.C06
import CuriesVerif.Properties.C04
import CuriesVerif.Properties.C05
