import CuriesVerif.Properties.C01
