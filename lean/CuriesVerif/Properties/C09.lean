import CuriesVerif.Properties.C05

/-!
# C09 — chain is a priority union of converters and get_subconverter a restriction

`chain` is modelled as it is written: a fold of `add_record(copy, merge=True)` over all records
of all inputs, in order, into an empty converter with the default delimiter; so everything
C05 proves about histories applies.  All statements hold for every case-folding function.
-/

open Spec

/-- **C09.** `chain([])` raises `ValueError`. -/
theorem C09_empty (fold : Str → Str) (cs : Bool) : Conv.chain fold [] cs = .error .valueError := rfl

theorem wf_empty : WF Conv.empty :=
  ⟨by simp [Conv.empty, Conv.build, Unique], by simp [Conv.empty, Conv.build], mirror_build _ (by simp [Unique])⟩

/-- the fold inside `chain` -/
def chainFold (fold : Str → Str) (cs : Bool) (c : Conv) (recs : List Record) : Except Err Conv :=
  recs.foldlM (fun acc r => acc.addRecord fold r cs true) c

theorem chain_eq (fold : Str → Str) (convs : List Conv) (cs : Bool) (hne : convs ≠ []) :
    Conv.chain fold convs cs = chainFold fold cs Conv.empty (convs.flatMap (·.records)) := by
  unfold Conv.chain chainFold
  cases convs with
  | nil => exact absurd rfl hne
  | cons a as => rfl

/-- the state of the fold: well-formed, and knowing exactly the prefixes seen so far -/
theorem chainFold_inv (fold : Str → Str) (cs : Bool) (c c' : Conv) (recs : List Record) (h : WF c)
    (hr : ∀ r ∈ recs, RecOK r) (hok : chainFold fold cs c recs = .ok c') :
    WF c' ∧
    (∀ p, (∃ x ∈ c'.records, p ∈ x.allP) ↔ (∃ x ∈ c.records, p ∈ x.allP) ∨ ∃ r ∈ recs, p ∈ r.allP) ∧
    (∀ k, (∃ x ∈ c'.records, k ∈ x.allU) ↔ (∃ x ∈ c.records, k ∈ x.allU) ∨ ∃ r ∈ recs, k ∈ r.allU) := by
  unfold chainFold at hok
  induction recs generalizing c with
  | nil =>
    simp [List.foldlM, pure, Except.pure] at hok
    subst hok
    exact ⟨h, by simp, by simp⟩
  | cons r rs ih =>
    rw [List.foldlM_cons] at hok
    cases h1 : c.addRecord fold r cs true with
    | error e => simp [h1, bind, Except.bind] at hok
    | ok c1 =>
      simp [h1, bind, Except.bind] at hok
      have hw1 := wf_addRecord fold h (hr r (by simp)) h1
      obtain ⟨hw', hP, hU⟩ := ih c1 hw1 (fun x hx => hr x (by simp [hx])) hok
      -- one step: the known strings of `c1` are those of `c` plus those of `r`
      have stepP : ∀ p, (∃ x ∈ c1.records, p ∈ x.allP) ↔ (∃ x ∈ c.records, p ∈ x.allP) ∨ p ∈ r.allP := by
        intro p
        rcases C05_shape fold h r cs true h1 with e | ⟨j, hj, m, e, _, _, _, _, hmP, _⟩
        · rw [e]
          constructor
          · rintro ⟨x, hx, hp⟩
            rcases List.mem_append.mp hx with hx | hx
            · exact Or.inl ⟨x, hx, hp⟩
            · have : x = r := by simpa using hx
              subst this; exact Or.inr hp
          · rintro (⟨x, hx, hp⟩ | hp)
            · exact ⟨x, by simp [hx], hp⟩
            · exact ⟨r, by simp, hp⟩
        · rw [e]
          constructor
          · rintro ⟨x, hx, hp⟩
            rcases List.mem_or_eq_of_mem_set hx with hx | hx
            · exact Or.inl ⟨x, hx, hp⟩
            · subst hx
              rcases (hmP p).mp hp with hh | hh
              · exact Or.inl ⟨_, List.getElem_mem hj, hh⟩
              · exact Or.inr hh
          · rintro (⟨x, hx, hp⟩ | hp)
            · obtain ⟨i, hi, rfl⟩ := List.mem_iff_getElem.mp hx
              by_cases hij : i = j
              · subst hij
                exact ⟨m, by rw [List.mem_iff_getElem]; exact ⟨i, by simpa using hi, by simp⟩, (hmP p).mpr (Or.inl hp)⟩
              · exact ⟨_, mem_set_of_ne hi hij, hp⟩
            · exact ⟨m, by rw [List.mem_iff_getElem]; exact ⟨j, by simpa using hj, by simp⟩, (hmP p).mpr (Or.inr hp)⟩
      have stepU : ∀ k, (∃ x ∈ c1.records, k ∈ x.allU) ↔ (∃ x ∈ c.records, k ∈ x.allU) ∨ k ∈ r.allU := by
        intro k
        rcases C05_shape fold h r cs true h1 with e | ⟨j, hj, m, e, _, _, _, _, _, hmU⟩
        · rw [e]
          constructor
          · rintro ⟨x, hx, hp⟩
            rcases List.mem_append.mp hx with hx | hx
            · exact Or.inl ⟨x, hx, hp⟩
            · have : x = r := by simpa using hx
              subst this; exact Or.inr hp
          · rintro (⟨x, hx, hp⟩ | hp)
            · exact ⟨x, by simp [hx], hp⟩
            · exact ⟨r, by simp, hp⟩
        · rw [e]
          constructor
          · rintro ⟨x, hx, hp⟩
            rcases List.mem_or_eq_of_mem_set hx with hx | hx
            · exact Or.inl ⟨x, hx, hp⟩
            · subst hx
              rcases (hmU k).mp hp with hh | hh
              · exact Or.inl ⟨_, List.getElem_mem hj, hh⟩
              · exact Or.inr hh
          · rintro (⟨x, hx, hp⟩ | hp)
            · obtain ⟨i, hi, rfl⟩ := List.mem_iff_getElem.mp hx
              by_cases hij : i = j
              · subst hij
                exact ⟨m, by rw [List.mem_iff_getElem]; exact ⟨i, by simpa using hi, by simp⟩, (hmU k).mpr (Or.inl hp)⟩
              · exact ⟨_, mem_set_of_ne hi hij, hp⟩
            · exact ⟨m, by rw [List.mem_iff_getElem]; exact ⟨j, by simpa using hj, by simp⟩, (hmU k).mpr (Or.inr hp)⟩
      refine ⟨hw', ?_, ?_⟩
      · intro p
        rw [hP p, stepP p]
        constructor
        · rintro ((h1 | h1) | ⟨x, hx, hp⟩)
          · exact Or.inl h1
          · exact Or.inr ⟨r, by simp, h1⟩
          · exact Or.inr ⟨x, by simp [hx], hp⟩
        · rintro (h1 | ⟨x, hx, hp⟩)
          · exact Or.inl (Or.inl h1)
          · rcases List.mem_cons.mp hx with rfl | hx
            · exact Or.inl (Or.inr hp)
            · exact Or.inr ⟨x, hx, hp⟩
      · intro k
        rw [hU k, stepU k]
        constructor
        · rintro ((h1 | h1) | ⟨x, hx, hp⟩)
          · exact Or.inl h1
          · exact Or.inr ⟨r, by simp, h1⟩
          · exact Or.inr ⟨x, by simp [hx], hp⟩
        · rintro (h1 | ⟨x, hx, hp⟩)
          · exact Or.inl (Or.inl h1)
          · rcases List.mem_cons.mp hx with rfl | hx
            · exact Or.inl (Or.inr hp)
            · exact Or.inr ⟨x, hx, hp⟩

section
variable (fold : Str → Str) (convs : List Conv) (cs : Bool) (hw : ∀ c ∈ convs, WF c)
include hw

/-- **C09.** A successful `chain` returns a converter satisfying C04 / C05 (one owner per prefix,
all indexes consistent with the records), in both case modes. -/
theorem C09_wf (c' : Conv) (hok : Conv.chain fold convs cs = .ok c') : WF c' := by
  have hne : convs ≠ [] := by
    intro e; subst e; simp [Conv.chain] at hok
  rw [chain_eq fold convs cs hne] at hok
  refine (chainFold_inv fold cs _ c' _ wf_empty ?_ hok).1
  intro r hr
  obtain ⟨c, hc, hrc⟩ := List.mem_flatMap.mp hr
  exact (hw c hc).recOK r hrc

/-- **C09 (union).** The chain knows exactly the union of the inputs' CURIE prefixes and URI
prefixes: nothing lost, nothing invented. -/
theorem C09_union (c' : Conv) (hok : Conv.chain fold convs cs = .ok c') :
    (∀ p, (∃ x ∈ c'.records, p ∈ x.allP) ↔ ∃ c ∈ convs, ∃ x ∈ c.records, p ∈ x.allP) ∧
    (∀ k, (∃ x ∈ c'.records, k ∈ x.allU) ↔ ∃ c ∈ convs, ∃ x ∈ c.records, k ∈ x.allU) := by
  have hne : convs ≠ [] := by
    intro e; subst e; simp [Conv.chain] at hok
  rw [chain_eq fold convs cs hne] at hok
  have hr : ∀ r ∈ convs.flatMap (·.records), RecOK r := by
    intro r hr
    obtain ⟨c, hc, hrc⟩ := List.mem_flatMap.mp hr
    exact (hw c hc).recOK r hrc
  obtain ⟨_, hP, hU⟩ := chainFold_inv fold cs _ c' _ wf_empty hr hok
  constructor
  · intro p
    rw [hP p]
    simp only [Conv.empty, Conv.build, List.not_mem_nil, false_and, exists_false, false_or, List.mem_flatMap]
    constructor
    · rintro ⟨r, ⟨c, hc, hrc⟩, hp⟩; exact ⟨c, hc, r, hrc, hp⟩
    · rintro ⟨c, hc, r, hrc, hp⟩; exact ⟨r, ⟨c, hc, hrc⟩, hp⟩
  · intro k
    rw [hU k]
    simp only [Conv.empty, Conv.build, List.not_mem_nil, false_and, exists_false, false_or, List.mem_flatMap]
    constructor
    · rintro ⟨r, ⟨c, hc, hrc⟩, hp⟩; exact ⟨c, hc, r, hrc, hp⟩
    · rintro ⟨c, hc, r, hrc, hp⟩; exact ⟨r, ⟨c, hc, hrc⟩, hp⟩

/-- **C09.** The only error `chain` raises is `ValueError` (a later record bridging two earlier
ones; the empty argument). -/
theorem C09_error (e : Err) (herr : Conv.chain fold convs cs = .error e) : e = .valueError := by
  by_cases hne : convs = []
  · subst hne; simp [Conv.chain] at herr; exact herr.symm
  · rw [chain_eq fold convs cs hne] at herr
    have hr : ∀ r ∈ convs.flatMap (·.records), RecOK r := by
      intro r hr
      obtain ⟨c, hc, hrc⟩ := List.mem_flatMap.mp hr
      exact (hw c hc).recOK r hrc
    -- walk the fold until the failing step
    have key : ∀ (recs : List Record) (c : Conv), WF c → (∀ r ∈ recs, RecOK r) →
        chainFold fold cs c recs = .error e → e = .valueError := by
      intro recs
      induction recs with
      | nil => intro c _ _ h; simp [chainFold, List.foldlM, pure, Except.pure] at h
      | cons r rs ih =>
        intro c hc hrs h
        unfold chainFold at h
        rw [List.foldlM_cons] at h
        cases h1 : c.addRecord fold r cs true with
        | error e1 =>
          simp [h1, bind, Except.bind] at h
          subst h
          exact addRecord_error fold hc r cs true e1 h1
        | ok c1 =>
          simp [h1, bind, Except.bind] at h
          exact ih c1 (wf_addRecord fold hc (hrs r (by simp)) h1) (fun x hx => hrs x (by simp [hx])) h
    exact key _ _ wf_empty hr herr

end

/-! ### `get_subconverter` -/

theorem unique_filter {recs : List Record} (hu : Unique recs) (p : Record → Bool) : Unique (recs.filter p) :=
  List.Pairwise.sublist List.filter_sublist hu

/-- **C09 (restriction).** `get_subconverter(P)` succeeds and consists of exactly those records
having a canonical prefix or synonym in `P` (as a set of records); it is well-formed. -/
theorem C09_sub_records {c : Conv} (h : WF c) (P : List Str) :
    ∃ c', c.getSubconverter P = .ok c' ∧ WF c' ∧
      ∀ r, r ∈ c'.records ↔ r ∈ c.records ∧ ∃ p ∈ r.allP, p ∈ P := by
  unfold Conv.getSubconverter
  have hu := unique_filter h.unique (fun r => r.allP.any fun p => P.contains p)
  obtain ⟨c', hc'⟩ := (init?_ok_iff _ [58]).mpr hu
  refine ⟨c', hc', wf_of_init (fun r hr => h.recOK r (List.mem_filter.mp hr).1) hc', ?_⟩
  intro r
  rw [(init?_records hc').1, (sortRecords_perm _).mem_iff, List.mem_filter]
  simp

/-- **C09 (restriction).** The sub-converter answers as the parent does on the kept prefixes and
not at all on the others. -/
theorem C09_sub_expand {c c' : Conv} (h : WF c) (P : List Str) (hc' : c.getSubconverter P = .ok c') (p i : Str) :
    c'.expandPair p i false false =
      match ownerP c.records p with
      | some r => if r.allP.any (fun q => P.contains q) then c.expandPair p i false false else .ok none
      | none => .ok none := by
  obtain ⟨c'', hc'', hw', hmem⟩ := C09_sub_records h P
  rw [hc'] at hc''; cases hc''
  unfold Conv.expandPair
  rw [expandReference_eq hw', expandReference_eq h]
  unfold Spec.expandPair
  cases ho : ownerP c.records p with
  | none =>
    have : ownerP c'.records p = none :=
      ownerP_eq_none_of_forall fun x hx => ownerP_none ho x ((hmem x).mp hx).1
    simp [this, Conv.modeTail]
  | some r =>
    have ⟨hr, hp⟩ := ownerP_some ho
    by_cases hk : (r.allP.any fun q => P.contains q) = true
    · have hr' : r ∈ c'.records := (hmem r).mpr ⟨hr, by simpa using hk⟩
      simp only []
      rw [if_pos hk, ownerP_of_mem hw'.unique hr' hp]
      rfl
    · have : ownerP c'.records p = none := by
        apply ownerP_eq_none_of_forall
        intro x hx hpx
        have hxc := ((hmem x).mp hx).1
        have : x = r := by
          have h1 := ownerP_of_mem h.unique hxc hpx
          rw [ho] at h1; exact (Option.some.inj h1).symm
        subst this
        exact hk (by simpa using ((hmem x).mp hx).2)
      simp only []
      rw [if_neg hk, this]
      rfl

/-- Non-vacuity: a later record merges into an earlier one through a URI-prefix synonym; the first
converter's canonical choices win; a bridging record is rejected. -/
example :
    (let fold : Str → Str := id
     let c1 := Conv.build [58] [⟨[71], [103, 47], [], [[104, 47]], none⟩]
     let c2 := Conv.build [58] [⟨[88], [104, 47], [[120]], [], none⟩, ⟨[89], [121, 47], [], [], none⟩]
     let c3 := Conv.build [58] [⟨[90], [103, 47], [], [[121, 47]], none⟩]
     [match Conv.chain fold [c1, c2] true with
       | .ok c => c.run ⟨"expand", [[120, 58, 49]], false, false⟩ | .error e => .err e,
      match Conv.chain fold [c1, c2] true with
       | .ok c => c.run ⟨"records", [], false, false⟩ | .error e => .err e,
      match Conv.chain fold [c1, c2, c3] true with
       | .ok c => c.run ⟨"records", [], false, false⟩ | .error e => .err e])
    = [.str [103, 47, 49],
       .recs [⟨[71], [103, 47], [[88], [120]], [[104, 47]], none⟩, ⟨[89], [121, 47], [], [], none⟩],
       .err .valueError] := by
  decide

/-! ### priority: earlier converters' canonical choices win (case-sensitive mode) -/

/-- `x` survives as (part of) `y`: same canonical prefix, canonical URI prefix and pattern, and
everything `x` listed is still listed -/
def Below (x y : Record) : Prop :=
  y.pfx = x.pfx ∧ y.uri = x.uri ∧ y.pattern = x.pattern ∧ (∀ s ∈ x.allP, s ∈ y.allP) ∧ (∀ s ∈ x.allU, s ∈ y.allU)

theorem Below.refl (x : Record) : Below x x := ⟨rfl, rfl, rfl, fun _ h => h, fun _ h => h⟩

theorem Below.trans {x y z : Record} (h1 : Below x y) (h2 : Below y z) : Below x z :=
  ⟨h2.1.trans h1.1, h2.2.1.trans h1.2.1, h2.2.2.1.trans h1.2.2.1, fun s hs => h2.2.2.2.1 s (h1.2.2.2.1 s hs),
   fun s hs => h2.2.2.2.2 s (h1.2.2.2.2 s hs)⟩

/-- a successful `add_record` never renames, re-points or shrinks an existing record -/
theorem addRecord_below (fold : Str → Str) {c c' : Conv} (h : WF c) (r : Record) (cs merge : Bool)
    (hok : c.addRecord fold r cs merge = .ok c') : ∀ x ∈ c.records, ∃ y ∈ c'.records, Below x y := by
  intro x hx
  rcases C05_shape fold h r cs merge hok with e | ⟨j, hj, m, e, _, e1, e2, e3, hP, hU⟩
  · exact ⟨x, by rw [e]; simp [hx], Below.refl x⟩
  · obtain ⟨i, hi, rfl⟩ := List.mem_iff_getElem.mp hx
    by_cases hij : i = j
    · subst hij
      refine ⟨m, by rw [e, List.mem_iff_getElem]; exact ⟨i, by simpa using hi, by simp⟩, e1, e2, e3, ?_, ?_⟩
      · intro s hs; exact (hP s).mpr (Or.inl hs)
      · intro s hs; exact (hU s).mpr (Or.inl hs)
    · exact ⟨_, by rw [e]; exact mem_set_of_ne hi hij, Below.refl _⟩

theorem chainFold_below (fold : Str → Str) (cs : Bool) (recs : List Record) (c c' : Conv) (h : WF c)
    (hr : ∀ r ∈ recs, RecOK r) (hok : chainFold fold cs c recs = .ok c') :
    ∀ x ∈ c.records, ∃ y ∈ c'.records, Below x y := by
  unfold chainFold at hok
  induction recs generalizing c with
  | nil =>
    simp [List.foldlM, pure, Except.pure] at hok
    subst hok
    exact fun x hx => ⟨x, hx, Below.refl x⟩
  | cons r rs ih =>
    rw [List.foldlM_cons] at hok
    cases h1 : c.addRecord fold r cs true with
    | error e => simp [h1, bind, Except.bind] at hok
    | ok c1 =>
      simp [h1, bind, Except.bind] at hok
      have hw1 := wf_addRecord fold h (hr r (by simp)) h1
      intro x hx
      obtain ⟨y, hy, hxy⟩ := addRecord_below fold h r cs true h1 x hx
      obtain ⟨z, hz, hyz⟩ := ih c1 hw1 (fun a ha => hr a (by simp [ha])) hok y hy
      exact ⟨z, hz, hxy.trans hyz⟩

theorem matchesP_cs_true (fold : Str → Str) (ext r : Record) (h : matchesP fold true ext r = true) :
    ∃ s, s ∈ ext.allP ∧ s ∈ r.allP := by
  unfold matchesP eqCS inCS at h
  simp only [if_true, Bool.or_eq_true, List.any_eq_true, beq_iff_eq, List.contains_eq_mem, decide_eq_true_eq] at h
  rcases h with (h | h) | ⟨s, hs, h | h⟩
  · exact ⟨ext.pfx, by simp [Record.allP], by simp [Record.allP, h]⟩
  · exact ⟨ext.pfx, by simp [Record.allP], by simp [Record.allP, h]⟩
  · exact ⟨s, by simp [Record.allP, hs], by simp [Record.allP, h]⟩
  · exact ⟨s, by simp [Record.allP, hs], by simp [Record.allP, h]⟩

theorem matchesU_cs_true (fold : Str → Str) (ext r : Record) (h : _root_.matchesU fold true ext r = true) :
    ∃ s, s ∈ ext.allU ∧ s ∈ r.allU := by
  unfold _root_.matchesU eqCS inCS at h
  simp only [if_true, Bool.or_eq_true, List.any_eq_true, beq_iff_eq, List.contains_eq_mem, decide_eq_true_eq] at h
  rcases h with (h | h) | ⟨s, hs, h | h⟩
  · exact ⟨ext.uri, by simp [Record.allU], by simp [Record.allU, h]⟩
  · exact ⟨ext.uri, by simp [Record.allU], by simp [Record.allU, h]⟩
  · exact ⟨s, by simp [Record.allU, hs], by simp [Record.allU, h]⟩
  · exact ⟨s, by simp [Record.allU, hs], by simp [Record.allU, h]⟩

/-- in case-sensitive mode two records with disjoint strings do not match -/
theorem matchesRec_cs_of_disj (fold : Str → Str) (r x : Record) (hP : Disj r.allP x.allP) (hU : Disj r.allU x.allU) :
    matchesRec fold true r x = false := by
  cases hm : matchesRec fold true r x with
  | false => rfl
  | true =>
    unfold matchesRec at hm
    rcases Bool.or_eq_true_iff.mp hm with h | h
    · obtain ⟨s, h1, h2⟩ := matchesP_cs_true fold r x h
      exact absurd h2 (hP s h1)
    · obtain ⟨s, h1, h2⟩ := matchesU_cs_true fold r x h
      exact absurd h2 (hU s h1)

/-- adding, case-sensitively, the records of a one-owner collection to an accumulated state that
shares no string with them appends them unchanged -/
theorem chainFold_append_disjoint (fold : Str → Str) (recs : List Record) (c : Conv) (h : WF c)
    (hu : Unique recs) (hr : ∀ r ∈ recs, RecOK r)
    (hd : ∀ r ∈ recs, ∀ x ∈ c.records, Disj r.allP x.allP ∧ Disj r.allU x.allU) :
    ∃ c', chainFold fold true c recs = .ok c' ∧ WF c' ∧ c'.records = c.records ++ recs := by
  unfold chainFold
  induction recs generalizing c with
  | nil => exact ⟨c, rfl, h, by simp⟩
  | cons r rs ih =>
    rw [List.foldlM_cons]
    have hno : ∀ x ∈ c.records, matchesRec fold true r x = false := fun x hx =>
      matchesRec_cs_of_disj fold r x (hd r (by simp) x hx).1 (hd r (by simp) x hx).2
    rcases addRecord_spec fold h r true true with ⟨_, he⟩ | ⟨j, hj, _, hm, _⟩ | ⟨⟨x, hx, _, _, _, hmx, _⟩, _⟩
    · rw [he]
      simp only [bind, Except.bind]
      have hw1 := wf_append h r (hr r (by simp)) (fun x hx => matchesRec_false (hno x hx))
      have hpw := List.pairwise_cons.mp hu
      obtain ⟨c', hc', hw', hrec⟩ := ih _ hw1 hpw.2 (fun a ha => hr a (by simp [ha])) (by
        intro a ha x hx
        have hx' : x ∈ c.records ++ [r] := hx
        rcases List.mem_append.mp hx' with hx | hx
        · exact hd a (by simp [ha]) x hx
        · have : x = r := by simpa using hx
          subst this
          exact ⟨(hpw.1 a ha).1.symm, (hpw.1 a ha).2.symm⟩)
      refine ⟨c', hc', hw', ?_⟩
      rw [hrec]
      show (c.records ++ [r]) ++ rs = c.records ++ r :: rs
      simp
    · rw [hno _ (List.getElem_mem hj)] at hm; cases hm
    · rw [hno x hx] at hmx; cases hmx

/-- **C09 (priority).** In case-sensitive mode the chain expands every prefix known to the first
converter exactly as the first converter does: its records survive with their canonical prefix,
canonical URI prefix and pattern, later converters only contributing synonyms. -/
theorem C09_priority (fold : Str → Str) (c1 : Conv) (rest : List Conv) (hw1 : WF c1) (hwr : ∀ c ∈ rest, WF c)
    (c' : Conv) (hok : Conv.chain fold (c1 :: rest) true = .ok c') :
    (∀ x ∈ c1.records, ∃ y ∈ c'.records, Below x y) ∧
    (∀ p i, (∃ x ∈ c1.records, p ∈ x.allP) →
      c'.expandPair p i false false = c1.expandPair p i false false) := by
  have hw' := C09_wf fold (c1 :: rest) true (by
    intro c hc; rcases List.mem_cons.mp hc with rfl | hc
    · exact hw1
    · exact hwr c hc) c' hok
  rw [chain_eq fold (c1 :: rest) true (by simp)] at hok
  simp only [List.flatMap_cons] at hok
  -- first the records of `c1`, appended unchanged into the empty converter
  obtain ⟨s1, hs1, hws1, hrec1⟩ := chainFold_append_disjoint fold c1.records Conv.empty wf_empty hw1.unique
    hw1.recOK (by intro r _ x hx; simp [Conv.empty, Conv.build] at hx)
  have hsplit : chainFold fold true Conv.empty (c1.records ++ rest.flatMap (·.records)) =
      (chainFold fold true Conv.empty c1.records).bind fun s => chainFold fold true s (rest.flatMap (·.records)) := by
    unfold chainFold
    rw [List.foldlM_append]
    rfl
  rw [hsplit, hs1] at hok
  simp only [Except.bind] at hok
  have hbelow := chainFold_below fold true _ s1 c' hws1 (by
    intro r hr
    obtain ⟨c, hc, hrc⟩ := List.mem_flatMap.mp hr
    exact (hwr c hc).recOK r hrc) hok
  have hb1 : ∀ x ∈ c1.records, ∃ y ∈ c'.records, Below x y := by
    intro x hx
    exact hbelow x (by rw [hrec1]; simp [Conv.empty, Conv.build, hx])
  refine ⟨hb1, ?_⟩
  rintro p i ⟨x, hx, hp⟩
  obtain ⟨y, hy, hxy⟩ := hb1 x hx
  unfold Conv.expandPair
  rw [expandReference_eq hw', expandReference_eq hw1]
  simp only [Spec.expandPair, ownerP_of_mem hw'.unique hy (hxy.2.2.2.1 p hp), ownerP_of_mem hw1.unique hx hp,
    Option.map_some, hxy.2.1]

/-- **C09 (singleton).** `chain([c])` has exactly the records of `c` (in case-sensitive mode), hence
answers every query as `c` does (`C05_fresh`). -/
theorem C09_singleton (fold : Str → Str) (c : Conv) (hw : WF c) :
    ∃ c', Conv.chain fold [c] true = .ok c' ∧ WF c' ∧ c'.records = c.records := by
  rw [chain_eq fold [c] true (by simp)]
  simp only [List.flatMap_cons, List.flatMap_nil, List.append_nil]
  obtain ⟨s1, hs1, hws1, hrec1⟩ := chainFold_append_disjoint fold c.records Conv.empty wf_empty hw.unique
    hw.recOK (by intro r _ x hx; simp [Conv.empty, Conv.build] at hx)
  exact ⟨s1, hs1, hws1, by rw [hrec1]; simp [Conv.empty, Conv.build]⟩

/-! ### C01, last sentence: incremental insertion in any order -/

/-- **C01 (incremental construction).** Adding the records of a one-owner collection one by one with
`add_record` (case-sensitively, in any order `recs'`), starting from an empty converter, gives a
converter that answers `parse_uri` / `compress` / `is_uri` — indeed every specified query — exactly
like the converter the constructor builds from the same records. -/
theorem C01_incremental (fold : Str → Str) (recs recs' : List Record) (d : Str) (hd : d ≠ []) (c : Conv)
    (hok : ∀ r ∈ recs, RecOK r) (hperm : recs.Perm recs') (hc : Conv.init? recs d true = .ok c) :
    ∃ c', chainFold fold true (Conv.build d []) recs' = .ok c' ∧
      ∀ q, Spec.specified q = true → c'.run q = c.run q := by
  have hw := wf_of_init hok hc
  have hu : Unique recs' := (Unique.perm hperm).mp ((init?_ok_iff recs d).mp ⟨c, hc⟩)
  have hwe : WF (Conv.build d []) :=
    ⟨by simp [Conv.build, Unique], by simp [Conv.build], mirror_build _ (by simp [Unique])⟩
  obtain ⟨c', hc', hw', hrec⟩ := chainFold_append_disjoint fold recs' (Conv.build d []) hwe hu
    (fun r hr => hok r (hperm.mem_iff.mpr hr)) (by intro r _ x hx; simp [Conv.build] at hx)
  refine ⟨c', hc', fun q hq => ?_⟩
  have hd' : c'.delim = d := by
    -- `add_record` never touches the delimiter
    have key : ∀ (l : List Record) (s s' : Conv), chainFold fold true s l = .ok s' → s'.delim = s.delim := by
      intro l
      induction l with
      | nil => intro s s' h; simp [chainFold, List.foldlM, pure, Except.pure] at h; rw [h]
      | cons r rs ih =>
        intro s s' h
        unfold chainFold at h
        rw [List.foldlM_cons] at h
        cases h1 : s.addRecord fold r true true with
        | error e => simp [h1, bind, Except.bind] at h
        | ok s1 =>
          simp [h1, bind, Except.bind] at h
          have e1 : s1.delim = s.delim := by
            have := runOps_delim fold s [⟨r, true, true⟩]
            simp only [runOps, List.foldl_cons, List.foldl_nil, h1] at this
            exact this
          rw [ih s1 s' h, e1]
    exact key recs' _ c' hc'
  have ⟨e1, e2⟩ := init?_records hc
  rw [T0 hw' (by rw [hd']; exact hd) q hq, T0 hw (by rw [e2]; exact hd) q hq, hd', e2, hrec, e1]
  simp only [Conv.build, List.nil_append]
  exact answer_perm hu (hperm.symm.trans (sortRecords_perm recs).symm) d q


/-! ### grouping: whatever shared a record in an input shares a record in the chain -/

/-- everything `r` lists is listed by `y` -/
def Within (r y : Record) : Prop := (∀ s ∈ r.allP, s ∈ y.allP) ∧ (∀ s ∈ r.allU, s ∈ y.allU)

theorem Below.within {x y : Record} (h : Below x y) : Within x y := ⟨h.2.2.2.1, h.2.2.2.2⟩

theorem Within.trans {x y z : Record} (h1 : Within x y) (h2 : Within y z) : Within x z :=
  ⟨fun s hs => h2.1 s (h1.1 s hs), fun s hs => h2.2 s (h1.2 s hs)⟩

/-- a successful `add_record` files the whole new record under one record of the result -/
theorem addRecord_within (fold : Str → Str) {c c' : Conv} (h : WF c) (r : Record) (cs merge : Bool)
    (hok : c.addRecord fold r cs merge = .ok c') : ∃ y ∈ c'.records, Within r y := by
  rcases C05_shape fold h r cs merge hok with e | ⟨j, hj, m, e, _, _, _, _, hP, hU⟩
  · exact ⟨r, by rw [e]; simp, fun _ hs => hs, fun _ hs => hs⟩
  · refine ⟨m, by rw [e, List.mem_iff_getElem]; exact ⟨j, by simpa using hj, by simp⟩, ?_, ?_⟩
    · intro s hs; exact (hP s).mpr (Or.inr hs)
    · intro s hs; exact (hU s).mpr (Or.inr hs)

theorem chainFold_within (fold : Str → Str) (cs : Bool) (recs : List Record) (c c' : Conv) (h : WF c)
    (hr : ∀ r ∈ recs, RecOK r) (hok : chainFold fold cs c recs = .ok c') :
    ∀ r ∈ recs, ∃ y ∈ c'.records, Within r y := by
  induction recs generalizing c with
  | nil => intro r hr'; cases hr'
  | cons a rs ih =>
    have hok' := hok
    unfold chainFold at hok
    rw [List.foldlM_cons] at hok
    cases h1 : c.addRecord fold a cs true with
    | error e => simp [h1, bind, Except.bind] at hok
    | ok c1 =>
      simp [h1, bind, Except.bind] at hok
      have hw1 := wf_addRecord fold h (hr a (by simp)) h1
      have hrs : ∀ x ∈ rs, RecOK x := fun x hx => hr x (by simp [hx])
      intro r hr'
      rcases List.mem_cons.mp hr' with rfl | hr'
      · obtain ⟨y, hy, hry⟩ := addRecord_within fold h r cs true h1
        obtain ⟨z, hz, hyz⟩ := chainFold_below fold cs rs c1 c' hw1 hrs hok y hy
        exact ⟨z, hz, hry.trans hyz.within⟩
      · exact ih c1 hw1 hrs hok r hr'

/-- **C09 (grouping).** Whatever shared a record in an input shares a record in the chain: every
record of every input is contained, CURIE prefixes and URI prefixes alike, in one record of the
result.  Both case modes, every folding function. -/
theorem C09_grouping (fold : Str → Str) (convs : List Conv) (cs : Bool) (hw : ∀ c ∈ convs, WF c) (c' : Conv)
    (hok : Conv.chain fold convs cs = .ok c') :
    ∀ c ∈ convs, ∀ r ∈ c.records, ∃ y ∈ c'.records,
      (∀ s ∈ r.allP, s ∈ y.allP) ∧ (∀ s ∈ r.allU, s ∈ y.allU) := by
  have hne : convs ≠ [] := by
    intro e; subst e; cases hok
  rw [chain_eq fold convs cs hne] at hok
  intro c hc r hr
  have hmem : r ∈ convs.flatMap (·.records) := List.mem_flatMap.mpr ⟨c, hc, hr⟩
  have hrok : ∀ x ∈ convs.flatMap (·.records), RecOK x := by
    intro x hx
    obtain ⟨d, hd, hxd⟩ := List.mem_flatMap.mp hx
    exact (hw d hd).recOK x hxd
  exact chainFold_within fold cs _ Conv.empty c' wf_empty hrok hok r hmem

/-! ### case-insensitive mode: no two records hold names equal up to case -/

/-- no name of `a` equals a name of `b` after folding -/
def FoldDisj (fold : Str → Str) (a b : List Str) : Prop := ∀ s ∈ a, ∀ t ∈ b, fold s ≠ fold t

def FoldSep (fold : Str → Str) (recs : List Record) : Prop :=
  recs.Pairwise fun a b => FoldDisj fold a.allP b.allP ∧ FoldDisj fold a.allU b.allU

theorem FoldDisj.symm {fold : Str → Str} {a b : List Str} (h : FoldDisj fold a b) : FoldDisj fold b a :=
  fun s hs t ht e => h t ht s hs e.symm

theorem eqCS_ci_false {fold : Str → Str} {a b : Str} (h : eqCS fold false a b = false) : fold a ≠ fold b := by
  unfold eqCS at h
  simpa using h

theorem inCS_ci_false {fold : Str → Str} {a : Str} {bs : List Str} (h : inCS fold false a bs = false) :
    ∀ t ∈ bs, fold a ≠ fold t := by
  unfold inCS at h
  simp only [Bool.false_eq_true, if_false, List.any_eq_false] at h
  intro t ht
  simpa using h t ht

theorem matchesP_ci_false {fold : Str → Str} {ext r : Record} (h : matchesP fold false ext r = false) :
    FoldDisj fold ext.allP r.allP := by
  unfold matchesP at h
  simp only [Bool.or_eq_false_iff, List.any_eq_false] at h
  obtain ⟨⟨h1, h2⟩, h3⟩ := h
  intro s hs t ht
  simp only [Record.allP, List.mem_cons] at hs ht
  rcases hs with rfl | hs
  · rcases ht with rfl | ht
    · exact eqCS_ci_false h1
    · exact inCS_ci_false h2 t ht
  · have := h3 s hs
    simp only [Bool.or_eq_true, not_or, Bool.not_eq_true] at this
    rcases ht with rfl | ht
    · exact eqCS_ci_false this.1
    · exact inCS_ci_false this.2 t ht

theorem matchesU_ci_false {fold : Str → Str} {ext r : Record} (h : _root_.matchesU fold false ext r = false) :
    FoldDisj fold ext.allU r.allU := by
  unfold _root_.matchesU at h
  simp only [Bool.or_eq_false_iff, List.any_eq_false] at h
  obtain ⟨⟨h1, h2⟩, h3⟩ := h
  intro s hs t ht
  simp only [Record.allU, List.mem_cons] at hs ht
  rcases hs with rfl | hs
  · rcases ht with rfl | ht
    · exact eqCS_ci_false h1
    · exact inCS_ci_false h2 t ht
  · have := h3 s hs
    simp only [Bool.or_eq_true, not_or, Bool.not_eq_true] at this
    rcases ht with rfl | ht
    · exact eqCS_ci_false this.1
    · exact inCS_ci_false this.2 t ht

theorem matchesRec_ci_false {fold : Str → Str} {ext r : Record} (h : matchesRec fold false ext r = false) :
    FoldDisj fold ext.allP r.allP ∧ FoldDisj fold ext.allU r.allU := by
  unfold matchesRec at h
  simp only [Bool.or_eq_false_iff] at h
  exact ⟨matchesP_ci_false h.1, matchesU_ci_false h.2⟩

/-- one case-insensitive `add_record(merge=True)` keeps the records separated up to case -/
theorem addRecord_foldSep (fold : Str → Str) {c c' : Conv} (h : WF c) (hs : FoldSep fold c.records) (r : Record)
    (hok : c.addRecord fold r false true = .ok c') : FoldSep fold c'.records := by
  rcases addRecord_spec fold h r false true with ⟨hnone, e⟩ | ⟨j, hj, hothers, _, e⟩ | ⟨_, e⟩
  · rw [e] at hok
    cases hok
    show FoldSep fold (c.records ++ [r])
    unfold FoldSep
    rw [List.pairwise_append]
    refine ⟨hs, by simp, ?_⟩
    intro a ha b hb
    have : b = r := by simpa using hb
    subst this
    have := matchesRec_ci_false (hnone a ha)
    exact ⟨this.1.symm, this.2.symm⟩
  · rw [e, if_pos rfl] at hok
    cases hok
    show FoldSep fold (c.records.set j (r.mergeInto c.records[j]))
    -- a record at another position is separated from the merged record
    have hdm : ∀ i (hi : i < c.records.length), i ≠ j →
        FoldDisj fold c.records[i].allP (r.mergeInto c.records[j]).allP ∧
        FoldDisj fold c.records[i].allU (r.mergeInto c.records[j]).allU := by
      intro i hi hne
      have hsep : FoldDisj fold c.records[i].allP c.records[j].allP ∧ FoldDisj fold c.records[i].allU c.records[j].allU := by
        have := List.pairwise_iff_getElem.mp hs
        rcases Nat.lt_or_gt_of_ne hne with hlt | hgt
        · exact this i j hi hj hlt
        · have := this j i hj hi hgt
          exact ⟨this.1.symm, this.2.symm⟩
      have hr := matchesRec_ci_false (hothers i hi hne)
      constructor
      · intro s hs' t ht
        rcases (mem_mergeInto_allP r c.records[j] t).mp ht with hh | hh
        · exact hsep.1 s hs' t hh
        · exact fun e => hr.1 t hh s hs' e.symm
      · intro s hs' t ht
        rcases (mem_mergeInto_allU r c.records[j] t).mp ht with hh | hh
        · exact hsep.2 s hs' t hh
        · exact fun e => hr.2 t hh s hs' e.symm
    unfold FoldSep
    rw [List.pairwise_iff_getElem]
    intro i1 i2 hi1 hi2 hlt
    have hlen : (c.records.set j (r.mergeInto c.records[j])).length = c.records.length := by simp
    rw [hlen] at hi1 hi2
    rw [List.getElem_set, List.getElem_set]
    by_cases e1 : j = i1
    · subst e1
      have e2 : ¬ j = i2 := by omega
      rw [if_pos rfl, if_neg e2]
      have := hdm i2 hi2 (fun e => e2 e.symm)
      exact ⟨this.1.symm, this.2.symm⟩
    · by_cases e2 : j = i2
      · subst e2
        rw [if_neg e1, if_pos rfl]
        exact hdm i1 hi1 (fun e => e1 e.symm)
      · rw [if_neg e1, if_neg e2]
        exact List.pairwise_iff_getElem.mp hs i1 i2 hi1 hi2 hlt
  · rw [e] at hok; cases hok

theorem chainFold_foldSep (fold : Str → Str) (recs : List Record) (c c' : Conv) (h : WF c)
    (hs : FoldSep fold c.records) (hr : ∀ r ∈ recs, RecOK r) (hok : chainFold fold false c recs = .ok c') :
    FoldSep fold c'.records := by
  unfold chainFold at hok
  induction recs generalizing c with
  | nil =>
    simp [List.foldlM, pure, Except.pure] at hok
    subst hok; exact hs
  | cons a rs ih =>
    rw [List.foldlM_cons] at hok
    cases h1 : c.addRecord fold a false true with
    | error e => simp [h1, bind, Except.bind] at hok
    | ok c1 =>
      simp [h1, bind, Except.bind] at hok
      exact ih c1 (wf_addRecord fold h (hr a (by simp)) h1) (addRecord_foldSep fold h hs a h1)
        (fun x hx => hr x (by simp [hx])) hok

/-- **C09 (case-insensitive mode).** With `case_sensitive=False` no two records of the result hold
CURIE prefixes (or URI prefixes) that are equal up to case — for every folding function. -/
theorem C09_ci_separated (fold : Str → Str) (convs : List Conv) (hw : ∀ c ∈ convs, WF c) (c' : Conv)
    (hok : Conv.chain fold convs false = .ok c') :
    c'.records.Pairwise fun a b =>
      (∀ s ∈ a.allP, ∀ t ∈ b.allP, fold s ≠ fold t) ∧ (∀ s ∈ a.allU, ∀ t ∈ b.allU, fold s ≠ fold t) := by
  have hne : convs ≠ [] := by
    intro e; subst e; cases hok
  rw [chain_eq fold convs false hne] at hok
  have hrok : ∀ x ∈ convs.flatMap (·.records), RecOK x := by
    intro x hx
    obtain ⟨d, hd, hxd⟩ := List.mem_flatMap.mp hx
    exact (hw d hd).recOK x hxd
  exact chainFold_foldSep fold _ Conv.empty c' wf_empty (by simp [FoldSep, Conv.empty, Conv.build]) hrok hok

/-- Non-vacuity: `GO` and `go` in two inputs end up in one record case-insensitively and in two
records case-sensitively. -/
example :
    (let fold : Str → Str := fun s => s.map fun ch => if 65 ≤ ch ∧ ch ≤ 90 then ch + 32 else ch
     let c1 := Conv.build [58] [⟨[71, 79], [103, 47], [], [], none⟩]
     let c2 := Conv.build [58] [⟨[103, 111], [104, 47], [], [], none⟩]
     ((Conv.chain fold [c1, c2] false).toOption.map (·.records.length),
      (Conv.chain fold [c1, c2] true).toOption.map (·.records.length))) = (some 1, some 2) := by
  decide

/-- the fold inside `chain`, at the level of record lists -/
theorem chainFold_refines (fold : Str → Str) (cs : Bool) (c : Conv) (recs : List Record) (h : WF c)
    (hr : ∀ r ∈ recs, RecOK r) :
    (chainFold fold cs c recs).toOption.map (·.records) =
      recs.foldlM (fun acc r => Spec.afterAdd fold acc r cs true) c.records := by
  unfold chainFold
  induction recs generalizing c with
  | nil => rfl
  | cons r rs ih =>
    rw [List.foldlM_cons, List.foldlM_cons]
    cases h1 : c.addRecord fold r cs true with
    | error e =>
      rw [C05_afterAdd_reject fold h r cs true e h1]
      rfl
    | ok c1 =>
      rw [C05_afterAdd fold h r cs true h1]
      have hw1 := wf_addRecord fold h (hr r (by simp)) h1
      exact ih c1 hw1 (fun x hx => hr x (by simp [hx]))

/-- **C09 (chain, as a function on record lists).** Whether `chain` succeeds and which records its result holds is
decided by the record lists of the inputs alone: fold `add_record(merge=True)` — as `Spec.afterAdd` describes it
without any lookup structure — over all records in order, starting from nothing. -/
theorem C09_chain_refines (fold : Str → Str) (convs : List Conv) (cs : Bool) (hne : convs ≠ [])
    (hw : ∀ c ∈ convs, WF c) :
    (Conv.chain fold convs cs).toOption.map (·.records) = Spec.chainRecords fold cs (convs.map (·.records)) := by
  rw [chain_eq fold convs cs hne]
  have hr : ∀ r ∈ convs.flatMap (·.records), RecOK r := by
    intro r hr
    obtain ⟨c, hc, hrc⟩ := List.mem_flatMap.mp hr
    exact (hw c hc).recOK r hrc
  rw [chainFold_refines fold cs Conv.empty _ wf_empty hr]
  unfold Spec.chainRecords
  rw [List.flatMap_def]
  rfl

/-- **C09 (get_subconverter, as a function on record lists).** The restriction holds exactly the records
`Spec.subRecords` selects, up to the constructor's sorting. -/
theorem C09_sub_refines {c c' : Conv} (P : List Str) (hc' : c.getSubconverter P = .ok c') :
    c'.records.Perm (Spec.subRecords c.records P) := by
  unfold Conv.getSubconverter at hc'
  have ⟨e1, _⟩ := init?_records hc'
  rw [e1]
  exact sortRecords_perm _
