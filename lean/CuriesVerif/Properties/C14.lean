import CuriesVerif.Model.Writers
import CuriesVerif.Lemmas.Sort
import CuriesVerif.Lemmas.Basic
import CuriesVerif.Properties.C13

/-!
# C14 — written contexts read back to the same converter

The file formats are modelled at the level of what the reader's parser hands back (see
`Model/Writers.lean`); JSON (de)serialisation, the Turtle / SPARQL machinery of rdflib and the
`csv` module are exercised by the correspondence on real files, not verified.
-/

open Writers Spec

/-- **C14 (extended prefix map).** Writing a record and reading it back reproduces the prefix, the
URI prefix, both synonym *sets* and the pattern (an empty pattern is "no pattern" throughout the
library) — for arbitrary content. -/
theorem C14_epm (r : Record) :
    let r' := recordOfDict (recordToDict r)
    r'.pfx = r.pfx ∧ r'.uri = r.uri ∧ (∀ s, s ∈ r'.pSyn ↔ s ∈ r.pSyn) ∧ (∀ s, s ∈ r'.uSyn ↔ s ∈ r.uSyn) ∧
    r'.pattern = r.truePattern ∧ r'.truePattern = r.truePattern := by
  intro r'
  refine ⟨rfl, rfl, ?_, ?_, rfl, ?_⟩
  · intro s
    show s ∈ (if r.pSyn.isEmpty then none else some (sortStrs r.pSyn)).getD [] ↔ _
    cases h : r.pSyn with
    | nil => simp
    | cons a as => simp [mem_sortStrs]
  · intro s
    show s ∈ (if r.uSyn.isEmpty then none else some (sortStrs r.uSyn)).getD [] ↔ _
    cases h : r.uSyn with
    | nil => simp
    | cons a as => simp [mem_sortStrs]
  · show Record.truePattern { pfx := _, uri := _, pSyn := _, uSyn := _, pattern := r.truePattern } = _
    unfold Record.truePattern
    cases hp : r.pattern with
    | none => rfl
    | some p => by_cases he : p.isEmpty = true <;> simp [he]

/-- **C14 (JSON-LD).** For prefixes that are non-empty and do not start with `@`, the context written
for a list of records (plain or expanded form, with or without synonyms) reads back to exactly
the canonical pairs, plus every CURIE-prefix synonym mapped to the canonical URI prefix when
`include_synonyms=True`. -/
theorem C14_jsonld (recs : List Record) (expand syn : Bool)
    (hsafe : ∀ r ∈ recs, ∀ p ∈ r.allP, p.isEmpty = false ∧ p.head? ≠ some 64) :
    Loaders.jsonldPrefixMap (jsonldContext recs expand syn) =
      .ok (recs.flatMap fun r => (r.pfx, r.uri) :: (if syn then r.pSyn.map fun s => (s, r.uri) else [])) := by
  -- every written term is taken
  have taken : ∀ (p u : Str), p.isEmpty = false → p.head? ≠ some 64 →
      jsonldTaken (p, if expand then Loaders.JTerm.prefixDict (some u) else .str u) = some (p, u) := by
    intro p u h1 h2
    have h2' : (p.head? == some 64) = false := by
      cases hh : (p.head? == some 64) with
      | false => rfl
      | true => exact absurd (by simpa using hh) h2
    cases expand <;> simp [jsonldTaken, h1, h2']
  -- the reader succeeds: no `@prefix` dictionary lacks its `@id`
  cases hres : Loaders.jsonldPrefixMap (jsonldContext recs expand syn) with
  | ok pm =>
    rw [C13_jsonld _ _ hres]
    congr 1
    unfold jsonldContext
    rw [List.filterMap_flatMap]
    have congr_fm : ∀ {α β : Type} (l : List α) (f g : α → List β), (∀ a ∈ l, f a = g a) → l.flatMap f = l.flatMap g := by
      intro α β l f g hfg
      induction l with
      | nil => rfl
      | cons a as ih => simp only [List.flatMap_cons]; rw [hfg a (by simp), ih (fun x hx => hfg x (by simp [hx]))]
    apply congr_fm
    intro r hr
    have hp := hsafe r hr r.pfx (by simp [Record.allP])
    simp only [List.filterMap_cons, taken r.pfx r.uri hp.1 hp.2]
    congr 1
    cases syn with
    | false => rfl
    | true =>
      simp only [if_true, List.filterMap_map]
      have fm_map : ∀ (l : List Str), (∀ s ∈ l, s ∈ r.pSyn) →
          l.filterMap (jsonldTaken ∘ fun s => (s, if expand then Loaders.JTerm.prefixDict (some r.uri) else .str r.uri))
            = l.map fun s => (s, r.uri) := by
        intro l
        induction l with
        | nil => intro _; rfl
        | cons a as ih =>
          intro hl
          have ha := hsafe r hr a (by simp [Record.allP, hl a (by simp)])
          simp only [List.filterMap_cons, Function.comp, taken a r.uri ha.1 ha.2, List.map_cons]
          rw [← ih (fun s hs => hl s (by simp [hs]))]
      exact fm_map r.pSyn (fun s hs => hs)
  | error e =>
    exfalso
    -- an error can only come from a `prefixDict none`, which the writer never produces
    have noerr : ∀ (l : List (Str × Loaders.JTerm)) (acc : List (Str × Str)),
        (∀ kv ∈ l, kv.2 ≠ .prefixDict none) →
        ∀ e, l.foldlM (fun acc kv =>
          if kv.1.isEmpty then (.ok acc : Except Err _)
          else if kv.1.head? == some 64 then .ok acc
          else match kv.2 with
            | .str s => .ok (acc ++ [(kv.1, s)])
            | .prefixDict (some id) => .ok (acc ++ [(kv.1, id)])
            | .prefixDict none => .error .keyError
            | .other => .ok acc) acc ≠ .error e := by
      intro l
      induction l with
      | nil => intro acc _ e h; simp [List.foldlM, pure, Except.pure] at h
      | cons kv kvs ih =>
        intro acc hl e h
        rw [List.foldlM_cons] at h
        have hkv := hl kv (by simp)
        have hrest : ∀ x ∈ kvs, x.2 ≠ .prefixDict none := fun x hx => hl x (by simp [hx])
        by_cases h1 : kv.1.isEmpty = true
        · simp only [h1, if_true, bind, Except.bind] at h; exact ih acc hrest e h
        · by_cases h2 : (kv.1.head? == some 64) = true
          · simp only [h1, h2, if_true, Bool.false_eq_true, if_false, bind, Except.bind] at h
            exact ih acc hrest e h
          · cases hk : kv.2 with
            | str s =>
              simp only [h1, h2, hk, Bool.false_eq_true, if_false, bind, Except.bind] at h
              exact ih _ hrest e h
            | prefixDict o =>
              cases o with
              | none => exact hkv hk
              | some id =>
                simp only [h1, h2, hk, Bool.false_eq_true, if_false, bind, Except.bind] at h
                exact ih _ hrest e h
            | other =>
              simp only [h1, h2, hk, Bool.false_eq_true, if_false, bind, Except.bind] at h
              exact ih acc hrest e h
    unfold Loaders.jsonldPrefixMap at hres
    refine noerr _ [] ?_ e hres
    intro kv hkv
    unfold jsonldContext at hkv
    obtain ⟨r, _, hm⟩ := List.mem_flatMap.mp hkv
    rcases List.mem_cons.mp hm with rfl | hm
    · cases expand <;> simp
    · cases syn with
      | false => simp at hm
      | true =>
        simp only [if_true, List.mem_map] at hm
        obtain ⟨s, _, rfl⟩ := hm
        cases expand <;> simp

/-- **C14 (SHACL literals).** Escaping a string as `write_shacl` does and lexing the Turtle string
literal gives the string back, for every string without `"`, line feed and carriage return —
in particular for every string containing backslashes.  (Stated once; it is applied to the
prefix, the URI prefix and the pattern.) -/
theorem C14_shacl_literal (s : Str) (h : ∀ c ∈ s, c ≠ 34 ∧ c ≠ 10 ∧ c ≠ 13) : lex (escape s) = some s := by
  induction s with
  | nil => rfl
  | cons c cs ih =>
    have hc := h c (by simp)
    have ih' := ih (fun x hx => h x (by simp [hx]))
    have e1 : escape (c :: cs) = (if c == 92 then [92, 92] else [c]) ++ escape cs := by
      unfold escape; simp
    rw [e1]
    by_cases h92 : c = 92
    · subst h92
      show lex (92 :: 92 :: escape cs) = _
      rw [lex]
      simp [echar, ih']
    · have hb : (c == 92) = false := by simpa using h92
      rw [hb]
      show lex (c :: escape cs) = _
      cases hes : escape cs with
      | nil =>
        rw [hes] at ih'
        have : cs = [] := by
          have : lex [] = some cs := ih'
          simpa [lex] using this.symm
        subst this
        rw [lex]
        simp [hb, hc.1, hc.2.1, hc.2.2]
      | cons d ds =>
        rw [lex]
        rw [hes] at ih'
        simp [hb, hc.1, hc.2.1, hc.2.2, ih']

/-- **C14 (SHACL entries).** A declaration written by `write_shacl` reads back with the same prefix,
URI prefix and pattern (an empty pattern is not written). -/
theorem C14_shacl_entry (p u : Str) (pat : Option Str)
    (hp : ∀ c ∈ p, c ≠ 34 ∧ c ≠ 10 ∧ c ≠ 13) (hu : ∀ c ∈ u, c ≠ 34 ∧ c ≠ 10 ∧ c ≠ 13)
    (hpat : ∀ s, pat = some s → ∀ c ∈ s, c ≠ 34 ∧ c ≠ 10 ∧ c ≠ 13) :
    shaclEntry p u pat = some ⟨p, u, [], [], pat.bind fun s => if s.isEmpty then none else some s⟩ := by
  unfold shaclEntry
  rw [C14_shacl_literal p hp, C14_shacl_literal u hu]
  cases pat with
  | none => rfl
  | some s =>
    cases s with
    | nil => simp
    | cons a as => simp [C14_shacl_literal (a :: as) (hpat (a :: as) rfl)]

/-- **C14 (TSV).** A `(prefix, URI prefix)` row written by `write_tsv` splits back into the same two
cells, for prefixes without a tab (cells never need quoting over the property's alphabet). -/
theorem C14_tsv (p u : Str) (hp : 9 ∉ p) : tsvCells (tsvLine p u) = some (p, u) := by
  unfold tsvCells tsvLine
  exact partition?_append [9] p u (by simp) (delimOK_single 9 p hp)

/-- Non-vacuity: backslashes in prefix, URI prefix and pattern; records with and without
synonyms side by side in a JSON-LD context. -/
example :
    shaclEntry [97, 92, 98] [104, 92, 113, 47] (some [94, 92, 100, 43, 36])
      = some ⟨[97, 92, 98], [104, 92, 113, 47], [], [], some [94, 92, 100, 43, 36]⟩ ∧
    (Loaders.jsonldPrefixMap (jsonldContext [⟨[97], [117], [[98]], [], none⟩, ⟨[99], [118], [], [], none⟩] true true)).toOption
      = some [([97], [117]), ([98], [117]), ([99], [118])] := by
  decide
