import CuriesVerif.Lemmas.Refine

/-!
# C07 — derived operations agree with the two primitive parsers

For every well-formed (strict) converter with a non-empty delimiter and every string `s`.
-/

open Spec

section
variable {c : Conv} (h : WF c) (hd : c.delim ≠ [])
include h

/-- `is_uri(s)` iff `compress(s)` is not `None` iff `parse_uri` finds a reference -/
theorem C07_isUri (s : Str) :
    (c.isUri s = true ↔ ∃ x, c.compress s false false = .ok (some x)) ∧
    (c.isUri s = true ↔ ∃ r, c.parseUri s false = .ok (some r)) := by
  rw [isUri_eq h, compress_eq h, parseUri_eq h]
  unfold Spec.compress
  cases Spec.parseUri c.records s with
  | none => simp [Conv.modeTail]
  | some r => simp

include hd

/-- `is_curie(s)` iff `s` contains the delimiter and the part before its first occurrence is a
known prefix, iff `expand(s)` is not `None` -/
theorem C07_isCurie (s : Str) :
    (c.isCurie s = true ↔ ∃ v, c.expand s false false = .ok (some v)) ∧
    (c.isCurie s = true ↔ ∃ p i r, partition? c.delim s = some (p, i) ∧ ownerP c.records p = some r) := by
  rw [isCurie_eq h hd, expand_eq h hd]
  unfold Spec.expand Spec.expandPair
  cases hp : partition? c.delim s with
  | none => simp [Conv.modeTail]
  | some pi =>
    obtain ⟨p, i⟩ := pi
    simp only [Option.bind_some]
    cases ho : ownerP c.records p with
    | none => simp [Conv.modeTail, ho]
    | some r => simp [ho]

/-- `parse(s)` is the URI parse when `s` is a recognised URI, otherwise the CURIE parse when
recognised, otherwise nothing: URIs take precedence for strings that are both. -/
theorem C07_parse (s : Str) :
    c.parse s false =
      match c.parseUri s false with
      | .ok (some r) => .ok (some r)
      | _ => c.parseCurie s false := by
  rw [parse_eq h hd, parseUri_eq h, parseCurie_eq h hd]
  unfold Spec.parse
  cases Spec.parseUri c.records s with
  | some r => rfl
  | none =>
    simp only
    cases Spec.parseCurie c.records c.delim s <;> rfl

/-- strict `parse` returns the same reference, or raises when neither parser recognises `s` -/
theorem C07_parse_strict (s : Str) :
    c.parse s true =
      match c.parse s false with
      | .ok (some r) => .ok (some r)
      | _ => .error .compression := by
  rw [parse_eq h hd, parse_eq h hd]
  cases Spec.parse c.records c.delim s <;> rfl

/-- `compress_or_standardize(s)` is exactly the CURIE of `parse(s)` -/
theorem C07_cos (s : Str) :
    c.compressOrStandardize s false false =
      match c.parse s false with
      | .ok (some (p, i)) => .ok (some (c.formatCurie p i))
      | _ => .ok none := by
  rw [compressOrStandardize_eq h hd, parse_eq h hd]
  unfold Spec.compressOrStandardize
  cases Spec.parse c.records c.delim s with
  | none => rfl
  | some r => rfl

/-- `expand_or_standardize(s)` is exactly the canonical URI of `parse(s)` -/
theorem C07_eos (s : Str) :
    c.expandOrStandardize s false false =
      match c.parse s false with
      | .ok (some (p, i)) => c.expandPair p i false false
      | _ => .ok none := by
  rw [expandOrStandardize_eq h hd, parse_eq h hd]
  unfold Spec.expandOrStandardize
  cases hp : Spec.parse c.records c.delim s with
  | none => rfl
  | some r =>
    simp only [Option.bind_some]
    unfold Conv.expandPair
    rw [expandReference_eq h]
    cases Spec.expandPair c.records r.1 r.2 <;> rfl

end

/-- `format_curie` joins with the converter's delimiter -/
theorem C07_format (c : Conv) (p i : Str) : c.formatCurie p i = p ++ c.delim ++ i := rfl

/-- `compress_strict` / `expand_strict` are the `strict=True` calls -/
theorem C07_strict_aliases (c : Conv) (s : Str) :
    c.compressStrict s = c.compress s true false ∧ c.expandStrict s = c.expand s true false := ⟨rfl, rfl⟩

/-- Non-vacuity: a converter in which the URI prefix `a:` of record `b` is itself a CURIE of the
converter (prefix `a`): `a:1` is both a URI and a CURIE, and `parse` takes the URI reading. -/
example :
    (match Conv.init? [⟨[97], [104], [], [], none⟩, ⟨[98], [97, 58], [], [], none⟩] [58] true with
     | .ok c => [c.run ⟨"is_uri", [[97,58,49]], false, false⟩, c.run ⟨"is_curie", [[97,58,49]], false, false⟩,
                 c.run ⟨"parse", [[97,58,49]], false, false⟩, c.run ⟨"expand_or_standardize", [[97,58,49]], false, false⟩,
                 c.run ⟨"expand", [[97,58,49]], false, false⟩]
     | .error _ => [])
    = [.bool true, .bool true, .pair [98] [49], .str [97,58,49], .str [104,49]] := by
  decide
