import CuriesVerif.Lemmas.Header
import CuriesVerif.Lemmas.MapM
import CuriesVerif.Model.Mapping
import CuriesVerif.Properties.C03
import CuriesVerif.Lemmas.Sort

/-!
# C18 — the mapping service returns exactly the equivalent URIs, in the requested format

`validIri` (rdflib's `_is_valid_uri`) and the media-type tables are parameters: the statements
hold for every value of them.
-/

open Spec Mapping

section
variable {c : Conv} (h : WF c)
include h

/-- **C18 (answers).** For a bound subject (or, symmetrically, a bound object) over a configured
predicate, the other variable ranges over exactly the syntactically valid renderings of `u`
under the record owning its longest registered URI prefix — canonical URI prefix first, then
each synonym — and over nothing for an unrecognised `u`. -/
theorem C18_answers (validIri : Str → Bool) (u : Str) :
    answers validIri c true u =
      match longest c.records u with
      | some (k, r) => (r.allU.map (· ++ u.drop k.length)).filter validIri
      | none => [] := by
  unfold answers expandPairAllValid
  simp only [if_true]
  rw [parseUri_eq h]
  unfold Spec.parseUri
  cases hl : longest c.records u with
  | none => rfl
  | some kr =>
    obtain ⟨k, r⟩ := kr
    have hi := isLongest_of_longest hl
    simp only [Option.map_some]
    rw [expandPairAll_eq h]
    unfold Spec.expandPairAll
    rw [ownerP_of_mem h.unique hi.1 (by simp [Record.allP])]
    rfl

/-- … which is `expand_all(compress(u))` filtered for validity, whenever the canonical prefixes can
be split off again (C03's hypothesis). -/
theorem C18_answers_expand_all (validIri : Str → Bool) (hd : c.delim ≠ []) (hc : CanonDelimOK c) (u x : Str)
    (hx : c.compress u false false = .ok (some x)) :
    ∃ l, c.expandAll x false = .ok (some l) ∧ answers validIri c true u = l.filter validIri := by
  rw [compress_dflt h] at hx
  obtain ⟨k, r, hl, rfl⟩ := compress_some (by simpa using hx)
  refine ⟨r.allU.map (· ++ u.drop k.length), ?_, ?_⟩
  · rw [expandAll_dflt h hd, expandAll_canonical h.unique hd hl.1 (hc r hl.1)]
  · rw [C18_answers h, (longest_iff h.unique u k r).mpr hl]

end

/-- **C18.** Other predicates, and queries that bind neither or both sides, get no answers. -/
theorem C18_unconfigured (validIri : Str → Bool) (c : Conv) (u : Str) : answers validIri c false u = [] := rfl

/-! ### content negotiation -/

/-- with distinct media types the `dict(...)` in `parse_header` is the list of parts itself -/
theorem dict_of_nodup (ps acc : List Part) (hn : ((acc ++ ps).map (·.1)).Nodup) :
    ps.foldl (fun acc p =>
      if acc.any (fun x => x.1 == p.1) then acc.map (fun x => if x.1 == p.1 then (x.1, p.2) else x)
      else acc ++ [p]) acc = acc ++ ps := by
  induction ps generalizing acc with
  | nil => simp
  | cons p rest ih =>
    simp only [List.foldl_cons]
    have hnot : (acc.any fun x => x.1 == p.1) = false := by
      rw [List.any_eq_false]
      intro x hx
      simp only [List.map_append, List.map_cons] at hn
      have := (List.nodup_append.mp hn).2.2 x.1 (List.mem_map.mpr ⟨x, hx, rfl⟩) p.1 (by simp)
      simpa using this
    rw [hnot]
    simp only [Bool.false_eq_true, if_false]
    rw [ih (acc ++ [p]) (by simpa using hn)]
    simp

theorem parseHeader_nodup (ps : List Part) (hn : (ps.map (·.1)).Nodup) :
    parseHeader ps = (isort (fun (a b : Part) => decide (b.2 ≤ a.2)) ps).map (·.1) := by
  unfold parseHeader
  simp only
  rw [dict_of_nodup ps [] (by simpa using hn)]
  simp

/-- **C18 (negotiation).** The negotiated type is always a supported type or the default; an absent
or empty header gives the default. -/
theorem C18_header_supported (syn : List (Str × Str)) (sup : List Str) (dflt : Str) (parts : Option (List Part)) :
    handleHeader syn sup dflt parts ∈ sup ∨ handleHeader syn sup dflt parts = dflt := by
  unfold handleHeader
  cases parts with
  | none => exact Or.inr rfl
  | some ps =>
    simp only
    cases hf : (parseHeader ps).findSome? (fun t =>
        let t' := (Dict.get syn t).getD t
        if sup.contains t' then some t' else none) with
    | none => exact Or.inr rfl
    | some t =>
      obtain ⟨x, _, hx⟩ := List.exists_of_findSome?_eq_some hf
      simp only at hx
      split at hx
      · rename_i hc
        cases hx
        exact Or.inl (by simpa using hc)
      · cases hx

theorem C18_header_absent (syn : List (Str × Str)) (sup : List Str) (dflt : Str) :
    handleHeader syn sup dflt none = dflt := rfl

/-- the first element of a list sorted by `R` that satisfies a test is `R`-related to every other
element satisfying it -/
theorem findSome?_sorted {α β : Type} (R : α → α → Prop) (f : α → Option β) :
    ∀ (l : List α) (b : β), l.Pairwise R → l.findSome? f = some b →
      ∃ a ∈ l, f a = some b ∧ ∀ x ∈ l, (f x).isSome → x = a ∨ R a x
  | [], b, _, h => by simp at h
  | y :: ys, b, hp, h => by
    rw [List.findSome?_cons] at h
    have hp' := List.pairwise_cons.mp hp
    cases hy : f y with
    | some v =>
      rw [hy] at h
      cases h
      refine ⟨y, by simp, hy, ?_⟩
      intro x hx _
      rcases List.mem_cons.mp hx with rfl | hx
      · exact Or.inl rfl
      · exact Or.inr (hp'.1 x hx)
    | none =>
      rw [hy] at h
      obtain ⟨a, ha, hfa, hall⟩ := findSome?_sorted R f ys b hp'.2 h
      refine ⟨a, by simp [ha], hfa, ?_⟩
      intro x hx hs
      rcases List.mem_cons.mp hx with rfl | hx
      · rw [hy] at hs; cases hs
      · exact hall x hx hs

/-- **C18 (negotiation).** For a header listing distinct media types, if any listed type is supported
(after mapping synonyms such as `application/json`), the negotiated type comes from a listed part
whose q is maximal among the supported ones. -/
theorem C18_header_max (syn : List (Str × Str)) (sup : List Str) (dflt : Str) (ps : List Part)
    (hn : (ps.map (·.1)).Nodup) (t : Str) (q : Nat) (ht : (t, q) ∈ ps)
    (hsup : sup.contains ((Dict.get syn t).getD t) = true) :
    ∃ t₀ q₀, (t₀, q₀) ∈ ps ∧ handleHeader syn sup dflt (some ps) = (Dict.get syn t₀).getD t₀ ∧
      sup.contains ((Dict.get syn t₀).getD t₀) = true ∧
      ∀ t' q', (t', q') ∈ ps → sup.contains ((Dict.get syn t').getD t') = true → q' ≤ q₀ := by
  unfold handleHeader
  simp only
  rw [parseHeader_nodup ps hn, List.findSome?_map]
  have hsorted := isort_sorted (fun (a b : Part) => decide (b.2 ≤ a.2))
    (fun a b => by simp only [decide_eq_true_eq]; exact Nat.le_total _ _)
    (fun a b c h1 h2 => by simp only [decide_eq_true_eq] at *; exact Nat.le_trans h2 h1) ps
  let g : Part → Option Str := fun p =>
    if sup.contains ((Dict.get syn p.1).getD p.1) then some ((Dict.get syn p.1).getD p.1) else none
  cases hf : (isort (fun (a b : Part) => decide (b.2 ≤ a.2)) ps).findSome? g with
  | none =>
    have := List.findSome?_eq_none_iff.mp hf (t, q) ((mem_isort _ _ _).mpr ht)
    simp only [g] at this
    rw [if_pos hsup] at this
    cases this
  | some res =>
    obtain ⟨a, ha, hga, hall⟩ := findSome?_sorted _ g _ res hsorted hf
    have ha' : a ∈ ps := (mem_isort _ _ _).mp ha
    have hga' : sup.contains ((Dict.get syn a.1).getD a.1) = true ∧ res = (Dict.get syn a.1).getD a.1 := by
      simp only [g] at hga
      split at hga
      · rename_i hc; cases hga; exact ⟨hc, rfl⟩
      · cases hga
    refine ⟨a.1, a.2, ha', ?_, hga'.1, ?_⟩
    · show (match (isort (fun (a b : Part) => decide (b.2 ≤ a.2)) ps).findSome? (g ∘ fun p => p) with
        | some t => t | none => dflt) = _
      have : (g ∘ fun (p : Part) => p) = g := rfl
      rw [this, hf]; exact hga'.2
    · intro t' q' hm hs'
      have hsome : (g (t', q')).isSome = true := by
        show (if sup.contains ((Dict.get syn t').getD t') then some ((Dict.get syn t').getD t') else none).isSome = true
        rw [if_pos hs']; rfl
      rcases hall (t', q') ((mem_isort _ _ _).mpr hm) hsome with e | hr
      · subst e; exact Nat.le_refl _
      · simpa using hr

/-- Non-vacuity: the header of the repaired defect F8 (whitespace after the comma) and a tie. -/
example :
    (let syn : List (Str × Str) := [([106], [74])]     -- "j" is a synonym of "J"
     let sup : List Str := [[74], [88], [67]]
     [handleHeader syn sup [88] (some [([104], 1000), ([106], 500)]),
      handleHeader syn sup [88] (some [([106], 500), ([67], 900)]),
      handleHeader syn sup [88] (some [([104], 1000)]),
      handleHeader syn sup [88] none])
    = [[74], [67], [88], [88]] := by
  decide


open Header Mapping

/-- `_handle_part` on the `;`-separated pieces of one header element -/
def partOfPieces (space : Nat → Bool) (pieces : List Str) : Except Err Part :=
  match pieces.map (strip space) with
  | [] => .error .other
  | key :: params =>
    match params.find? (fun prm => isQ space (partitionEq prm).1) with
    | none => .ok (key, 1000)
    | some prm =>
      match parseQ space (partitionEq prm).2 with
      | some q => .ok (key, q)
      | none => .error .valueError

theorem handlePart_eq (space : Nat → Bool) (part : Str) : handlePart space part = partOfPieces space (splitOn 59 part) := rfl

theorem mapM_congr_mem' {α β ε : Type} (f g : α → Except ε β) (l : List α) (h : ∀ a ∈ l, f a = g a) :
    l.mapM f = l.mapM g := by
  induction l with
  | nil => rfl
  | cons a as ih =>
    rw [List.mapM_cons, List.mapM_cons, h a (by simp), ih (fun x hx => h x (by simp [hx]))]

/-- **C18 (the header as text).** A header written as elements separated by `,`, each a media type
followed by `;`-separated parameters — none of the pieces containing `,` or `;`, anything else
allowed, in particular optional whitespace around every piece — is parsed into exactly the parts its
pieces denote, element by element; so `handle_header` on the text is the negotiation of
`C18_header_max` / `C18_header_supported` over those parts. -/
theorem C18_header_text (space : Nat → Bool) (syn : List (Str × Str)) (sup : List Str) (dflt : Str)
    (raw : List (List Str)) (hne : raw ≠ []) (hpieces : ∀ pieces ∈ raw, pieces ≠ [] ∧ ∀ p ∈ pieces, 44 ∉ p ∧ 59 ∉ p)
    (hnonempty : joinWith 44 (raw.map (joinWith 59)) ≠ []) :
    handleHeaderText space syn sup dflt (some (joinWith 44 (raw.map (joinWith 59)))) =
      match raw.mapM (partOfPieces space) with
      | .ok parts => .ok (handleHeader syn sup dflt (some parts))
      | .error e => .error e := by
  have hcomma : ∀ p ∈ raw.map (joinWith 59), 44 ∉ p := by
    intro p hp
    obtain ⟨pieces, hpc, rfl⟩ := List.mem_map.mp hp
    have := (hpieces pieces hpc).2
    -- a join of comma-free pieces with ';' is comma-free
    have key : ∀ (l : List Str), (∀ x ∈ l, 44 ∉ x) → 44 ∉ joinWith 59 l := by
      intro l
      induction l with
      | nil => intro _; simp [joinWith]
      | cons a as ih =>
        intro hl
        cases as with
        | nil => simpa [joinWith] using hl a (by simp)
        | cons b bs =>
          simp only [joinWith, List.mem_append, List.mem_cons, not_or]
          exact ⟨hl a (by simp), by decide, ih (fun x hx => hl x (by simp [hx]))⟩
    exact key pieces (fun x hx => (this x hx).1)
  have hparts : headerParts space (joinWith 44 (raw.map (joinWith 59))) = raw.mapM (partOfPieces space) := by
    unfold headerParts
    rw [splitOn_joinWith 44 _ (by simpa using hne) hcomma, List.mapM_map]
    apply mapM_congr_mem'
    intro pieces hpc
    simp only [Function.comp]
    rw [handlePart_eq, splitOn_joinWith 59 pieces (hpieces pieces hpc).1 (fun p hp => ((hpieces pieces hpc).2 p hp).2)]
  unfold handleHeaderText
  cases hh : joinWith 44 (raw.map (joinWith 59)) with
  | nil => exact absurd hh hnonempty
  | cons x xs =>
    simp only
    rw [← hh, hparts]
    cases raw.mapM (partOfPieces space) <;> rfl

/-- what a well-formed element denotes: the media type with the whitespace around it removed, and the
weight of its first `q` parameter (1 when there is none) -/
theorem partOfPieces_wellformed (space : Nat → Bool) (l t r : Str) (pre : List Str) (qpiece : Str) (post : List Str) (q : Nat)
    (hl : ∀ x ∈ l, space x = true) (hr : ∀ x ∈ r, space x = true) (ht : Stripped space t)
    (hpre : ∀ p ∈ pre, isQ space (partitionEq (strip space p)).1 = false)
    (hq : isQ space (partitionEq (strip space qpiece)).1 = true)
    (hval : parseQ space (partitionEq (strip space qpiece)).2 = some q) :
    partOfPieces space ((l ++ t ++ r) :: pre ++ qpiece :: post) = .ok (t, q) ∧
    partOfPieces space ((l ++ t ++ r) :: pre) = .ok (t, 1000) := by
  have hfind : ∀ rest : List Str, ((pre ++ rest).map (strip space)).find? (fun prm => isQ space (partitionEq prm).1)
      = (rest.map (strip space)).find? (fun prm => isQ space (partitionEq prm).1) := by
    intro rest
    induction pre with
    | nil => rfl
    | cons p ps ih =>
      simp only [List.cons_append, List.map_cons, List.find?_cons, hpre p (by simp)]
      exact ih (fun x hx => hpre x (by simp [hx]))
  constructor
  · show partOfPieces space ((l ++ t ++ r) :: (pre ++ qpiece :: post)) = _
    unfold partOfPieces
    simp only [List.map_cons, strip_ows space l t r hl hr ht]
    rw [hfind]
    simp only [List.map_cons, List.find?_cons, hq, hval]
  · unfold partOfPieces
    simp only [List.map_cons, strip_ows space l t r hl hr ht]
    have := hfind []
    simp only [List.append_nil, List.map_nil, List.find?_nil] at this
    rw [this]

def strOf (x : String) : Str := x.toList.map Char.toNat

/-- Non-vacuity: `text/csv;charset=utf-8;q=0.2 , application/json; Q=0.5` with the real tables: JSON wins. -/
example :
    (handleHeaderText (fun c => c == 32 || c == 9)
      [(strOf "application/json", strOf "application/sparql-results+json"), (strOf "text/csv", strOf "application/sparql-results+csv")]
      [strOf "application/sparql-results+json", strOf "application/sparql-results+xml", strOf "application/sparql-results+csv"]
      (strOf "application/sparql-results+xml") (some (strOf "text/csv;charset=utf-8;q=0.2 , application/json; Q=0.5"))).toOption
      = some (strOf "application/sparql-results+json") := by
  decide
