import CuriesVerif.Model.Files
import CuriesVerif.Lemmas.Csv
import CuriesVerif.Properties.C15
import CuriesVerif.Properties.C16

/-!
# C14 / C15 / C16 down to the characters of the file

The three places where the library writes and reads delimiter-separated text, with the csv layer
modelled (`Model/Csv.lean`) instead of assumed: what is on disk after `write_tsv`,
`write_triples` and the `file_*` operations, and what reading it back yields — for arbitrary
cell content (tabs, quotes, carriage returns, line feeds, empty cells).
-/

open Files Csv

theorem delimiterOK_tab : DelimiterOK 9 := ⟨by decide, by decide, by decide⟩

/-- **C14 (TSV, on disk).** The text `write_tsv` writes, parsed back as a two-column table with the
header skipped, is exactly the list of `(canonical prefix, canonical URI prefix)` pairs — for every
converter, every header and arbitrary strings. -/
theorem C14_tsv_bytes (h1 h2 : Str) (recs : List Record) :
    tsvPairs (tsvText h1 h2 recs) = some (recs.map fun r => (r.pfx, r.uri)) := by
  unfold tsvPairs tsvText
  rw [csv_roundtrip 9 delimiterOK_tab]
  simp only [List.drop_succ_cons, List.drop_zero]
  induction recs with
  | nil => rfl
  | cons r rs ih =>
    simp only [List.map_cons, List.mapM_cons, ih]
    rfl

theorem readTripleRow_curie (t : Ref × Ref × Ref)
    (h : ∀ r ∈ [t.1, t.2.1, t.2.2], r.cls = .reference ∧ r.name = none ∧ 58 ∉ r.pfx) :
    readTripleRow .reference [t.1.curie, t.2.1.curie, t.2.2.curie] = .ok t := by
  obtain ⟨s, p, o⟩ := t
  have one : ∀ r : Ref, r.cls = .reference ∧ r.name = none ∧ 58 ∉ r.pfx → Ref.fromCurie .reference r.curie = .ok r := by
    intro r hr
    obtain ⟨r', h1, h2, h3, h4⟩ := C15_roundtrip .reference r.pfx r.ident none hr.2.2 (by intro e; cases e)
    have e : Ref.curie { cls := .reference, pfx := r.pfx, ident := r.ident, name := none } = r.curie := rfl
    rw [e] at h1
    rw [h1]
    congr 1
    obtain ⟨c, pf, id, nm⟩ := r
    obtain ⟨c', pf', id', nm'⟩ := r'
    simp only at h2 h3 h4 hr
    have hn : nm' = none := by
      unfold Ref.fromCurie at h1
      simp only at h1
      split at h1
      · cases h1
      · split at h1
        · cases h1
        · simp only [Except.ok.injEq, Ref.mk.injEq] at h1
          exact h1.2.2.2.symm ▸ (by simp)
    rw [h2, h3, h4, hn, hr.1, hr.2.1]
  unfold readTripleRow
  simp only
  rw [one s (h s (by simp)), one p (h p (by simp)), one o (h o (by simp))]

/-- **C15 (triples, on disk).** What `write_triples` writes, `read_triples` reads back to the same
triples — for every header row and all references with a separator-free prefix, whatever the
identifiers contain (tabs, quotes, newlines included). -/
theorem C15_triples_bytes (header : List Str) (ts : List (Ref × Ref × Ref))
    (h : ∀ t ∈ ts, ∀ r ∈ [t.1, t.2.1, t.2.2], r.cls = .reference ∧ r.name = none ∧ 58 ∉ r.pfx) :
    readTriples .reference (triplesText header ts) = .ok ts := by
  unfold readTriples triplesText
  rw [csv_roundtrip 9 delimiterOK_tab]
  simp only
  induction ts with
  | nil => rfl
  | cons t rest ih =>
    rw [List.map_cons, List.mapM_cons, readTripleRow_curie t (h t (by simp)), ih (fun x hx => h x (by simp [hx]))]
    rfl

/-- **C16 (atomicity, on disk).** If a file operation raises, the text of the file is what it was. -/
theorem C16_atomic_bytes (f : Str → Except Err (Option Str)) (col : Nat) (header : Bool) (d : Nat) (text text' : Str)
    (e : Err) (h : fileHelperText f col header d text = (.error e, text')) : text' = text := by
  unfold fileHelperText at h
  split at h
  · cases h
  · cases h; rfl

/-- **C16 (files, on disk).** After a successful file operation, reading the file again yields the
header row followed by the converted rows (as `C16_file` describes them), for every legal
separator and every cell content. -/
theorem C16_file_bytes (f : Str → Except Err (Option Str)) (col : Nat) (d : Nat) (hd : DelimiterOK d) (text text' : Str)
    (hdr : List Str) (body : List (List Str)) (hread : csvRead d text = hdr :: body) (hh : hdr ≠ [])
    (h : fileHelperText f col true d text = (.ok (), text')) :
    ∃ rows, csvRead d text' = hdr :: rows ∧
      Forall2 (fun row row' => ∃ cell v, row[col]? = some cell ∧ f cell = .ok v ∧ row' = row.set col (v.getD [])) body rows := by
  unfold fileHelperText at h
  rw [hread] at h
  cases hfh : Bulk.fileHelper f col true (hdr :: body) with
  | mk res disk' =>
    rw [hfh] at h
    cases res with
    | error e => simp at h
    | ok u =>
      simp only [Prod.mk.injEq, true_and] at h
      obtain ⟨rows, hrows, hall⟩ := C16_file f col hdr body disk' hh (by rw [hfh])
      refine ⟨rows, ?_, hall⟩
      rw [← h, csv_roundtrip d hd, hrows]

/-- Non-vacuity: a two-row file with a cell holding a carriage return and a tab; `compress` in
passthrough mode rewrites column 0; the other cells come back character for character. -/
example :
    (let c := Conv.build [58] [⟨[97], [104, 47], [], [], none⟩]
     let text := csvWrite 9 [[[104]], [[104, 47, 49], [13, 9, 34]], [[120], [10]]]
     let r := fileHelperText (Bulk.scalar c "compress" false false true) 0 true 9 text
     csvRead 9 r.2) = [[[104]], [[97, 58, 49], [13, 9, 34]], [[120], [10]]] := by
  decide
