import CuriesVerif.Spec.W3C
import CuriesVerif.Lemmas.Basic

/-!
# C20 — W3C validators accept exactly the documented grammar

For every string.  `space` (what Python's `\s` / `str.strip` treat as whitespace) is a parameter;
the only facts used about it are that a whitespace character is neither a name character nor
the colon (`SpaceOK`).
-/

open W3C

/-- whitespace characters are not name characters, not `:` and not `/` -/
def SpaceOK (space : Nat → Bool) : Prop :=
  (∀ c, space c = true → isNameChar c = false ∧ isNameStart c = false ∧ c ≠ 58) ∧ space 47 = false

/-- **C20.** `is_w3c_prefix(s)` holds exactly when `s` is an ASCII XML NCName — a letter or `_`
followed by letters, digits, `.`, `-` or `_` — with no trailing newline or any other extra
character. -/
theorem C20_prefix (s : Str) : isW3cPrefix s = true ↔ Spec.W3C.NCName s := by
  unfold Spec.W3C.NCName
  cases s with
  | nil => simp [isW3cPrefix]
  | cons c cs =>
    simp only [isW3cPrefix, Bool.and_eq_true, List.all_eq_true, isNameStart, isNameChar, Bool.or_eq_true,
      beq_iff_eq]
    constructor
    · rintro ⟨h1, h2⟩
      exact ⟨c, cs, rfl, h1, fun x hx => by
        have := h2 x hx
        rcases this with ((((h | h) | h) | h) | h)
        · exact Or.inl h
        · exact Or.inr (Or.inl h)
        · exact Or.inr (Or.inr (Or.inl h))
        · exact Or.inr (Or.inr (Or.inr (Or.inl h)))
        · exact Or.inr (Or.inr (Or.inr (Or.inr h)))⟩
    · rintro ⟨c', cs', he, h1, h2⟩
      cases he
      exact ⟨h1, fun x hx => by
        rcases h2 x hx with h | h | h | h | h
        · exact Or.inl (Or.inl (Or.inl (Or.inl h)))
        · exact Or.inl (Or.inl (Or.inl (Or.inr h)))
        · exact Or.inl (Or.inl (Or.inr h))
        · exact Or.inl (Or.inr h)
        · exact Or.inr h⟩

theorem ncName_iff (s : Str) : Spec.W3C.ncName s = isW3cPrefix s := by
  cases s with
  | nil => rfl
  | cons c cs => rfl

theorem startsSlashSlash_iff (r : Str) : Spec.W3C.startsSlashSlash r = true ↔ [47, 47] <+: r := by
  match r with
  | [] => simp [Spec.W3C.startsSlashSlash]
  | [c] =>
    by_cases h : c = 47
    · subst h; simp [Spec.W3C.startsSlashSlash]
    · simp [Spec.W3C.startsSlashSlash, h]
  | c :: d :: cs =>
    by_cases h : c = 47
    · subst h
      by_cases h2 : d = 47
      · subst h2; simp [Spec.W3C.startsSlashSlash]
      · simp only [Spec.W3C.startsSlashSlash]
        constructor
        · intro hh; split at hh <;> simp_all
        · intro hp
          obtain ⟨t, ht⟩ := hp
          simp at ht
          exact absurd ht.1.symm h2
    · constructor
      · intro hh; simp only [Spec.W3C.startsSlashSlash] at hh; split at hh <;> simp_all
      · intro hp
        obtain ⟨t, ht⟩ := hp
        simp at ht
        exact absurd ht.1.symm h

/-- **C20.** The local-identifier pattern, matched in full, accepts exactly the whitespace-free
strings that do not start with `//` (alternative by alternative). -/
theorem C20_luid (space : Nat → Bool) (h47s : space 47 = false) (s : Str) :
    isLuid space s = Spec.W3C.reference space s := by
  unfold isLuid Spec.W3C.reference
  match s with
  | [] => simp [Spec.W3C.startsSlashSlash]
  | [c] =>
    by_cases h47 : c = 47
    · subst h47; simp [h47s, Spec.W3C.startsSlashSlash]
    · cases hs : space c <;> simp [h47, hs, Spec.W3C.startsSlashSlash]
  | c :: d :: cs =>
    by_cases h47 : c = 47
    · subst h47
      by_cases hd : d = 47
      · subst hd; simp [Spec.W3C.startsSlashSlash]
      · cases h1 : space d <;> simp [hd, h47s, h1, Spec.W3C.startsSlashSlash]
    · cases h0 : space c <;> cases h1 : space d <;> simp [h47, h0, h1, Spec.W3C.startsSlashSlash]

theorem C20_luid_prop (space : Nat → Bool) (h47s : space 47 = false) (s : Str) :
    isLuid space s = true ↔ Spec.W3C.Reference space s := by
  rw [C20_luid space h47s]
  unfold Spec.W3C.reference Spec.W3C.Reference
  rw [← startsSlashSlash_iff]
  simp only [Bool.and_eq_true, List.all_eq_true, Bool.not_eq_true', Bool.not_eq_eq_eq_not, Bool.not_true]
  constructor
  · rintro ⟨h1, h2⟩; exact ⟨h1, by simp [h2]⟩
  · rintro ⟨h1, h2⟩; exact ⟨h1, by simpa using h2⟩

/-- **C20.** `is_w3c_curie` never accepts a blank string or one containing square brackets. -/
theorem C20_curie_never (space : Nat → Bool) (s : Str) :
    (s.all space = true → isW3cCurie space s = false) ∧
    (91 ∈ s ∨ 93 ∈ s → isW3cCurie space s = false) := by
  unfold isW3cCurie isBlank
  constructor
  · intro h
    by_cases hb : (s.contains 91 || s.contains 93) = true
    · rw [if_pos hb]
    · rw [if_neg hb, if_pos h]
  · intro h
    have hb : (s.contains 91 || s.contains 93) = true := by
      rcases h with h | h <;> simp [h]
    rw [if_pos hb]

/-- **C20.** … nor one containing whitespace. -/
theorem C20_curie_no_space (space : Nat → Bool) (hsp : SpaceOK space) (s : Str) (c : Nat) (hc : c ∈ s)
    (hs : space c = true) : isW3cCurie space s = false := by
  unfold isW3cCurie
  by_cases hb : (s.contains 91 || s.contains 93) = true
  · rw [if_pos hb]
  · rw [if_neg hb]
    by_cases hbl : isBlank space s = true
    · rw [if_pos hbl]
    · rw [if_neg hbl]
      have hluid : ∀ t : Str, c ∈ t → isLuid space t = false := by
        intro t ht
        rw [C20_luid space hsp.2]
        unfold Spec.W3C.reference
        have : (t.all fun x => !space x) = false := by
          rw [List.all_eq_false]
          exact ⟨c, ht, by simp [hs]⟩
        simp [this]
      cases hp : partition? [58] s with
      | none => exact hluid s hc
      | some pi =>
        obtain ⟨p, i⟩ := pi
        show (if p.isEmpty then isLuid space i else isW3cPrefix p && isLuid space i) = false
        have hsplit := partition?_spec [58] s p i hp
        rw [hsplit] at hc
        have hc' : c ∈ p ∨ c ∈ i := by
          simp only [List.mem_append, List.mem_singleton] at hc
          rcases hc with (h | h) | h
          · exact Or.inl h
          · exact absurd h (hsp.1 c hs).2.2
          · exact Or.inr h
        rcases hc' with h | h
        · cases p with
          | nil => cases h
          | cons a as =>
            have : isW3cPrefix (a :: as) = false := by
              simp only [isW3cPrefix]
              rcases List.mem_cons.mp h with rfl | h'
              · simp [(hsp.1 c hs).2.1]
              · have : (as.all isNameChar) = false := by
                  rw [List.all_eq_false]; exact ⟨c, h', by simp [(hsp.1 c hs).1]⟩
                simp [this]
            simp [this]
        · by_cases hpe : p.isEmpty = true
          · rw [if_pos hpe]; exact hluid i h
          · rw [if_neg hpe]; simp [hluid i h]

/-- **C20.** `is_w3c_curie` accepts `p:r` (split at the first colon) exactly when `p` is empty or an
NCName and `r` is a whitespace-free reference not starting with `//`; a colon-free string is
judged as a bare reference by the same rule — for non-blank, bracket-free strings. -/
theorem C20_curie (space : Nat → Bool) (h47s : space 47 = false) (s : Str) (hb : isBlank space s = false)
    (hbr : (s.contains 91 || s.contains 93) = false) :
    isW3cCurie space s =
      match partition? [58] s with
      | none => Spec.W3C.reference space s
      | some (p, r) => (p.isEmpty || Spec.W3C.ncName p) && Spec.W3C.reference space r := by
  unfold isW3cCurie
  rw [if_neg (by rw [hbr]; exact Bool.false_ne_true), if_neg (by rw [hb]; exact Bool.false_ne_true)]
  cases partition? [58] s with
  | none => exact C20_luid space h47s s
  | some pi =>
    obtain ⟨p, r⟩ := pi
    show (if p.isEmpty then isLuid space r else isW3cPrefix p && isLuid space r)
      = ((p.isEmpty || Spec.W3C.ncName p) && Spec.W3C.reference space r)
    rw [C20_luid space h47s, ncName_iff]
    cases p with
    | nil => simp
    | cons a as => simp

def asciiSpace (c : Nat) : Bool := c == 32 || c == 9 || c == 10

/-- Non-vacuity / the repaired defects: trailing newline, embedded whitespace, `//`. -/
example :
    [isW3cPrefix [71, 79], isW3cPrefix [71, 79, 10], isW3cCurie asciiSpace [71, 79, 58, 49],
     isW3cCurie asciiSpace [97, 32, 98], isW3cCurie asciiSpace [71, 79, 58, 47, 47, 120], isW3cCurie asciiSpace [58, 120],
     isW3cCurie asciiSpace [47], isW3cCurie asciiSpace []]
    = [true, false, true, false, false, true, true, false] := by
  decide
