import CuriesVerif.Lemmas.Incremental
import CuriesVerif.Spec.Reconcile

/-!
# C12 — URI-prefix remapping and rewiring re-point records without losing information

`remap_uri_prefixes` and `rewire` transform every record independently with the same function
`upgradeUri` (and then hand the records to the strict constructor), so the property is a
statement about that function, for every record, every selected new URI prefix and every
converter.
-/

open Spec Reconcile

theorem mem_setUpdate (xs : List Str) (x : Str) (dropped : List Str) (s : Str) :
    s ∈ setUpdate xs x dropped ↔ (s ∈ xs ∨ s = x) ∧ s ∉ dropped := by
  unfold setUpdate
  rw [mem_sortStrs, List.mem_filter, List.mem_eraseDups, List.mem_append]
  simp

/-- **C12.** `remap_uri_prefixes` raises `TransitiveError` exactly when some string is both a key
and a value of the mapping. -/
theorem C12_transitive_iff (c : Conv) (rm : List (Str × Str)) :
    remapUriPrefixes c rm = .error .transitive ↔ ∃ k, k ∈ rm.map (·.1) ∧ k ∈ rm.map (·.2) := by
  unfold remapUriPrefixes
  by_cases h : ((rm.map (·.1)).any fun k => (rm.map (·.2)).contains k) = true
  · rw [if_pos h]
    simp only [true_iff]
    obtain ⟨k, hk, hv⟩ := List.any_eq_true.mp h
    exact ⟨k, hk, by simpa using hv⟩
  · rw [if_neg h]
    constructor
    · intro he
      unfold Conv.init? at he
      simp only at he
      split at he
      · cases he
      · split at he <;> cases he
    · rintro ⟨k, hk, hv⟩
      exact absurd (List.any_eq_true.mpr ⟨k, hk, by simpa using hv⟩) h

/-- **C12 (one record).** What the shared upgrade does to a record `r` when the mapping selects
the new URI prefix `new`:
* the CURIE prefix, its synonyms and the pattern are untouched;
* `r` keeps every URI prefix it had, and gains at most `new`;
* if `new` is unused in the converter or already a synonym of `r`, it becomes canonical and the
  replaced canonical URI prefix becomes a synonym;
* if `new` is owned elsewhere (or is `r`'s canonical URI prefix already), `r` is left untouched. -/
theorem C12_upgrade (c : Conv) (r : Record) (new : Str) :
    let r' := upgradeUri c r new
    r'.pfx = r.pfx ∧ r'.pSyn = r.pSyn ∧ r'.pattern = r.pattern ∧
    (∀ k ∈ r.allU, k ∈ r'.allU) ∧
    (∀ k ∈ r'.allU, k ∈ r.allU ∨ k = new) ∧
    ((Dict.has c.revMap new = false ∨ new ∈ r.uSyn) →
      r'.uri = new ∧ new ∉ r'.uSyn ∧ (r.uri ≠ new → r.uri ∈ r'.uSyn)) ∧
    ((Dict.has c.revMap new = true ∧ new ∉ r.uSyn) → r' = r) := by
  intro r'
  by_cases hclash : (Dict.has c.revMap new && !r.uSyn.contains new) = true
  · have e : r' = r := by
      show upgradeUri c r new = r
      unfold upgradeUri; rw [if_pos hclash]
    rw [e]
    have hc : Dict.has c.revMap new = true ∧ new ∉ r.uSyn := by simpa using hclash
    refine ⟨rfl, rfl, rfl, fun k hk => hk, fun k hk => Or.inl hk, ?_, fun _ => rfl⟩
    rintro (h | h)
    · rw [hc.1] at h; cases h
    · exact absurd h hc.2
  · have e : r' = { r with uSyn := setUpdate r.uSyn r.uri [new], uri := new } := by
      show upgradeUri c r new = _
      unfold upgradeUri; rw [if_neg hclash]
    rw [e]
    refine ⟨rfl, rfl, rfl, ?_, ?_, ?_, ?_⟩
    · intro k hk
      simp only [Record.allU, List.mem_cons] at hk ⊢
      by_cases hkn : k = new
      · exact Or.inl hkn
      · right
        rw [mem_setUpdate]
        exact ⟨by rcases hk with h | h; exact Or.inr h; exact Or.inl h, by simpa using hkn⟩
    · intro k hk
      simp only [Record.allU, List.mem_cons] at hk ⊢
      rcases hk with h | h
      · exact Or.inr h
      · have := (mem_setUpdate _ _ _ _).mp h
        rcases this.1 with h1 | h1
        · exact Or.inl (Or.inr h1)
        · exact Or.inl (Or.inl h1)
    · intro _
      refine ⟨rfl, ?_, ?_⟩
      · show new ∉ setUpdate r.uSyn r.uri [new]
        rw [mem_setUpdate]; simp
      · intro hne
        show r.uri ∈ setUpdate r.uSyn r.uri [new]
        rw [mem_setUpdate]; exact ⟨Or.inr rfl, by simpa using hne⟩
    · rintro ⟨h1, h2⟩
      have : (Dict.has c.revMap new && !r.uSyn.contains new) = true := by simp [h1, h2]
      exact absurd this hclash

/-- **C12.** `remap_uri_prefixes` (when not transitive) and `rewire` hand exactly the per-record
images to the strict constructor, in record order, so the number of records is unchanged. -/
theorem C12_remap_records (c : Conv) (rm : List (Str × Str)) (c' : Conv)
    (hok : remapUriPrefixes c rm = .ok c') :
    c'.records.Perm (c.records.map fun r =>
      match firstUpgrade r.uri r.uSyn rm with
      | none => r
      | some new => upgradeUri c r new) := by
  unfold remapUriPrefixes at hok
  split at hok
  · cases hok
  · rw [(init?_records hok).1]; exact sortRecords_perm _

theorem C12_rewire_records (c : Conv) (rw : List (Str × Str)) (c' : Conv) (hok : rewire c rw = .ok c') :
    c'.records.Perm (c.records.map fun r =>
      match firstUpgrade r.pfx r.pSyn rw with
      | none => r
      | some new => if new == r.uri then r else upgradeUri c r new) := by
  unfold rewire at hok
  rw [(init?_records hok).1]; exact sortRecords_perm _

/-- **C12.** Rewiring with only unknown CURIE prefixes adds nothing: the records are those of the
input. -/
theorem C12_rewire_unknown {c : Conv} (h : WF c) (rw : List (Str × Str))
    (hunk : ∀ r ∈ c.records, ∀ p ∈ r.allP, Dict.get rw p = none) :
    ∃ c', rewire c rw = .ok c' ∧ c'.records.Perm c.records := by
  have key : ∀ l : List Record, l = c.records → ∃ c', Conv.init? l = .ok c' ∧ c'.records.Perm c.records := by
    intro l hl
    subst hl
    obtain ⟨c', hc'⟩ := (init?_ok_iff c.records [58]).mpr h.unique
    exact ⟨c', hc', by rw [(init?_records hc').1]; exact sortRecords_perm _⟩
  unfold rewire
  apply key
  conv => rhs; rw [← List.map_id c.records]
  apply List.map_congr_left
  intro r hr
  have : firstUpgrade r.pfx r.pSyn rw = none := by
    unfold firstUpgrade
    rw [hunk r hr r.pfx (by simp [Record.allP])]
    simp only
    rw [List.findSome?_eq_none_iff]
    intro s hs
    exact hunk r hr s (by simp [Record.allP, hs])
  rw [this]; rfl


/-- the per-record function of `rewire` -/
def rewireRec (c : Conv) (rw : List (Str × Str)) (r : Record) : Record :=
  match firstUpgrade r.pfx r.pSyn rw with
  | none => r
  | some new => if new == r.uri then r else upgradeUri c r new

theorem rewire_eq (c : Conv) (rw : List (Str × Str)) :
    rewire c rw = Conv.init? (c.records.map (rewireRec c rw)) := rfl

theorem has_revMap_iff {c : Conv} (h : WF c) (k : Str) :
    Dict.has c.revMap k = true ↔ ∃ r ∈ c.records, k ∈ r.allU := by
  unfold Dict.has
  rw [h.mirror.rm]
  unfold Spec.ownerU
  cases hf : c.records.find? (fun r => r.allU.contains k) with
  | none =>
    simp only [Option.map_none, Option.isSome_none, Bool.false_eq_true, false_iff]
    rintro ⟨r, hr, hk⟩
    have := List.find?_eq_none.mp hf r hr
    simp [hk] at this
  | some r =>
    simp only [Option.map_some, Option.isSome_some, true_iff]
    exact ⟨r, List.mem_of_find?_eq_some hf, by simpa using List.find?_some hf⟩

theorem recOK_upgradeUri (c : Conv) (r : Record) (new : Str) (h : RecOK r) : RecOK (upgradeUri c r new) := by
  unfold upgradeUri
  split
  · exact h
  · refine ⟨h.1, ?_⟩
    show new ∉ setUpdate r.uSyn r.uri [new]
    rw [mem_setUpdate]; simp

theorem rewireRec_fields (c : Conv) (rw : List (Str × Str)) (r : Record) :
    (rewireRec c rw r).pfx = r.pfx ∧ (rewireRec c rw r).pSyn = r.pSyn ∧ ∀ k ∈ r.allU, k ∈ (rewireRec c rw r).allU := by
  unfold rewireRec
  split
  · exact ⟨rfl, rfl, fun k hk => hk⟩
  · split
    · exact ⟨rfl, rfl, fun k hk => hk⟩
    · have := C12_upgrade c r ‹Str›
      exact ⟨this.1, this.2.1, this.2.2.2.1⟩

theorem recOK_rewireRec (c : Conv) (rw : List (Str × Str)) (r : Record) (h : RecOK r) : RecOK (rewireRec c rw r) := by
  unfold rewireRec
  split
  · exact h
  · split
    · exact h
    · exact recOK_upgradeUri c r _ h

/-- a record of the rewired converter is a fixed point of the same rewiring -/
theorem rewireRec_fixed {c c' : Conv} (h : WF c) (h' : WF c') (rw : List (Str × Str))
    (hperm : c'.records.Perm (c.records.map (rewireRec c rw))) (r : Record) (hr : r ∈ c.records) :
    rewireRec c' rw (rewireRec c rw r) = rewireRec c rw r := by
  have hf := rewireRec_fields c rw r
  generalize hr' : rewireRec c rw r = r' at hf
  unfold rewireRec
  rw [hf.1, hf.2.1]
  cases hu : firstUpgrade r.pfx r.pSyn rw with
  | none => rfl
  | some new =>
    simp only
    split
    · rfl
    · rename_i hne
      -- `new` is not the canonical URI prefix of `r'`, so `r` was left untouched by a clash in `c`
      have hr'2 : r' = (if new == r.uri then r else upgradeUri c r new) := by
        rw [← hr']; unfold rewireRec; rw [hu]
      by_cases hnr : (new == r.uri) = true
      · rw [if_pos hnr] at hr'2
        subst hr'2
        exact absurd hnr hne
      · rw [if_neg hnr] at hr'2
        have hup := C12_upgrade c r new
        by_cases hcl : Dict.has c.revMap new = true ∧ new ∉ r.uSyn
        · have e : r' = r := by rw [hr'2]; exact hup.2.2.2.2.2.2 hcl
          subst e
          obtain ⟨s, hs, hks⟩ := (has_revMap_iff h new).mp hcl.1
          have hs' : rewireRec c rw s ∈ c'.records :=
            hperm.mem_iff.mpr (List.mem_map.mpr ⟨s, hs, rfl⟩)
          have : Dict.has c'.revMap new = true :=
            (has_revMap_iff h' new).mpr ⟨_, hs', (rewireRec_fields c rw s).2.2 new hks⟩
          unfold upgradeUri
          rw [if_pos (by simp [this, hcl.2])]
        · have : Dict.has c.revMap new = false ∨ new ∈ r.uSyn := by
            by_cases h1 : Dict.has c.revMap new = true
            · right; exact Classical.byContradiction fun h2 => hcl ⟨h1, h2⟩
            · left; exact Bool.eq_false_iff.mpr h1
          have e := (hup.2.2.2.2.2.1 this).1
          rw [← hr'2] at e
          exact absurd (by simp [e]) hne

/-- **C12 (idempotence).** Applying the same rewiring to the result of a successful rewiring
succeeds and changes no record. -/
theorem C12_rewire_idem {c : Conv} (h : WF c) (rw : List (Str × Str)) (c' : Conv) (hok : rewire c rw = .ok c') :
    ∃ c'', rewire c' rw = .ok c'' ∧ c''.records.Perm c'.records := by
  rw [rewire_eq] at hok
  have hrec := (init?_records hok).1
  have hperm : c'.records.Perm (c.records.map (rewireRec c rw)) := by rw [hrec]; exact sortRecords_perm _
  have hrok : ∀ r ∈ c.records.map (rewireRec c rw), RecOK r := by
    intro r' hr'
    obtain ⟨r, hr, rfl⟩ := List.mem_map.mp hr'
    exact recOK_rewireRec c rw r (h.recOK r hr)
  have h' : WF c' := wf_of_init hrok hok
  have hid : c'.records.map (rewireRec c' rw) = c'.records := by
    conv => rhs; rw [← List.map_id c'.records]
    apply List.map_congr_left
    intro r' hr'
    obtain ⟨r, hr, rfl⟩ := List.mem_map.mp (hperm.mem_iff.mp hr')
    exact rewireRec_fixed h h' rw hperm r hr
  rw [rewire_eq, hid]
  obtain ⟨c'', hc''⟩ := (init?_ok_iff c'.records [58]).mpr h'.unique
  exact ⟨c'', hc'', by rw [(init?_records hc'').1]; exact sortRecords_perm _⟩

/-- Non-vacuity: an upgrade onto an unused URI prefix, a synonym promoted to canonical, and a
clash with another record that is a no-op. -/
example :
    (let c := Conv.build [58] [⟨[97], [117, 47], [], [[118, 47]], none⟩, ⟨[98], [119, 47], [], [], none⟩]
     [match remapUriPrefixes c [([117, 47], [110, 47])] with | .ok x => Val.recs x.records | .error e => .err e,
      match rewire c [([97], [118, 47])] with | .ok x => Val.recs x.records | .error e => .err e,
      match remapUriPrefixes c [([117, 47], [119, 47])] with | .ok x => Val.recs x.records | .error e => .err e,
      match remapUriPrefixes c [([117, 47], [120]), ([120], [121])] with | .ok x => Val.recs x.records | .error e => .err e])
    = [.recs [⟨[97], [110, 47], [], [[117, 47], [118, 47]], none⟩, ⟨[98], [119, 47], [], [], none⟩],
       .recs [⟨[97], [118, 47], [], [[117, 47]], none⟩, ⟨[98], [119, 47], [], [], none⟩],
       .recs [⟨[97], [117, 47], [], [[118, 47]], none⟩, ⟨[98], [119, 47], [], [], none⟩],
       .err .transitive] := by
  decide

/-- Non-vacuity of idempotence: a rewiring that promotes, clashes and adds; the second application
returns the same records. -/
example :
    (let c := Conv.build [58] [⟨[97], [117, 47], [[65]], [[118, 47]], none⟩, ⟨[98], [119, 47], [], [], none⟩]
     let rw : List (Str × Str) := [([65], [119, 47]), ([98], [122, 47])]
     match rewire c rw with
     | .ok c' => (match rewire c' rw with | .ok c'' => (Val.recs c'.records, c''.records == c'.records) | .error e => (.err e, false))
     | .error e => (.err e, false))
    = (.recs [⟨[97], [117, 47], [[65]], [[118, 47]], none⟩, ⟨[98], [122, 47], [], [[119, 47]], none⟩], true) := by
  decide


theorem firstUpgrade_mem (canonical : Str) (synonyms : List Str) (up : List (Str × Str)) (new : Str)
    (h : firstUpgrade canonical synonyms up = some new) : ∃ k ∈ canonical :: synonyms, (k, new) ∈ up := by
  have get_mem : ∀ k v, Dict.get up k = some v → (k, v) ∈ up := by
    intro k v hg
    unfold Dict.get at hg
    cases hf : up.find? (fun kv => kv.1 == k) with
    | none => simp [hf] at hg
    | some kv =>
      rw [hf] at hg
      simp only [Option.map_some, Option.some.injEq] at hg
      have hm := List.mem_of_find?_eq_some hf
      have hk : kv.1 = k := by simpa using List.find?_some hf
      obtain ⟨a, b⟩ := kv
      simp only at hg hk
      subst hg; subst hk; exact hm
  unfold firstUpgrade at h
  cases hc : Dict.get up canonical with
  | some v =>
    rw [hc] at h
    simp only [Option.some.injEq] at h
    subst h
    exact ⟨canonical, by simp, get_mem _ _ hc⟩
  | none =>
    rw [hc] at h
    simp only at h
    obtain ⟨s, hs, hg⟩ := List.exists_of_findSome?_eq_some h
    exact ⟨s, by simp [hs], get_mem _ _ hg⟩

/-- what the upgraded record may list on the URI side: what it listed, or the new URI prefix when
that one was unused in the converter -/
theorem mem_upgradeUri_allU (c : Conv) (r : Record) (new x : Str) (h : x ∈ (upgradeUri c r new).allU) :
    x ∈ r.allU ∨ (x = new ∧ Dict.has c.revMap new = false) := by
  have hup := C12_upgrade c r new
  by_cases hcl : Dict.has c.revMap new = true ∧ new ∉ r.uSyn
  · rw [hup.2.2.2.2.2.2 hcl] at h; exact Or.inl h
  · rcases hup.2.2.2.2.1 x h with h1 | h1
    · exact Or.inl h1
    · by_cases hh : Dict.has c.revMap new = true
      · have : new ∈ r.uSyn := Classical.byContradiction fun hn => hcl ⟨hh, hn⟩
        exact Or.inl (by rw [h1]; simp [Record.allU, this])
      · exact Or.inr ⟨h1, by simpa using hh⟩

theorem same_key_of_nodup_values {up : List (Str × Str)} (hinj : (up.map (·.2)).Nodup) {k1 k2 v : Str}
    (h1 : (k1, v) ∈ up) (h2 : (k2, v) ∈ up) : k1 = k2 := by
  induction up with
  | nil => cases h1
  | cons kv rest ih =>
    rw [List.map_cons, List.nodup_cons] at hinj
    rcases List.mem_cons.mp h1 with e1 | m1
    · rcases List.mem_cons.mp h2 with e2 | m2
      · rw [← e2] at e1; exact (Prod.mk.inj e1).1
      · exact absurd (List.mem_map.mpr ⟨(k2, v), m2, by rw [← e1]⟩) hinj.1
    · rcases List.mem_cons.mp h2 with e2 | m2
      · exact absurd (List.mem_map.mpr ⟨(k1, v), m1, by rw [← e2]⟩) hinj.1
      · exact ih hinj.2 m1 m2

/-- the generic argument: a per-record map that leaves the CURIE side alone and adds to the URI side
at most a value selected through a key of the record, unused in the converter, keeps a one-owner
collection one-owner when the selection is injective -/
theorem unique_map_upgrade {c : Conv} (h : WF c) (up : List (Str × Str)) (hinj : (up.map (·.2)).Nodup)
    (keys : Record → List Str) (f : Record → Record)
    (hkeys : ∀ a b : Record, (Disj a.allP b.allP ∧ Disj a.allU b.allU) → Disj (keys a) (keys b))
    (hP : ∀ r, (f r).allP = r.allP)
    (hU : ∀ r x, x ∈ (f r).allU → x ∈ r.allU ∨ (∃ k ∈ keys r, (k, x) ∈ up ∧ Dict.has c.revMap x = false)) :
    Unique (c.records.map f) := by
  unfold Unique
  rw [List.pairwise_map]
  refine h.unique.imp_of_mem ?_
  intro a b ha hb hab
  refine ⟨by rw [hP, hP]; exact hab.1, ?_⟩
  intro x hxa hxb
  have unused_not_listed : ∀ r ∈ c.records, Dict.has c.revMap x = false → x ∉ r.allU := by
    intro r hr hun hx
    have := (has_revMap_iff h x).mpr ⟨r, hr, hx⟩
    rw [hun] at this; cases this
  rcases hU a x hxa with h1 | ⟨k1, hk1, hm1, hun1⟩
  · rcases hU b x hxb with h2 | ⟨k2, hk2, hm2, hun2⟩
    · exact hab.2 x h1 h2
    · exact unused_not_listed a ha hun2 h1
  · rcases hU b x hxb with h2 | ⟨k2, hk2, hm2, hun2⟩
    · exact unused_not_listed b hb hun1 h2
    · have := same_key_of_nodup_values hinj hm1 hm2
      subst this
      exact hkeys a b hab k1 hk1 hk2

/-- **C12 (injective rewirings are never rejected).** For every well-formed converter and every
rewiring whose values are pairwise different, `rewire` returns a converter. -/
theorem C12_rewire_ok {c : Conv} (h : WF c) (rw : List (Str × Str)) (hinj : (rw.map (·.2)).Nodup) :
    ∃ c', rewire c rw = .ok c' := by
  rw [rewire_eq]
  apply (init?_ok_iff _ _).mpr
  apply unique_map_upgrade h rw hinj Record.allP (rewireRec c rw) (fun a b hab => hab.1)
  · intro r
    have := rewireRec_fields c rw r
    simp [Record.allP, this.1, this.2.1]
  · intro r x hx
    unfold rewireRec at hx
    cases hf : firstUpgrade r.pfx r.pSyn rw with
    | none => rw [hf] at hx; exact Or.inl hx
    | some new =>
      rw [hf] at hx
      simp only at hx
      split at hx
      · exact Or.inl hx
      · rcases mem_upgradeUri_allU c r new x hx with h1 | ⟨h1, h2⟩
        · exact Or.inl h1
        · obtain ⟨k, hk, hm⟩ := firstUpgrade_mem _ _ _ _ hf
          exact Or.inr ⟨k, hk, by rw [h1]; exact hm, by rw [h1]; exact h2⟩

/-- **C12 (injective URI-prefix remappings are rejected only as transitive).** -/
theorem C12_remap_ok {c : Conv} (h : WF c) (rm : List (Str × Str)) (hinj : (rm.map (·.2)).Nodup)
    (hnt : ¬ ∃ k, k ∈ rm.map (·.1) ∧ k ∈ rm.map (·.2)) :
    ∃ c', remapUriPrefixes c rm = .ok c' := by
  unfold remapUriPrefixes
  have hno : ((rm.map (·.1)).any fun k => (rm.map (·.2)).contains k) = false := by
    rw [List.any_eq_false]
    intro k hk hc
    exact hnt ⟨k, hk, by simpa using hc⟩
  rw [hno]
  simp only [Bool.false_eq_true, if_false]
  apply (init?_ok_iff _ _).mpr
  apply unique_map_upgrade h rm hinj Record.allU
    (fun record => match firstUpgrade record.uri record.uSyn rm with
      | none => record
      | some new => upgradeUri c record new) (fun a b hab => hab.2)
  · intro r
    cases hf : firstUpgrade r.uri r.uSyn rm with
    | none => rfl
    | some new =>
      have := C12_upgrade c r new
      simp only
      simp [Record.allP, this.1, this.2.1]
  · intro r x hx
    cases hf : firstUpgrade r.uri r.uSyn rm with
    | none => rw [hf] at hx; exact Or.inl hx
    | some new =>
      rw [hf] at hx
      simp only at hx
      rcases mem_upgradeUri_allU c r new x hx with h1 | ⟨h1, h2⟩
      · exact Or.inl h1
      · obtain ⟨k, hk, hm⟩ := firstUpgrade_mem _ _ _ _ hf
        exact Or.inr ⟨k, hk, by rw [h1]; exact hm, by rw [h1]; exact h2⟩
