import CuriesVerif.Properties.C06
import CuriesVerif.Model.Discovery
import CuriesVerif.Lemmas.Discover

/-!
# C19 — discover returns a valid converter that compresses the URIs it learned from

For every classification `alnum` of code points, every delimiter list, cutoff and metaprefix.
-/

open Spec Discovery

/-! ### which URI prefixes are collected -/

theorem keys_addLuid (acc : List (Str × List Str)) (k luid : Str) (x : Str) :
    x ∈ (addLuid acc k luid).map (·.1) ↔ x ∈ acc.map (·.1) ∨ x = k := by
  unfold addLuid
  by_cases h : (acc.any fun g => g.1 == k) = true
  · rw [if_pos h]
    have hk : k ∈ acc.map (·.1) := by
      obtain ⟨g, hg, he⟩ := List.any_eq_true.mp h
      exact List.mem_map.mpr ⟨g, hg, by simpa using he⟩
    have : ((acc.map fun g => if g.1 == k then (g.1, if g.2.contains luid then g.2 else g.2 ++ [luid]) else g).map (·.1))
        = acc.map (·.1) := by
      rw [List.map_map]
      apply List.map_congr_left
      intro g _
      simp only [Function.comp]
      split <;> rfl
    rw [this]
    constructor
    · intro hx; exact Or.inl hx
    · rintro (hx | hx)
      · exact hx
      · rw [hx]; exact hk
  · rw [if_neg h]
    simp

/-- every collected URI prefix comes from splitting some input URI that is neither known nor a
GitHub-issue URI -/
theorem keys_prefixToLuids_sound (alnum : Nat → Bool) (known : Str → Bool) (delims uris : List Str) (k : Str)
    (hk : k ∈ (prefixToLuids alnum known delims uris).map (·.1)) :
    ∃ u ∈ uris, known u = false ∧ isGithubIssue u = false ∧
      ∃ luid, splitUri alnum (if delims.isEmpty then defaultDelimiters else delims) u = some (k, luid) := by
  unfold prefixToLuids at hk
  simp only at hk
  generalize hD : (if delims.isEmpty then defaultDelimiters else delims) = D at hk ⊢
  have key : ∀ (l : List Str) (acc : List (Str × List Str)),
      k ∈ (l.foldl (fun acc u =>
        if known u then acc else if isGithubIssue u then acc
        else match splitUri alnum D u with
          | some (k, luid) => addLuid acc k luid
          | none => acc) acc).map (·.1) →
      k ∈ acc.map (·.1) ∨ ∃ u ∈ l, known u = false ∧ isGithubIssue u = false ∧ ∃ luid, splitUri alnum D u = some (k, luid) := by
    intro l
    induction l with
    | nil => intro acc h; exact Or.inl h
    | cons u us ih =>
      intro acc h
      simp only [List.foldl_cons] at h
      rcases ih _ h with h1 | ⟨u', hu', rest⟩
      · by_cases hkn : known u = true
        · simp only [hkn, if_true] at h1; exact Or.inl h1
        · by_cases hg : isGithubIssue u = true
          · simp only [hkn, hg, if_true, Bool.false_eq_true, if_false] at h1; exact Or.inl h1
          · simp only [hkn, hg, Bool.false_eq_true, if_false] at h1
            cases hs : splitUri alnum D u with
            | none => simp only [hs] at h1; exact Or.inl h1
            | some kl =>
              obtain ⟨k', luid⟩ := kl
              simp only [hs] at h1
              rcases (keys_addLuid acc k' luid k).mp h1 with h2 | h2
              · exact Or.inl h2
              · subst h2
                exact Or.inr ⟨u, by simp, by simpa using hkn, by simpa using hg, luid, hs⟩
      · exact Or.inr ⟨u', by simp [hu'], rest⟩
  rcases key uris [] hk with h | h
  · simp at h
  · exact h

/-- … and every such URI contributes its prefix -/
theorem keys_prefixToLuids_complete (alnum : Nat → Bool) (known : Str → Bool) (delims uris : List Str) (u k luid : Str)
    (hu : u ∈ uris) (hkn : known u = false) (hg : isGithubIssue u = false)
    (hs : splitUri alnum (if delims.isEmpty then defaultDelimiters else delims) u = some (k, luid)) :
    k ∈ (prefixToLuids alnum known delims uris).map (·.1) := by
  unfold prefixToLuids
  simp only
  generalize (if delims.isEmpty then defaultDelimiters else delims) = D at hs ⊢
  have mono : ∀ (l : List Str) (acc : List (Str × List Str)), k ∈ acc.map (·.1) →
      k ∈ (l.foldl (fun acc u =>
        if known u then acc else if isGithubIssue u then acc
        else match splitUri alnum D u with
          | some (k, luid) => addLuid acc k luid
          | none => acc) acc).map (·.1) := by
    intro l
    induction l with
    | nil => intro acc h; exact h
    | cons v vs ih =>
      intro acc h
      simp only [List.foldl_cons]
      apply ih
      by_cases h1 : known v = true
      · simp only [h1, if_true]; exact h
      · by_cases h2 : isGithubIssue v = true
        · simp only [h1, h2, if_true, Bool.false_eq_true, if_false]; exact h
        · simp only [h1, h2, Bool.false_eq_true, if_false]
          cases splitUri alnum D v with
          | none => exact h
          | some kl => exact (keys_addLuid acc kl.1 kl.2 k).mpr (Or.inl h)
  have key : ∀ (l : List Str) (acc : List (Str × List Str)), u ∈ l →
      k ∈ (l.foldl (fun acc u =>
        if known u then acc else if isGithubIssue u then acc
        else match splitUri alnum D u with
          | some (k, luid) => addLuid acc k luid
          | none => acc) acc).map (·.1) := by
    intro l
    induction l with
    | nil => intro acc h; cases h
    | cons v vs ih =>
      intro acc h
      simp only [List.foldl_cons]
      rcases List.mem_cons.mp h with rfl | h
      · apply mono
        simp only [hkn, hg, Bool.false_eq_true, if_false, hs]
        exact (keys_addLuid acc k luid k).mpr (Or.inr rfl)
      · exact ih _ h
  exact key uris [] hu

/-- what `splitUri` returns: a prefix ending in one of the delimiters, followed by an
alphanumeric identifier, together making up the URI -/
theorem splitUri_some (alnum : Nat → Bool) (D : List Str) (u k luid : Str) (h : splitUri alnum D u = some (k, luid)) :
    ∃ d ∈ D, ∃ pre, k = pre ++ d ∧ u = k ++ luid ∧ isAlnum alnum luid = true := by
  unfold splitUri at h
  obtain ⟨d, hd, hf⟩ := List.exists_of_findSome?_eq_some h
  cases hr : rpartition? d u with
  | none => simp [hr] at hf
  | some pl =>
    obtain ⟨pre, l⟩ := pl
    simp only [hr] at hf
    by_cases ha : isAlnum alnum l = true
    · simp only [ha, if_true, Option.some.injEq, Prod.mk.injEq] at hf
      obtain ⟨rfl, rfl⟩ := hf
      refine ⟨d, hd, pre, rfl, ?_, ha⟩
      -- `rpartition?` splits `u` at an occurrence of `d`
      unfold rpartition? at hr
      cases hl : lastOcc d u with
      | none => simp [hl] at hr
      | some n =>
        simp [hl] at hr
        obtain ⟨rfl, rfl⟩ := hr
        exact lastOcc_spec d u n hl
    · simp [ha] at hf
where
  lastOcc_spec (d : Str) : ∀ (s : Str) (n : Nat), lastOcc d s = some n →
      s = s.take n ++ d ++ s.drop (n + d.length)
    | [], n, h => by
      simp only [lastOcc] at h
      split at h
      · simp_all
      · simp at h
    | c :: s, n, h => by
      simp only [lastOcc] at h
      cases hs : lastOcc d s with
      | some m =>
        simp [hs] at h
        subst h
        have ih := lastOcc_spec d s m hs
        simp only [List.take_succ_cons, List.cons_append]
        have : m + 1 + d.length = (m + d.length) + 1 := by omega
        rw [this, List.drop_succ_cons, ← List.cons_append, ← List.cons_append]
        congr 1
      | none =>
        simp only [hs] at h
        split at h
        · rename_i hp
          have hn : n = 0 := by simpa using h.symm
          subst hn
          obtain ⟨t, ht⟩ := List.isPrefixOf_iff_prefix.mp hp
          simp only [List.take_zero, List.nil_append, Nat.zero_add]
          rw [← ht]; simp
        · simp at h

/-! ### the records handed to the constructor -/

theorem mem_records (alnum : Nat → Bool) (known : Str → Bool) (delims : List Str) (cutoff : Option Nat)
    (mp : Str) (uris : List Str) (r : Record)
    (hr : r ∈ Discovery.records alnum known delims cutoff mp uris) :
    r.pSyn = [] ∧ r.uSyn = [] ∧ r.pattern = none ∧ (∃ i, r.pfx = mp ++ natStr (i + 1)) ∧
    r.uri ∈ (prefixToLuids alnum known delims uris).map (·.1) := by
  unfold Discovery.records at hr
  simp only at hr
  generalize hkept : ((isort (fun (a b : Str × List Str) => strLe a.1 b.1) (prefixToLuids alnum known delims uris)).filter
    fun g => keepBy cutoff g.2.length).map (·.1) = kept at hr
  obtain ⟨i, hi, rfl⟩ := List.mem_iff_getElem.mp hr
  have hi2 : i < kept.length := by
    simp only [List.length_zipWith, List.length_range, Nat.min_self] at hi; exact hi
  rw [List.getElem_zipWith]
  refine ⟨rfl, rfl, rfl, ⟨_, rfl⟩, ?_⟩
  show kept[i] ∈ _
  have hsub : ∀ x, x ∈ kept → x ∈ ((isort (fun (a b : Str × List Str) => strLe a.1 b.1)
      (prefixToLuids alnum known delims uris)).filter
      fun g => keepBy cutoff g.2.length).map (·.1) := by
    intro x hx; rw [hkept]; exact hx
  obtain ⟨g, hg, he⟩ := List.mem_map.mp (hsub _ (List.getElem_mem hi2))
  have hg' := (List.mem_filter.mp hg).1
  rw [mem_isort] at hg'
  rw [← he]
  exact List.mem_map.mpr ⟨g, hg', rfl⟩

section
variable (alnum : Nat → Bool) (conv : Option Conv) (delims : List Str) (cutoff : Option Nat) (mp : Str)
  (uris : List Str) (c : Conv) (hok : discover alnum conv delims cutoff mp uris = .ok c)
include hok

/-- **C19.** `discover` returns a valid strict converter whose records have no synonyms. -/
theorem C19_wf : WF c ∧ ∀ r ∈ c.records, r.pSyn = [] ∧ r.uSyn = [] := by
  unfold discover at hok
  have hrec : ∀ r ∈ c.records, r.pSyn = [] ∧ r.uSyn = [] := by
    intro r hr
    rw [(init?_records hok).1, (sortRecords_perm _).mem_iff] at hr
    have := mem_records _ _ _ _ _ _ r hr
    exact ⟨this.1, this.2.1⟩
  refine ⟨wf_of_init ?_ hok, hrec⟩
  intro r hr
  have := mem_records _ _ _ _ _ _ r hr
  simp [RecOK, this.1, this.2.1]

/-- **C19.** Every URI prefix of the result ends in one of the delimiters, and is the part before
(and including) the right-most such delimiter of some input URI whose remaining tail is
alphanumeric; URIs already recognised by the supplied converter contribute nothing. -/
theorem C19_ends (r : Record) (hr : r ∈ c.records) :
    ∃ u ∈ uris, knownOf conv u = false ∧
      ∃ d ∈ (if delims.isEmpty then defaultDelimiters else delims), ∃ pre luid,
        r.uri = pre ++ d ∧ u = r.uri ++ luid ∧ isAlnum alnum luid = true := by
  unfold discover at hok
  rw [(init?_records hok).1, (sortRecords_perm _).mem_iff] at hr
  have hk := (mem_records _ _ _ _ _ _ r hr).2.2.2.2
  obtain ⟨u, hu, hkn, _, luid, hs⟩ := keys_prefixToLuids_sound _ _ _ _ _ hk
  obtain ⟨d, hd, pre, e1, e2, e3⟩ := splitUri_some _ _ _ _ _ hs
  exact ⟨u, hu, hkn, d, hd, pre, luid, e1, e2, e3⟩

end

theorem digitsAux_digits (fuel n : Nat) (acc : Str) (ch : Nat) (h : ch ∈ digitsAux fuel n acc) :
    ch ∈ acc ∨ (48 ≤ ch ∧ ch ≤ 57) := by
  induction fuel generalizing n acc with
  | zero => exact Or.inl h
  | succ f ih =>
    simp only [digitsAux] at h
    split at h
    · rcases List.mem_cons.mp h with rfl | h
      · exact Or.inr (by omega)
      · exact Or.inl h
    · rcases ih _ _ h with h1 | h1
      · rcases List.mem_cons.mp h1 with rfl | h1
        · exact Or.inr (by omega)
        · exact Or.inl h1
      · exact Or.inr h1

theorem natStr_digits (n ch : Nat) (h : ch ∈ natStr n) : 48 ≤ ch ∧ ch ≤ 57 := by
  rcases digitsAux_digits _ _ _ _ h with h | h
  · cases h
  · exact h

/-- with no cutoff every collected URI prefix gets a record -/
theorem mem_records_complete (alnum : Nat → Bool) (known : Str → Bool) (delims : List Str) (mp : Str)
    (uris : List Str) (k : Str) (hk : k ∈ (prefixToLuids alnum known delims uris).map (·.1)) :
    ∃ r ∈ Discovery.records alnum known delims none mp uris, r.uri = k := by
  unfold Discovery.records
  simp only
  generalize hkept : ((isort (fun (a b : Str × List Str) => strLe a.1 b.1) (prefixToLuids alnum known delims uris)).filter
    fun g => keepBy none g.2.length).map (·.1) = kept
  have hk' : k ∈ kept := by
    rw [← hkept]
    obtain ⟨g, hg, he⟩ := List.mem_map.mp hk
    exact List.mem_map.mpr ⟨g, List.mem_filter.mpr ⟨(mem_isort _ _ _).mpr hg, rfl⟩, he⟩
  obtain ⟨i, hi, he⟩ := List.mem_iff_getElem.mp hk'
  have hi2 : i < (List.zipWith (fun i up => ({ pfx := mp ++ natStr (i + 1), uri := up } : Record))
      (List.range kept.length) kept).length := by
    simp only [List.length_zipWith, List.length_range, Nat.min_self]; exact hi
  refine ⟨_, List.getElem_mem hi2, ?_⟩
  rw [List.getElem_zipWith]
  exact he

/-- **C19 (round trip, partial: GitHub-issue URIs excluded — known finding F9; metaprefix without
`:`).** With no cutoff, every input URI that is not already recognised, is not a GitHub-issue
URI, and ends in an alphanumeric identifier after one of the delimiters compresses under the
result, and the CURIE expands back to the URI itself. -/
theorem C19_roundtrip_partial (alnum : Nat → Bool) (conv : Option Conv) (delims : List Str) (mp : Str)
    (uris : List Str) (c : Conv) (hok : discover alnum conv delims none mp uris = .ok c) (h58 : 58 ∉ mp)
    (u k luid : Str) (hu : u ∈ uris)
    (hkn : knownOf conv u = false) (hg : isGithubIssue u = false)
    (hs : splitUri alnum (if delims.isEmpty then defaultDelimiters else delims) u = some (k, luid)) :
    c.isUri u = true ∧ ∀ x, c.compress u false false = .ok (some x) → c.expand x false false = .ok (some u) := by
  have ⟨hw, hnosyn⟩ := C19_wf alnum conv delims none mp uris c hok
  have hdelim : c.delim = [58] := by
    unfold discover at hok; exact (init?_records hok).2
  have hd : c.delim ≠ [] := by rw [hdelim]; simp
  -- the URI prefix learned from `u` is registered
  have hkk : k ∈ (prefixToLuids alnum (knownOf conv) delims uris).map (·.1) :=
    keys_prefixToLuids_complete _ _ _ _ u k luid hu hkn hg hs
  obtain ⟨r, hr, hru⟩ := mem_records_complete _ _ _ mp _ _ hkk
  have hrc : r ∈ c.records := by
    unfold discover at hok
    rw [(init?_records hok).1, (sortRecords_perm _).mem_iff]; exact hr
  obtain ⟨_, _, _, e1, e2, _⟩ := splitUri_some _ _ _ _ _ hs
  have hpre : k <+: u := by rw [e2]; exact List.prefix_append _ _
  have hisuri : c.isUri u = true :=
    (C01_isUri_aux hw u).mpr ⟨r, hrc, k, by simp [Record.allU, hru], hpre⟩
  refine ⟨hisuri, ?_⟩
  intro x hx
  -- canonical prefixes are `mp ++ digits`: no colon
  have hcanon : CanonDelimOK c := by
    intro r' hr'
    rw [hdelim]
    apply delimOK_single
    unfold discover at hok
    rw [(init?_records hok).1, (sortRecords_perm _).mem_iff] at hr'
    obtain ⟨_, _, _, ⟨i, hi⟩, _⟩ := mem_records _ _ _ _ _ _ r' hr'
    rw [hi]
    intro hm
    rcases List.mem_append.mp hm with h | h
    · exact h58 h
    · have := natStr_digits _ _ h; omega
  have hstd := (C03_std hw hd hcanon u x hx).1
  rw [hstd]
  -- every URI prefix is canonical, so standardising changes nothing
  rw [compress_dflt hw] at hx
  obtain ⟨k', r', hl, _⟩ := compress_some (by simpa using hx)
  have hk' : k' = r'.uri := by
    have := hl.2.1
    rw [Record.allU, (hnosyn r' hl.1).2] at this
    simpa using this
  exact C03_std_canonical hw hd u k' r' hl hk'
where
  C01_isUri_aux {c : Conv} (h : WF c) (u : Str) :
      c.isUri u = true ↔ ∃ r ∈ c.records, ∃ k ∈ r.allU, k <+: u := by
    rw [isUri_eq h]
    unfold Spec.parseUri
    cases hl : longest c.records u with
    | none =>
      have hm := (longest_none_iff _ _).mp hl
      simp only [Option.map_none, Option.isSome_none, Bool.false_eq_true, false_iff]
      rintro ⟨r, hr, k, hk, hp⟩
      have : (k, r) ∈ matchesU c.records u := (mem_matchesU _ _ _ _).mpr ⟨hr, hk, hp⟩
      rw [hm] at this; cases this
    | some kr =>
      have hi := isLongest_of_longest hl
      simp only [Option.map_some, Option.isSome_some, true_iff]
      exact ⟨kr.2, hi.1, kr.1, hi.2.1, hi.2.2.1⟩

/-- **C19 (determinism).** `discover` is a function of the *set* of input URIs: two inputs with the
same elements — in any order, with any repetitions — produce the same records, hence the same
converter; for every delimiter list, cutoff, metaprefix and pre-existing converter. -/
theorem C19_perm_dup (alnum : Nat → Bool) (conv : Option Conv) (delims : List Str) (cutoff : Option Nat) (mp : Str)
    (uris₁ uris₂ : List Str) (hset : ∀ u, u ∈ uris₁ ↔ u ∈ uris₂) :
    Discovery.records alnum (knownOf conv) delims cutoff mp uris₁ =
      Discovery.records alnum (knownOf conv) delims cutoff mp uris₂ ∧
    discover alnum conv delims cutoff mp uris₁ = discover alnum conv delims cutoff mp uris₂ := by
  have h₁ := tableInv_prefixToLuids alnum (knownOf conv) delims uris₁
  have h₂ := tableInv_prefixToLuids alnum (knownOf conv) delims uris₂
  have hR : (fun k l => ∃ v ∈ uris₁, Contributes alnum (knownOf conv) (if delims.isEmpty then defaultDelimiters else delims) v k l)
      = (fun k l => ∃ v ∈ uris₂, Contributes alnum (knownOf conv) (if delims.isEmpty then defaultDelimiters else delims) v k l) := by
    funext k l
    apply propext
    constructor
    · rintro ⟨v, hv, hc⟩; exact ⟨v, (hset v).mp hv, hc⟩
    · rintro ⟨v, hv, hc⟩; exact ⟨v, (hset v).mpr hv, hc⟩
  rw [hR] at h₁
  have hrec : Discovery.records alnum (knownOf conv) delims cutoff mp uris₁ =
      Discovery.records alnum (knownOf conv) delims cutoff mp uris₂ := by
    unfold Discovery.records
    simp only
    rw [kept_eq_summary cutoff (prefixToLuids alnum (knownOf conv) delims uris₁),
      kept_eq_summary cutoff (prefixToLuids alnum (knownOf conv) delims uris₂),
      sorted_summary_eq _ _ _ h₁ h₂]
  refine ⟨hrec, ?_⟩
  unfold discover
  rw [hrec]

/-- **C19 (cutoff).** A URI prefix is kept exactly when at least `cutoff` *distinct* identifiers were
seen for it (every collected prefix is kept when there is no cutoff). -/
theorem C19_cutoff (alnum : Nat → Bool) (known : Str → Bool) (delims : List Str) (cutoff : Option Nat) (mp : Str)
    (uris : List Str) (k : Str) :
    (∃ r ∈ Discovery.records alnum known delims cutoff mp uris, r.uri = k) ↔
      ∃ ls, (k, ls) ∈ prefixToLuids alnum known delims uris ∧ keepBy cutoff ls.length = true := by
  unfold Discovery.records
  simp only
  generalize hkept : ((isort (fun (a b : Str × List Str) => strLe a.1 b.1) (prefixToLuids alnum known delims uris)).filter
    fun g => keepBy cutoff g.2.length).map (·.1) = kept
  have hmem : ∀ x, x ∈ kept ↔ ∃ ls, (x, ls) ∈ prefixToLuids alnum known delims uris ∧
      keepBy cutoff ls.length = true := by
    intro x
    rw [← hkept]
    simp only [List.mem_map, List.mem_filter, mem_isort]
    constructor
    · rintro ⟨g, ⟨hg, hp⟩, rfl⟩
      exact ⟨g.2, hg, hp⟩
    · rintro ⟨ls, hg, hp⟩
      exact ⟨(x, ls), ⟨hg, hp⟩, rfl⟩
  rw [← hmem]
  constructor
  · rintro ⟨r, hr, rfl⟩
    obtain ⟨i, hi, rfl⟩ := List.mem_iff_getElem.mp hr
    have hi2 : i < kept.length := by
      simp only [List.length_zipWith, List.length_range, Nat.min_self] at hi; exact hi
    rw [List.getElem_zipWith]
    exact List.getElem_mem hi2
  · intro hk
    obtain ⟨i, hi, he⟩ := List.mem_iff_getElem.mp hk
    have hi2 : i < (List.zipWith (fun i up => ({ pfx := mp ++ natStr (i + 1), uri := up } : Record))
        (List.range kept.length) kept).length := by
      simp only [List.length_zipWith, List.length_range, Nat.min_self]; exact hi
    exact ⟨_, List.getElem_mem hi2, by rw [List.getElem_zipWith]; exact he⟩

/-- **C19 (numbering).** The records are named `metaprefix1`, `metaprefix2`, … in sorted URI-prefix
order: the `i`-th record (from 0) is named `metaprefix ++ str(i+1)`, and the URI prefixes are in
ascending order. -/
theorem C19_names (alnum : Nat → Bool) (known : Str → Bool) (delims : List Str) (cutoff : Option Nat) (mp : Str)
    (uris : List Str) :
    (∀ i (hi : i < (Discovery.records alnum known delims cutoff mp uris).length),
      ((Discovery.records alnum known delims cutoff mp uris)[i]).pfx = mp ++ natStr (i + 1)) ∧
    ((Discovery.records alnum known delims cutoff mp uris).map (·.uri)).Pairwise (fun a b => a ≤ b) := by
  unfold Discovery.records
  simp only
  generalize hkept : ((isort (fun (a b : Str × List Str) => strLe a.1 b.1) (prefixToLuids alnum known delims uris)).filter
    fun g => keepBy cutoff g.2.length).map (·.1) = kept
  constructor
  · intro i hi
    rw [List.getElem_zipWith]
    simp
  · have huri : (List.zipWith (fun i up => ({ pfx := mp ++ natStr (i + 1), uri := up } : Record))
        (List.range kept.length) kept).map (·.uri) = kept := by
      apply List.ext_getElem
      · simp
      · intro i h1 h2
        simp
    rw [huri, ← hkept]
    have hs := isort_sorted (fun (a b : Str × List Str) => strLe a.1 b.1)
      (fun a b => by simp only [strLe, decide_eq_true_eq]; exact Std.le_total (a := a.1) (b := b.1))
      (fun a b c h1 h2 => by simp only [strLe, decide_eq_true_eq] at *; exact Std.le_trans h1 h2)
      (prefixToLuids alnum known delims uris)
    have hs2 := (hs.sublist (List.filter_sublist (p := fun g => keepBy cutoff g.2.length)))
    rw [List.pairwise_map]
    exact hs2.imp (fun h => by simpa [strLe] using h)

/-- **C19 is false without the GitHub exclusion (known finding F9).** The URI
`https://github.com/a/b/issues/12` ends in the alphanumeric identifier `12` after `/`, yet nothing
is learned from it. -/
theorem C19_github_not_learned :
    (splitUri (fun ch => decide (48 ≤ ch ∧ ch ≤ 57)) defaultDelimiters
      ([104,116,116,112,115,58,47,47,103,105,116,104,117,98,46,99,111,109,47,97,47,98,47,105,115,115,117,101,115,47,49,50])).isSome = true ∧
    Discovery.records (fun ch => decide (48 ≤ ch ∧ ch ≤ 57)) (fun _ => false) [] none [110, 115]
      [[104,116,116,112,115,58,47,47,103,105,116,104,117,98,46,99,111,109,47,97,47,98,47,105,115,115,117,101,115,47,49,50]] = [] := by
  constructor <;> decide

/-- Non-vacuity: nested discovered prefixes `x/` and `x/a_`, numbering in sorted order, cutoff. -/
example :
    (let alnum : Nat → Bool := fun ch => decide ((48 ≤ ch ∧ ch ≤ 57) ∨ (97 ≤ ch ∧ ch ≤ 122))
     [Discovery.records alnum (fun _ => false) [] none [110]
        [[120, 47, 97, 95, 49], [120, 47, 98], [120, 47, 97, 95, 50], [120, 47, 97, 95, 49]],
      Discovery.records alnum (fun _ => false) [] (some 2) [110]
        [[120, 47, 97, 95, 49], [120, 47, 98], [120, 47, 97, 95, 50], [120, 47, 97, 95, 49]]])
    = [[⟨[110, 49], [120, 47], [], [], none⟩, ⟨[110, 50], [120, 47, 97, 95], [], [], none⟩],
       [⟨[110, 49], [120, 47, 97, 95], [], [], none⟩]] := by
  decide
