import CuriesVerif.Codec
import CuriesVerif.Model.Loaders
import CuriesVerif.Model.Reconcile
import CuriesVerif.Model.Discovery
import CuriesVerif.Model.Writers

/-!
# Operation histories over converter slots

A case of the line protocol is a small program: construct converters into numbered slots, mutate
them, derive new ones, and query them.  The harness executes the same program on the real
library; results are compared step by step.
-/

open Lean (Json)

inductive Step where
  | init (dst : Nat) (recs : List Record) (delim : Str) (strict : Bool)
  | addRecord (c : Nat) (r : Record) (cs merge : Bool)
  | addPrefix (c : Nat) (p u : Str) (ps us : List Str) (cs merge : Bool)
  | chain (dst : Nat) (srcs : List Nat) (cs : Bool)
  | sub (dst src : Nat) (prefixes : List Str)
  | query (c : Nat) (q : Query)
  | roundtrip (dst src : Nat) (fmt : String) (syn expand : Bool)   -- write with a writer, read back
  | discover (dst : Nat) (src : Option Nat) (delims : List Str) (cutoff : Option Nat) (metaprefix : Str)
      (uris : List Str) (alnum : List Nat)
  | remapCurie (dst src : Nat) (rm : List (Str × Str))
  | remapUri (dst src : Nat) (rm : List (Str × Str))
  | rewire (dst src : Nat) (rm : List (Str × Str))
  | fresh (dst src : Nat) (extra : List Record)                 -- Converter(copies of src.records + extra, delimiter=src.delimiter)
  | clone (dst src : Nat)                                       -- copy.deepcopy / pickle round trip of a converter
  | dups (recs : List Record)                                   -- the listing of a strict construction
  | loadPm (dst : Nat) (pm : List (Str × Str)) (delim : Str) (strict : Bool)
  | loadPriority (dst : Nat) (data : List (Str × List Str)) (delim : Str := [58])   -- **kwargs: delimiter=
  | loadReverse (dst : Nat) (rpm : List (Str × Str)) (delim : Str := [58])
  | loadJsonld (dst : Nat) (ctx : List (Str × Loaders.JTerm)) (delim : Str := [58])
  | loadUpgrade (dst : Nat) (pm : List (Str × Str))             -- Converter(upgrade_prefix_map(pm))
  | upgrade (pm : List (Str × Str))                             -- the records upgrade_prefix_map returns
deriving Repr, Inhabited

abbrev Slots := List (Nat × Conv)

namespace Slots
def get? (s : Slots) (i : Nat) : Option Conv := (s.find? (·.1 == i)).map (·.2)
def put (s : Slots) (i : Nat) (c : Conv) : Slots := (i, c) :: s.filter (·.1 != i)
end Slots

def mkFold (tbl : List (Str × Str)) (s : Str) : Str :=
  match tbl.find? (·.1 == s) with
  | some (_, f) => f
  | none => s

def derive (s : Slots) (dst src : Nat) (f : Conv → Except Err Conv) : Slots × Val :=
  match s.get? src with
  | none => (s, .bad "no such slot")
  | some c =>
    match f c with
    | .ok c' => (s.put dst c', .none)
    | .error e => (s, .err e)

def initInto (s : Slots) (dst : Nat) (recs : Except Err (List Record)) (delim : Str) (strict : Bool) :
    Slots × Val :=
  match recs with
  | .error e => (s, .err e)
  | .ok recs =>
    match Conv.init? recs delim strict with
    | .ok c => (s.put dst c, .none)
    | .error e => (s, .err e)

/-- execute one step: new slots and the step's canonical result
(`.none` for a mutation or derivation that succeeded) -/
def Step.exec (fold : Str → Str) (s : Slots) : Step → Slots × Val
  | .init dst recs delim strict =>
    -- the records are constructed (and validated by pydantic) before `Converter(...)` runs
    match recs.mapM Record.validate with
    | .error e => (s, .err e)
    | .ok recs =>
      match Conv.init? recs delim strict with
      | .ok c => (s.put dst c, .none)
      | .error e => (s, .err e)
  | .addRecord ci r cs merge =>
    match s.get? ci with
    | none => (s, .bad "no such slot")
    | some c =>
      match r.validate.bind fun r => c.addRecord fold r cs merge with
      | .ok c' => (s.put ci c', .none)
      | .error e => (s, .err e)
  | .addPrefix ci p u ps us cs merge =>
    match s.get? ci with
    | none => (s, .bad "no such slot")
    | some c =>
      match c.addPrefix fold p u ps us cs merge with
      | .ok c' => (s.put ci c', .none)
      | .error e => (s, .err e)
  | .chain dst srcs cs =>
    match srcs.mapM s.get? with
    | none => (s, .bad "no such slot")
    | some convs =>
      match Conv.chain fold convs cs with
      | .ok c => (s.put dst c, .none)
      | .error e => (s, .err e)
  | .sub dst src prefixes =>
    match s.get? src with
    | none => (s, .bad "no such slot")
    | some c =>
      match c.getSubconverter prefixes with
      | .ok c' => (s.put dst c', .none)
      | .error e => (s, .err e)
  | .query ci q =>
    match s.get? ci with
    | none => (s, .bad "no such slot")
    | some c => (s, c.run q)
  | .roundtrip dst src fmt syn expand =>
    match s.get? src with
    | none => (s, .bad "no such slot")
    | some c =>
      let recs? : Except Err (List Record × Bool) :=
        match fmt with
        | "epm" => .ok (Writers.epmRoundtrip c.records, true)
        | "jsonld" =>
          (Loaders.jsonldPrefixMap (Writers.jsonldContext c.records expand syn)).map fun pm =>
            (Loaders.prefixMapRecords pm, !syn)
        | "shacl" =>
          match Writers.shaclRoundtrip c.records syn with
          | some l => .ok (l, !syn)
          | none => .error .other
        | "tsv" =>
          match Writers.tsvRoundtrip c.records with
          | some pm => .ok (Loaders.prefixMapRecords pm, true)
          | none => .error .other
        | _ => .error .other
      match recs? with
      | .error e => (s, .err e)
      | .ok (recs, strict) => initInto s dst (.ok recs) [58] strict
  | .discover dst src delims cutoff metaprefix uris alnum =>
    match (match src with | some i => (s.get? i).map some | none => some none) with
    | none => (s, .bad "no such slot")
    | some conv =>
      match Discovery.discover (fun n => alnum.contains n) conv delims cutoff metaprefix uris with
      | .ok c => (s.put dst c, .none)
      | .error e => (s, .err e)
  | .remapCurie dst src rm => derive s dst src (Reconcile.remapCuriePrefixes · rm)
  | .remapUri dst src rm => derive s dst src (Reconcile.remapUriPrefixes · rm)
  | .rewire dst src rm => derive s dst src (Reconcile.rewire · rm)
  | .fresh dst src extra =>
    match s.get? src with
    | none => (s, .bad "no such slot")
    | some c =>
      match extra.mapM Record.validate with
      | .error e => (s, .err e)
      | .ok extra =>
      match Conv.init? (c.records ++ extra) c.delim true with
      | .ok c' => (s.put dst c', .none)
      | .error e => (s, .err e)
  | .clone dst src =>
    match s.get? src with
    | none => (s, .bad "no such slot")
    | some c => (s.put dst c, .none)
  | .dups recs =>
    match recs.mapM Record.validate with
    | .error e => (s, .err e)
    | .ok recs =>
      let recs := sortRecords recs
      let du := duplicates Record.allU recs
      let d := if du.isEmpty then duplicates Record.allP recs else du
      (s, .strs (d.map fun (r1, r2, x) => r1.pfx ++ [1114112] ++ r2.pfx ++ [1114112] ++ x))
  | .loadPm dst pm delim strict => initInto s dst (.ok (Loaders.prefixMapRecords pm)) delim strict
  | .loadPriority dst data delim => initInto s dst (Loaders.priorityRecords data) delim true
  | .loadReverse dst rpm delim => initInto s dst (Loaders.reverseRecords rpm) delim true
  | .loadJsonld dst ctx delim => initInto s dst ((Loaders.jsonldPrefixMap ctx).map Loaders.prefixMapRecords) delim true
  | .loadUpgrade dst pm => initInto s dst (Loaders.upgradePrefixMap pm) [58] true
  | .upgrade pm =>
    match Loaders.upgradePrefixMap pm with
    | .ok recs => (s, .recs recs)
    | .error e => (s, .err e)

def runProgram (fold : Str → Str) (steps : List Step) : List Val :=
  (steps.foldl (fun (acc : Slots × List Val) st =>
    let (s', v) := st.exec fold acc.1
    (s', v :: acc.2)) ([], [])).2.reverse

namespace Codec

def step (j : Json) : D Step := do
  let op ← (← j.getObjVal? "op").getStr?
  let nat (k : String) : D Nat := do (← j.getObjVal? k).getNat?
  match op with
  | "init" =>
    pure (.init (← nat "dst") (← records (← j.getObjVal? "records"))
      (← str (fieldD j "delim" (.arr #[58]))) (boolD j "strict" true))
  | "add_record" =>
    pure (.addRecord (← nat "c") (← record (← j.getObjVal? "record")) (boolD j "cs" true) (boolD j "merge" false))
  | "add_prefix" =>
    pure (.addPrefix (← nat "c") (← str (← j.getObjVal? "p")) (← str (← j.getObjVal? "u"))
      (← strs (fieldD j "ps" (.arr #[]))) (← strs (fieldD j "us" (.arr #[])))
      (boolD j "cs" true) (boolD j "merge" false))
  | "chain" => do
    let srcs ← (← (← j.getObjVal? "srcs").getArr?).toList.mapM (·.getNat?)
    pure (.chain (← nat "dst") srcs (boolD j "cs" true))
  | "sub" => pure (.sub (← nat "dst") (← nat "src") (← strs (← j.getObjVal? "prefixes")))
  | "q" => pure (.query (← nat "c") (← query j))
  | "roundtrip" => do
    pure (.roundtrip (← nat "dst") (← nat "src") (← (← j.getObjVal? "fmt").getStr?) (boolD j "syn" false)
      (boolD j "expand" false))
  | "discover" => do
    let src ← match fieldD j "src" .null with
      | .null => pure none
      | x => some <$> x.getNat?
    let cutoff ← match fieldD j "cutoff" .null with
      | .null => pure none
      | x => some <$> x.getNat?
    let alnum ← (← (fieldD j "alnum" (.arr #[])).getArr?).toList.mapM (·.getNat?)
    pure (.discover (← nat "dst") src (← strs (fieldD j "delims" (.arr #[]))) cutoff
      (← str (fieldD j "metaprefix" (.arr #[110, 115]))) (← strs (← j.getObjVal? "uris")) alnum)
  | "remap_curie" => pure (.remapCurie (← nat "dst") (← nat "src") (← pairs (← j.getObjVal? "mapping")))
  | "remap_uri" => pure (.remapUri (← nat "dst") (← nat "src") (← pairs (← j.getObjVal? "mapping")))
  | "rewire" => pure (.rewire (← nat "dst") (← nat "src") (← pairs (← j.getObjVal? "mapping")))
  | "fresh" => pure (.fresh (← nat "dst") (← nat "src") (← records (fieldD j "extra" (.arr #[]))))
  | "clone" => pure (.clone (← nat "dst") (← nat "src"))
  | "dups" => pure (.dups (← records (← j.getObjVal? "records")))
  | "load_pm" =>
    pure (.loadPm (← nat "dst") (← pairs (← j.getObjVal? "data")) (← str (fieldD j "delim" (.arr #[58])))
      (boolD j "strict" true))
  | "load_priority" => do
    let items ← (← (← j.getObjVal? "data").getArr?).toList.mapM fun x => do
      match (← x.getArr?).toList with
      | [k, v] => pure (← str k, ← strs v)
      | _ => throw "pair expected"
    pure (.loadPriority (← nat "dst") items (← str (fieldD j "delim" (.arr #[58]))))
  | "load_reverse" => pure (.loadReverse (← nat "dst") (← pairs (← j.getObjVal? "data")) (← str (fieldD j "delim" (.arr #[58]))))
  | "load_jsonld" => do
    let items ← (← (← j.getObjVal? "data").getArr?).toList.mapM fun x => do
      match (← x.getArr?).toList with
      | [k, v] =>
        let t ← match v.getObjVal? "s" with
          | .ok sv => Loaders.JTerm.str <$> str sv
          | .error _ =>
            match v.getObjVal? "pd" with
            | .ok .null => pure (Loaders.JTerm.prefixDict none)
            | .ok idv => (fun i => Loaders.JTerm.prefixDict (some i)) <$> str idv
            | .error _ => pure Loaders.JTerm.other
        pure (← str k, t)
      | _ => throw "pair expected"
    pure (.loadJsonld (← nat "dst") items (← str (fieldD j "delim" (.arr #[58]))))
  | "load_upgrade" => pure (.loadUpgrade (← nat "dst") (← pairs (← j.getObjVal? "data")))
  | "upgrade" => pure (.upgrade (← pairs (← j.getObjVal? "data")))
  | _ => throw s!"unknown op {op}"

def program (j : Json) : D (List Step) := do
  (← j.getArr?).toList.mapM step

end Codec
