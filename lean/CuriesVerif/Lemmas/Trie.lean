import CuriesVerif.Model.Trie
import CuriesVerif.Model.Converter
import CuriesVerif.Lemmas.Lpi

/-!
# The character trie refines the dictionary contract

* `Trie.get_insert`: an assignment changes the value of its key and of no other key;
* `Trie.get_ofList`: after any sequence of assignments the trie holds, key by key, what the
  dictionary built by the same assignments holds;
* `Trie.lpi_eq`: whenever a trie and a dictionary agree key by key, the walk of
  `longest_prefix_item` returns exactly what the contract `lpi` of the converter model says: the
  longest key that is a prefix of the query, with its value.
-/

namespace Trie

theorem get_empty (k : Str) : empty.get k = none := by
  cases k with
  | nil => rfl
  | cons c k => rfl

theorem get_insert (t : Trie) (k k' v : Str) :
    (t.insert k v).get k' = if k = k' then some v else t.get k' := by
  induction k generalizing t k' with
  | nil =>
    obtain ⟨val, cs⟩ := t
    cases k' with
    | nil => simp [insert, get, value]
    | cons c' k' => simp [insert, get, child]
  | cons c k ih =>
    obtain ⟨val, cs⟩ := t
    cases k' with
    | nil => simp [insert, get, value]
    | cons c' k' =>
      simp only [insert, get, child]
      by_cases hc : c' = c
      · subst hc
        simp only [if_true]
        rw [ih]
        cases hcs : cs c' with
        | none => simp [get_empty]
        | some t' => simp
      · have : ¬ c :: k = c' :: k' := fun e => hc (List.cons.inj e).1.symm
        simp [hc, this]

theorem get_ofList_aux (kvs : List (Str × Str)) (t : Trie) (d : Dict Str) (h : ∀ k, t.get k = Dict.get d k) (k : Str) :
    (kvs.foldl (fun t kv => t.insert kv.1 kv.2) t).get k = Dict.get (kvs.foldl (fun d kv => Dict.set d kv.1 kv.2) d) k := by
  induction kvs generalizing t d with
  | nil => exact h k
  | cons kv kvs ih =>
    simp only [List.foldl_cons]
    apply ih
    intro k'
    rw [get_insert, Dict.get_set, h]

/-- after the same assignments, in the same order, the trie and the dictionary agree on every key -/
theorem get_ofList (kvs : List (Str × Str)) (k : Str) :
    (ofList kvs).get k = Dict.get (kvs.foldl (fun d kv => Dict.set d kv.1 kv.2) []) k :=
  get_ofList_aux kvs empty [] (fun k => by rw [get_empty]; rfl) k

/-! ### the walk -/

/-- the longest non-empty prefix of `u` below `t` that carries a value, with its length -/
def deepest : Trie → Str → Option (Nat × Str)
  | _, [] => none
  | t, c :: rest =>
    match t.child c with
    | none => none
    | some t' =>
      match deepest t' rest with
      | some (m, v) => some (m + 1, v)
      | none => t'.value.map fun v => (1, v)

theorem lpiWalk_eq (t : Trie) (u : Str) (i : Nat) (best : Option (Nat × Str)) :
    lpiWalk t u i best = match deepest t u with | some (m, v) => some (i + m, v) | none => best := by
  induction u generalizing t i best with
  | nil => rfl
  | cons c rest ih =>
    simp only [lpiWalk, deepest]
    cases hc : t.child c with
    | none => rfl
    | some t' =>
      simp only
      rw [ih]
      cases hd : deepest t' rest with
      | some mv => simp [Nat.add_assoc, Nat.add_comm 1]
      | none =>
        cases hv : t'.value with
        | none => rfl
        | some v => simp

theorem get_cons (t t' : Trie) (c : Nat) (rest : Str) (hc : t.child c = some t') (m : Nat) :
    t.get ((c :: rest).take (m + 1)) = t'.get (rest.take m) := by
  simp [List.take_succ_cons, get, hc]

theorem deepest_none (t : Trie) (u : Str) (h : deepest t u = none) :
    ∀ m', 1 ≤ m' → m' ≤ u.length → t.get (u.take m') = none := by
  induction u generalizing t with
  | nil => intro m' h1 h2; simp at h2; omega
  | cons c rest ih =>
    intro m' h1 h2
    obtain ⟨m1, rfl⟩ : ∃ m1, m' = m1 + 1 := ⟨m' - 1, by omega⟩
    simp only [deepest] at h
    cases hc : t.child c with
    | none => simp [List.take_succ_cons, get, hc]
    | some t' =>
      rw [hc] at h
      simp only at h
      rw [get_cons t t' c rest hc]
      cases hd : deepest t' rest with
      | some mv => rw [hd] at h; cases h
      | none =>
        rw [hd] at h
        simp only [Option.map_eq_none_iff] at h
        by_cases hm1 : m1 = 0
        · subst hm1; simpa [get] using h
        · exact ih t' hd m1 (by omega) (by simpa using h2)

theorem deepest_some (t : Trie) (u : Str) (m : Nat) (v : Str) (h : deepest t u = some (m, v)) :
    1 ≤ m ∧ m ≤ u.length ∧ t.get (u.take m) = some v ∧
      ∀ m', 1 ≤ m' → m' ≤ u.length → (t.get (u.take m')).isSome → m' ≤ m := by
  induction u generalizing t m v with
  | nil => simp [deepest] at h
  | cons c rest ih =>
    simp only [deepest] at h
    cases hc : t.child c with
    | none => rw [hc] at h; cases h
    | some t' =>
      rw [hc] at h
      simp only at h
      cases hd : deepest t' rest with
      | some mv =>
        obtain ⟨m0, v0⟩ := mv
        rw [hd] at h
        simp only [Option.some.injEq, Prod.mk.injEq] at h
        obtain ⟨rfl, rfl⟩ := h
        have := ih t' m0 v0 hd
        refine ⟨by omega, by simp; omega, by rw [get_cons t t' c rest hc]; exact this.2.2.1, ?_⟩
        intro m' h1 h2 h3
        obtain ⟨m1, rfl⟩ : ∃ m1, m' = m1 + 1 := ⟨m' - 1, by omega⟩
        rw [get_cons t t' c rest hc] at h3
        by_cases hm1 : m1 = 0
        · omega
        · have := this.2.2.2 m1 (by omega) (by simpa using h2) h3
          omega
      | none =>
        rw [hd] at h
        cases hv : t'.value with
        | none => rw [hv] at h; cases h
        | some w =>
          rw [hv] at h
          simp only [Option.map_some, Option.some.injEq, Prod.mk.injEq] at h
          obtain ⟨rfl, rfl⟩ := h
          refine ⟨by omega, by simp, by rw [get_cons t t' c rest hc]; simpa [get] using hv, ?_⟩
          intro m' h1 h2 h3
          obtain ⟨m1, rfl⟩ : ∃ m1, m' = m1 + 1 := ⟨m' - 1, by omega⟩
          rw [get_cons t t' c rest hc] at h3
          by_cases hm1 : m1 = 0
          · omega
          · have := deepest_none t' rest hd m1 (by omega) (by simpa using h2)
            rw [this] at h3; cases h3

/-- **The walk of `longest_prefix_item` computes the contract.** If a trie and a dictionary agree key
by key, `longest_prefix_item(u)` is the longest key that is a prefix of `u`, with its value
(`none` = `KeyError` when no key is a prefix) — exactly `lpi` of the converter model. -/
theorem lpi_eq (t : Trie) (d : Dict Str) (h : ∀ k, t.get k = Dict.get d k) (u : Str) : t.lpi u = Conv.lpi d u := by
  -- prefixes of `u` are its `take`s
  have takes : ∀ k : Str, k <+: u → k = u.take k.length := fun k hk => (List.prefix_iff_eq_take.mp hk)
  unfold lpi
  rw [lpiWalk_eq]
  cases hd : deepest t u with
  | some mv =>
    obtain ⟨m, v⟩ := mv
    obtain ⟨h1, h2, h3, h4⟩ := deepest_some t u m v hd
    simp only [Nat.zero_add, Option.map_some]
    symm
    rw [Conv.lpi_some]
    refine ⟨List.take_prefix _ _, by rw [← h]; exact h3, ?_⟩
    intro k' hk' hs
    rw [List.length_take, Nat.min_eq_left h2]
    by_cases hk0 : k'.length = 0
    · omega
    · apply h4 k'.length (by omega) hk'.length_le
      rw [← takes k' hk', h]; exact hs
  | none =>
    have hn := deepest_none t u hd
    simp only
    cases hv : t.value with
    | none =>
      simp only [Option.map_none]
      symm
      rw [Conv.lpi_none]
      intro k' hk'
      rw [← h]
      by_cases hk0 : k'.length = 0
      · have : k' = [] := List.length_eq_zero_iff.mp hk0
        subst this; simpa [get] using hv
      · rw [takes k' hk']; exact hn k'.length (by omega) hk'.length_le
    | some v =>
      simp only [Option.map_some, List.take_zero]
      symm
      rw [Conv.lpi_some]
      refine ⟨List.nil_prefix, by rw [← h]; simpa [get] using hv, ?_⟩
      intro k' hk' hs
      by_cases hk0 : k'.length = 0
      · omega
      · have := hn k'.length (by omega) hk'.length_le
        rw [← takes k' hk', h] at this
        rw [this] at hs; cases hs

/-- the trie the converter holds — built from the reverse prefix map and then assigned to by
`_index` — answers `longest_prefix_item` as the dictionary contract says, whatever the sequence of
assignments -/
theorem lpi_ofList (kvs : List (Str × Str)) (u : Str) :
    (ofList kvs).lpi u = Conv.lpi (kvs.foldl (fun d kv => Dict.set d kv.1 kv.2) []) u :=
  lpi_eq _ _ (get_ofList kvs) u

end Trie

theorem foldl_set_eq (l : List (Str × Str)) (d : Dict Str) :
    l.foldl (fun d kv => Dict.set d kv.1 kv.2) d = l.reverse ++ d := by
  induction l generalizing d with
  | nil => rfl
  | cons kv kvs ih =>
    rw [List.foldl_cons, ih]
    simp [Dict.set]

/-- **The converter's trie.**  The dictionary model of the trie *is* the log of the assignments made
to it (newest first); the character trie that received exactly these assignments, in order,
answers `longest_prefix_item` as the contract over the dictionary says. -/
theorem Trie.lpi_log (d : Dict Str) (u : Str) : (Trie.ofList d.reverse).lpi u = Conv.lpi d u := by
  rw [Trie.lpi_ofList, foldl_set_eq]
  simp
