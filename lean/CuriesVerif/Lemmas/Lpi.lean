import CuriesVerif.Model.Converter
import CuriesVerif.Lemmas.Basic

/-! # The contract of `StringTrie.longest_prefix_item`, characterised -/

namespace Conv

theorem prefix_iff_take (k u : Str) : k <+: u ↔ k = u.take k.length := by
  constructor
  · intro h; exact (List.prefix_iff_eq_take.mp h)
  · intro h; rw [h]; exact List.take_prefix _ _

theorem lpiAux_some (t : Dict Str) (u : Str) (n : Nat) (hn : n ≤ u.length) (k v : Str) :
    lpiAux t u n = some (k, v) ↔
      (k <+: u ∧ k.length ≤ n ∧ Dict.get t k = some v ∧
        ∀ k', k' <+: u → k'.length ≤ n → (Dict.get t k').isSome → k'.length ≤ k.length) := by
  induction n with
  | zero =>
    simp only [lpiAux]
    constructor
    · intro h
      cases hg : Dict.get t [] with
      | none => simp [hg] at h
      | some w =>
        simp [hg] at h
        obtain ⟨rfl, rfl⟩ := h
        refine ⟨List.nil_prefix, by simp, hg, ?_⟩
        intro k' _ hk' _; simpa using hk'
    · rintro ⟨_, hk, hg, _⟩
      have : k = [] := by simpa using hk
      subst this; simp [hg]
  | succ n ih =>
    have ih := ih (by omega)
    simp only [lpiAux]
    have htl : (u.take (n+1)).length = n + 1 := by simp; omega
    cases hg : Dict.get t (u.take (n + 1)) with
    | some w =>
      simp only
      constructor
      · intro h
        simp at h; obtain ⟨rfl, rfl⟩ := h
        refine ⟨List.take_prefix _ _, by omega, hg, ?_⟩
        intro k' _ hk' _; omega
      · rintro ⟨hpre, hk, hgk, hmax⟩
        have := hmax (u.take (n+1)) (List.take_prefix _ _) (by omega) (by simp [hg])
        have hkl : k.length = n + 1 := by omega
        have hk' : k = u.take (n+1) := by rw [← hkl]; exact (prefix_iff_take k u).mp hpre
        subst hk'; simp [hg] at hgk; simp [hgk]
    | none =>
      simp only
      rw [ih]
      constructor
      · rintro ⟨hpre, hk, hgk, hmax⟩
        refine ⟨hpre, by omega, hgk, ?_⟩
        intro k' hp' hl' hs'
        by_cases hlt : k'.length ≤ n
        · exact hmax k' hp' hlt hs'
        · have hkl : k'.length = n + 1 := by omega
          have : k' = u.take (n+1) := by rw [← hkl]; exact (prefix_iff_take k' u).mp hp'
          subst this; simp [hg] at hs'
      · rintro ⟨hpre, hk, hgk, hmax⟩
        have hkn : k.length ≤ n := by
          by_cases hlt : k.length ≤ n
          · exact hlt
          · have hkl : k.length = n + 1 := by omega
            have : k = u.take (n+1) := by rw [← hkl]; exact (prefix_iff_take k u).mp hpre
            subst this; simp [hg] at hgk
        exact ⟨hpre, hkn, hgk, fun k' hp' hl' hs' => hmax k' hp' (by omega) hs'⟩

/-- `longest_prefix_item(u) = (k, v)` iff `k` is a key, a prefix of `u`, and no longer key is -/
theorem lpi_some (t : Dict Str) (u k v : Str) :
    lpi t u = some (k, v) ↔
      (k <+: u ∧ Dict.get t k = some v ∧
        ∀ k', k' <+: u → (Dict.get t k').isSome → k'.length ≤ k.length) := by
  unfold lpi
  rw [lpiAux_some t u u.length (Nat.le_refl _)]
  constructor
  · rintro ⟨h1, _, h3, h4⟩
    exact ⟨h1, h3, fun k' hp hs => h4 k' hp hp.length_le hs⟩
  · rintro ⟨h1, h3, h4⟩
    exact ⟨h1, h1.length_le, h3, fun k' hp _ hs => h4 k' hp hs⟩

theorem lpiAux_none (t : Dict Str) (u : Str) (n : Nat) (hn : n ≤ u.length) :
    lpiAux t u n = none ↔ ∀ k', k' <+: u → k'.length ≤ n → Dict.get t k' = none := by
  induction n with
  | zero =>
    simp only [lpiAux]
    constructor
    · intro h k' _ hk'
      have : k' = [] := by simpa using hk'
      subst this
      cases hg : Dict.get t [] with
      | none => rfl
      | some w => simp [hg] at h
    · intro h
      simp [h [] List.nil_prefix (by simp)]
  | succ n ih =>
    have ih := ih (by omega)
    simp only [lpiAux]
    cases hg : Dict.get t (u.take (n + 1)) with
    | some w =>
      simp only
      constructor
      · intro h; simp at h
      · intro h
        have := h (u.take (n+1)) (List.take_prefix _ _) (by simp; omega)
        simp [hg] at this
    | none =>
      simp only
      rw [ih]
      constructor
      · intro h k' hp hl
        by_cases hlt : k'.length ≤ n
        · exact h k' hp hlt
        · have hkl : k'.length = n + 1 := by omega
          have : k' = u.take (n+1) := by rw [← hkl]; exact (prefix_iff_take k' u).mp hp
          subst this; exact hg
      · intro h k' hp hl
        exact h k' hp (by omega)

/-- `longest_prefix_item(u)` raises `KeyError` iff no key is a prefix of `u` -/
theorem lpi_none (t : Dict Str) (u : Str) :
    lpi t u = none ↔ ∀ k', k' <+: u → Dict.get t k' = none := by
  unfold lpi
  rw [lpiAux_none t u u.length (Nat.le_refl _)]
  constructor
  · intro h k' hp; exact h k' hp hp.length_le
  · intro h k' hp _; exact h k' hp

end Conv
