import CuriesVerif.Basic

/-! # Stable insertion sort: permutation and sortedness -/

theorem insertBy_perm {α} (le : α → α → Bool) (x : α) (l : List α) : (insertBy le x l).Perm (x :: l) := by
  induction l with
  | nil => exact List.Perm.refl _
  | cons y ys ih =>
    simp only [insertBy]
    split
    · exact List.Perm.refl _
    · exact (List.Perm.cons y ih).trans (List.Perm.swap x y ys)

theorem isort_perm {α} (le : α → α → Bool) (l : List α) : (isort le l).Perm l := by
  induction l with
  | nil => exact List.Perm.refl _
  | cons x xs ih => exact (insertBy_perm le x _).trans (List.Perm.cons x ih)

theorem mem_isort {α} (le : α → α → Bool) (l : List α) (a : α) : a ∈ isort le l ↔ a ∈ l :=
  (isort_perm le l).mem_iff

theorem insertBy_sorted {α} (le : α → α → Bool) (htot : ∀ a b, le a b = true ∨ le b a = true)
    (htrans : ∀ a b c, le a b = true → le b c = true → le a c = true) (x : α) (l : List α)
    (h : l.Pairwise (fun a b => le a b = true)) : (insertBy le x l).Pairwise (fun a b => le a b = true) := by
  induction l with
  | nil => simp [insertBy]
  | cons y ys ih =>
    have hp := List.pairwise_cons.mp h
    simp only [insertBy]
    split
    · rename_i hxy
      refine List.pairwise_cons.mpr ⟨?_, h⟩
      intro z hz
      rcases List.mem_cons.mp hz with rfl | hz
      · exact hxy
      · exact htrans _ _ _ hxy (hp.1 z hz)
    · rename_i hxy
      have hyx : le y x = true := by
        rcases htot x y with h1 | h1
        · exact absurd h1 hxy
        · exact h1
      refine List.pairwise_cons.mpr ⟨?_, ih hp.2⟩
      intro z hz
      rcases List.mem_cons.mp ((insertBy_perm le x ys).mem_iff.mp hz) with rfl | hz
      · exact hyx
      · exact hp.1 z hz

theorem isort_sorted {α} (le : α → α → Bool) (htot : ∀ a b, le a b = true ∨ le b a = true)
    (htrans : ∀ a b c, le a b = true → le b c = true → le a c = true) (l : List α) :
    (isort le l).Pairwise (fun a b => le a b = true) := by
  induction l with
  | nil => simp [isort]
  | cons x xs ih => exact insertBy_sorted le htot htrans x _ ih

theorem sortStrs_perm (l : List Str) : (sortStrs l).Perm l := isort_perm _ l

theorem mem_sortStrs (l : List Str) (a : Str) : a ∈ sortStrs l ↔ a ∈ l := mem_isort _ l a
