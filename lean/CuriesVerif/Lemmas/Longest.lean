import CuriesVerif.Lemmas.Refine

/-! # The longest registered URI prefix, declaratively -/

open Spec

/-- `k` (owned by `r`) is a longest registered URI prefix of `u` -/
def IsLongest (recs : List Record) (u k : Str) (r : Record) : Prop :=
  r ∈ recs ∧ k ∈ r.allU ∧ k <+: u ∧ ∀ r' ∈ recs, ∀ k' ∈ r'.allU, k' <+: u → k'.length ≤ k.length

theorem prefix_eq_of_length_eq {a b u : Str} (ha : a <+: u) (hb : b <+: u) (hl : a.length = b.length) :
    a = b := by
  rw [List.prefix_iff_eq_take] at ha hb
  rw [ha, hb, hl]

theorem isLongest_of_longest {recs : List Record} {u k : Str} {r : Record}
    (h : longest recs u = some (k, r)) : IsLongest recs u k r := by
  have ⟨hmem, hmax⟩ := longest_some h
  have ⟨hr, hk, hp⟩ := (mem_matchesU _ _ _ _).mp hmem
  exact ⟨hr, hk, hp, fun r' hr' k' hk' hp' => hmax (k', r') ((mem_matchesU _ _ _ _).mpr ⟨hr', hk', hp'⟩)⟩

/-- under one-owner uniqueness the longest match — string *and* owner — is unique -/
theorem isLongest_unique {recs : List Record} (hu : Unique recs) {u k k' : Str} {r r' : Record}
    (h : IsLongest recs u k r) (h' : IsLongest recs u k' r') : k = k' ∧ r = r' := by
  obtain ⟨hr, hk, hp, hmax⟩ := h
  obtain ⟨hr', hk', hp', hmax'⟩ := h'
  have hl : k.length = k'.length := Nat.le_antisymm (hmax' r hr k hk hp) (hmax r' hr' k' hk' hp')
  have hkk : k = k' := prefix_eq_of_length_eq hp hp' hl
  subst hkk
  have h1 := ownerU_of_mem hu hr hk
  have h2 := ownerU_of_mem hu hr' hk'
  rw [h1] at h2
  exact ⟨rfl, by simpa using h2⟩

theorem longest_iff {recs : List Record} (hu : Unique recs) (u k : Str) (r : Record) :
    longest recs u = some (k, r) ↔ IsLongest recs u k r := by
  constructor
  · exact isLongest_of_longest
  · intro h
    cases hl : longest recs u with
    | none =>
      have := (longest_none_iff _ _).mp hl
      have hm : (k, r) ∈ matchesU recs u := (mem_matchesU _ _ _ _).mpr ⟨h.1, h.2.1, h.2.2.1⟩
      rw [this] at hm; cases hm
    | some kr =>
      obtain ⟨k', r'⟩ := kr
      have ⟨e1, e2⟩ := isLongest_unique hu (isLongest_of_longest hl) h
      rw [e1, e2]


theorem IsLongest.perm {l₁ l₂ : List Record} (p : l₁.Perm l₂) {u k : Str} {r : Record}
    (h : IsLongest l₁ u k r) : IsLongest l₂ u k r :=
  ⟨p.mem_iff.mp h.1, h.2.1, h.2.2.1, fun r' hr' => h.2.2.2 r' (p.mem_iff.mpr hr')⟩

/-- no registered URI prefix (canonical or synonym) is a proper prefix of another -/
def PrefixFree (recs : List Record) : Prop :=
  ∀ r ∈ recs, ∀ r' ∈ recs, ∀ k ∈ r.allU, ∀ k' ∈ r'.allU, k <+: k' → k = k'

/-- on a prefix-free map, a registered URI prefix followed by anything has that prefix as its
longest match -/
theorem isLongest_append {recs : List Record} (hpf : PrefixFree recs) {r : Record} (hr : r ∈ recs)
    {k : Str} (hk : k ∈ r.allU) (i : Str) : IsLongest recs (k ++ i) k r := by
  refine ⟨hr, hk, List.prefix_append k i, ?_⟩
  intro r' hr' k' hk' hp'
  rcases List.prefix_or_prefix_of_prefix hp' (List.prefix_append k i) with h1 | h1
  · have := hpf r' hr' r hr k' hk' k hk h1
    rw [this]; exact Nat.le_refl _
  · have := hpf r hr r' hr' k hk k' hk' h1
    rw [this]; exact Nat.le_refl _

/-- the decomposition of `u` at its longest match -/
theorem IsLongest.split {recs : List Record} {u k : Str} {r : Record} (h : IsLongest recs u k r) :
    u = k ++ u.drop k.length := by
  obtain ⟨t, ht⟩ := h.2.2.1
  rw [← ht]; simp
