import CuriesVerif.Spec.Answer
import CuriesVerif.Lemmas.Lpi
import CuriesVerif.Lemmas.Sort

/-!
# Well-formed converters: one owner per prefix, validated records, indexes mirror the records

`WF c` is the invariant everything hangs on.  `T1` (`wf_of_init`): every strict construction
yields a well-formed converter.
-/

def Disj (a b : List Str) : Prop := ∀ x, x ∈ a → x ∉ b

/-- the two `Record` validators -/
def RecOK (r : Record) : Prop := r.pfx ∉ r.pSyn ∧ r.uri ∉ r.uSyn

/-- no CURIE prefix or synonym and no URI prefix or synonym is claimed by two different
positions of the list -/
def Unique (recs : List Record) : Prop :=
  recs.Pairwise fun a b => Disj a.allP b.allP ∧ Disj a.allU b.allU

theorem Disj.symm {a b : List Str} (h : Disj a b) : Disj b a := fun x hx hxa => h x hxa hx

theorem Unique.perm {l₁ l₂ : List Record} (p : l₁.Perm l₂) : Unique l₁ ↔ Unique l₂ :=
  List.Perm.pairwise_iff (fun h => ⟨h.1.symm, h.2.symm⟩) p

theorem Unique.tail {r : Record} {rs : List Record} (h : Unique (r :: rs)) : Unique rs :=
  (List.pairwise_cons.mp h).2

/-- each of the lookup structures, as a function, is the function computed from the records -/
structure Mirror (c : Conv) : Prop where
  pm : ∀ p, Dict.get c.prefixMap p = (Spec.ownerP c.records p).map (·.uri)
  sp : ∀ p, Dict.get c.synToPrefix p = (Spec.ownerP c.records p).map (·.pfx)
  rm : ∀ k, Dict.get c.revMap k = (Spec.ownerU c.records k).map (·.pfx)
  tr : ∀ k, Dict.get c.trie k = (Spec.ownerU c.records k).map (·.pfx)
  pat : ∀ p, Dict.get c.patMap p = Spec.patternOf c.records p

structure WF (c : Conv) : Prop where
  unique : Unique c.records
  recOK : ∀ r ∈ c.records, RecOK r
  mirror : Mirror c

/-! ### folds of `_index`-style updates -/

theorem get_foldl_idx (hd : Record → Str) (tl : Record → List Str) (val : Record → Str)
    (recs : List Record) (d0 : Dict Str) (k : Str) :
    Dict.get (recs.foldl (fun d r => Dict.setAll (Dict.set d (hd r) (val r)) (tl r) (val r)) d0) k
      = recs.foldl (fun acc r => if k ∈ hd r :: tl r then some (val r) else acc) (Dict.get d0 k) := by
  induction recs generalizing d0 with
  | nil => rfl
  | cons r rs ih =>
    simp only [List.foldl_cons]
    rw [ih, Dict.get_set_setAll]

theorem foldl_last_noop (P : Record → Prop) [DecidablePred P] (g : Record → Str) (rs : List Record)
    (acc : Option Str) (h : ∀ s ∈ rs, ¬ P s) :
    rs.foldl (fun acc r => if P r then some (g r) else acc) acc = acc := by
  induction rs generalizing acc with
  | nil => rfl
  | cons s ss ih =>
    simp only [List.foldl_cons]
    have hs : ¬ P s := h s (by simp)
    simp only [hs, if_false]
    exact ih acc (fun t ht => h t (by simp [ht]))

theorem foldl_last_eq_find (P : Record → Prop) [DecidablePred P] (g : Record → Str) (recs : List Record)
    (acc : Option Str) (h : recs.Pairwise (fun a b => ¬ (P a ∧ P b))) :
    recs.foldl (fun acc r => if P r then some (g r) else acc) acc
      = match recs.find? (fun r => decide (P r)) with
        | some r => some (g r)
        | none => acc := by
  induction recs generalizing acc with
  | nil => rfl
  | cons r rs ih =>
    have hp := List.pairwise_cons.mp h
    simp only [List.foldl_cons, List.find?_cons]
    by_cases hr : P r
    · simp only [hr, if_true, decide_true]
      exact foldl_last_noop P g rs _ (fun s hs hps => hp.1 s hs ⟨hr, hps⟩)
    · simp only [hr, if_false, decide_false]
      exact ih acc hp.2

theorem unique_excl_P {recs : List Record} (h : Unique recs) (p : Str) :
    recs.Pairwise (fun a b => ¬ (p ∈ a.allP ∧ p ∈ b.allP)) :=
  h.imp fun hab hh => hab.1 p hh.1 hh.2

theorem unique_excl_U {recs : List Record} (h : Unique recs) (k : Str) :
    recs.Pairwise (fun a b => ¬ (k ∈ a.allU ∧ k ∈ b.allU)) :=
  h.imp fun hab hh => hab.2 k hh.1 hh.2

theorem ownerP_eq (recs : List Record) (p : Str) :
    Spec.ownerP recs p = recs.find? (fun r => decide (p ∈ r.pfx :: r.pSyn)) := by
  unfold Spec.ownerP
  congr 1
  funext r
  simp [Record.allP, Record.allU]

theorem ownerU_eq (recs : List Record) (k : Str) :
    Spec.ownerU recs k = recs.find? (fun r => decide (k ∈ r.uri :: r.uSyn)) := by
  unfold Spec.ownerU
  congr 1
  funext r
  simp [Record.allP, Record.allU]

theorem get_getPrefixMap {recs : List Record} (h : Unique recs) (p : Str) :
    Dict.get (getPrefixMap recs) p = (Spec.ownerP recs p).map (·.uri) := by
  unfold getPrefixMap
  rw [get_foldl_idx (fun r => r.pfx) (fun r => r.pSyn) (fun r => r.uri)]
  rw [foldl_last_eq_find (fun r => p ∈ r.pfx :: r.pSyn) _ recs _ (unique_excl_P h p), ownerP_eq]
  generalize List.find? (fun r : Record => decide (p ∈ r.pfx :: r.pSyn)) recs = o
  cases o <;> rfl

theorem get_getPrefixSynmap {recs : List Record} (h : Unique recs) (p : Str) :
    Dict.get (getPrefixSynmap recs) p = (Spec.ownerP recs p).map (·.pfx) := by
  unfold getPrefixSynmap
  rw [get_foldl_idx (fun r => r.pfx) (fun r => r.pSyn) (fun r => r.pfx)]
  rw [foldl_last_eq_find (fun r => p ∈ r.pfx :: r.pSyn) _ recs _ (unique_excl_P h p), ownerP_eq]
  generalize List.find? (fun r : Record => decide (p ∈ r.pfx :: r.pSyn)) recs = o
  cases o <;> rfl

theorem get_getReversePrefixMap {recs : List Record} (h : Unique recs) (k : Str) :
    Dict.get (getReversePrefixMap recs) k = (Spec.ownerU recs k).map (·.pfx) := by
  unfold getReversePrefixMap
  rw [get_foldl_idx (fun r => r.uri) (fun r => r.uSyn) (fun r => r.pfx)]
  rw [foldl_last_eq_find (fun r => k ∈ r.uri :: r.uSyn) _ recs _ (unique_excl_U h k), ownerU_eq]
  generalize List.find? (fun r : Record => decide (k ∈ r.uri :: r.uSyn)) recs = o
  cases o <;> rfl


/-- in a one-owner collection a canonical prefix identifies its record -/
theorem find?_pfx_of_mem {recs : List Record} (h : Unique recs) {r : Record} (hr : r ∈ recs) :
    recs.find? (fun x => x.pfx == r.pfx) = some r := by
  induction recs with
  | nil => cases hr
  | cons a as ih =>
    have hp := List.pairwise_cons.mp h
    rw [List.find?_cons]
    by_cases ha : a.pfx = r.pfx
    · have hb : (a.pfx == r.pfx) = true := by simpa using ha
      rw [hb]
      rcases List.mem_cons.mp hr with rfl | hr'
      · rfl
      · exact absurd (by rw [ha]; simp [Record.allP]) ((hp.1 r hr').1 a.pfx (by simp [Record.allP]))
    · have hb : (a.pfx == r.pfx) = false := by simpa using ha
      rw [hb]
      rcases List.mem_cons.mp hr with rfl | hr'
      · exact absurd rfl ha
      · exact ih hp.2 hr'

def patStep (p : Str) (acc : Option Str) (r : Record) : Option Str :=
  if r.pfx = p ∧ r.truePattern.isSome then r.truePattern else acc

theorem get_patSet (d : Dict Str) (r : Record) (p : Str) :
    Dict.get (patSet d r) p = patStep p (Dict.get d p) r := by
  unfold patSet patStep
  cases ht : r.truePattern with
  | none => simp
  | some q =>
    simp only [Option.isSome_some, and_true]
    rw [Dict.get_set]

theorem get_getPatternMap_aux (recs : List Record) (d0 : Dict Str) (p : Str) :
    Dict.get (recs.foldl patSet d0) p = recs.foldl (patStep p) (Dict.get d0 p) := by
  induction recs generalizing d0 with
  | nil => rfl
  | cons r rs ih =>
    simp only [List.foldl_cons]
    rw [ih, get_patSet]

theorem foldl_pat_noop (p : Str) (rs : List Record) (acc : Option Str) (h : ∀ s ∈ rs, s.pfx ≠ p) :
    rs.foldl (patStep p) acc = acc := by
  induction rs generalizing acc with
  | nil => rfl
  | cons s ss ih =>
    simp only [List.foldl_cons]
    have hs : ¬ (s.pfx = p ∧ s.truePattern.isSome) := fun hh => h s (by simp) hh.1
    unfold patStep
    rw [if_neg hs]
    exact ih acc (fun t ht => h t (by simp [ht]))

theorem foldl_pat_eq {recs : List Record} (h : Unique recs) (p : Str) (acc : Option Str) :
    recs.foldl (patStep p) acc =
      match recs.find? (fun r => r.pfx == p) with
      | some r => if r.truePattern.isSome then r.truePattern else acc
      | none => acc := by
  induction recs generalizing acc with
  | nil => rfl
  | cons a as ih =>
    have hp := List.pairwise_cons.mp h
    simp only [List.foldl_cons, List.find?_cons]
    by_cases ha : a.pfx = p
    · have hb : (a.pfx == p) = true := by simpa using ha
      rw [hb]
      simp only
      rw [foldl_pat_noop p as _ ?_]
      · unfold patStep; simp [ha]
      · intro s hs e
        exact (hp.1 s hs).1 a.pfx (by simp [Record.allP]) (by rw [ha, ← e]; simp [Record.allP])
    · have hb : (a.pfx == p) = false := by simpa using ha
      rw [hb]
      simp only
      have : patStep p acc a = acc := by unfold patStep; simp [ha]
      rw [this]
      exact ih hp.2 acc

theorem get_getPatternMap {recs : List Record} (h : Unique recs) (p : Str) :
    Dict.get (getPatternMap recs) p = Spec.patternOf recs p := by
  unfold getPatternMap Spec.patternOf
  rw [get_getPatternMap_aux, foldl_pat_eq h]
  show (match List.find? (fun r => r.pfx == p) recs with
    | some r => if r.truePattern.isSome then r.truePattern else none
    | none => none) = _
  cases List.find? (fun r => r.pfx == p) recs with
  | none => rfl
  | some r =>
    simp only [Option.bind_some]
    cases r.truePattern <;> rfl

theorem mirror_build (d : Str) {recs : List Record} (h : Unique recs) : Mirror (Conv.build d recs) where
  pm := get_getPrefixMap h
  sp := get_getPrefixSynmap h
  rm := get_getReversePrefixMap h
  tr := get_getReversePrefixMap h
  pat := get_getPatternMap h

/-! ### the duplicate listings are empty exactly for one-owner collections -/

theorem dupPair_nil_iff (a b : List Str) (r1 r2 : Record) :
    (a.flatMap fun x => b.filterMap fun y => if x == y then some (r1, r2, x) else none) = []
      ↔ Disj a b := by
  simp only [List.flatMap_eq_nil_iff, List.filterMap_eq_nil_iff, Disj]
  constructor
  · intro h x hx hxb
    have := h x hx x hxb
    simp at this
  · intro h x hx y hy
    have : x ≠ y := fun e => h x hx (e ▸ hy)
    simp [this]

theorem duplicates_nil_iff (f : Record → List Str) (recs : List Record) :
    duplicates f recs = [] ↔ recs.Pairwise (fun a b => Disj (f a) (f b)) := by
  induction recs with
  | nil => simp [duplicates, combinations2]
  | cons a as ih =>
    unfold duplicates at ih ⊢
    simp only [combinations2, List.flatMap_append, List.append_eq_nil_iff, List.pairwise_cons]
    rw [ih]
    constructor
    · rintro ⟨h1, h2⟩
      refine ⟨fun b hb => ?_, h2⟩
      have := List.flatMap_eq_nil_iff.mp h1 (a, b) (by simp [hb])
      exact (dupPair_nil_iff (f a) (f b) a b).mp this
    · rintro ⟨h1, h2⟩
      refine ⟨?_, h2⟩
      rw [List.flatMap_eq_nil_iff]
      intro ab hab
      obtain ⟨b, hb, rfl⟩ := List.mem_map.mp hab
      exact (dupPair_nil_iff (f a) (f b) a b).mpr (h1 b hb)

theorem unique_iff_duplicates (recs : List Record) :
    Unique recs ↔ duplicates Record.allU recs = [] ∧ duplicates Record.allP recs = [] := by
  rw [duplicates_nil_iff, duplicates_nil_iff]
  unfold Unique
  constructor
  · intro h; exact ⟨h.imp (fun x => x.2), h.imp (fun x => x.1)⟩
  · rintro ⟨h1, h2⟩
    exact List.pairwise_and_iff.mpr ⟨h2, h1⟩

theorem sortRecords_perm (recs : List Record) : (sortRecords recs).Perm recs :=
  isort_perm _ _

/-- **C04 core / T1.**  The strict constructor succeeds iff the collection is one-owner
unique; URI clashes are reported first. -/
theorem init?_strict (recs : List Record) (d : Str) :
    Conv.init? recs d true =
      if duplicates Record.allU (sortRecords recs) ≠ [] then .error .dupUri
      else if duplicates Record.allP (sortRecords recs) ≠ [] then .error .dupPrefix
      else .ok (Conv.build d (sortRecords recs)) := by
  unfold Conv.init?
  simp only [Bool.true_and]
  by_cases h1 : duplicates Record.allU (sortRecords recs) = []
  · by_cases h2 : duplicates Record.allP (sortRecords recs) = []
    · simp [h1, h2]
    · simp [h1, h2]
  · simp [h1]

theorem init?_ok_iff (recs : List Record) (d : Str) :
    (∃ c, Conv.init? recs d true = .ok c) ↔ Unique recs := by
  rw [init?_strict, ← Unique.perm (sortRecords_perm recs), unique_iff_duplicates]
  by_cases h1 : duplicates Record.allU (sortRecords recs) = []
  · by_cases h2 : duplicates Record.allP (sortRecords recs) = []
    · simp [h1, h2]
    · simp [h1, h2]
  · simp [h1]

/-- **T1.** Every strictly constructed converter is well-formed. -/
theorem wf_of_init {recs : List Record} {d : Str} {c : Conv} (hok : ∀ r ∈ recs, RecOK r)
    (h : Conv.init? recs d true = .ok c) : WF c := by
  have hu : Unique recs := (init?_ok_iff recs d).mp ⟨c, h⟩
  have hus : Unique (sortRecords recs) := (Unique.perm (sortRecords_perm recs)).mpr hu
  rw [init?_strict] at h
  have ⟨h1, h2⟩ := (unique_iff_duplicates _).mp hus
  simp [h1, h2] at h
  subst h
  exact ⟨hus, fun r hr => hok r ((sortRecords_perm recs).mem_iff.mp hr), mirror_build d hus⟩

theorem init?_records {recs : List Record} {d : Str} {c : Conv} {strict : Bool}
    (h : Conv.init? recs d strict = .ok c) : c.records = sortRecords recs ∧ c.delim = d := by
  unfold Conv.init? at h
  simp only at h
  split at h
  · cases h
  · split at h
    · cases h
    · cases h; exact ⟨rfl, rfl⟩
