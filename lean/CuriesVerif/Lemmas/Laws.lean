import CuriesVerif.Lemmas.Longest

/-! # Spec-level building blocks for the round-trip and standardisation laws (C03, C06) -/

open Spec

/-! default-mode calls of the model return exactly the specification's optional value -/
section dflt
variable {c : Conv} (h : WF c)
include h

theorem compress_dflt (u : Str) : c.compress u false false = .ok (Spec.compress c.records c.delim u) := by
  rw [compress_eq h]; cases Spec.compress c.records c.delim u <;> rfl
theorem standardizeUri_dflt (u : Str) : c.standardizeUri u false false = .ok (Spec.standardizeUri c.records u) := by
  rw [standardizeUri_eq h]; cases Spec.standardizeUri c.records u <;> rfl
theorem standardizePrefix_dflt (p : Str) :
    c.standardizePrefix p false false = .ok (Spec.standardizePrefix c.records p) := by
  rw [standardizePrefix_eq h]; cases Spec.standardizePrefix c.records p <;> rfl
theorem expand_dflt (hd : c.delim ≠ []) (x : Str) : c.expand x false false = .ok (Spec.expand c.records c.delim x) := by
  rw [expand_eq h hd]; cases Spec.expand c.records c.delim x <;> rfl
theorem expandAll_dflt (hd : c.delim ≠ []) (x : Str) : c.expandAll x false = .ok (Spec.expandAll c.records c.delim x) := by
  rw [expandAll_eq h hd]; cases Spec.expandAll c.records c.delim x <;> rfl
theorem standardizeCurie_dflt (hd : c.delim ≠ []) (x : Str) :
    c.standardizeCurie x false false = .ok (Spec.standardizeCurie c.records c.delim x) := by
  rw [standardizeCurie_eq h hd]; cases Spec.standardizeCurie c.records c.delim x <;> rfl

end dflt

/-- S1: what `compress` returns -/
theorem compress_some {recs : List Record} {d u x : Str} (h : Spec.compress recs d u = some x) :
    ∃ k r, IsLongest recs u k r ∧ x = r.pfx ++ d ++ u.drop k.length := by
  unfold Spec.compress Spec.parseUri at h
  cases hl : longest recs u with
  | none => simp [hl] at h
  | some kr =>
    simp [hl, Spec.format] at h
    exact ⟨kr.1, kr.2, isLongest_of_longest hl, by rw [← h]; simp⟩

theorem compress_of_isLongest {recs : List Record} (hu : Unique recs) {d u k : Str} {r : Record}
    (h : IsLongest recs u k r) : Spec.compress recs d u = some (r.pfx ++ d ++ u.drop k.length) := by
  unfold Spec.compress Spec.parseUri
  rw [(longest_iff hu u k r).mpr h]
  rfl

theorem standardizeUri_of_isLongest {recs : List Record} (hu : Unique recs) {u k : Str} {r : Record}
    (h : IsLongest recs u k r) : Spec.standardizeUri recs u = some (r.uri ++ u.drop k.length) := by
  unfold Spec.standardizeUri
  rw [(longest_iff hu u k r).mpr h]
  rfl

theorem standardizeUri_some {recs : List Record} {u v : Str} (h : Spec.standardizeUri recs u = some v) :
    ∃ k r, IsLongest recs u k r ∧ v = r.uri ++ u.drop k.length := by
  unfold Spec.standardizeUri at h
  cases hl : longest recs u with
  | none => simp [hl] at h
  | some kr =>
    simp [hl] at h
    exact ⟨kr.1, kr.2, isLongest_of_longest hl, h.symm⟩

/-- S2: a CURIE written with the canonical prefix of a record parses back to that record -/
theorem parseCurie_canonical {recs : List Record} (hu : Unique recs) {d : Str} (hd : d ≠ []) {r : Record}
    (hr : r ∈ recs) (hok : DelimOK d r.pfx) (i : Str) :
    Spec.parseCurie recs d (r.pfx ++ d ++ i) = some (r.pfx, i) := by
  unfold Spec.parseCurie
  rw [partition?_append d r.pfx i hd hok]
  simp only [Option.bind_some]
  rw [ownerP_of_mem hu hr (by simp [Record.allP])]
  rfl

theorem expand_canonical {recs : List Record} (hu : Unique recs) {d : Str} (hd : d ≠ []) {r : Record}
    (hr : r ∈ recs) (hok : DelimOK d r.pfx) (i : Str) :
    Spec.expand recs d (r.pfx ++ d ++ i) = some (r.uri ++ i) := by
  unfold Spec.expand Spec.expandPair
  rw [partition?_append d r.pfx i hd hok]
  simp only [Option.bind_some]
  rw [ownerP_of_mem hu hr (by simp [Record.allP])]
  rfl

theorem expandAll_canonical {recs : List Record} (hu : Unique recs) {d : Str} (hd : d ≠ []) {r : Record}
    (hr : r ∈ recs) (hok : DelimOK d r.pfx) (i : Str) :
    Spec.expandAll recs d (r.pfx ++ d ++ i) = some (r.allU.map (· ++ i)) := by
  unfold Spec.expandAll Spec.expandPairAll
  rw [partition?_append d r.pfx i hd hok]
  simp only [Option.bind_some]
  rw [ownerP_of_mem hu hr (by simp [Record.allP])]
  rfl

theorem standardizeCurie_canonical {recs : List Record} (hu : Unique recs) {d : Str} (hd : d ≠ []) {r : Record}
    (hr : r ∈ recs) (hok : DelimOK d r.pfx) (i : Str) :
    Spec.standardizeCurie recs d (r.pfx ++ d ++ i) = some (r.pfx ++ d ++ i) := by
  unfold Spec.standardizeCurie
  rw [parseCurie_canonical hu hd hr hok]
  rfl

/-- what a recognised CURIE denotes -/
theorem parseCurie_some {recs : List Record} {d x : Str} {pi : Str × Str}
    (h : Spec.parseCurie recs d x = some pi) :
    ∃ p r, partition? d x = some (p, pi.2) ∧ ownerP recs p = some r ∧ pi.1 = r.pfx := by
  unfold Spec.parseCurie at h
  cases hp : partition? d x with
  | none => simp [hp] at h
  | some q =>
    simp [hp] at h
    obtain ⟨r, ho, rfl⟩ := h
    exact ⟨q.1, r, rfl, ho, rfl⟩

theorem expand_eq_of_parseCurie (recs : List Record) (hu : Unique recs) (d x : Str) :
    Spec.expand recs d x = (Spec.parseCurie recs d x).bind fun pi => (ownerP recs pi.1).map (·.uri ++ pi.2) := by
  unfold Spec.expand Spec.parseCurie Spec.expandPair
  cases partition? d x with
  | none => rfl
  | some q =>
    simp only [Option.bind_some]
    cases ho : ownerP recs q.1 with
    | none => rfl
    | some r =>
      simp only [Option.map_some, Option.bind_some]
      rw [ownerP_of_mem hu (ownerP_some ho).1 (by simp [Record.allP])]
      rfl
