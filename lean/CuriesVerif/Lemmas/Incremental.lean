import CuriesVerif.Lemmas.Longest
import CuriesVerif.Model.Incremental

/-!
# T2 — `add_record` preserves well-formedness (for every case-folding function)
-/

open Spec

/-! ### what "no comparison of `_match_record` hits" means -/

theorem eqCS_false {fold : Str → Str} {cs : Bool} {a b : Str} (h : eqCS fold cs a b = false) : a ≠ b := by
  intro e; subst e
  unfold eqCS at h
  cases cs <;> simp at h

theorem inCS_false {fold : Str → Str} {cs : Bool} {a : Str} {bs : List Str} (h : inCS fold cs a bs = false) :
    a ∉ bs := by
  intro hm
  unfold inCS at h
  cases cs
  · simp only [Bool.false_eq_true, if_false, List.any_eq_false] at h
    have := h a hm
    simp at this
  · simp only [if_true] at h
    simp [hm] at h

theorem matchesP_false {fold : Str → Str} {cs : Bool} {ext r : Record} (h : matchesP fold cs ext r = false) :
    Disj ext.allP r.allP := by
  unfold matchesP at h
  simp only [Bool.or_eq_false_iff, List.any_eq_false] at h
  obtain ⟨⟨h1, h2⟩, h3⟩ := h
  intro x hx hxr
  simp only [Record.allP, List.mem_cons] at hx hxr
  rcases hx with rfl | hx
  · rcases hxr with e | hxr
    · exact eqCS_false h1 e
    · exact inCS_false h2 hxr
  · have := h3 x hx
    simp only [Bool.or_eq_true, not_or, Bool.not_eq_true] at this
    rcases hxr with e | hxr
    · exact eqCS_false this.1 e
    · exact inCS_false this.2 hxr

theorem matchesU_false {fold : Str → Str} {cs : Bool} {ext r : Record} (h : _root_.matchesU fold cs ext r = false) :
    Disj ext.allU r.allU := by
  unfold _root_.matchesU at h
  simp only [Bool.or_eq_false_iff, List.any_eq_false] at h
  obtain ⟨⟨h1, h2⟩, h3⟩ := h
  intro x hx hxr
  simp only [Record.allU, List.mem_cons] at hx hxr
  rcases hx with rfl | hx
  · rcases hxr with e | hxr
    · exact eqCS_false h1 e
    · exact inCS_false h2 hxr
  · have := h3 x hx
    simp only [Bool.or_eq_true, not_or, Bool.not_eq_true] at this
    rcases hxr with e | hxr
    · exact eqCS_false this.1 e
    · exact inCS_false this.2 hxr

theorem matchesRec_false {fold : Str → Str} {cs : Bool} {ext r : Record} (h : matchesRec fold cs ext r = false) :
    Disj ext.allP r.allP ∧ Disj ext.allU r.allU := by
  unfold matchesRec at h
  simp only [Bool.or_eq_false_iff] at h
  exact ⟨matchesP_false h.1, matchesU_false h.2⟩

/-! ### the keys `_match_record` collects -/

theorem eraseDups_eq_nil {α} [BEq α] (l : List α) (h : l.eraseDups = []) : l = [] := by
  cases l with
  | nil => rfl
  | cons a as => rw [List.eraseDups_cons] at h; cases h

theorem eraseDups_singleton {α} [BEq α] [LawfulBEq α] (l : List α) (k : α) (h : l.eraseDups = [k]) :
    (∀ x ∈ l, x = k) ∧ k ∈ l := by
  have hm : ∀ x, x ∈ l ↔ x ∈ [k] := fun x => by rw [← h, List.mem_eraseDups]
  exact ⟨fun x hx => by simpa using (hm x).mp hx, (hm k).mpr (by simp)⟩

theorem eraseDups_head_ne {α} [BEq α] [LawfulBEq α] {l : List α} {a b : α} {rest : List α}
    (h : l.eraseDups = a :: b :: rest) : a ≠ b := by
  cases l with
  | nil => simp at h
  | cons x xs =>
    rw [List.eraseDups_cons] at h
    injection h with h1 h2
    subst h1
    have hb : b ∈ (xs.filter fun y => !y == x).eraseDups := by rw [h2]; simp
    rw [List.mem_eraseDups] at hb
    have := (List.mem_filter.mp hb).2
    intro e; subst e; simp at this

theorem matchedKeys_nil {fold : Str → Str} {c : Conv} {r : Record} {cs : Bool}
    (h : c.matchedKeys fold r cs = []) : ∀ x ∈ c.records, matchesRec fold cs r x = false := by
  unfold Conv.matchedKeys at h
  have h1 := eraseDups_eq_nil _ h
  have h2 : c.records.filter (matchesRec fold cs r) = [] := by
    cases hf : c.records.filter (matchesRec fold cs r) with
    | nil => rfl
    | cons a as => rw [hf] at h1; cases h1
  intro x hx
  cases hm : matchesRec fold cs r x with
  | false => rfl
  | true =>
    have : x ∈ c.records.filter (matchesRec fold cs r) := List.mem_filter.mpr ⟨hx, hm⟩
    rw [h2] at this; cases this

theorem matchedKeys_singleton {fold : Str → Str} {c : Conv} {r : Record} {cs : Bool} {k : Str × Str × Str × Str}
    (h : c.matchedKeys fold r cs = [k]) :
    (∀ x ∈ c.records, matchesRec fold cs r x = true → x.key = k) ∧
    ∃ x ∈ c.records, x.key = k := by
  unfold Conv.matchedKeys at h
  have ⟨h1, h2⟩ := eraseDups_singleton _ k h
  constructor
  · intro x hx hm
    exact h1 x.key (List.mem_map.mpr ⟨x, List.mem_filter.mpr ⟨hx, hm⟩, rfl⟩)
  · obtain ⟨x, hx, hk⟩ := List.mem_map.mp h2
    exact ⟨x, (List.mem_filter.mp hx).1, hk⟩

/-- in a one-owner collection a record is determined by its canonical prefix, hence by its key -/
theorem eq_of_key_eq {recs : List Record} (hu : Unique recs) {x y : Record} (hx : x ∈ recs) (hy : y ∈ recs)
    (hk : x.key = y.key) : x = y := by
  have hp : x.pfx = y.pfx := by
    have := congrArg Prod.fst hk
    simpa [Record.key] using this
  have h1 := ownerP_of_mem hu hx (show x.pfx ∈ x.allP by simp [Record.allP])
  have h2 := ownerP_of_mem hu hy (show x.pfx ∈ y.allP by simp [Record.allP, hp])
  rw [h1] at h2; exact Option.some.inj h2

/-! ### `_merge` -/

theorem mem_foldl_merge (hd : Str) (news : List Str) (acc : List Str) (s : Str) :
    s ∈ news.foldl (fun acc s => if (hd :: acc).contains s then acc else acc ++ [s]) acc ↔
      s ∈ acc ∨ (s ∈ news ∧ s ≠ hd) := by
  induction news generalizing acc with
  | nil => simp
  | cons n ns ih =>
    simp only [List.foldl_cons]
    rw [ih]
    by_cases hc : (hd :: acc).contains n = true
    · simp only [hc, if_true]
      have hc' : n = hd ∨ n ∈ acc := by simpa using hc
      constructor
      · rintro (h | ⟨h, hne⟩)
        · exact Or.inl h
        · exact Or.inr ⟨by simp [h], hne⟩
      · rintro (h | ⟨h, hne⟩)
        · exact Or.inl h
        · rcases List.mem_cons.mp h with rfl | h
          · rcases hc' with e | e
            · exact absurd e hne
            · exact Or.inl e
          · exact Or.inr ⟨h, hne⟩
    · simp only [hc, Bool.false_eq_true, if_false]
      have hc' : ¬ (n = hd ∨ n ∈ acc) := by simpa using hc
      constructor
      · rintro (h | ⟨h, hne⟩)
        · rcases List.mem_append.mp h with h | h
          · exact Or.inl h
          · have : s = n := by simpa using h
            subst this
            exact Or.inr ⟨by simp, fun e => hc' (Or.inl e)⟩
        · exact Or.inr ⟨by simp [h], hne⟩
      · rintro (h | ⟨h, hne⟩)
        · exact Or.inl (by simp [h])
        · rcases List.mem_cons.mp h with rfl | h
          · exact Or.inl (by simp)
          · exact Or.inr ⟨h, hne⟩

theorem mergeInto_fields (r into : Record) :
    (r.mergeInto into).pfx = into.pfx ∧ (r.mergeInto into).uri = into.uri ∧
    (r.mergeInto into).pattern = into.pattern := ⟨rfl, rfl, rfl⟩

theorem mem_mergeInto_pSyn (r into : Record) (s : Str) :
    s ∈ (r.mergeInto into).pSyn ↔ s ∈ into.pSyn ∨ (s ∈ r.allP ∧ s ≠ into.pfx) := by
  unfold Record.mergeInto
  simp only [mem_sortStrs]
  exact mem_foldl_merge into.pfx r.allP into.pSyn s

theorem mem_mergeInto_uSyn (r into : Record) (s : Str) :
    s ∈ (r.mergeInto into).uSyn ↔ s ∈ into.uSyn ∨ (s ∈ r.allU ∧ s ≠ into.uri) := by
  unfold Record.mergeInto
  simp only [mem_sortStrs]
  exact mem_foldl_merge into.uri r.allU into.uSyn s

/-- merging makes `allP` / `allU` the union of both records' strings -/
theorem mem_mergeInto_allP (r into : Record) (s : Str) :
    s ∈ (r.mergeInto into).allP ↔ s ∈ into.allP ∨ s ∈ r.allP := by
  simp only [Record.allP, List.mem_cons, mem_mergeInto_pSyn, (mergeInto_fields r into).1]
  by_cases h : s = into.pfx <;> simp [h]

theorem mem_mergeInto_allU (r into : Record) (s : Str) :
    s ∈ (r.mergeInto into).allU ↔ s ∈ into.allU ∨ s ∈ r.allU := by
  simp only [Record.allU, List.mem_cons, mem_mergeInto_uSyn, (mergeInto_fields r into).2.1]
  by_cases h : s = into.uri <;> simp [h]

theorem recOK_mergeInto (r into : Record) (h : RecOK into) : RecOK (r.mergeInto into) := by
  constructor
  · rw [(mergeInto_fields r into).1, mem_mergeInto_pSyn]
    rintro (h1 | ⟨_, h2⟩)
    · exact h.1 h1
    · exact h2 rfl
  · rw [(mergeInto_fields r into).2.1, mem_mergeInto_uSyn]
    rintro (h1 | ⟨_, h2⟩)
    · exact h.2 h1
    · exact h2 rfl

/-! ### `_index` re-establishes the mirror -/

theorem ownerP_eq_none_of_forall {recs : List Record} {k : Str} (h : ∀ x ∈ recs, k ∉ x.allP) :
    ownerP recs k = none := by
  unfold ownerP
  rw [List.find?_eq_none]
  intro x hx
  simpa using h x hx

theorem ownerU_eq_none_of_forall {recs : List Record} {k : Str} (h : ∀ x ∈ recs, k ∉ x.allU) :
    ownerU recs k = none := by
  unfold ownerU
  rw [List.find?_eq_none]
  intro x hx
  simpa using h x hx

/-- the registered pattern depends only on the `(canonical prefix, pattern)` projection -/
theorem patternOf_eq_map (l : List Record) (p : Str) :
    patternOf l p = ((l.map fun r => (r.pfx, r.truePattern)).find? (fun kv => kv.1 == p)).bind (·.2) := by
  unfold patternOf
  induction l with
  | nil => rfl
  | cons a as ih =>
    simp only [List.map_cons, List.find?_cons]
    cases (a.pfx == p) with
    | true => rfl
    | false => exact ih

theorem patternOf_congr {l₁ l₂ : List Record}
    (h : l₁.map (fun r => (r.pfx, r.truePattern)) = l₂.map (fun r => (r.pfx, r.truePattern))) (p : Str) :
    patternOf l₁ p = patternOf l₂ p := by
  rw [patternOf_eq_map, patternOf_eq_map, h]

theorem mirror_indexRec {c : Conv} (hm : Mirror c) (new : List Record) (r : Record) (hu : Unique new)
    (hr : r ∈ new)
    (hP : ∀ k, k ∉ r.allP → ownerP new k = ownerP c.records k)
    (hU : ∀ k, k ∉ r.allU → ownerU new k = ownerU c.records k)
    (hQ : ∀ p, p ≠ r.pfx → patternOf new p = patternOf c.records p)
    (hO : ∀ x, c.records.find? (fun y => y.pfx == r.pfx) = some x → x.truePattern = r.truePattern) :
    Mirror (Conv.indexRec { c with records := new } r) := by
  constructor
  · intro p
    show Dict.get (Dict.setAll (Dict.set c.prefixMap r.pfx r.uri) r.pSyn r.uri) p = (ownerP new p).map (·.uri)
    rw [Dict.get_set_setAll]
    by_cases hp : p ∈ r.pfx :: r.pSyn
    · simp only [hp, if_true]
      rw [ownerP_of_mem hu hr hp]; rfl
    · simp only [hp, if_false]
      rw [hm.pm, hP p hp]
  · intro p
    show Dict.get (Dict.setAll (Dict.set c.synToPrefix r.pfx r.pfx) r.pSyn r.pfx) p = (ownerP new p).map (·.pfx)
    rw [Dict.get_set_setAll]
    by_cases hp : p ∈ r.pfx :: r.pSyn
    · simp only [hp, if_true]
      rw [ownerP_of_mem hu hr hp]; rfl
    · simp only [hp, if_false]
      rw [hm.sp, hP p hp]
  · intro k
    show Dict.get (Dict.setAll (Dict.set c.revMap r.uri r.pfx) r.uSyn r.pfx) k = (ownerU new k).map (·.pfx)
    rw [Dict.get_set_setAll]
    by_cases hk : k ∈ r.uri :: r.uSyn
    · simp only [hk, if_true]
      rw [ownerU_of_mem hu hr hk]; rfl
    · simp only [hk, if_false]
      rw [hm.rm, hU k hk]
  · intro k
    show Dict.get (Dict.setAll (Dict.set c.trie r.uri r.pfx) r.uSyn r.pfx) k = (ownerU new k).map (·.pfx)
    rw [Dict.get_set_setAll]
    by_cases hk : k ∈ r.uri :: r.uSyn
    · simp only [hk, if_true]
      rw [ownerU_of_mem hu hr hk]; rfl
    · simp only [hk, if_false]
      rw [hm.tr, hU k hk]
  · intro p
    show Dict.get (match r.truePattern with
      | some q => if Dict.has c.patMap r.pfx then c.patMap else Dict.set c.patMap r.pfx q
      | none => c.patMap) p = patternOf new p
    have hold : Dict.get c.patMap r.pfx = (c.records.find? (fun y => y.pfx == r.pfx)).bind Record.truePattern := hm.pat r.pfx
    by_cases hp : p = r.pfx
    · subst hp
      have hnew : patternOf new r.pfx = r.truePattern := by
        unfold patternOf; rw [find?_pfx_of_mem hu hr]; rfl
      rw [hnew]
      cases ht : r.truePattern with
      | none =>
        simp only
        rw [hold]
        cases hf : c.records.find? (fun y => y.pfx == r.pfx) with
        | none => rfl
        | some x => simp only [Option.bind_some]; rw [hO x hf, ht]
      | some q =>
        simp only
        by_cases hh : Dict.has c.patMap r.pfx = true
        · rw [if_pos hh]
          rw [Dict.has_eq, hold] at hh
          rw [hold]
          cases hf : c.records.find? (fun y => y.pfx == r.pfx) with
          | none => simp [hf] at hh
          | some x => simp only [Option.bind_some]; rw [hO x hf, ht]
        · rw [if_neg hh, Dict.get_set]; simp
    · have hget : Dict.get (match r.truePattern with
          | some q => if Dict.has c.patMap r.pfx then c.patMap else Dict.set c.patMap r.pfx q
          | none => c.patMap) p = Dict.get c.patMap p := by
        cases r.truePattern with
        | none => rfl
        | some q =>
          simp only
          split
          · rfl
          · rw [Dict.get_set]; simp [Ne.symm hp]
      rw [hget, hm.pat, hQ p hp]

/-! ### appending a record that matches nothing -/

theorem wf_append {c : Conv} (h : WF c) (r : Record) (hr : RecOK r)
    (hd : ∀ x ∈ c.records, Disj r.allP x.allP ∧ Disj r.allU x.allU) :
    WF (Conv.indexRec { c with records := c.records ++ [r] } r) := by
  have hu : Unique (c.records ++ [r]) := by
    unfold Unique
    rw [List.pairwise_append]
    refine ⟨h.unique, by simp, ?_⟩
    intro a ha b hb
    have : b = r := by simpa using hb
    subst this
    exact ⟨(hd a ha).1.symm, (hd a ha).2.symm⟩
  refine ⟨hu, ?_, mirror_indexRec h.mirror _ r hu (by simp) ?_ ?_ ?_ ?_⟩
  rotate_left 3
  · intro p hp
    unfold patternOf
    rw [List.find?_append]
    have : List.find? (fun x : Record => x.pfx == p) [r] = none := by
      simp [List.find?_cons, Ne.symm hp]
    rw [this]; simp
  · intro x hx
    have hxm := List.mem_of_find?_eq_some hx
    have hxp : x.pfx = r.pfx := by simpa using List.find?_some hx
    exact absurd (by rw [← hxp]; simp [Record.allP]) ((hd x hxm).1 r.pfx (by simp [Record.allP]))
  · intro x hx
    rcases List.mem_append.mp hx with hx | hx
    · exact h.recOK x hx
    · have : x = r := by simpa using hx
      subst this; exact hr
  · intro k hk
    unfold ownerP
    rw [List.find?_append]
    have : List.find? (fun x : Record => x.allP.contains k) [r] = none := by
      simp [List.find?_cons, hk]
    rw [this]; simp
  · intro k hk
    unfold ownerU
    rw [List.find?_append]
    have : List.find? (fun x : Record => x.allU.contains k) [r] = none := by
      simp [List.find?_cons, hk]
    rw [this]; simp

/-! ### merging into the one matched record -/

theorem unique_getElem {recs : List Record} (hu : Unique recs) {i j : Nat} (hi : i < recs.length)
    (hj : j < recs.length) (hne : i ≠ j) :
    Disj recs[i].allP recs[j].allP ∧ Disj recs[i].allU recs[j].allU := by
  have := List.pairwise_iff_getElem.mp hu
  rcases Nat.lt_or_gt_of_ne hne with hlt | hgt
  · exact this i j hi hj hlt
  · have := this j i hj hi hgt
    exact ⟨this.1.symm, this.2.symm⟩

theorem mem_set_of_ne {recs : List Record} {j : Nat} {m : Record} {i : Nat} (hi : i < recs.length) (hne : i ≠ j) :
    recs[i] ∈ recs.set j m := by
  rw [List.mem_iff_getElem]
  refine ⟨i, by simpa using hi, ?_⟩
  rw [List.getElem_set]
  simp [Ne.symm hne]

theorem wf_merge {c : Conv} (h : WF c) (r : Record) (j : Nat) (hj : j < c.records.length)
    (hd : ∀ i (hi : i < c.records.length), i ≠ j →
      Disj r.allP c.records[i].allP ∧ Disj r.allU c.records[i].allU) :
    WF (Conv.indexRec { c with records := c.records.set j (r.mergeInto c.records[j]) }
      (r.mergeInto c.records[j])) := by
  let existing := c.records[j]
  let merged := r.mergeInto existing
  have hlen : (c.records.set j merged).length = c.records.length := by simp
  -- a record at another position is disjoint from the merged record
  have hdm : ∀ i (hi : i < c.records.length), i ≠ j →
      Disj c.records[i].allP merged.allP ∧ Disj c.records[i].allU merged.allU := by
    intro i hi hne
    have h1 := unique_getElem h.unique hi hj hne
    have h2 := hd i hi hne
    constructor
    · intro s hs hsm
      rcases (mem_mergeInto_allP r existing s).mp hsm with hh | hh
      · exact h1.1 s hs hh
      · exact h2.1 s hh hs
    · intro s hs hsm
      rcases (mem_mergeInto_allU r existing s).mp hsm with hh | hh
      · exact h1.2 s hs hh
      · exact h2.2 s hh hs
  have hu : Unique (c.records.set j merged) := by
    unfold Unique
    rw [List.pairwise_iff_getElem]
    intro i1 i2 hi1 hi2 hlt
    rw [hlen] at hi1 hi2
    rw [List.getElem_set, List.getElem_set]
    by_cases e1 : j = i1
    · subst e1
      have e2 : ¬ j = i2 := by omega
      rw [if_pos rfl, if_neg e2]
      have := hdm i2 hi2 (fun e => e2 e.symm)
      exact ⟨this.1.symm, this.2.symm⟩
    · by_cases e2 : j = i2
      · subst e2
        rw [if_neg e1, if_pos rfl]
        exact hdm i1 hi1 (fun e => e1 e.symm)
      · rw [if_neg e1, if_neg e2]
        exact unique_getElem h.unique hi1 hi2 (by omega)
  have hmem : merged ∈ c.records.set j merged := by
    rw [List.mem_iff_getElem]
    exact ⟨j, by simpa using hj, by simp⟩
  refine ⟨hu, ?_, mirror_indexRec h.mirror _ merged hu hmem ?_ ?_ ?_ ?_⟩
  rotate_left 3
  · intro p _
    apply patternOf_congr
    rw [List.map_set]
    show (c.records.map fun r => (r.pfx, r.truePattern)).set j (existing.pfx, existing.truePattern) = _
    have : (c.records.map fun r => (r.pfx, r.truePattern))[j]'(by simpa using hj) = (existing.pfx, existing.truePattern) := by
      simp [existing]
    rw [← this, List.set_getElem_self]
  · intro x hx
    have : c.records.find? (fun y => y.pfx == existing.pfx) = some existing :=
      find?_pfx_of_mem h.unique (List.getElem_mem hj)
    have hx' : c.records.find? (fun y => y.pfx == existing.pfx) = some x := hx
    rw [this] at hx'
    cases hx'
    rfl
  · intro x hx
    rcases List.mem_or_eq_of_mem_set hx with hx | hx
    · exact h.recOK x hx
    · rw [hx]; exact recOK_mergeInto r existing (h.recOK existing (List.getElem_mem hj))
  · intro k hk
    have hke : k ∉ existing.allP := fun hh => hk ((mem_mergeInto_allP r existing k).mpr (Or.inl hh))
    cases ho : ownerP c.records k with
    | some x =>
      have ⟨hx, hkx⟩ := ownerP_some ho
      obtain ⟨i, hi, rfl⟩ := List.mem_iff_getElem.mp hx
      have hne : i ≠ j := by
        intro e; subst e; exact hke hkx
      exact ownerP_of_mem hu (mem_set_of_ne hi hne) hkx
    | none =>
      apply ownerP_eq_none_of_forall
      intro x hx
      rcases List.mem_or_eq_of_mem_set hx with hx | hx
      · exact ownerP_none ho x hx
      · rw [hx]; exact hk
  · intro k hk
    have hke : k ∉ existing.allU := fun hh => hk ((mem_mergeInto_allU r existing k).mpr (Or.inl hh))
    cases ho : ownerU c.records k with
    | some x =>
      have ⟨hx, hkx⟩ := ownerU_some ho
      obtain ⟨i, hi, rfl⟩ := List.mem_iff_getElem.mp hx
      have hne : i ≠ j := by
        intro e; subst e; exact hke hkx
      exact ownerU_of_mem hu (mem_set_of_ne hi hne) hkx
    | none =>
      apply ownerU_eq_none_of_forall
      intro x hx
      rcases List.mem_or_eq_of_mem_set hx with hx | hx
      · exact ownerU_none ho x hx
      · rw [hx]; exact hk

/-! ### `add_record`, case by case -/

/-- What `add_record` does to a well-formed converter: (1) nothing matches → the record is
appended and indexed; (2) exactly one existing record matches → rejected without `merge`,
otherwise merged into that record and re-indexed; (3) several records match → rejected. -/
theorem addRecord_spec (fold : Str → Str) {c : Conv} (h : WF c) (r : Record) (cs merge : Bool) :
    ((∀ x ∈ c.records, matchesRec fold cs r x = false) ∧
      c.addRecord fold r cs merge = .ok (Conv.indexRec { c with records := c.records ++ [r] } r)) ∨
    (∃ j, ∃ hj : j < c.records.length,
      (∀ i (hi : i < c.records.length), i ≠ j → matchesRec fold cs r c.records[i] = false) ∧
      matchesRec fold cs r c.records[j] = true ∧
      c.addRecord fold r cs merge =
        if merge then .ok (Conv.indexRec { c with records := c.records.set j (r.mergeInto c.records[j]) }
          (r.mergeInto c.records[j]))
        else .error .valueError) ∨
    ((∃ x ∈ c.records, ∃ y ∈ c.records, x ≠ y ∧ matchesRec fold cs r x = true ∧ matchesRec fold cs r y = true) ∧
      c.addRecord fold r cs merge = .error .valueError) := by
  unfold Conv.addRecord
  cases hk : c.matchedKeys fold r cs with
  | nil => exact Or.inl ⟨matchedKeys_nil hk, rfl⟩
  | cons key rest =>
    cases rest with
    | nil =>
      right; left
      have ⟨hall, x, hx, hxk⟩ := matchedKeys_singleton hk
      -- the matched record itself matches
      have hxm : matchesRec fold cs r x = true := by
        unfold Conv.matchedKeys at hk
        have ⟨_, h2⟩ := eraseDups_singleton _ key hk
        obtain ⟨y, hy, hyk⟩ := List.mem_map.mp h2
        have hy' := List.mem_filter.mp hy
        have : y = x := eq_of_key_eq h.unique hy'.1 hx (hyk.trans hxk.symm)
        rw [← this]; exact hy'.2
      cases hf : c.records.findIdx? (fun y => y.key == key) with
      | none =>
        have := List.findIdx?_eq_none_iff.mp hf x hx
        simp [hxk] at this
      | some j =>
        obtain ⟨hj, hpj, _⟩ := List.findIdx?_eq_some_iff_getElem.mp hf
        have hjk : c.records[j].key = key := by simpa using hpj
        have hxj : x = c.records[j] := eq_of_key_eq h.unique hx (List.getElem_mem hj) (hxk.trans hjk.symm)
        refine ⟨j, hj, ?_, by rw [← hxj]; exact hxm, ?_⟩
        · intro i hi hne
          cases hm : matchesRec fold cs r c.records[i] with
          | false => rfl
          | true =>
            have hik := hall _ (List.getElem_mem hi) hm
            have heq := eq_of_key_eq h.unique (List.getElem_mem hi) (List.getElem_mem hj) (hik.trans hjk.symm)
            have hdis := (unique_getElem h.unique hi hj hne).1
            exact absurd (show c.records[i].pfx ∈ c.records[j].allP by rw [← heq]; simp [Record.allP])
              (hdis _ (by simp [Record.allP]))
        · simp only [hf, List.getElem?_eq_getElem hj]
          cases merge <;> rfl
    | cons key2 rest2 =>
      right; right
      refine ⟨?_, rfl⟩
      -- two different keys are both matched
      unfold Conv.matchedKeys at hk
      have hm : ∀ k, k ∈ ((c.records.filter (matchesRec fold cs r)).map Record.key) ↔ k ∈ key :: key2 :: rest2 :=
        fun k => by rw [← hk, List.mem_eraseDups]
      obtain ⟨x, hx, hxk⟩ := List.mem_map.mp ((hm key).mpr (by simp))
      obtain ⟨y, hy, hyk⟩ := List.mem_map.mp ((hm key2).mpr (by simp))
      have hne : key ≠ key2 := eraseDups_head_ne hk
      have hx' := List.mem_filter.mp hx
      have hy' := List.mem_filter.mp hy
      exact ⟨x, hx'.1, y, hy'.1, fun e => hne (by rw [← hxk, ← hyk, e]), hx'.2, hy'.2⟩

/-- **T2.** `add_record` (any flags, any case-folding function) keeps a converter well-formed. -/
theorem wf_addRecord (fold : Str → Str) {c c' : Conv} (h : WF c) {r : Record} (hr : RecOK r) {cs merge : Bool}
    (hok : c.addRecord fold r cs merge = .ok c') : WF c' := by
  rcases addRecord_spec fold h r cs merge with ⟨hno, he⟩ | ⟨j, hj, hoth, _, he⟩ | ⟨_, he⟩
  · rw [he] at hok
    cases hok
    exact wf_append h r hr (fun x hx => matchesRec_false (hno x hx))
  · rw [he] at hok
    cases merge with
    | false => simp at hok
    | true =>
      simp at hok
      subst hok
      exact wf_merge h r j hj (fun i hi hne => matchesRec_false (hoth i hi hne))
  · rw [he] at hok; cases hok

/-- a rejected call raises `ValueError` (and, the model being a function of the old state, changes
nothing) -/
theorem addRecord_error (fold : Str → Str) {c : Conv} (h : WF c) (r : Record) (cs merge : Bool) (e : Err)
    (herr : c.addRecord fold r cs merge = .error e) : e = .valueError := by
  rcases addRecord_spec fold h r cs merge with ⟨_, he⟩ | ⟨j, hj, _, _, he⟩ | ⟨_, he⟩
  · rw [he] at herr; cases herr
  · rw [he] at herr
    cases merge <;> simp at herr
    exact herr.symm
  · rw [he] at herr; cases herr; rfl
