import CuriesVerif.Model.Discovery
import CuriesVerif.Lemmas.Sort

/-!
# `discover` depends only on the *set* of input URIs

The collected `uri prefix ↦ set of identifiers` table is characterised independently of the
order and multiplicity of the input, and the sorted, filtered, numbered record list is shown to
be a function of that characterisation.
-/

namespace Discovery

/-- `u` contributes the identifier `l` to the URI prefix `k` -/
def Contributes (alnum : Nat → Bool) (known : Str → Bool) (D : List Str) (u k l : Str) : Prop :=
  known u = false ∧ isGithubIssue u = false ∧ splitUri alnum D u = some (k, l)

/-- one iteration of the loop in `_get_uri_prefix_to_luids` -/
def stepUri (alnum : Nat → Bool) (known : Str → Bool) (D : List Str) (acc : List (Str × List Str)) (u : Str) :
    List (Str × List Str) :=
  if known u then acc else if isGithubIssue u then acc
  else match splitUri alnum D u with
    | some (k, luid) => addLuid acc k luid
    | none => acc

theorem prefixToLuids_eq (alnum : Nat → Bool) (known : Str → Bool) (delims uris : List Str) :
    prefixToLuids alnum known delims uris =
      uris.foldl (stepUri alnum known (if delims.isEmpty then defaultDelimiters else delims)) [] := rfl

/-- the table is well-formed and holds exactly the contributions of the URIs seen so far -/
structure TableInv (R : Str → Str → Prop) (acc : List (Str × List Str)) : Prop where
  keys : (acc.map (·.1)).Nodup
  luids : ∀ kl ∈ acc, kl.2.Nodup ∧ kl.2 ≠ []
  holds : ∀ k l, (∃ ls, (k, ls) ∈ acc ∧ l ∈ ls) ↔ R k l

theorem mem_addLuid_iff (acc : List (Str × List Str)) (k l k' l' : Str) :
    (∃ ls, (k', ls) ∈ addLuid acc k l ∧ l' ∈ ls) ↔ (∃ ls, (k', ls) ∈ acc ∧ l' ∈ ls) ∨ (k' = k ∧ l' = l) := by
  unfold addLuid
  by_cases h : (acc.any fun g => g.1 == k) = true
  · rw [if_pos h]
    constructor
    · rintro ⟨ls, hm, hl⟩
      obtain ⟨g, hg, he⟩ := List.mem_map.mp hm
      by_cases hgk : g.1 = k
      · have hb : (g.1 == k) = true := by simpa using hgk
        simp only [hb, if_true, Prod.mk.injEq] at he
        obtain ⟨e1, e2⟩ := he
        have hkk : k' = k := e1.symm.trans hgk
        by_cases hc : l ∈ g.2
        · have hcb : g.2.contains l = true := by simpa using hc
          rw [if_pos hcb] at e2
          exact Or.inl ⟨g.2, by rw [← e1]; exact hg, by rw [e2]; exact hl⟩
        · have hcb : ¬ g.2.contains l = true := by simpa using hc
          rw [if_neg hcb] at e2
          rw [← e2] at hl
          rcases List.mem_append.mp hl with hl | hl
          · exact Or.inl ⟨g.2, by rw [← e1]; exact hg, hl⟩
          · exact Or.inr ⟨hkk, by simpa using hl⟩
      · have hb : (g.1 == k) = false := by simpa using hgk
        simp only [hb, Bool.false_eq_true, if_false] at he
        rw [he] at hg
        exact Or.inl ⟨ls, hg, hl⟩
    · rintro (⟨ls, hm, hl⟩ | ⟨e1, e2⟩)
      · by_cases hkk : k' = k
        · refine ⟨if ls.contains l then ls else ls ++ [l], List.mem_map.mpr ⟨(k', ls), hm, by simp [hkk]⟩, ?_⟩
          by_cases hc : ls.contains l = true
          · rw [if_pos hc]; exact hl
          · rw [if_neg hc]; exact List.mem_append.mpr (Or.inl hl)
        · refine ⟨ls, List.mem_map.mpr ⟨(k', ls), hm, ?_⟩, hl⟩
          have hb : ((k', ls).1 == k) = false := by simpa using hkk
          rw [if_neg (by rw [hb]; exact Bool.false_ne_true)]
      · obtain ⟨g, hg, he⟩ := List.any_eq_true.mp h
        have hgk : g.1 = k := by simpa using he
        refine ⟨if g.2.contains l then g.2 else g.2 ++ [l], List.mem_map.mpr ⟨g, hg, ?_⟩, ?_⟩
        · have hb : (g.1 == k) = true := by simpa using hgk
          rw [if_pos hb, hgk, e1]
        · rw [e2]
          by_cases hc : g.2.contains l = true
          · rw [if_pos hc]; simpa using hc
          · rw [if_neg hc]; simp
  · rw [if_neg h]
    constructor
    · rintro ⟨ls, hm, hl⟩
      rcases List.mem_append.mp hm with hm | hm
      · exact Or.inl ⟨ls, hm, hl⟩
      · simp only [List.mem_singleton, Prod.mk.injEq] at hm
        obtain ⟨e1, e2⟩ := hm
        rw [e2] at hl
        exact Or.inr ⟨e1, by simpa using hl⟩
    · rintro (⟨ls, hm, hl⟩ | ⟨e1, e2⟩)
      · exact ⟨ls, by simp [hm], hl⟩
      · exact ⟨[l], by simp [e1], by simp [e2]⟩

theorem keys_addLuid' (acc : List (Str × List Str)) (k luid : Str) :
    (addLuid acc k luid).map (·.1) = if acc.any (fun g => g.1 == k) then acc.map (·.1) else acc.map (·.1) ++ [k] := by
  unfold addLuid
  by_cases h : (acc.any fun g => g.1 == k) = true
  · rw [if_pos h, if_pos h, List.map_map]
    apply List.map_congr_left
    intro g _
    simp only [Function.comp]
    split <;> rfl
  · rw [if_neg h, if_neg h]; simp

theorem tableInv_addLuid (R : Str → Str → Prop) (acc : List (Str × List Str)) (k l : Str) (h : TableInv R acc) :
    TableInv (fun k' l' => R k' l' ∨ (k' = k ∧ l' = l)) (addLuid acc k l) := by
  refine ⟨?_, ?_, ?_⟩
  · rw [keys_addLuid']
    by_cases ha : (acc.any fun g => g.1 == k) = true
    · rw [if_pos ha]; exact h.keys
    · rw [if_neg ha]
      refine List.nodup_append.mpr ⟨h.keys, by simp, ?_⟩
      intro a hm b hb
      simp at hb; subst hb
      intro e; subst e
      obtain ⟨g, hg, he⟩ := List.mem_map.mp hm
      exact ha (List.any_eq_true.mpr ⟨g, hg, by simp [he]⟩)
  · intro kl hkl
    unfold addLuid at hkl
    by_cases ha : (acc.any fun g => g.1 == k) = true
    · rw [if_pos ha] at hkl
      obtain ⟨g, hg, he⟩ := List.mem_map.mp hkl
      have hg' := h.luids g hg
      by_cases hgk : (g.1 == k) = true
      · simp only [hgk, if_true] at he
        subst he
        by_cases hc : g.2.contains l = true
        · simp only [hc, if_true]; exact hg'
        · simp only [hc, Bool.false_eq_true, if_false]
          refine ⟨List.nodup_append.mpr ⟨hg'.1, by simp, ?_⟩, by simp⟩
          intro a ha' b hb
          simp at hb; subst hb
          intro e; subst e
          exact hc (by simpa using ha')
      · simp only [hgk, Bool.false_eq_true, if_false] at he
        subst he; exact hg'
    · rw [if_neg ha] at hkl
      rcases List.mem_append.mp hkl with hm | hm
      · exact h.luids kl hm
      · simp at hm; subst hm; simp
  · intro k' l'
    rw [mem_addLuid_iff acc, h.holds]

theorem tableInv_step (alnum : Nat → Bool) (known : Str → Bool) (D : List Str) (seen : List Str)
    (acc : List (Str × List Str)) (u : Str)
    (h : TableInv (fun k l => ∃ v ∈ seen, Contributes alnum known D v k l) acc) :
    TableInv (fun k l => ∃ v ∈ seen ++ [u], Contributes alnum known D v k l) (stepUri alnum known D acc u) := by
  -- the contributions of `u` alone
  have widen : ∀ (P : Str → Str → Prop),
      (∀ k l, P k l ↔ Contributes alnum known D u k l) →
      ∀ k l, ((∃ v ∈ seen, Contributes alnum known D v k l) ∨ P k l) ↔ ∃ v ∈ seen ++ [u], Contributes alnum known D v k l := by
    intro P hP k l
    rw [hP]
    constructor
    · rintro (⟨v, hv, hc⟩ | hc)
      · exact ⟨v, by simp [hv], hc⟩
      · exact ⟨u, by simp, hc⟩
    · rintro ⟨v, hv, hc⟩
      rcases List.mem_append.mp hv with hv | hv
      · exact Or.inl ⟨v, hv, hc⟩
      · simp at hv; subst hv; exact Or.inr hc
  have none_case : (∀ k l, ¬ Contributes alnum known D u k l) →
      TableInv (fun k l => ∃ v ∈ seen ++ [u], Contributes alnum known D v k l) acc := by
    intro hn
    refine ⟨h.keys, h.luids, fun k l => ?_⟩
    rw [h.holds]
    have := widen (fun _ _ => False) (fun k l => ⟨fun hf => hf.elim, fun hc => hn k l hc⟩) k l
    simpa using this
  unfold stepUri
  by_cases hk : known u = true
  · rw [if_pos hk]
    exact none_case (fun k l hc => by rw [hc.1] at hk; cases hk)
  · rw [if_neg hk]
    by_cases hg : isGithubIssue u = true
    · rw [if_pos hg]
      exact none_case (fun k l hc => by rw [hc.2.1] at hg; cases hg)
    · rw [if_neg hg]
      cases hs : splitUri alnum D u with
      | none => exact none_case (fun k l hc => by rw [hc.2.2] at hs; cases hs)
      | some kl =>
        obtain ⟨k0, l0⟩ := kl
        have := tableInv_addLuid _ acc k0 l0 h
        refine ⟨this.keys, this.luids, fun k l => ?_⟩
        rw [this.holds]
        apply widen (fun k l => k = k0 ∧ l = l0)
        intro k l
        constructor
        · rintro ⟨rfl, rfl⟩; exact ⟨by simpa using hk, by simpa using hg, hs⟩
        · intro hc
          have := hc.2.2
          rw [hs] at this
          simp at this
          exact ⟨this.1.symm, this.2.symm⟩

theorem tableInv_fold (alnum : Nat → Bool) (known : Str → Bool) (D : List Str) (uris seen : List Str)
    (acc : List (Str × List Str)) (h : TableInv (fun k l => ∃ v ∈ seen, Contributes alnum known D v k l) acc) :
    TableInv (fun k l => ∃ v ∈ seen ++ uris, Contributes alnum known D v k l)
      (uris.foldl (stepUri alnum known D) acc) := by
  induction uris generalizing seen acc with
  | nil => simpa using h
  | cons u us ih =>
    simp only [List.foldl_cons]
    have := ih (seen ++ [u]) _ (tableInv_step alnum known D seen acc u h)
    simpa [List.append_assoc] using this

/-- the table `_get_uri_prefix_to_luids` returns: distinct keys, duplicate-free non-empty identifier
lists, holding exactly the contributions of the input URIs -/
theorem tableInv_prefixToLuids (alnum : Nat → Bool) (known : Str → Bool) (delims uris : List Str) :
    TableInv (fun k l => ∃ v ∈ uris, Contributes alnum known (if delims.isEmpty then defaultDelimiters else delims) v k l)
      (prefixToLuids alnum known delims uris) := by
  rw [prefixToLuids_eq]
  have := tableInv_fold alnum known (if delims.isEmpty then defaultDelimiters else delims) uris [] []
    ⟨by simp, by simp, by simp⟩
  simpa using this


/-! ### the sorted, filtered, numbered list is a function of the contributions -/

theorem insertBy_map {α β : Type} (le : α → α → Bool) (le' : β → β → Bool) (f : α → β)
    (hle : ∀ a b, le' (f a) (f b) = le a b) (x : α) (l : List α) :
    (insertBy le x l).map f = insertBy le' (f x) (l.map f) := by
  induction l with
  | nil => rfl
  | cons y ys ih =>
    simp only [insertBy, List.map_cons, hle]
    split
    · rfl
    · simp [ih]

theorem isort_map {α β : Type} (le : α → α → Bool) (le' : β → β → Bool) (f : α → β)
    (hle : ∀ a b, le' (f a) (f b) = le a b) (l : List α) :
    (isort le l).map f = isort le' (l.map f) := by
  induction l with
  | nil => rfl
  | cons x xs ih => simp only [isort, List.map_cons]; rw [insertBy_map le le' f hle, ih]

theorem unique_of_nodup_keys {β : Type} {g : List (Str × β)} (hn : (g.map (·.1)).Nodup) {k : Str} {a b : β}
    (ha : (k, a) ∈ g) (hb : (k, b) ∈ g) : a = b := by
  induction g with
  | nil => cases ha
  | cons x xs ih =>
    simp only [List.map_cons, List.nodup_cons] at hn
    rcases List.mem_cons.mp ha with ha | ha <;> rcases List.mem_cons.mp hb with hb | hb
    · rw [← ha] at hb; exact (Prod.mk.inj hb).2.symm
    · exact absurd (List.mem_map.mpr ⟨(k, b), hb, by rw [← ha]⟩) hn.1
    · exact absurd (List.mem_map.mpr ⟨(k, a), ha, by rw [← hb]⟩) hn.1
    · exact ih hn.2 ha hb

theorem nodup_of_map_nodup {α β : Type} (f : α → β) (l : List α) (h : (l.map f).Nodup) : l.Nodup := by
  induction l with
  | nil => exact List.nodup_nil
  | cons a as ih =>
    simp only [List.map_cons, List.nodup_cons] at h ⊢
    exact ⟨fun hm => h.1 (List.mem_map.mpr ⟨a, hm, rfl⟩), ih h.2⟩

/-- `(uri prefix, number of distinct identifiers)` -/
def summary (g : List (Str × List Str)) : List (Str × Nat) := g.map fun kl => (kl.1, kl.2.length)

theorem summary_perm (R : Str → Str → Prop) (g₁ g₂ : List (Str × List Str)) (h₁ : TableInv R g₁) (h₂ : TableInv R g₂) :
    (summary g₁).Perm (summary g₂) := by
  have nodup : ∀ g : List (Str × List Str), (g.map (·.1)).Nodup → (summary g).Nodup := by
    intro g hn
    unfold summary
    have : (g.map fun kl => (kl.1, kl.2.length)).map (·.1) = g.map (·.1) := by
      rw [List.map_map]; rfl
    exact nodup_of_map_nodup (·.1) _ (by rw [this]; exact hn)
  have sub : ∀ (ga gb : List (Str × List Str)), TableInv R ga → TableInv R gb →
      ∀ x, x ∈ summary ga → x ∈ summary gb := by
    intro ga gb ha hb x hx
    obtain ⟨kl, hkl, rfl⟩ := List.mem_map.mp hx
    obtain ⟨k, ls⟩ := kl
    have hls := ha.luids (k, ls) hkl
    cases ls with
    | nil => exact absurd rfl hls.2
    | cons l rest =>
      have hR : R k l := (ha.holds k l).mp ⟨l :: rest, hkl, by simp⟩
      obtain ⟨ls₂, hm₂, _⟩ := (hb.holds k l).mpr hR
      have hperm : (l :: rest).Perm ls₂ := by
        rw [List.perm_ext_iff_of_nodup hls.1 (hb.luids (k, ls₂) hm₂).1]
        intro a
        constructor
        · intro ha'
          obtain ⟨ls', hm', hl'⟩ := (hb.holds k a).mpr ((ha.holds k a).mp ⟨l :: rest, hkl, ha'⟩)
          rw [unique_of_nodup_keys hb.keys hm₂ hm']; exact hl'
        · intro ha'
          obtain ⟨ls', hm', hl'⟩ := (ha.holds k a).mpr ((hb.holds k a).mp ⟨ls₂, hm₂, ha'⟩)
          rw [unique_of_nodup_keys ha.keys hkl hm']; exact hl'
      exact List.mem_map.mpr ⟨(k, ls₂), hm₂, by simp [hperm.length_eq]⟩
  rw [List.perm_ext_iff_of_nodup (nodup g₁ h₁.keys) (nodup g₂ h₂.keys)]
  exact fun x => ⟨sub g₁ g₂ h₁ h₂ x, sub g₂ g₁ h₂ h₁ x⟩

theorem sorted_summary_eq (R : Str → Str → Prop) (g₁ g₂ : List (Str × List Str)) (h₁ : TableInv R g₁)
    (h₂ : TableInv R g₂) :
    isort (fun (a b : Str × Nat) => strLe a.1 b.1) (summary g₁) = isort (fun (a b : Str × Nat) => strLe a.1 b.1) (summary g₂) := by
  have hp := summary_perm R g₁ g₂ h₁ h₂
  have tot : ∀ a b : Str × Nat, strLe a.1 b.1 = true ∨ strLe b.1 a.1 = true := fun a b => by
    simp only [strLe, decide_eq_true_eq]; exact Std.le_total (a := a.1) (b := b.1)
  have trans : ∀ a b c : Str × Nat, strLe a.1 b.1 = true → strLe b.1 c.1 = true → strLe a.1 c.1 = true :=
    fun a b c h1 h2 => by simp only [strLe, decide_eq_true_eq] at *; exact Std.le_trans h1 h2
  refine List.Perm.eq_of_pairwise (le := fun a b => strLe a.1 b.1 = true) ?_ (isort_sorted _ tot trans _)
    (isort_sorted _ tot trans _) (((isort_perm _ _).trans hp).trans (isort_perm _ _).symm)
  intro a b ha hb hab hba
  have hk : a.1 = b.1 := by
    simp only [strLe, decide_eq_true_eq] at hab hba
    exact Std.le_antisymm hab hba
  have ha2 : a ∈ summary g₂ := hp.mem_iff.mp ((mem_isort _ _ _).mp ha)
  have hb2 : b ∈ summary g₂ := (mem_isort _ _ _).mp hb
  have hn : ((summary g₂).map (·.1)).Nodup := by
    unfold summary; rw [List.map_map]; exact h₂.keys
  obtain ⟨a1, a2⟩ := a
  obtain ⟨b1, b2⟩ := b
  simp only at hk
  subst hk
  rw [unique_of_nodup_keys hn ha2 hb2]

/-- the URI prefixes kept by the cutoff, in sorted order, computed from the summary -/
theorem kept_eq_summary (cutoff : Option Nat) (g : List (Str × List Str)) :
    ((isort (fun (a b : Str × List Str) => strLe a.1 b.1) g).filter
        fun g => keepBy cutoff g.2.length).map (·.1)
      = ((isort (fun (a b : Str × Nat) => strLe a.1 b.1) (summary g)).filter
        fun s => keepBy cutoff s.2).map (·.1) := by
  unfold summary
  rw [← isort_map (fun (a b : Str × List Str) => strLe a.1 b.1) (fun (a b : Str × Nat) => strLe a.1 b.1)
    (fun kl => (kl.1, kl.2.length)) (fun _ _ => rfl), List.filter_map, List.map_map]
  rfl

end Discovery
