import CuriesVerif.Model.Csv

/-!
# Reading back what the csv writer wrote

`csv_roundtrip`: for every delimiter other than `"`, `\r`, `\n` and every table — any number of
rows, any number of cells, cells over arbitrary characters, including the delimiter, quotes,
carriage returns and line feeds — `csvRead d (csvWrite d rows) = rows`.
-/

namespace Csv

/-- the delimiter is a legal one -/
def DelimiterOK (d : Nat) : Prop := d ≠ quote ∧ d ≠ cr ∧ d ≠ lf

/-- an ordinary character: not the delimiter, not a quote, not a terminator -/
def plain (d c : Nat) : Prop := c ≠ d ∧ c ≠ quote ∧ c ≠ cr ∧ c ≠ lf

theorem needsQuote_false {d : Nat} {f : Str} (h : needsQuote d f = false) : ∀ c ∈ f, plain d c := by
  intro c hc
  unfold needsQuote at h
  rw [List.any_eq_false] at h
  have := h c hc
  simp only [Bool.or_eq_true, beq_iff_eq, not_or] at this
  exact ⟨this.1.1.1, this.1.1.2, this.1.2, this.2⟩

/-! ### single steps -/

/-- the states in which a field can begin -/
def Fresh (st : St) : Prop := st = .startRecord ∨ st = .startField

theorem step_fresh_plain (d : Nat) {st : St} (hs : Fresh st) (a : Acc) (c : Nat) (h : plain d c) :
    step d (st, a) c = (.inField, a.addChar c) := by
  obtain ⟨h1, h2, h3, h4⟩ := h
  rcases hs with rfl | rfl <;> simp [step, stepStart, h1, h2, h3, h4]

theorem step_fresh_quote (d : Nat) {st : St} (hs : Fresh st) (a : Acc) :
    step d (st, a) quote = (.inQuoted, a) := by
  rcases hs with rfl | rfl <;> simp [step, stepStart, quote, cr, lf]

theorem step_inField_plain (d : Nat) (a : Acc) (c : Nat) (h : plain d c) :
    step d (.inField, a) c = (.inField, a.addChar c) := by
  obtain ⟨h1, h2, h3, h4⟩ := h
  simp [step, h1, h3, h4]

theorem step_inQuoted_other (d : Nat) (a : Acc) (c : Nat) (h : c ≠ quote) :
    step d (.inQuoted, a) c = (.inQuoted, a.addChar c) := by
  simp [step, h]

theorem step_inQuoted_quote (d : Nat) (a : Acc) : step d (.inQuoted, a) quote = (.quoteInQuoted, a) := by
  simp [step]

theorem step_qiq_quote (d : Nat) (a : Acc) : step d (.quoteInQuoted, a) quote = (.inQuoted, a.addChar quote) := by
  simp [step]

/-- the states in which a field has just been completed (or, for an empty unquoted field, has
not begun) and the delimiter or a terminator closes it -/
def Closing (st : St) : Prop := st = .startField ∨ st = .inField ∨ st = .quoteInQuoted

theorem step_delim (d : Nat) (hd : DelimiterOK d) {st : St} (hs : Closing st ∨ st = .startRecord) (a : Acc) :
    step d (st, a) d = (.startField, a.saveField) := by
  obtain ⟨h1, h2, h3⟩ := hd
  rcases hs with (rfl | rfl | rfl) | rfl <;> simp [step, stepStart, h1, h2, h3]

theorem step_cr (d : Nat) (hd : DelimiterOK d) {st : St} (hs : Closing st) (a : Acc) :
    step d (st, a) cr = (.eatLF, a.saveField.endRecord) := by
  have h2 : ¬ 13 = d := fun e => hd.2.1 (by rw [← e]; rfl)
  rcases hs with rfl | rfl | rfl <;> simp [step, afterTerm, cr, quote, lf, h2]

theorem step_eatLF_lf (d : Nat) (a : Acc) : step d (.eatLF, a) lf = (.startRecord, a) := by
  simp [step]

/-! ### one field -/

theorem foldl_inField_plain (d : Nat) (f : Str) (a : Acc) (h : ∀ c ∈ f, plain d c) :
    f.foldl (step d) (.inField, a) = (.inField, { a with field := f.reverse ++ a.field }) := by
  induction f generalizing a with
  | nil => rfl
  | cons c cs ih =>
    rw [List.foldl_cons, step_inField_plain d a c (h c (by simp)), ih _ (fun x hx => h x (by simp [hx]))]
    simp [Acc.addChar]

theorem foldl_inQuoted_escape (d : Nat) (f : Str) (a : Acc) :
    (escape f).foldl (step d) (.inQuoted, a) = (.inQuoted, { a with field := f.reverse ++ a.field }) := by
  induction f generalizing a with
  | nil => rfl
  | cons c cs ih =>
    unfold escape at ih ⊢
    rw [List.flatMap_cons, List.foldl_append]
    by_cases hc : c = quote
    · subst hc
      simp only [beq_self_eq_true, if_true, List.foldl_cons, List.foldl_nil]
      rw [step_inQuoted_quote, step_qiq_quote, ih]
      simp [Acc.addChar]
    · have : (c == quote) = false := by simpa using hc
      simp only [this, Bool.false_eq_true, if_false, List.foldl_cons, List.foldl_nil]
      rw [step_inQuoted_other d a c hc, ih]
      simp [Acc.addChar]

/-- reading an encoded field from a state in which a field can begin: the characters of the
field are accumulated and the state is one the delimiter or a terminator closes — except that an
empty unquoted field leaves the state where it was -/
theorem foldl_encodeField (d : Nat) (f : Str) {st : St} (hs : Fresh st) (a : Acc) (ha : a.field = []) :
    ∃ st', (encodeField d f).foldl (step d) (st, a) = (st', { a with field := f.reverse }) ∧
      (Closing st' ∨ (st' = st ∧ f = [])) := by
  unfold encodeField
  by_cases hq : needsQuote d f = true
  · rw [if_pos hq]
    refine ⟨.quoteInQuoted, ?_, Or.inl (Or.inr (Or.inr rfl))⟩
    rw [List.foldl_append, List.foldl_append]
    simp only [List.foldl_cons, List.foldl_nil]
    rw [step_fresh_quote d hs, foldl_inQuoted_escape, step_inQuoted_quote, ha]
    simp
  · have hq' : needsQuote d f = false := by simpa using hq
    rw [if_neg hq]
    have hp := needsQuote_false hq'
    cases f with
    | nil =>
      refine ⟨st, ?_, Or.inr ⟨rfl, rfl⟩⟩
      cases a
      simp only at ha
      subst ha
      rfl
    | cons c cs =>
      refine ⟨.inField, ?_, Or.inl (Or.inr (Or.inl rfl))⟩
      rw [List.foldl_cons, step_fresh_plain d hs a c (hp c (by simp)),
        foldl_inField_plain d cs _ (fun x hx => hp x (by simp [hx]))]
      simp [Acc.addChar, ha]

/-! ### one row -/

/-- reading the fields of a row and its terminator, from a state in which a field can begin -/
theorem foldl_fields (d : Nat) (hd : DelimiterOK d) :
    ∀ (fs : List Str) (st : St) (a : Acc), fs ≠ [] → Fresh st → a.field = [] → (st = .startRecord → fs ≠ [[]]) →
      (joinFields d (fs.map (encodeField d)) ++ [cr, lf]).foldl (step d) (st, a) =
        (.startRecord, { field := [], fields := [], rows := (a.fields.reverse ++ fs) :: a.rows }) := by
  intro fs
  induction fs with
  | nil => intro st a h; exact absurd rfl h
  | cons f rest ih =>
    intro st a _ hs ha hne
    obtain ⟨st', hf, hst'⟩ := foldl_encodeField d f hs a ha
    cases rest with
    | nil =>
      simp only [List.map_cons, List.map_nil, joinFields]
      rw [List.foldl_append, hf]
      have hcl : Closing st' := by
        rcases hst' with h | ⟨h1, h2⟩
        · exact h
        · rcases hs with rfl | rfl
          · subst h2; exact absurd rfl (hne rfl)
          · exact Or.inl h1
      simp only [List.foldl_cons, List.foldl_nil]
      rw [step_cr d hd hcl, step_eatLF_lf]
      simp [Acc.saveField, Acc.endRecord]
    | cons g rest' =>
      simp only [List.map_cons, joinFields]
      rw [List.append_assoc, List.append_assoc, List.foldl_append, hf, List.foldl_append]
      simp only [List.foldl_cons, List.foldl_nil]
      have hcl : Closing st' ∨ st' = .startRecord := by
        rcases hst' with h | ⟨h1, _⟩
        · exact Or.inl h
        · rcases hs with rfl | rfl
          · exact Or.inr h1
          · exact Or.inl (Or.inl h1)
      rw [step_delim d hd hcl]
      have := ih .startField ({ a with field := f.reverse } : Acc).saveField (by simp) (Or.inr rfl) rfl
        (fun h => by cases h)
      simp only [List.map_cons] at this
      rw [this]
      simp [Acc.saveField]

theorem foldl_encodeRow (d : Nat) (hd : DelimiterOK d) (row : List Str) (a : Acc) (ha : a.field = []) (hf : a.fields = []) :
    (encodeRow d row).foldl (step d) (.startRecord, a) = (.startRecord, { field := [], fields := [], rows := row :: a.rows }) := by
  unfold encodeRow
  by_cases h1 : row = [[]]
  · subst h1
    simp only [beq_self_eq_true, if_true]
    simp only [List.cons_append, List.nil_append, List.foldl_cons, List.foldl_nil]
    have e1 : step d (.startRecord, a) quote = (.inQuoted, a) := step_fresh_quote d (Or.inl rfl) a
    rw [e1, step_inQuoted_quote, step_cr d hd (Or.inr (Or.inr rfl)), step_eatLF_lf]
    simp [Acc.saveField, Acc.endRecord, ha, hf]
  · have hb : (row == [[]]) = false := by simpa using h1
    rw [hb]
    simp only [Bool.false_eq_true, if_false]
    cases row with
    | nil =>
      simp only [List.map_nil, joinFields, List.nil_append, List.foldl_cons, List.foldl_nil]
      have : step d (.startRecord, a) cr = (.eatLF, a.endRecord) := by
        simp [step, stepStart, afterTerm, cr]
      rw [this, step_eatLF_lf]
      simp [Acc.endRecord, hf]
    | cons f fs =>
      rw [foldl_fields d hd (f :: fs) .startRecord a (by simp) (Or.inl rfl) ha (fun _ => h1)]
      simp [hf]

/-! ### the table -/

theorem foldl_csvWrite (d : Nat) (hd : DelimiterOK d) (rows : List (List Str)) (acc : List (List Str)) :
    (csvWrite d rows).foldl (step d) (.startRecord, { field := [], fields := [], rows := acc }) =
      (.startRecord, { field := [], fields := [], rows := rows.reverse ++ acc }) := by
  induction rows generalizing acc with
  | nil => rfl
  | cons row rest ih =>
    unfold csvWrite at ih ⊢
    rw [List.flatMap_cons, List.foldl_append, foldl_encodeRow d hd row _ rfl rfl, ih]
    simp

/-- **Round trip.** What `csv.writer(fh, delimiter=d).writerows(rows)` writes, read back with
`csv.reader(fh, delimiter=d)` from a file opened with `newline=""`, is `rows` — for every table. -/
theorem csv_roundtrip (d : Nat) (hd : DelimiterOK d) (rows : List (List Str)) : csvRead d (csvWrite d rows) = rows := by
  unfold csvRead
  have := foldl_csvWrite d hd rows []
  rw [show ({} : Acc) = { field := [], fields := [], rows := [] } from rfl, this]
  simp [finish]

/-- Non-vacuity: a table with a delimiter, quotes, a lone carriage return, `\r\n` and `\n` inside
cells, an empty row, a row of one empty cell and a row of two empty cells. -/
example :
    csvRead 9 (csvWrite 9 [[[97, 9, 98], [34, 113, 34]], [[13], [13, 10, 120], [10]], [], [[]], [[], []]])
      = [[[97, 9, 98], [34, 113, 34]], [[13], [13, 10, 120], [10]], [], [[]], [[], []]] := by
  decide

/-- The repaired defect F6, in the model: if the text goes through universal-newline translation
before the reader sees it (a file opened without `newline=""`), a carriage return inside a cell does
not survive. -/
theorem csv_roundtrip_fails_with_newline_translation :
    csvRead 9 (translateNewlines (csvWrite 9 [[[13]]])) ≠ [[[13]]] := by
  decide

end Csv
