import CuriesVerif.Basic

/-! # `List.mapM` in `Except`: what a successful run says about inputs and outputs -/

/-- element-wise relation between two lists of equal length -/
inductive Forall2 {α β : Type} (R : α → β → Prop) : List α → List β → Prop
  | nil : Forall2 R [] []
  | cons {a b l₁ l₂} : R a b → Forall2 R l₁ l₂ → Forall2 R (a :: l₁) (b :: l₂)

theorem Forall2.imp {α β : Type} {R S : α → β → Prop} (h : ∀ a b, R a b → S a b) {l₁ : List α} {l₂ : List β}
    (hf : Forall2 R l₁ l₂) : Forall2 S l₁ l₂ := by
  induction hf with
  | nil => exact .nil
  | cons hr _ ih => exact .cons (h _ _ hr) ih

theorem mapM_ok_forall₂ {α β ε : Type} (f : α → Except ε β) (l : List α) (out : List β)
    (h : l.mapM f = .ok out) : Forall2 (fun a b => f a = .ok b) l out := by
  induction l generalizing out with
  | nil => simp [List.mapM_nil, pure, Except.pure] at h; subst h; exact Forall2.nil
  | cons a as ih =>
    rw [List.mapM_cons] at h
    cases hv : f a with
    | error e => simp [hv, bind, Except.bind] at h
    | ok b' =>
      cases hm : as.mapM f with
      | error e => simp [hv, hm, bind, Except.bind] at h
      | ok bs =>
        simp [hv, hm, bind, Except.bind, pure, Except.pure] at h
        subst h
        exact Forall2.cons hv (ih bs hm)


theorem mapM_ok_mem {α β ε : Type} (f : α → Except ε β) (l : List α) (out : List β)
    (h : l.mapM f = .ok out) : ∀ b ∈ out, ∃ a ∈ l, f a = .ok b := by
  induction l generalizing out with
  | nil => simp [List.mapM_nil, pure, Except.pure] at h; subst h; simp
  | cons a as ih =>
    rw [List.mapM_cons] at h
    cases hv : f a with
    | error e => simp [hv, bind, Except.bind] at h
    | ok b' =>
      cases hm : as.mapM f with
      | error e => simp [hv, hm, bind, Except.bind] at h
      | ok bs =>
        simp [hv, hm, bind, Except.bind, pure, Except.pure] at h
        subst h
        intro b hb
        rcases List.mem_cons.mp hb with rfl | hb
        · exact ⟨a, by simp, hv⟩
        · obtain ⟨a', ha', hf⟩ := ih bs hm b hb
          exact ⟨a', by simp [ha'], hf⟩

