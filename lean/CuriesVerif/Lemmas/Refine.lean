import CuriesVerif.Lemmas.WF
import CuriesVerif.Lemmas.Trie

/-!
# T0 — the refinement theorem

For a well-formed converter, every query of the index-based model answers exactly what the
specification layer computes from the record list alone.
-/

namespace Spec

theorem mem_matchesU (recs : List Record) (u k : Str) (r : Record) :
    (k, r) ∈ matchesU recs u ↔ r ∈ recs ∧ k ∈ r.allU ∧ k <+: u := by
  unfold matchesU
  simp only [List.mem_flatMap, List.mem_map, List.mem_filter, Prod.mk.injEq]
  constructor
  · rintro ⟨r', hr', k', ⟨hk', hp⟩, rfl, rfl⟩
    exact ⟨hr', hk', by simpa using hp⟩
  · rintro ⟨hr, hk, hp⟩
    exact ⟨r, hr, k, ⟨hk, by simpa using hp⟩, rfl, rfl⟩

theorem foldl_longer (l : List (Str × Record)) (b : Option (Str × Record)) :
    match l.foldl longer b with
    | none => b = none ∧ l = []
    | some kr => (b = some kr ∨ kr ∈ l) ∧ (∀ x ∈ l, x.1.length ≤ kr.1.length) ∧
        (∀ y, b = some y → y.1.length ≤ kr.1.length) := by
  induction l generalizing b with
  | nil =>
    cases b with
    | none => simp
    | some y => simp
  | cons x xs ih =>
    simp only [List.foldl_cons]
    have ih' := ih (longer b x)
    cases hres : List.foldl longer (longer b x) xs with
    | none =>
      rw [hres] at ih'
      cases b with
      | none => simp [longer] at ih'
      | some y =>
        simp only [longer] at ih'
        split at ih' <;> simp at ih'
    | some kr =>
      rw [hres] at ih'
      obtain ⟨h1, h2, h3⟩ := ih'
      simp only
      cases b with
      | none =>
        simp only [longer] at h1 h3
        refine ⟨?_, ?_, by simp⟩
        · rcases h1 with h1 | h1
          · right; simp at h1; simp [h1]
          · right; simp [h1]
        · intro z hz
          rcases List.mem_cons.mp hz with rfl | hz
          · exact h3 _ rfl
          · exact h2 z hz
      | some y =>
        simp only [longer] at h1 h3
        by_cases hlt : y.1.length < x.1.length
        · simp only [hlt, if_true] at h1 h3
          have hx := h3 x rfl
          refine ⟨?_, ?_, ?_⟩
          · rcases h1 with h1 | h1
            · right; simp at h1; simp [h1]
            · right; simp [h1]
          · intro z hz
            rcases List.mem_cons.mp hz with rfl | hz
            · exact hx
            · exact h2 z hz
          · intro y' hy'; simp at hy'; subst hy'; omega
        · simp only [hlt, if_false] at h1 h3
          have hy := h3 y rfl
          refine ⟨?_, ?_, ?_⟩
          · rcases h1 with h1 | h1
            · left; exact h1
            · right; simp [h1]
          · intro z hz
            rcases List.mem_cons.mp hz with rfl | hz
            · omega
            · exact h2 z hz
          · intro y' hy'; simp at hy'; subst hy'; exact hy

theorem longest_none_iff (recs : List Record) (u : Str) :
    longest recs u = none ↔ matchesU recs u = [] := by
  unfold longest
  have := foldl_longer (matchesU recs u) none
  constructor
  · intro h; rw [h] at this; exact this.2
  · intro h; rw [h]; rfl

/-- `longest` returns a registered URI prefix of `u` of maximal length, with its owner -/
theorem longest_some {recs : List Record} {u : Str} {kr : Str × Record} (h : longest recs u = some kr) :
    kr ∈ matchesU recs u ∧ ∀ x ∈ matchesU recs u, x.1.length ≤ kr.1.length := by
  unfold longest at h
  have := foldl_longer (matchesU recs u) none
  rw [h] at this
  obtain ⟨h1, h2, _⟩ := this
  rcases h1 with h1 | h1
  · cases h1
  · exact ⟨h1, h2⟩

theorem ownerP_some {recs : List Record} {p : Str} {r : Record} (h : ownerP recs p = some r) :
    r ∈ recs ∧ p ∈ r.allP := by
  unfold ownerP at h
  exact ⟨List.mem_of_find?_eq_some h, by simpa using List.find?_some h⟩

theorem ownerU_some {recs : List Record} {k : Str} {r : Record} (h : ownerU recs k = some r) :
    r ∈ recs ∧ k ∈ r.allU := by
  unfold ownerU at h
  exact ⟨List.mem_of_find?_eq_some h, by simpa using List.find?_some h⟩

theorem ownerP_none {recs : List Record} {p : Str} (h : ownerP recs p = none) :
    ∀ r ∈ recs, p ∉ r.allP := by
  unfold ownerP at h
  intro r hr
  have := List.find?_eq_none.mp h r hr
  simpa using this

theorem ownerU_none {recs : List Record} {k : Str} (h : ownerU recs k = none) :
    ∀ r ∈ recs, k ∉ r.allU := by
  unfold ownerU at h
  intro r hr
  have := List.find?_eq_none.mp h r hr
  simpa using this

end Spec

open Spec

theorem ownerP_of_mem {recs : List Record} (hu : Unique recs) {r : Record} {p : Str}
    (hr : r ∈ recs) (hp : p ∈ r.allP) : ownerP recs p = some r := by
  induction recs with
  | nil => cases hr
  | cons a as ih =>
    have hpw := List.pairwise_cons.mp hu
    unfold ownerP
    simp only [List.find?_cons]
    by_cases hpa : p ∈ a.allP
    · have : a.allP.contains p = true := by simpa using hpa
      simp only [this]
      rcases List.mem_cons.mp hr with rfl | hr'
      · rfl
      · exact absurd hp ((hpw.1 r hr').1 p hpa)
    · have : a.allP.contains p = false := by simpa using hpa
      simp only [this]
      rcases List.mem_cons.mp hr with rfl | hr'
      · exact absurd hp hpa
      · exact ih hpw.2 hr'

theorem ownerU_of_mem {recs : List Record} (hu : Unique recs) {r : Record} {k : Str}
    (hr : r ∈ recs) (hk : k ∈ r.allU) : ownerU recs k = some r := by
  induction recs with
  | nil => cases hr
  | cons a as ih =>
    have hpw := List.pairwise_cons.mp hu
    unfold ownerU
    simp only [List.find?_cons]
    by_cases hka : k ∈ a.allU
    · have : a.allU.contains k = true := by simpa using hka
      simp only [this]
      rcases List.mem_cons.mp hr with rfl | hr'
      · rfl
      · exact absurd hk ((hpw.1 r hr').2 k hka)
    · have : a.allU.contains k = false := by simpa using hka
      simp only [this]
      rcases List.mem_cons.mp hr with rfl | hr'
      · exact absurd hk hka
      · exact ih hpw.2 hr'

/-- the trie lookup of the model is the brute-force longest match of the specification -/
theorem lpi_refine {c : Conv} (h : WF c) (u : Str) :
    Conv.lpi c.trie u = (longest c.records u).map fun kr => (kr.1, kr.2.pfx) := by
  cases hl : longest c.records u with
  | none =>
    have hm := (longest_none_iff _ _).mp hl
    simp only [Option.map_none]
    rw [Conv.lpi_none]
    intro k' hk'
    rw [h.mirror.tr]
    cases ho : ownerU c.records k' with
    | none => rfl
    | some r =>
      have ⟨hr, hk⟩ := ownerU_some ho
      have : (k', r) ∈ matchesU c.records u := (mem_matchesU _ _ _ _).mpr ⟨hr, hk, hk'⟩
      rw [hm] at this; cases this
  | some kr =>
    obtain ⟨k, r⟩ := kr
    have ⟨hmem, hmax⟩ := longest_some hl
    have ⟨hr, hk, hp⟩ := (mem_matchesU _ _ _ _).mp hmem
    simp only [Option.map_some]
    rw [Conv.lpi_some]
    refine ⟨hp, ?_, ?_⟩
    · rw [h.mirror.tr, ownerU_of_mem h.unique hr hk]; rfl
    · intro k' hk' hs
      rw [h.mirror.tr] at hs
      cases ho : ownerU c.records k' with
      | none => simp [ho] at hs
      | some r' =>
        have ⟨hr', hkk'⟩ := ownerU_some ho
        exact hmax (k', r') ((mem_matchesU _ _ _ _).mpr ⟨hr', hkk', hk'⟩)

/-! ### per-method refinement -/

section methods
variable {c : Conv} (h : WF c)
include h

theorem parseUri_eq (u : Str) (s : Bool) :
    c.parseUri u s = match Spec.parseUri c.records u with
      | some r => .ok (some r)
      | none => if s then .error .compression else .ok none := by
  unfold Conv.parseUri Spec.parseUri
  rw [lpi_refine h]
  cases longest c.records u with
  | none => rfl
  | some kr => rfl

theorem compress_eq (u : Str) (s p : Bool) :
    c.compress u s p = match Spec.compress c.records c.delim u with
      | some x => .ok (some x)
      | none => Conv.modeTail s p .compression u := by
  unfold Conv.compress Spec.compress
  rw [parseUri_eq h]
  cases Spec.parseUri c.records u with
  | none => rfl
  | some r => rfl

theorem isUri_eq (u : Str) : c.isUri u = (Spec.parseUri c.records u).isSome := by
  unfold Conv.isUri
  rw [compress_eq h]
  unfold Spec.compress
  cases Spec.parseUri c.records u with
  | none => rfl
  | some r => rfl

theorem standardizePrefix_eq (p : Str) (s pt : Bool) :
    c.standardizePrefix p s pt = match Spec.standardizePrefix c.records p with
      | some x => .ok (some x)
      | none => Conv.modeTail s pt .prefixStd p := by
  unfold Conv.standardizePrefix Spec.standardizePrefix
  rw [h.mirror.sp]
  cases ownerP c.records p <;> rfl

omit h in
theorem split_eq (hd : c.delim ≠ []) (s : Str) :
    Conv.split c.delim s = match partition? c.delim s with
      | some x => .ok x
      | none => .error .noDelimiter := by
  unfold Conv.split
  have : c.delim.isEmpty = false := by
    cases hc : c.delim with
    | nil => exact absurd hc hd
    | cons _ _ => rfl
  simp only [this]
  rfl

theorem parseCurie_eq (hd : c.delim ≠ []) (x : Str) (s : Bool) :
    c.parseCurie x s = match Spec.parseCurie c.records c.delim x with
      | some r => .ok (some r)
      | none => if s then .error (if (partition? c.delim x).isSome then .prefixStd else .noDelimiter)
                else .ok none := by
  unfold Conv.parseCurie Spec.parseCurie
  rw [split_eq hd]
  cases partition? c.delim x with
  | none => cases s <;> rfl
  | some pi =>
    obtain ⟨p, i⟩ := pi
    simp only [Option.bind_some, Option.isSome_some, if_true]
    rw [h.mirror.sp]
    cases ownerP c.records p <;> cases s <;> rfl

theorem expandReference_eq (r : Str × Str) (s pt : Bool) :
    c.expandReference r s pt = match Spec.expandPair c.records r.1 r.2 with
      | some x => .ok (some x)
      | none => Conv.modeTail s pt .expansion (Spec.format c.delim r.1 r.2) := by
  unfold Conv.expandReference Spec.expandPair
  rw [h.mirror.pm]
  cases ownerP c.records r.1 <;> rfl

theorem expand_eq (hd : c.delim ≠ []) (x : Str) (s pt : Bool) :
    c.expand x s pt = match Spec.expand c.records c.delim x with
      | some v => .ok (some v)
      | none => Conv.modeTail s pt .expansion x := by
  unfold Conv.expand Spec.expand
  rw [parseCurie_eq h hd]
  unfold Spec.parseCurie
  cases hp : partition? c.delim x with
  | none => rfl
  | some pi =>
    obtain ⟨p, i⟩ := pi
    simp only [Option.bind_some]
    cases ho : ownerP c.records p with
    | none => simp [Spec.expandPair, ho]
    | some r =>
      have ⟨hr, _⟩ := ownerP_some ho
      have hself : ownerP c.records r.pfx = some r := ownerP_of_mem h.unique hr (by simp [Record.allP])
      simp only [Option.map_some]
      rw [expandReference_eq h]
      simp [Spec.expandPair, ho, hself]

omit h in
theorem getRecord_eq (p : Str) : c.getRecord p = ownerP c.records p := by
  unfold Conv.getRecord ownerP
  congr 1
  funext r
  simp only [Record.allP, List.contains_cons]
  rw [BEq.comm]

theorem expandPairAll_eq (p i : Str) (s : Bool) :
    c.expandPairAll p i s = match Spec.expandPairAll c.records p i with
      | some l => .ok (some l)
      | none => if s then .error .expansion else .ok none := by
  unfold Conv.expandPairAll Spec.expandPairAll
  rw [getRecord_eq]
  cases ownerP c.records p <;> rfl

theorem expandAll_eq (hd : c.delim ≠ []) (x : Str) (s : Bool) :
    c.expandAll x s = match Spec.expandAll c.records c.delim x with
      | some l => .ok (some l)
      | none => if s then .error .prefixStd else .ok none := by
  unfold Conv.expandAll Spec.expandAll
  rw [parseCurie_eq h hd]
  unfold Spec.parseCurie
  cases hp : partition? c.delim x with
  | none => rfl
  | some pi =>
    obtain ⟨p, i⟩ := pi
    simp only [Option.bind_some]
    cases ho : ownerP c.records p with
    | none => simp [Spec.expandPairAll, ho]
    | some r =>
      have ⟨hr, _⟩ := ownerP_some ho
      have hself : ownerP c.records r.pfx = some r := ownerP_of_mem h.unique hr (by simp [Record.allP])
      simp only [Option.map_some]
      rw [expandPairAll_eq h]
      simp [Spec.expandPairAll, ho, hself]

theorem isCurie_eq (hd : c.delim ≠ []) (x : Str) : c.isCurie x = (Spec.expand c.records c.delim x).isSome := by
  unfold Conv.isCurie
  rw [expand_eq h hd]
  cases Spec.expand c.records c.delim x <;> rfl

theorem isCurie_eq' (hd : c.delim ≠ []) (x : Str) :
    c.isCurie x = (Spec.parseCurie c.records c.delim x).isSome := by
  rw [isCurie_eq h hd]
  unfold Spec.expand Spec.parseCurie Spec.expandPair
  cases partition? c.delim x with
  | none => rfl
  | some pi => simp only [Option.bind_some]; cases ownerP c.records pi.1 <;> rfl

theorem parse_eq (hd : c.delim ≠ []) (x : Str) (s : Bool) :
    c.parse x s = match Spec.parse c.records c.delim x with
      | some r => .ok (some r)
      | none => if s then .error .compression else .ok none := by
  unfold Conv.parse Spec.parse
  rw [isUri_eq h, isCurie_eq' h hd, parseUri_eq h, parseCurie_eq h hd]
  cases Spec.parseUri c.records x with
  | some r => rfl
  | none =>
    simp only [Option.isSome_none]
    cases Spec.parseCurie c.records c.delim x with
    | some r => rfl
    | none => simp

theorem compressOrStandardize_eq (hd : c.delim ≠ []) (x : Str) (s pt : Bool) :
    c.compressOrStandardize x s pt = match Spec.compressOrStandardize c.records c.delim x with
      | some v => .ok (some v)
      | none => Conv.modeTail s pt .compression x := by
  unfold Conv.compressOrStandardize Spec.compressOrStandardize
  rw [parse_eq h hd]
  cases Spec.parse c.records c.delim x with
  | none => rfl
  | some r => rfl

theorem standardizeCurie_eq (hd : c.delim ≠ []) (x : Str) (s pt : Bool) :
    c.standardizeCurie x s pt = match Spec.standardizeCurie c.records c.delim x with
      | some v => .ok (some v)
      | none => Conv.modeTail s pt .curieStd x := by
  unfold Conv.standardizeCurie Spec.standardizeCurie
  rw [parseCurie_eq h hd]
  cases Spec.parseCurie c.records c.delim x with
  | none => rfl
  | some r => rfl

theorem standardizeUri_eq (u : Str) (s pt : Bool) :
    c.standardizeUri u s pt = match Spec.standardizeUri c.records u with
      | some v => .ok (some v)
      | none => Conv.modeTail s pt .uriStd u := by
  unfold Conv.standardizeUri Spec.standardizeUri
  rw [parseUri_eq h]
  unfold Spec.parseUri
  cases hl : longest c.records u with
  | none => rfl
  | some kr =>
    have ⟨hmem, _⟩ := longest_some hl
    have ⟨hr, _, _⟩ := (mem_matchesU _ _ _ _).mp hmem
    have hself : ownerP c.records kr.2.pfx = some kr.2 := ownerP_of_mem h.unique hr (by simp [Record.allP])
    simp only [Option.map_some]
    rw [h.mirror.pm, hself]
    rfl

/-- a parsed reference always carries a canonical prefix of a record of the converter -/
theorem parse_owner (x : Str) (r : Str × Str) (hp : Spec.parse c.records c.delim x = some r) :
    ∃ rec ∈ c.records, rec.pfx = r.1 := by
  unfold Spec.parse at hp
  cases hu : Spec.parseUri c.records x with
  | some r' =>
    rw [hu] at hp
    simp only [Option.some.injEq] at hp
    subst hp
    unfold Spec.parseUri at hu
    cases hl : longest c.records x with
    | none => simp [hl] at hu
    | some kr =>
      simp [hl] at hu
      have ⟨hmem, _⟩ := longest_some hl
      have ⟨hr, _, _⟩ := (mem_matchesU _ _ _ _).mp hmem
      exact ⟨kr.2, hr, by rw [← hu]⟩
  | none =>
    rw [hu] at hp
    simp only at hp
    unfold Spec.parseCurie at hp
    cases hpa : partition? c.delim x with
    | none => simp [hpa] at hp
    | some pi =>
      simp [hpa] at hp
      obtain ⟨rec, ho, rfl⟩ := hp
      exact ⟨rec, (ownerP_some ho).1, rfl⟩

theorem expandOrStandardize_eq (hd : c.delim ≠ []) (x : Str) (s pt : Bool) :
    c.expandOrStandardize x s pt = match Spec.expandOrStandardize c.records c.delim x with
      | some v => .ok (some v)
      | none => Conv.modeTail s pt .expansion x := by
  unfold Conv.expandOrStandardize Spec.expandOrStandardize
  rw [parse_eq h hd]
  cases hp : Spec.parse c.records c.delim x with
  | none => rfl
  | some r =>
    obtain ⟨rec, hrec, hpfx⟩ := parse_owner h x r hp
    have hself : ownerP c.records r.1 = some rec := by
      rw [← hpfx]; exact ownerP_of_mem h.unique hrec (by simp [Record.allP])
    simp only [Option.bind_some]
    rw [expandReference_eq h]
    simp [Spec.expandPair, hself]

end methods

/-! ### the dispatcher -/

theorem ofStr_mode (s pt : Bool) (e : Err) (x : Str) (o : Option Str) :
    Val.ofStr (match o with | some v => .ok (some v) | none => Conv.modeTail s pt e x) = Spec.mode s pt e x o := by
  cases o <;> cases s <;> cases pt <;> rfl

theorem ofPair_mode (s : Bool) (e : Err) (o : Option (Str × Str)) :
    Val.ofPair (match o with | some r => .ok (some r) | none => if s then .error e else .ok none)
      = Spec.modePair s e o := by
  cases o <;> cases s <;> rfl

theorem ofStrs_mode (s : Bool) (e : Err) (o : Option (List Str)) :
    Val.ofStrs (match o with | some r => .ok (some r) | none => if s then .error e else .ok none)
      = Spec.modeStrs s e o := by
  cases o <;> cases s <;> rfl

/-- **T0.** For a well-formed converter with a non-empty delimiter, every specified query of
the model answers exactly what the specification computes from the records alone. -/
theorem T0 {c : Conv} (h : WF c) (hd : c.delim ≠ []) (q : Query) :
    Spec.specified q = true → c.run q = Spec.answer c.records c.delim q := by
  obtain ⟨meth, args, s, pt⟩ := q
  intro hs
  unfold Conv.run Spec.answer
  simp only
  split
  case h_33 =>
    exfalso
    simp only [Spec.specified, Spec.answer] at hs
    cases hs
  case h_32 =>
    -- the structural trie computes the contract (`Trie.lpi_log`), the contract is the specification (`lpi_refine`)
    simp only [Trie.lpi_log, lpi_refine h]
    cases longest c.records _ <;> rfl
  case h_20 =>
    simp only [getRecord_eq]
    cases ownerP c.records _ <;> rfl
  all_goals first
    | rfl
    | (simp only [parseUri_eq h, compress_eq h, isUri_eq h, parseCurie_eq h hd,
        standardizePrefix_eq h, Conv.expandPair, expandReference_eq h, expand_eq h hd, expandPairAll_eq h,
        expandAll_eq h hd, isCurie_eq h hd, parse_eq h hd, compressOrStandardize_eq h hd,
        expandOrStandardize_eq h hd, standardizeCurie_eq h hd, standardizeUri_eq h, Conv.compressStrict,
        Conv.expandStrict, ofStr_mode, ofPair_mode, ofStrs_mode, getRecord_eq]; done)
    | (exfalso; simp [Spec.specified, Spec.answer] at hs)
