import CuriesVerif.Model.Header

/-!
# Splitting an Accept header recovers its elements

`splitOn_joinWith`: joining pieces that do not contain the separator and splitting again is the
identity — used twice (`,` between elements, `;` between a media type and its parameters).
`strip_ows`: optional whitespace around a token is removed and nothing else.
-/

namespace Header

/-- `sep.join(pieces)` for a one-character separator -/
def joinWith (c : Nat) : List Str → Str
  | [] => []
  | [p] => p
  | p :: q :: rest => p ++ c :: joinWith c (q :: rest)

theorem splitOn_ne_nil (c : Nat) (s : Str) : splitOn c s ≠ [] := by
  induction s with
  | nil => simp [splitOn]
  | cons x xs ih =>
    unfold splitOn
    split
    · simp
    · split <;> simp

theorem splitOn_no_sep (c : Nat) (a : Str) (h : c ∉ a) : splitOn c a = [a] := by
  induction a with
  | nil => rfl
  | cons x xs ih =>
    have hx : (x == c) = false := by
      rw [beq_eq_false_iff_ne]
      intro e; exact h (by rw [e]; exact List.mem_cons_self)
    have hxs : c ∉ xs := fun hm => h (List.mem_cons_of_mem _ hm)
    rw [splitOn, hx, ih hxs]
    rfl

theorem splitOn_append (c : Nat) (a b : Str) (h : c ∉ a) : splitOn c (a ++ c :: b) = a :: splitOn c b := by
  induction a with
  | nil =>
    show splitOn c (c :: b) = _
    rw [splitOn]
    simp
  | cons x xs ih =>
    have hx : (x == c) = false := by
      rw [beq_eq_false_iff_ne]
      intro e; exact h (by rw [e]; exact List.mem_cons_self)
    have hxs : c ∉ xs := fun hm => h (List.mem_cons_of_mem _ hm)
    show splitOn c (x :: (xs ++ c :: b)) = _
    rw [splitOn, hx, ih hxs]
    rfl

/-- **Splitting what was joined.** -/
theorem splitOn_joinWith (c : Nat) (ps : List Str) (hne : ps ≠ []) (h : ∀ p ∈ ps, c ∉ p) :
    splitOn c (joinWith c ps) = ps := by
  induction ps with
  | nil => exact absurd rfl hne
  | cons p rest ih =>
    cases rest with
    | nil => exact splitOn_no_sep c p (h p (by simp))
    | cons q rest' =>
      show splitOn c (p ++ c :: joinWith c (q :: rest')) = _
      rw [splitOn_append c p _ (h p (by simp)), ih (by simp) (fun x hx => h x (by simp [hx]))]

/-! ### optional whitespace -/

/-- a token that `strip` leaves alone: empty, or beginning and ending with a non-space character -/
def Stripped (space : Nat → Bool) (t : Str) : Prop :=
  (∀ x, t.head? = some x → space x = false) ∧ (∀ x, t.getLast? = some x → space x = false)

theorem dropWhile_ows (space : Nat → Bool) (l t : Str) (hl : ∀ x ∈ l, space x = true)
    (ht : ∀ x, t.head? = some x → space x = false) : (l ++ t).dropWhile space = t := by
  induction l with
  | nil =>
    cases t with
    | nil => rfl
    | cons x xs =>
      have := ht x rfl
      simp [List.dropWhile, this]
  | cons y ys ih =>
    have hy := hl y (by simp)
    simp only [List.cons_append, List.dropWhile, hy]
    exact ih (fun x hx => hl x (by simp [hx]))

theorem strip_ows (space : Nat → Bool) (l t r : Str) (hl : ∀ x ∈ l, space x = true) (hr : ∀ x ∈ r, space x = true)
    (ht : Stripped space t) : strip space (l ++ t ++ r) = t := by
  unfold strip
  by_cases hte : t = []
  · subst hte
    -- all whitespace: everything is dropped
    have hall : ∀ x ∈ l ++ [] ++ r, space x = true := by
      intro x hx
      simp only [List.append_nil, List.mem_append] at hx
      rcases hx with h | h
      · exact hl x h
      · exact hr x h
    have key : ∀ s : Str, (∀ x ∈ s, space x = true) → s.dropWhile space = [] := by
      intro s
      induction s with
      | nil => intro _; rfl
      | cons y ys ih =>
        intro hs
        simp only [List.dropWhile, hs y (by simp)]
        exact ih (fun x hx => hs x (by simp [hx]))
    rw [key _ hall]; rfl
  · rw [List.append_assoc, dropWhile_ows space l (t ++ r) hl (by
      intro x hx
      cases t with
      | nil => exact absurd rfl hte
      | cons y ys => simp at hx; subst hx; exact ht.1 y rfl)]
    rw [List.reverse_append]
    rw [dropWhile_ows space r.reverse t.reverse (fun x hx => hr x (by simpa using hx)) (by
      intro x hx
      rw [List.head?_reverse] at hx
      exact ht.2 x hx)]
    simp

end Header
