import CuriesVerif.Model.Loaders
import CuriesVerif.Lemmas.Sort
import CuriesVerif.Lemmas.Discover

/-!
# `groupBy` (the `defaultdict(list)` idiom) groups completely and in order
-/

def groupStep (acc : List (Str × List Str)) (kv : Str × Str) : List (Str × List Str) :=
  if acc.any (fun g => g.1 == kv.1) then acc.map (fun g => if g.1 == kv.1 then (g.1, g.2 ++ [kv.2]) else g)
  else acc ++ [(kv.1, [kv.2])]

theorem groupBy_eq (kvs : List (Str × Str)) : groupBy kvs = kvs.foldl groupStep [] := rfl

/-- the values filed under key `k`, in input order -/
def valuesOf (kvs : List (Str × Str)) (k : Str) : List Str := (kvs.filter (·.1 == k)).map (·.2)

structure GroupInv (kvs : List (Str × Str)) (acc : List (Str × List Str)) : Prop where
  keys : (acc.map (·.1)).Nodup
  group : ∀ g ∈ acc, g.2 = valuesOf kvs g.1 ∧ g.2 ≠ []
  cover : ∀ kv ∈ kvs, ∃ g ∈ acc, g.1 = kv.1

theorem valuesOf_append (kvs : List (Str × Str)) (kv : Str × Str) (k : Str) :
    valuesOf (kvs ++ [kv]) k = valuesOf kvs k ++ (if kv.1 == k then [kv.2] else []) := by
  unfold valuesOf
  rw [List.filter_append, List.map_append]
  congr 1
  by_cases h : (kv.1 == k) = true <;> simp [h]

theorem keys_groupStep (acc : List (Str × List Str)) (kv : Str × Str) :
    (groupStep acc kv).map (·.1) = if acc.any (fun g => g.1 == kv.1) then acc.map (·.1) else acc.map (·.1) ++ [kv.1] := by
  unfold groupStep
  by_cases h : (acc.any fun g => g.1 == kv.1) = true
  · rw [if_pos h, if_pos h, List.map_map]
    apply List.map_congr_left
    intro g _
    simp only [Function.comp]
    split <;> rfl
  · rw [if_neg h, if_neg h]; simp

theorem groupInv_step (kvs : List (Str × Str)) (acc : List (Str × List Str)) (kv : Str × Str)
    (h : GroupInv kvs acc) : GroupInv (kvs ++ [kv]) (groupStep acc kv) := by
  by_cases ha : (acc.any fun g => g.1 == kv.1) = true
  · refine ⟨by rw [keys_groupStep, if_pos ha]; exact h.keys, ?_, ?_⟩
    · intro g' hg'
      unfold groupStep at hg'
      rw [if_pos ha] at hg'
      obtain ⟨g, hg, he⟩ := List.mem_map.mp hg'
      have hgi := h.group g hg
      by_cases hk : (g.1 == kv.1) = true
      · rw [if_pos hk] at he
        subst he
        have hk' : (kv.1 == g.1) = true := by
          rw [beq_iff_eq] at hk ⊢; exact hk.symm
        simp only [valuesOf_append, hk', if_true, hgi.1]
        exact ⟨trivial, by simp⟩
      · rw [if_neg hk] at he
        subst he
        have hk' : (kv.1 == g.1) = false := by
          rw [beq_eq_false_iff_ne]
          intro e; exact hk (by rw [beq_iff_eq]; exact e.symm)
        simp only [valuesOf_append, hk', Bool.false_eq_true, if_false, List.append_nil]
        exact hgi
    · intro x hx
      have : ∃ g ∈ acc, g.1 = x.1 := by
        rcases List.mem_append.mp hx with hx | hx
        · exact h.cover x hx
        · simp only [List.mem_singleton] at hx
          subst hx
          obtain ⟨g, hg, he⟩ := List.any_eq_true.mp ha
          exact ⟨g, hg, by simpa using he⟩
      obtain ⟨g, hg, he⟩ := this
      unfold groupStep
      rw [if_pos ha]
      refine ⟨_, List.mem_map.mpr ⟨g, hg, rfl⟩, ?_⟩
      split <;> exact he
  · have hnone : ∀ g ∈ acc, g.1 ≠ kv.1 := by
      intro g hg he
      exact ha (List.any_eq_true.mpr ⟨g, hg, by simp [he]⟩)
    refine ⟨?_, ?_, ?_⟩
    · rw [keys_groupStep, if_neg ha]
      refine List.nodup_append.mpr ⟨h.keys, by simp, ?_⟩
      intro a hm b hb
      simp at hb; subst hb
      intro e; subst e
      obtain ⟨g, hg, he⟩ := List.mem_map.mp hm
      exact hnone g hg he
    · intro g hg
      unfold groupStep at hg
      rw [if_neg ha] at hg
      rcases List.mem_append.mp hg with hg | hg
      · have hk' : (kv.1 == g.1) = false := by
          have := hnone g hg
          simp only [beq_eq_false_iff_ne, ne_eq]
          exact fun e => this e.symm
        simp only [valuesOf_append, hk', Bool.false_eq_true, if_false, List.append_nil]
        exact h.group g hg
      · simp only [List.mem_singleton] at hg
        subst hg
        have hempty : valuesOf kvs kv.1 = [] := by
          unfold valuesOf
          rw [List.map_eq_nil_iff, List.filter_eq_nil_iff]
          intro x hx hxk
          obtain ⟨g, hg, he⟩ := h.cover x hx
          exact hnone g hg (he.trans (by simpa using hxk))
        simp [valuesOf_append, hempty]
    · intro x hx
      unfold groupStep
      rw [if_neg ha]
      rcases List.mem_append.mp hx with hx | hx
      · obtain ⟨g, hg, he⟩ := h.cover x hx
        exact ⟨g, List.mem_append.mpr (Or.inl hg), he⟩
      · simp only [List.mem_singleton] at hx
        subst hx
        exact ⟨(x.1, [x.2]), List.mem_append.mpr (Or.inr (by simp)), rfl⟩

theorem groupInv_fold (rest seen : List (Str × Str)) (acc : List (Str × List Str)) (h : GroupInv seen acc) :
    GroupInv (seen ++ rest) (rest.foldl groupStep acc) := by
  induction rest generalizing seen acc with
  | nil => simpa using h
  | cons kv rest ih =>
    simp only [List.foldl_cons]
    have := ih (seen ++ [kv]) _ (groupInv_step seen acc kv h)
    simpa using this

/-- **`groupBy` is complete and order-preserving**: the keys are distinct, every input key has a
group, and the group of `k` holds exactly the values filed under `k`, in input order. -/
theorem groupInv_groupBy (kvs : List (Str × Str)) : GroupInv kvs (groupBy kvs) := by
  rw [groupBy_eq]
  have := groupInv_fold kvs [] [] ⟨by simp, by simp, by simp⟩
  simpa using this
