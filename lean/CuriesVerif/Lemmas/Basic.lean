import CuriesVerif.Basic

/-! # Lemmas about the core conventions (association-list dicts, `partition`) -/

namespace Dict
variable {β : Type}

@[simp] theorem get_nil (k : Str) : get ([] : Dict β) k = none := rfl

theorem get_set (d : Dict β) (k k' : Str) (v : β) :
    get (set d k v) k' = if k = k' then some v else get d k' := by
  by_cases h : k = k' <;> simp [get, set, h]

@[simp] theorem get_set_same (d : Dict β) (k : Str) (v : β) : get (set d k v) k = some v := by
  simp [get_set]

theorem get_setAll (d : Dict β) (ks : List Str) (v : β) (k' : Str) :
    get (setAll d ks v) k' = if k' ∈ ks then some v else get d k' := by
  induction ks generalizing d with
  | nil => simp [setAll]
  | cons k ks ih =>
    have ih' := ih (set d k v)
    simp only [setAll, List.foldl_cons] at ih' ⊢
    rw [ih', get_set]
    by_cases h1 : k' ∈ ks
    · simp [h1]
    · by_cases h2 : k = k'
      · subst h2; simp
      · have : k' ≠ k := fun h => h2 h.symm
        simp [h1, h2, this]

/-- one `_index`-style update: the canonical key, then the synonym keys, all to the same value -/
theorem get_set_setAll (d : Dict β) (k : Str) (ks : List Str) (v : β) (k' : Str) :
    get (setAll (set d k v) ks v) k' = if k' ∈ k :: ks then some v else get d k' := by
  rw [get_setAll, get_set]
  by_cases h1 : k' ∈ ks
  · simp [h1]
  · by_cases h2 : k = k'
    · subst h2; simp
    · have : k' ≠ k := fun h => h2 h.symm
      simp [h1, h2, this]

theorem has_eq (d : Dict β) (k : Str) : has d k = (get d k).isSome := rfl

end Dict

theorem prefix_of_prefix_append (d x y : Str) (h : d <+: x ++ y) (hl : d.length ≤ x.length) : d <+: x :=
  List.prefix_of_prefix_length_le h (List.prefix_append x y) hl

theorem DelimOK.tail {d : Str} {c : Nat} {p : Str} (h : DelimOK d (c :: p)) : DelimOK d p := by
  intro i hi
  have := h (i + 1) (by simp; omega)
  simpa using this

theorem firstOcc_append_of_delimOK (d p i : Str) (hd : d ≠ []) (h : DelimOK d p) :
    firstOcc d (p ++ d ++ i) = some p.length := by
  induction p with
  | nil =>
    cases hdi : ([] ++ d ++ i) with
    | nil => simp at hdi; exact absurd hdi.1 hd
    | cons c s =>
      simp only [firstOcc]
      have : d <+: c :: s := by rw [← hdi]; simp
      simp [this]
  | cons c p ih =>
    have h0 : ¬ d <+: (c :: (p ++ d ++ i)) := by
      intro hpre
      have h00 := h 0 (by simp)
      apply h00
      simp only [List.drop_zero]
      have hpre' : d <+: (c :: p ++ d) ++ i := by simpa using hpre
      exact prefix_of_prefix_append d _ i hpre' (by simp; omega)
    have : firstOcc d (c :: p ++ d ++ i) = (firstOcc d (p ++ d ++ i)).map (· + 1) := by
      show firstOcc d (c :: (p ++ d ++ i)) = _
      have h0' : d.isPrefixOf (c :: (p ++ d ++ i)) = false := by
        cases hh : d.isPrefixOf (c :: (p ++ d ++ i)) with
        | false => rfl
        | true => exact absurd (List.isPrefixOf_iff_prefix.mp hh) h0
      simp only [firstOcc, h0']
      simp
    rw [this, ih h.tail]
    simp

/-- `partition` recovers prefix and identifier, for *every* identifier (also one containing
the delimiter), exactly when the delimiter does not start inside the prefix. -/
theorem partition?_append (d p i : Str) (hd : d ≠ []) (h : DelimOK d p) :
    partition? d (p ++ d ++ i) = some (p, i) := by
  have := firstOcc_append_of_delimOK d p i hd h
  simp only [partition?, this, Option.map_some]
  simp [List.append_assoc]

/-- one-symbol delimiter: `DelimOK` is just "the symbol does not occur". -/
theorem delimOK_single (a : Nat) (p : Str) (h : a ∉ p) : DelimOK [a] p := by
  intro i hi hpre
  have : (p ++ [a]).drop i = p.drop i ++ [a] := by
    rw [List.drop_append_of_le_length (by omega)]
  rw [this] at hpre
  cases hp : p.drop i with
  | nil => have := List.drop_eq_nil_iff.mp hp; omega
  | cons b t =>
    rw [hp] at hpre
    have hb : a = b := by simpa using hpre
    have : b ∈ p := List.mem_of_mem_drop (by rw [hp]; simp)
    exact h (hb ▸ this)

/-- what `partition` returns is a decomposition of the input at an occurrence of the delimiter -/
theorem firstOcc_spec (d : Str) : ∀ (s : Str) (n : Nat), firstOcc d s = some n →
    s = s.take n ++ d ++ s.drop (n + d.length)
  | [], n, h => by
    simp only [firstOcc] at h
    split at h
    · simp_all
    · simp at h
  | c :: s, n, h => by
    simp only [firstOcc] at h
    split at h
    · rename_i hp
      have hn : n = 0 := by simpa using h.symm
      subst hn
      have hp' : d <+: c :: s := by simpa using hp
      obtain ⟨t, ht⟩ := hp'
      simp only [List.take_zero, List.nil_append, Nat.zero_add]
      rw [← ht]; simp
    · cases hs : firstOcc d s with
      | none => simp [hs] at h
      | some m =>
        simp [hs] at h
        subst h
        have ih := firstOcc_spec d s m hs
        simp only [List.take_succ_cons, List.cons_append]
        have : m + 1 + d.length = (m + d.length) + 1 := by omega
        rw [this, List.drop_succ_cons]
        rw [← List.cons_append, ← List.cons_append] 
        congr 1

theorem partition?_spec (d s p i : Str) (h : partition? d s = some (p, i)) : s = p ++ d ++ i := by
  unfold partition? at h
  cases hf : firstOcc d s with
  | none => simp [hf] at h
  | some n =>
    simp [hf] at h
    obtain ⟨rfl, rfl⟩ := h
    exact firstOcc_spec d s n hf
