import CuriesVerif.Model.Json
import CuriesVerif.Lemmas.Sort

/-!
# `parse (render v) = v` for the JSON text model

For every value whose strings consist of Unicode scalar values (no surrogate code points — a `str` holding them
cannot be written to a UTF-8 file, and `json` itself does not round-trip them), every `indent` and both escaping
modes, reading the written text gives the value back.
-/

namespace JsonText

/-- a Unicode scalar value -/
def Scalar (c : Nat) : Prop := c < 1114112 ∧ ¬ (55296 ≤ c ∧ c ≤ 57343)

/-! ### hexadecimal -/

theorem hexVal_hexDigit (d : Nat) (h : d < 16) : hexVal (hexDigit d) = some d := by
  have : ∀ d : Fin 16, hexVal (hexDigit d.val) = some d.val := by decide
  exact this ⟨d, h⟩

theorem parseHex4_hex4 (n : Nat) (h : n < 65536) (t : Str) : parseHex4 (hex4 n ++ t) = some (n, t) := by
  unfold hex4
  simp only [List.cons_append, List.nil_append, parseHex4]
  rw [hexVal_hexDigit _ (Nat.mod_lt _ (by decide)), hexVal_hexDigit _ (Nat.mod_lt _ (by decide)),
    hexVal_hexDigit _ (Nat.mod_lt _ (by decide)), hexVal_hexDigit _ (Nat.mod_lt _ (by decide))]
  simp only [Option.some.injEq, Prod.mk.injEq, and_true]
  omega

/-! ### string literals -/

theorem escChar_length_pos (ascii : Bool) (c : Nat) : 1 ≤ (escChar ascii c).length := by
  unfold escChar uEsc hex4
  grind

theorem escBody_length (ascii : Bool) (s : Str) : s.length ≤ (escBody ascii s).length := by
  induction s with
  | nil => simp [escBody]
  | cons c s ih =>
    have := escChar_length_pos ascii c
    simp only [escBody, List.flatMap_cons, List.length_append, List.length_cons] at *
    omega

theorem strBody_escBody (ascii : Bool) (s : Str) (hs : ∀ c ∈ s, Scalar c) (rest : Str) (n : Nat)
    (hn : s.length + 1 ≤ n) : strBody n (escBody ascii s ++ 34 :: rest) = some (s, rest) := by
  induction s generalizing n with
  | nil =>
    obtain ⟨m, rfl⟩ : ∃ m, n = m + 1 := ⟨n - 1, by simp at hn; omega⟩
    simp [escBody, strBody]
  | cons c s ih =>
    obtain ⟨m, rfl⟩ : ∃ m, n = m + 1 := ⟨n - 1, by simp at hn; omega⟩
    have hm : s.length + 1 ≤ m := by simp at hn; omega
    have ih' := ih (fun x hx => hs x (by simp [hx])) m hm
    have hc := hs c (by simp)
    simp only [escBody, List.flatMap_cons, List.append_assoc] at *
    generalize List.flatMap (escChar ascii) s ++ 34 :: rest = X at ih' ⊢
    unfold escChar
    by_cases h34 : c = 34
    · subst h34; simp [strBody, unesc, ih']
    by_cases h92 : c = 92
    · subst h92; simp [strBody, unesc, ih']
    by_cases h10 : c = 10
    · subst h10; simp [strBody, unesc, ih']
    by_cases h13 : c = 13
    · subst h13; simp [strBody, unesc, ih']
    by_cases h9 : c = 9
    · subst h9; simp [strBody, unesc, ih']
    by_cases h8 : c = 8
    · subst h8; simp [strBody, unesc, ih']
    by_cases h12 : c = 12
    · subst h12; simp [strBody, unesc, ih']
    simp only [h34, h92, h10, h13, h9, h8, h12, if_false]
    by_cases h32 : c < 32
    · simp only [h32, if_true, uEsc, List.cons_append]
      rw [strBody]
      simp only [show (92 : Nat) ≠ 34 by decide, if_false, if_true]
      rw [parseHex4_hex4 c (by omega)]
      have : ¬ (55296 ≤ c ∧ c ≤ 56319) := by omega
      simp only [this, if_false, ih', Option.map_some]
    simp only [h32, if_false]
    by_cases hA : ascii = true ∧ 126 < c
    · simp only [hA, and_self, if_true]
      by_cases h16 : c < 65536
      · simp only [h16, if_true, uEsc, List.cons_append]
        rw [strBody]
        simp only [show (92 : Nat) ≠ 34 by decide, if_false, if_true]
        rw [parseHex4_hex4 c h16]
        have : ¬ (55296 ≤ c ∧ c ≤ 56319) := by
          have := hc.2; omega
        simp only [this, if_false, ih', Option.map_some]
      · simp only [h16, if_false, uEsc, List.cons_append, List.append_assoc]
        have hlt := hc.1
        rw [strBody]
        simp only [show (92 : Nat) ≠ 34 by decide, if_false, if_true]
        rw [parseHex4_hex4 _ (by omega)]
        have hhi : 55296 ≤ 55296 + (c - 65536) / 1024 ∧ 55296 + (c - 65536) / 1024 ≤ 56319 := by omega
        simp only [hhi, and_self, if_true]
        rw [parseHex4_hex4 _ (by omega)]
        have hlo : 56320 ≤ 56320 + (c - 65536) % 1024 ∧ 56320 + (c - 65536) % 1024 ≤ 57343 := by omega
        simp only [hlo, and_self, if_true, ih', Option.map_some]
        have : 65536 + ((55296 + (c - 65536) / 1024 - 55296) * 1024 + (56320 + (c - 65536) % 1024 - 56320)) = c := by omega
        rw [this]
    · simp only [hA, if_false, List.cons_append, List.nil_append]
      simp only [strBody, h34, h92, h32, if_false, ih', Option.map_some]

/-! ### whitespace and first characters -/

theorem skipWs_of_not_ws (c : Nat) (t : Str) (h : isWs c = false) : skipWs (c :: t) = c :: t := by
  simp [skipWs, h]

theorem skipWs_replicate (k : Nat) (x : Str) : skipWs (List.replicate k 32 ++ x) = skipWs x := by
  induction k with
  | zero => rfl
  | succ k ih => simp [List.replicate_succ, skipWs, isWs, ih]

theorem skipWs_nl (cfg : Cfg) (l : Nat) (x : Str) : skipWs (nl cfg l ++ x) = skipWs x := by
  unfold nl
  cases cfg.indent with
  | none => rfl
  | some k => simp [skipWs, isWs, skipWs_replicate]

/-- a character a rendered value can start with -/
def Opener (c : Nat) : Prop := c = 34 ∨ c = 91 ∨ c = 123 ∨ c = 110 ∨ c = 116 ∨ c = 102

theorem Opener.not_ws {c : Nat} (h : Opener c) : isWs c = false := by
  rcases h with rfl | rfl | rfl | rfl | rfl | rfl <;> rfl

theorem render_head (cfg : Cfg) (l : Nat) (v : JV) : ∃ c t, render cfg l v = c :: t ∧ Opener c := by
  cases v with
  | null => exact ⟨110, [117, 108, 108], by simp [render], by simp [Opener]⟩
  | bool b =>
    cases b
    · exact ⟨102, [97, 108, 115, 101], by simp [render], by simp [Opener]⟩
    · exact ⟨116, [114, 117, 101], by simp [render], by simp [Opener]⟩
  | str s => exact ⟨34, escBody cfg.ascii s ++ [34], by simp [render, renderStr], by simp [Opener]⟩
  | arr xs =>
    cases xs with
    | nil => exact ⟨91, [93], by simp [render], by simp [Opener]⟩
    | cons x xs => exact ⟨91, _, by rw [render], by simp [Opener]⟩
  | obj kvs =>
    cases kvs with
    | nil => exact ⟨123, [125], by simp [render], by simp [Opener]⟩
    | cons kv kvs => obtain ⟨k, v⟩ := kv; exact ⟨123, _, by rw [render], by simp [Opener]⟩

theorem skipWs_render (cfg : Cfg) (l : Nat) (v : JV) (x : Str) :
    skipWs (render cfg l v ++ x) = render cfg l v ++ x := by
  obtain ⟨c, t, e, hc⟩ := render_head cfg l v
  rw [e, List.cons_append, skipWs_of_not_ws _ _ hc.not_ws]

/-! ### sizes (the fuel the reader needs) -/

mutual
def size : JV → Nat
  | .arr xs => 2 + sizeList xs
  | .obj kvs => 2 + sizeMembers kvs
  | _ => 1
def sizeList : List JV → Nat
  | [] => 0
  | x :: xs => size x + sizeList xs
def sizeMembers : List (Str × JV) → Nat
  | [] => 0
  | (_, v) :: kvs => size v + sizeMembers kvs
end

theorem size_pos (v : JV) : 1 ≤ size v := by
  cases v <;> simp [size] <;> omega

mutual
/-- every string of the value — keys included — consists of Unicode scalar values -/
def Wf : JV → Prop
  | .str s => ∀ c ∈ s, Scalar c
  | .arr xs => WfList xs
  | .obj kvs => WfMembers kvs
  | _ => True
def WfList : List JV → Prop
  | [] => True
  | x :: xs => Wf x ∧ WfList xs
def WfMembers : List (Str × JV) → Prop
  | [] => True
  | (k, v) :: kvs => (∀ c ∈ k, Scalar c) ∧ Wf v ∧ WfMembers kvs
end

theorem Opener.ne_close {c : Nat} (h : Opener c) : c ≠ 93 ∧ c ≠ 125 := by
  rcases h with rfl | rfl | rfl | rfl | rfl | rfl <;> decide

theorem itemSep_eq (cfg : Cfg) (l : Nat) : ∃ ws, itemSep cfg l = 44 :: ws ∧ ∀ x, skipWs (ws ++ x) = skipWs x := by
  unfold itemSep
  cases h : cfg.indent with
  | none => exact ⟨[32], rfl, fun x => by simp [skipWs, isWs]⟩
  | some k =>
    refine ⟨nl cfg l, rfl, fun x => skipWs_nl cfg l x⟩

/-! ### one step of each reader loop -/

theorem parseValue_str (m : Nat) (t : Str) :
    parseValue (m + 1) (34 :: t) = (strBody (t.length + 1) t).map fun (s, r) => (JV.str s, r) := by
  simp [parseValue]

theorem parseValue_arr_nonempty (m : Nat) (t : Str) (c : Nat) (r : Str) (h : skipWs t = c :: r) (hc : c ≠ 93) :
    parseValue (m + 1) (91 :: t) = (parseElems m (c :: r)).map fun (xs, r') => (JV.arr xs, r') := by
  simp [parseValue, h, hc]

theorem parseValue_obj_nonempty (m : Nat) (t : Str) (c : Nat) (r : Str) (h : skipWs t = c :: r) (hc : c ≠ 125) :
    parseValue (m + 1) (123 :: t) = (parseMembers m (c :: r)).map fun (kvs, r') => (JV.obj kvs, r') := by
  simp [parseValue, h, hc]

theorem parseElems_more (n : Nat) (inp : Str) (v : JV) (r r' : Str) (h1 : parseValue n inp = some (v, r))
    (h2 : skipWs r = 44 :: r') :
    parseElems (n + 1) inp = (parseElems n (skipWs r')).map fun (vs, r'') => (v :: vs, r'') := by
  simp [parseElems, h1, h2]

theorem parseElems_last (n : Nat) (inp : Str) (v : JV) (r r' : Str) (h1 : parseValue n inp = some (v, r))
    (h2 : skipWs r = 93 :: r') : parseElems (n + 1) inp = some ([v], r') := by
  simp [parseElems, h1, h2]

theorem parseMembers_more (n : Nat) (t : Str) (k : Str) (v : JV) (r r1 r2 r3 : Str)
    (hk : strBody (t.length + 1) t = some (k, r)) (hc : skipWs r = 58 :: r1)
    (hv : parseValue n (skipWs r1) = some (v, r2)) (h2 : skipWs r2 = 44 :: r3) :
    parseMembers (n + 1) (34 :: t) = (parseMembers n (skipWs r3)).map fun (kvs, r4) => ((k, v) :: kvs, r4) := by
  simp [parseMembers, hk, hc, hv, h2]

theorem parseMembers_last (n : Nat) (t : Str) (k : Str) (v : JV) (r r1 r2 r3 : Str)
    (hk : strBody (t.length + 1) t = some (k, r)) (hc : skipWs r = 58 :: r1)
    (hv : parseValue n (skipWs r1) = some (v, r2)) (h2 : skipWs r2 = 125 :: r3) :
    parseMembers (n + 1) (34 :: t) = some ([(k, v)], r3) := by
  simp [parseMembers, hk, hc, hv, h2]

/-- a key and its separator, then whatever follows -/
theorem key_read (ascii : Bool) (k : Str) (hk : ∀ c ∈ k, Scalar c) (x : Str) :
    ∃ t, renderStr ascii k ++ (keySep ++ x) = 34 :: t ∧
      strBody (t.length + 1) t = some (k, 58 :: 32 :: x) := by
  refine ⟨escBody ascii k ++ 34 :: (58 :: 32 :: x), by simp [renderStr, keySep], ?_⟩
  apply strBody_escBody ascii k hk
  have := escBody_length ascii k
  simp only [List.length_append, List.length_cons]
  omega

/-! ### the reader reads what the writer wrote -/

/-- the text of the elements of a non-empty array between `[` + newline and the closing newline -/
def elemsText (cfg : Cfg) (l : Nat) : List JV → Str
  | [] => []
  | x :: xs => render cfg l x ++ renderElems cfg l xs

def membersText (cfg : Cfg) (l : Nat) : List (Str × JV) → Str
  | [] => []
  | (k, v) :: kvs => renderStr cfg.ascii k ++ (keySep ++ (render cfg l v ++ renderMembers cfg l kvs))

mutual
theorem parseValue_render (cfg : Cfg) : ∀ (v : JV) (l : Nat) (rest : Str) (n : Nat), Wf v → size v ≤ n →
    parseValue n (render cfg l v ++ rest) = some (v, rest)
  | .null, l, rest, n, _, hn => by
    obtain ⟨m, rfl⟩ : ∃ m, n = m + 1 := ⟨n - 1, by simp [size] at hn; omega⟩
    simp [render, parseValue]
  | .bool true, l, rest, n, _, hn => by
    obtain ⟨m, rfl⟩ : ∃ m, n = m + 1 := ⟨n - 1, by simp [size] at hn; omega⟩
    simp [render, parseValue]
  | .bool false, l, rest, n, _, hn => by
    obtain ⟨m, rfl⟩ : ∃ m, n = m + 1 := ⟨n - 1, by simp [size] at hn; omega⟩
    simp [render, parseValue]
  | .str s, l, rest, n, hw, hn => by
    obtain ⟨m, rfl⟩ : ∃ m, n = m + 1 := ⟨n - 1, by simp [size] at hn; omega⟩
    have hs : ∀ c ∈ s, Scalar c := by simpa [Wf] using hw
    simp only [render, renderStr, List.cons_append, List.append_assoc, List.nil_append]
    rw [parseValue_str, strBody_escBody cfg.ascii s hs rest]
    · rfl
    · have := escBody_length cfg.ascii s
      simp only [List.length_append, List.length_cons]
      omega
  | .arr [], l, rest, n, _, hn => by
    obtain ⟨m, rfl⟩ : ∃ m, n = m + 1 := ⟨n - 1, by simp [size] at hn; omega⟩
    simp [render, parseValue, skipWs, isWs]
  | .arr (x :: xs), l, rest, n, hw, hn => by
    obtain ⟨m, rfl⟩ : ∃ m, n = m + 1 := ⟨n - 1, by simp [size] at hn; omega⟩
    have hw' : WfList (x :: xs) := by simpa [Wf] using hw
    have hm : 1 + sizeList (x :: xs) ≤ m := by simp [size] at hn; omega
    have hB := parseElems_render cfg (x :: xs) (l + 1) l rest m hw' hm (by simp)
    rw [render]
    simp only [List.cons_append, List.append_assoc, List.nil_append]
    obtain ⟨c, t, e, hc⟩ := render_head cfg (l + 1) x
    rw [parseValue_arr_nonempty m _ c (t ++ (renderElems cfg (l + 1) xs ++ (nl cfg l ++ 93 :: rest))) ?_ hc.ne_close.1]
    · simp only [elemsText, e, List.cons_append, List.append_assoc] at hB
      rw [hB]
      rfl
    · rw [skipWs_nl, skipWs_render, e, List.cons_append]
  | .obj [], l, rest, n, _, hn => by
    obtain ⟨m, rfl⟩ : ∃ m, n = m + 1 := ⟨n - 1, by simp [size] at hn; omega⟩
    simp [render, parseValue, skipWs, isWs]
  | .obj ((k, v) :: kvs), l, rest, n, hw, hn => by
    obtain ⟨m, rfl⟩ : ∃ m, n = m + 1 := ⟨n - 1, by simp [size] at hn; omega⟩
    have hw' : WfMembers ((k, v) :: kvs) := by simpa [Wf] using hw
    have hm : 1 + sizeMembers ((k, v) :: kvs) ≤ m := by simp [size] at hn; omega
    have hC := parseMembers_render cfg ((k, v) :: kvs) (l + 1) l rest m hw' hm (by simp)
    rw [render]
    simp only [List.cons_append, List.append_assoc, List.nil_append]
    rw [parseValue_obj_nonempty m _ 34 (escBody cfg.ascii k ++ 34 :: (keySep ++ (render cfg (l + 1) v ++
        (renderMembers cfg (l + 1) kvs ++ (nl cfg l ++ 125 :: rest))))) ?_ (by decide)]
    · simp only [membersText, renderStr, List.cons_append, List.append_assoc, List.nil_append] at hC
      rw [hC]
      rfl
    · rw [skipWs_nl]
      simp [renderStr, skipWs, isWs]
theorem parseElems_render (cfg : Cfg) : ∀ (xs : List JV) (l l' : Nat) (rest : Str) (n : Nat), WfList xs →
    1 + sizeList xs ≤ n → xs ≠ [] →
    parseElems n (elemsText cfg l xs ++ (nl cfg l' ++ 93 :: rest)) = some (xs, rest)
  | [], _, _, _, _, _, _, hne => absurd rfl hne
  | [x], l, l', rest, n, hw, hn, _ => by
    obtain ⟨m, rfl⟩ : ∃ m, n = m + 1 := ⟨n - 1, by omega⟩
    have hx : Wf x := hw.1
    have hsz : size x ≤ m := by simp [sizeList] at hn; omega
    have hA := parseValue_render cfg x l (nl cfg l' ++ 93 :: rest) m hx hsz
    simp only [elemsText, renderElems, List.append_nil]
    exact parseElems_last m _ x _ rest hA (by rw [skipWs_nl]; simp [skipWs, isWs])
  | x :: y :: ys, l, l', rest, n, hw, hn, _ => by
    obtain ⟨m, rfl⟩ : ∃ m, n = m + 1 := ⟨n - 1, by omega⟩
    have hx : Wf x := hw.1
    have hpos := size_pos x
    have hsz : size x ≤ m := by simp [sizeList] at hn ⊢; omega
    obtain ⟨ws, hws, hskip⟩ := itemSep_eq cfg l
    have hA := parseValue_render cfg x l
      (itemSep cfg l ++ (render cfg l y ++ (renderElems cfg l ys ++ (nl cfg l' ++ 93 :: rest)))) m hx hsz
    have hrec := parseElems_render cfg (y :: ys) l l' rest m hw.2 (by simp [sizeList] at hn ⊢; omega) (by simp)
    simp only [elemsText, renderElems, List.append_assoc] at hrec ⊢
    rw [parseElems_more m _ x _ (ws ++ (render cfg l y ++ (renderElems cfg l ys ++ (nl cfg l' ++ 93 :: rest)))) hA
      (by rw [hws, List.cons_append]; simp [skipWs, isWs])]
    rw [hskip, skipWs_render, hrec]
    rfl
theorem parseMembers_render (cfg : Cfg) : ∀ (kvs : List (Str × JV)) (l l' : Nat) (rest : Str) (n : Nat),
    WfMembers kvs → 1 + sizeMembers kvs ≤ n → kvs ≠ [] →
    parseMembers n (membersText cfg l kvs ++ (nl cfg l' ++ 125 :: rest)) = some (kvs, rest)
  | [], _, _, _, _, _, _, hne => absurd rfl hne
  | [(k, v)], l, l', rest, n, hw, hn, _ => by
    obtain ⟨m, rfl⟩ : ∃ m, n = m + 1 := ⟨n - 1, by omega⟩
    have hsz : size v ≤ m := by simp [sizeMembers] at hn; omega
    obtain ⟨t, et, hk⟩ := key_read cfg.ascii k hw.1 (render cfg l v ++ (nl cfg l' ++ 125 :: rest))
    have hA := parseValue_render cfg v l (nl cfg l' ++ 125 :: rest) m hw.2.1 hsz
    simp only [membersText, renderMembers, List.append_nil, List.append_assoc]
    rw [et]
    exact parseMembers_last m t k v _ (32 :: (render cfg l v ++ (nl cfg l' ++ 125 :: rest))) _ rest hk
      (by simp [skipWs, isWs]) (by simp only [skipWs, isWs]; simpa [skipWs_render] using hA)
      (by rw [skipWs_nl]; simp [skipWs, isWs])
  | (k, v) :: (k2, v2) :: kvs, l, l', rest, n, hw, hn, _ => by
    obtain ⟨m, rfl⟩ : ∃ m, n = m + 1 := ⟨n - 1, by omega⟩
    have hpos := size_pos v
    have hsz : size v ≤ m := by simp [sizeMembers] at hn ⊢; omega
    obtain ⟨ws, hws, hskip⟩ := itemSep_eq cfg l
    let TAIL := itemSep cfg l ++ (renderStr cfg.ascii k2 ++ (keySep ++ (render cfg l v2 ++
      (renderMembers cfg l kvs ++ (nl cfg l' ++ 125 :: rest)))))
    obtain ⟨t, et, hk⟩ := key_read cfg.ascii k hw.1 (render cfg l v ++ TAIL)
    have hA := parseValue_render cfg v l TAIL m hw.2.1 hsz
    have hrec := parseMembers_render cfg ((k2, v2) :: kvs) l l' rest m hw.2.2
      (by simp [sizeMembers] at hn ⊢; omega) (by simp)
    simp only [membersText, renderMembers, List.append_assoc] at hrec ⊢
    rw [et]
    rw [parseMembers_more m t k v _ (32 :: (render cfg l v ++ TAIL)) TAIL
      (ws ++ (renderStr cfg.ascii k2 ++ (keySep ++ (render cfg l v2 ++
        (renderMembers cfg l kvs ++ (nl cfg l' ++ 125 :: rest)))))) hk
      (by simp [skipWs, isWs]) (by simp only [skipWs, isWs]; simpa [skipWs_render] using hA)
      (by show skipWs (itemSep cfg l ++ _) = _; rw [hws, List.cons_append]; simp [skipWs, isWs])]
    rw [hskip]
    have : skipWs (renderStr cfg.ascii k2 ++ (keySep ++ (render cfg l v2 ++
        (renderMembers cfg l kvs ++ (nl cfg l' ++ 125 :: rest))))) =
        renderStr cfg.ascii k2 ++ (keySep ++ (render cfg l v2 ++
        (renderMembers cfg l kvs ++ (nl cfg l' ++ 125 :: rest)))) := by
      simp [renderStr, skipWs, isWs]
    rw [this, hrec]
    rfl
end

/-! ### the fuel `parse` starts with is enough -/

mutual
theorem size_le_length (cfg : Cfg) : ∀ (v : JV) (l : Nat), size v ≤ (render cfg l v).length
  | .null, _ => by simp [size, render]
  | .bool true, _ => by simp [size, render]
  | .bool false, _ => by simp [size, render]
  | .str s, _ => by simp [size, render, renderStr]
  | .arr [], _ => by simp [size, sizeList, render]
  | .arr (x :: xs), l => by
    have h1 := size_le_length cfg x (l + 1)
    have h2 := sizeList_le_length cfg xs (l + 1)
    simp only [size, sizeList, render, List.length_cons, List.length_append, List.length_nil]
    omega
  | .obj [], _ => by simp [size, sizeMembers, render]
  | .obj ((k, v) :: kvs), l => by
    have h1 := size_le_length cfg v (l + 1)
    have h2 := sizeMembers_le_length cfg kvs (l + 1)
    simp only [size, sizeMembers, render, List.length_cons, List.length_append, List.length_nil]
    omega
theorem sizeList_le_length (cfg : Cfg) : ∀ (xs : List JV) (l : Nat), sizeList xs ≤ (renderElems cfg l xs).length
  | [], _ => by simp [sizeList]
  | x :: xs, l => by
    have h1 := size_le_length cfg x l
    have h2 := sizeList_le_length cfg xs l
    simp only [sizeList, renderElems, List.length_append]
    omega
theorem sizeMembers_le_length (cfg : Cfg) : ∀ (kvs : List (Str × JV)) (l : Nat),
    sizeMembers kvs ≤ (renderMembers cfg l kvs).length
  | [], _ => by simp [sizeMembers]
  | (k, v) :: kvs, l => by
    have h1 := size_le_length cfg v l
    have h2 := sizeMembers_le_length cfg kvs l
    simp only [sizeMembers, renderMembers, List.length_append]
    omega
end

/-- **JSON round trip.** For every value whose strings are made of Unicode scalar values, every `indent`, both
escaping modes and every nesting level the text starts at: `json.loads(json.dumps(v)) == v`, also when the text is
surrounded by whitespace. -/
theorem parse_render (cfg : Cfg) (l : Nat) (v : JV) (hw : Wf v) : parse (render cfg l v) = some v := by
  unfold parse
  have h := parseValue_render cfg v l [] ((render cfg l v).length + 1) hw
    (Nat.le_succ_of_le (size_le_length cfg v l))
  rw [List.append_nil] at h
  have hs := skipWs_render cfg l v []
  rw [List.append_nil] at hs
  rw [hs, h]
  rfl

/-! ### `ensure_ascii=True` writes ASCII only -/

theorem hexDigit_lt (d : Nat) (h : d < 16) : hexDigit d < 128 := by
  unfold hexDigit; split <;> omega

theorem uEsc_ascii (n : Nat) : ∀ c ∈ uEsc n, c < 128 := by
  intro c hc
  simp only [uEsc, hex4, List.mem_cons, List.not_mem_nil, or_false] at hc
  rcases hc with rfl | rfl | rfl | rfl | rfl | rfl
  · decide
  · decide
  all_goals exact hexDigit_lt _ (Nat.mod_lt _ (by decide))

theorem escChar_ascii (c : Nat) : ∀ x ∈ escChar true c, x < 128 := by
  intro x hx
  unfold escChar at hx
  repeat' split at hx
  all_goals first
    | (simp only [List.mem_cons, List.not_mem_nil, or_false] at hx; rcases hx with rfl | rfl <;> decide)
    | exact uEsc_ascii _ x hx
    | (rcases List.mem_append.mp hx with h | h <;> exact uEsc_ascii _ x h)
    | (simp only [List.mem_cons, List.not_mem_nil, or_false] at hx; subst hx; simp_all; omega)

theorem renderStr_ascii (s : Str) : ∀ x ∈ renderStr true s, x < 128 := by
  intro x hx
  simp only [renderStr, escBody, List.mem_cons, List.mem_append, List.mem_flatMap, List.not_mem_nil, or_false] at hx
  rcases hx with rfl | ⟨c, _, hc⟩ | rfl
  · decide
  · exact escChar_ascii c x hc
  · decide

theorem nl_ascii (cfg : Cfg) (l : Nat) : ∀ x ∈ nl cfg l, x < 128 := by
  intro x hx
  unfold nl at hx
  cases h : cfg.indent with
  | none => simp [h] at hx
  | some k =>
    simp only [h, List.mem_cons, List.mem_replicate] at hx
    rcases hx with rfl | ⟨_, rfl⟩ <;> decide

theorem itemSep_ascii (cfg : Cfg) (l : Nat) : ∀ x ∈ itemSep cfg l, x < 128 := by
  intro x hx
  unfold itemSep at hx
  cases h : cfg.indent with
  | none => simp only [h, List.mem_cons, List.not_mem_nil, or_false] at hx; rcases hx with rfl | rfl <;> decide
  | some k =>
    simp only [h, List.mem_cons] at hx
    rcases hx with rfl | hx
    · decide
    · exact nl_ascii cfg l x hx

mutual
theorem render_ascii (cfg : Cfg) (h : cfg.ascii = true) : ∀ (v : JV) (l : Nat), ∀ x ∈ render cfg l v, x < 128
  | .null, _ => by intro x hx; simp only [render, List.mem_cons, List.not_mem_nil, or_false] at hx; rcases hx with rfl | rfl | rfl | rfl <;> decide
  | .bool true, _ => by intro x hx; simp only [render, List.mem_cons, List.not_mem_nil, or_false] at hx; rcases hx with rfl | rfl | rfl | rfl <;> decide
  | .bool false, _ => by
    intro x hx; simp only [render, List.mem_cons, List.not_mem_nil, or_false] at hx
    rcases hx with rfl | rfl | rfl | rfl | rfl <;> decide
  | .str s, _ => by intro x hx; rw [render, h] at hx; exact renderStr_ascii s x hx
  | .arr [], _ => by intro x hx; simp only [render, List.mem_cons, List.not_mem_nil, or_false] at hx; rcases hx with rfl | rfl <;> decide
  | .arr (y :: ys), l => by
    intro x hx
    rw [render] at hx
    simp only [List.mem_cons, List.mem_append, List.not_mem_nil, or_false] at hx
    rcases hx with rfl | hx | hx | hx | hx | rfl
    · decide
    · exact nl_ascii cfg _ x hx
    · exact render_ascii cfg h y (l + 1) x hx
    · exact renderElems_ascii cfg h ys (l + 1) x hx
    · exact nl_ascii cfg _ x hx
    · decide
  | .obj [], _ => by intro x hx; simp only [render, List.mem_cons, List.not_mem_nil, or_false] at hx; rcases hx with rfl | rfl <;> decide
  | .obj ((k, v) :: kvs), l => by
    intro x hx
    rw [render] at hx
    simp only [keySep, List.mem_cons, List.mem_append, List.not_mem_nil, or_false] at hx
    rcases hx with rfl | hx | hx | (rfl | rfl) | hx | hx | hx | rfl
    · decide
    · exact nl_ascii cfg _ x hx
    · rw [h] at hx; exact renderStr_ascii k x hx
    · decide
    · decide
    · exact render_ascii cfg h v (l + 1) x hx
    · exact renderMembers_ascii cfg h kvs (l + 1) x hx
    · exact nl_ascii cfg _ x hx
    · decide
theorem renderElems_ascii (cfg : Cfg) (h : cfg.ascii = true) : ∀ (xs : List JV) (l : Nat), ∀ x ∈ renderElems cfg l xs, x < 128
  | [], _ => by intro x hx; simp [renderElems] at hx
  | y :: ys, l => by
    intro x hx
    simp only [renderElems, List.mem_append] at hx
    rcases hx with hx | hx | hx
    · exact itemSep_ascii cfg l x hx
    · exact render_ascii cfg h y l x hx
    · exact renderElems_ascii cfg h ys l x hx
theorem renderMembers_ascii (cfg : Cfg) (h : cfg.ascii = true) : ∀ (kvs : List (Str × JV)) (l : Nat),
    ∀ x ∈ renderMembers cfg l kvs, x < 128
  | [], _ => by intro x hx; simp [renderMembers] at hx
  | (k, v) :: kvs, l => by
    intro x hx
    simp only [renderMembers, keySep, List.mem_append, List.mem_cons, List.not_mem_nil, or_false] at hx
    rcases hx with hx | hx | (rfl | rfl) | hx | hx
    · exact itemSep_ascii cfg l x hx
    · rw [h] at hx; exact renderStr_ascii k x hx
    · decide
    · decide
    · exact render_ascii cfg h v l x hx
    · exact renderMembers_ascii cfg h kvs l x hx
end

/-! ### `sort_keys=True` -/

theorem wfMembers_iff (l : List (Str × JV)) : WfMembers l ↔ ∀ kv ∈ l, (∀ c ∈ kv.1, Scalar c) ∧ Wf kv.2 := by
  induction l with
  | nil => simp [WfMembers]
  | cons kv l ih =>
    obtain ⟨k, v⟩ := kv
    simp only [WfMembers, ih, List.mem_cons, forall_eq_or_imp]
    constructor
    · rintro ⟨h1, h2, h3⟩; exact ⟨⟨h1, h2⟩, h3⟩
    · rintro ⟨⟨h1, h2⟩, h3⟩; exact ⟨h1, h2, h3⟩

mutual
theorem wf_sortKeys : ∀ (v : JV), Wf v → Wf v.sortKeys
  | .null, h => by simpa [JV.sortKeys] using h
  | .bool _, h => by simpa [JV.sortKeys] using h
  | .str _, h => by simpa [JV.sortKeys] using h
  | .arr xs, h => by
    simp only [JV.sortKeys, Wf] at h ⊢
    exact wfList_sortKeys xs h
  | .obj kvs, h => by
    simp only [JV.sortKeys, Wf] at h ⊢
    rw [wfMembers_iff]
    intro kv hkv
    have := (wfMembers_iff _).mp (wfMembers_sortKeys kvs h)
    exact this kv ((mem_isort _ _ _).mp hkv)
theorem wfList_sortKeys : ∀ (xs : List JV), WfList xs → WfList (sortKeysList xs)
  | [], _ => by simp [sortKeysList, WfList]
  | x :: xs, h => by
    simp only [sortKeysList, WfList] at h ⊢
    exact ⟨wf_sortKeys x h.1, wfList_sortKeys xs h.2⟩
theorem wfMembers_sortKeys : ∀ (kvs : List (Str × JV)), WfMembers kvs → WfMembers (sortKeysMembers kvs)
  | [], _ => by simp [sortKeysMembers, WfMembers]
  | (k, v) :: kvs, h => by
    simp only [sortKeysMembers, WfMembers] at h ⊢
    exact ⟨h.1, wf_sortKeys v h.2.1, wfMembers_sortKeys kvs h.2.2⟩
end

/-- **JSON round trip with `sort_keys=True`.** What is written with sorted keys reads back as the value with its
members sorted, at every depth. -/
theorem parse_render_sortKeys (cfg : Cfg) (l : Nat) (v : JV) (hw : Wf v) :
    parse (render cfg l v.sortKeys) = some v.sortKeys :=
  parse_render cfg l v.sortKeys (wf_sortKeys v hw)

end JsonText
