import CuriesVerif.Basic

/-!
# Model of `curies.w3c` (after the repair that uses `fullmatch`)

`space : Nat → Bool` stands for "Unicode whitespace" (what `\s` and `str.strip` treat as
whitespace); it is a parameter of the model.
-/

namespace W3C

def isAsciiLetter (c : Nat) : Bool := (65 ≤ c && c ≤ 90) || (97 ≤ c && c ≤ 122)
def isAsciiDigit (c : Nat) : Bool := 48 ≤ c && c ≤ 57
/-- `[A-Za-z_]` -/
def isNameStart (c : Nat) : Bool := isAsciiLetter c || c == 95
/-- `[A-Za-z0-9\.\-_]` -/
def isNameChar (c : Nat) : Bool := isAsciiLetter c || isAsciiDigit c || c == 46 || c == 45 || c == 95

/-- `NCNAME_RE.fullmatch(s)` with `NCNAME_PATTERN = [A-Za-z_][A-Za-z0-9\.\-_]*` -/
def isW3cPrefix : Str → Bool
  | [] => false
  | c :: cs => isNameStart c && cs.all isNameChar

/-- `LOCAL_UNIQUE_IDENTIFIER_RE.fullmatch(s)` with the pattern
`(/[^\s/][^\s]*|[^\s/][^\s]*|[^\s]?)`, alternative by alternative -/
def isLuid (space : Nat → Bool) (s : Str) : Bool :=
  let nonspace (c : Nat) := !space c
  (match s with                                   -- /[^\s/][^\s]*
   | 47 :: c :: cs => nonspace c && c != 47 && cs.all nonspace
   | _ => false) ||
  (match s with                                   -- [^\s/][^\s]*
   | c :: cs => nonspace c && c != 47 && cs.all nonspace
   | [] => false) ||
  (match s with                                   -- [^\s]?
   | [] => true
   | [c] => nonspace c
   | _ => false)

/-- `not curie.strip()` -/
def isBlank (space : Nat → Bool) (s : Str) : Bool := s.all space

/-- `is_w3c_curie` (w3c.py:108-170) -/
def isW3cCurie (space : Nat → Bool) (s : Str) : Bool :=
  if s.contains 91 || s.contains 93 then false
  else if isBlank space s then false
  else match partition? [58] s with
    | none => isLuid space s
    | some (p, i) => if p.isEmpty then isLuid space i else isW3cPrefix p && isLuid space i

end W3C
