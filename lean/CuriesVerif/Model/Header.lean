import CuriesVerif.Model.Mapping

/-!
# The Accept header as text (`mapping_service/utils.py`: `_handle_part`, `parse_header`)

`Model/Mapping.lean` negotiates over already parsed parts `(media type, q)`.  This file models how
the header *text* becomes those parts: `header.split(",")`, `part.split(";")`, `str.strip`,
`partition("=")`, the case-insensitive test for the parameter name `q`, `float(value)` for the
q-values the RFC 7231 grammar allows.  `space` is `str.isspace` on code points (shipped by the
harness for the characters that occur).
-/

namespace Header

/-- `s.split(sep)` for a one-character separator: never empty -/
def splitOn (c : Nat) : Str → List Str
  | [] => [[]]
  | x :: xs =>
    if x == c then [] :: splitOn c xs
    else match splitOn c xs with
      | p :: ps => (x :: p) :: ps
      | [] => [[x]]

/-- `s.strip()` -/
def strip (space : Nat → Bool) (s : Str) : Str :=
  ((s.dropWhile space).reverse.dropWhile space).reverse

/-- `s.partition("=")`: the text before the first `=`, and the text after it (empty when absent) -/
def partitionEq : Str → Str × Str
  | [] => ([], [])
  | x :: xs => if x == 61 then ([], xs) else let (a, b) := partitionEq xs; (x :: a, b)

/-- `name.strip().lower() == "q"` -/
def isQ (space : Nat → Bool) (name : Str) : Bool :=
  let n := strip space name
  n == [113] || n == [81]

def digit? (c : Nat) : Option Nat := if 48 ≤ c ∧ c ≤ 57 then some (c - 48) else none

/-- `float(value)` for the q-values of RFC 7231 (`0`, `1`, `0.5`, `0.125`, `1.000`, …), in thousandths;
anything else the grammar does not allow is an error here (`float` may accept more, or raise) -/
def parseQ (space : Nat → Bool) (value : Str) : Option Nat :=
  match strip space value with
  | [d] => (digit? d).bind fun n => if n ≤ 1 then some (n * 1000) else none
  | d :: 46 :: frac =>
    (digit? d).bind fun n =>
      if n > 1 || frac.length > 3 then none
      else
        (frac.mapM digit?).bind fun ds =>
          let padded := ds ++ List.replicate (3 - ds.length) 0
          let th := padded.foldl (fun acc x => acc * 10 + x) 0
          if n == 1 && th != 0 then none else some (n * 1000 + th)
  | _ => none

/-- `_handle_part(part)` -/
def handlePart (space : Nat → Bool) (part : Str) : Except Err Mapping.Part :=
  match (splitOn 59 part).map (strip space) with
  | [] => .error .other
  | key :: params =>
    match params.find? (fun prm => isQ space (partitionEq prm).1) with
    | none => .ok (key, 1000)
    | some prm =>
      match parseQ space (partitionEq prm).2 with
      | some q => .ok (key, q)
      | none => .error .valueError

/-- the parts of a header: `_handle_part` over `header.split(",")` -/
def headerParts (space : Nat → Bool) (header : Str) : Except Err (List Mapping.Part) :=
  (splitOn 44 header).mapM (handlePart space)

/-- `handle_header(header, default)` on text (`None` / empty header: the default) -/
def handleHeaderText (space : Nat → Bool) (synonyms : List (Str × Str)) (supported : List Str) (dflt : Str)
    (header : Option Str) : Except Err Str :=
  match header with
  | none => .ok dflt
  | some [] => .ok dflt
  | some h =>
    match headerParts space h with
    | .ok ps => .ok (Mapping.handleHeader synonyms supported dflt (some ps))
    | .error e => .error e

end Header
