import CuriesVerif.Model.Loaders

/-!
# Model of the writers and of reading their output back (api.py:2666-2902, 1323-1358)

What a file *contains* is modelled as the value the reader's parser hands back: JSON text as the
object it denotes (`json.dumps` / `json.load` are trusted to be inverse on the objects used
here), a Turtle string literal as its lexical content after escape processing, a TSV line as
its two cells.
-/

namespace Writers

/-! ### extended prefix map (`_record_to_dict`, `Record(**dict)`) -/

/-- the JSON object written for one record: empty fields are omitted, synonyms sorted -/
structure RecordDict where
  pfx : Str
  uri : Str
  pSyn : Option (List Str)
  uSyn : Option (List Str)
  pattern : Option Str
deriving Repr, DecidableEq

def recordToDict (r : Record) : RecordDict :=
  { pfx := r.pfx, uri := r.uri,
    pSyn := if r.pSyn.isEmpty then none else some (sortStrs r.pSyn),
    uSyn := if r.uSyn.isEmpty then none else some (sortStrs r.uSyn),
    pattern := r.truePattern }

/-- `Record(**dict)`: missing fields take their defaults -/
def recordOfDict (d : RecordDict) : Record :=
  { pfx := d.pfx, uri := d.uri, pSyn := d.pSyn.getD [], uSyn := d.uSyn.getD [], pattern := d.pattern }

/-- write_extended_prefix_map, then load_extended_prefix_map -/
def epmRoundtrip (recs : List Record) : List Record := recs.map fun r => recordOfDict (recordToDict r)

/-! ### JSON-LD context (`_get_jsonld_context`, `from_jsonld`) -/

def jsonldContext (recs : List Record) (expand includeSynonyms : Bool) : List (Str × Loaders.JTerm) :=
  recs.flatMap fun r =>
    let term : Loaders.JTerm := if expand then .prefixDict (some r.uri) else .str r.uri
    (r.pfx, term) :: (if includeSynonyms then r.pSyn.map fun s => (s, term) else [])

/-! ### SHACL (`_get_shacl_line`, Turtle literal lexing, `from_shacl`) -/

/-- `s.replace("\\", "\\\\")` -/
def escape (s : Str) : Str := s.flatMap fun c => if c == 92 then [92, 92] else [c]

/-- the character an `ECHAR` escape `\c` stands for -/
def echar (c : Nat) : Option Nat :=
  if c == 116 then some 9 else if c == 98 then some 8 else if c == 110 then some 10
  else if c == 114 then some 13 else if c == 102 then some 12 else if c == 34 then some 34
  else if c == 39 then some 39 else if c == 92 then some 92 else none

/-- lexical content of a Turtle `STRING_LITERAL_QUOTE` body: raw characters except `"`, `\`, LF, CR;
`ECHAR` escapes `\t \b \n \r \f \" \' \\`; anything else (incl. `UCHAR`, which the writer never
produces) is rejected -/
def lex : Str → Option Str
  | [] => some []
  | [c] => if c == 92 || c == 34 || c == 10 || c == 13 then none else some [c]
  | c :: d :: ds =>
    if c == 92 then
      match echar d, lex ds with
      | some x, some rest => some (x :: rest)
      | _, _ => none
    else if c == 34 || c == 10 || c == 13 then none
    else (lex (d :: ds)).map (c :: ·)

/-- one `sh:declare` entry as read back: prefix, namespace, optional pattern -/
def shaclEntry (pfx uri : Str) (pattern : Option Str) : Option Record := do
  let p ← lex (escape pfx)
  let u ← lex (escape uri)
  let pat ← match pattern with
    | none => some none
    | some s => if s.isEmpty then some none else (lex (escape s)).map some
  pure { pfx := p, uri := u, pattern := pat }

/-- `write_shacl` then the SPARQL extraction of `from_shacl` (entries as a list; the query returns
them in no particular order) -/
def shaclRoundtrip (recs : List Record) (includeSynonyms : Bool) : Option (List Record) :=
  (recs.flatMap fun r =>
    (r.pfx, r.uri, r.pattern) :: (if includeSynonyms then r.pSyn.map fun s => (s, r.uri, r.pattern) else [])).mapM
    fun (p, u, pat) => shaclEntry p u pat

/-! ### TSV (`write_tsv`, read as a two-column prefix map) -/

/-- `csv.writer(delimiter="\t")` writes a cell raw unless it contains the delimiter, the quote
character or a line break; the cells considered here never need quoting -/
def tsvLine (p u : Str) : Str := p ++ [9] ++ u

/-- splitting a line at the first tab -/
def tsvCells (line : Str) : Option (Str × Str) := partition? [9] line

def tsvRoundtrip (recs : List Record) : Option (List (Str × Str)) :=
  recs.mapM fun r => tsvCells (tsvLine r.pfx r.uri)

end Writers
