import CuriesVerif.Model.Converter

/-!
# Model of incremental construction: `_match_record`, `add_record`, `_merge`, `_index`,
`add_prefix`, `chain`, `get_subconverter` (api.py:889-1020, 2404-2534)

`fold : Str → Str` stands for `str.casefold`; it is a parameter, so every theorem about the
case-insensitive mode holds for every folding function, and at run time the harness ships the
real `casefold` of every string occurring in the case.
-/

/-- `_eq(a, b, case_sensitive)` -/
def eqCS (fold : Str → Str) (cs : Bool) (a b : Str) : Bool :=
  if cs then a == b else fold a == fold b

/-- `_in(a, bs, case_sensitive)` -/
def inCS (fold : Str → Str) (cs : Bool) (a : Str) (bs : List Str) : Bool :=
  if cs then bs.contains a else bs.any fun b => fold a == fold b

/-- the four CURIE-side comparisons of `_match_record` for one existing record -/
def matchesP (fold : Str → Str) (cs : Bool) (ext r : Record) : Bool :=
  eqCS fold cs ext.pfx r.pfx || inCS fold cs ext.pfx r.pSyn ||
  ext.pSyn.any fun s => eqCS fold cs s r.pfx || inCS fold cs s r.pSyn

/-- the four URI-side comparisons of `_match_record` for one existing record -/
def matchesU (fold : Str → Str) (cs : Bool) (ext r : Record) : Bool :=
  eqCS fold cs ext.uri r.uri || inCS fold cs ext.uri r.uSyn ||
  ext.uSyn.any fun s => eqCS fold cs s r.uri || inCS fold cs s r.uSyn

/-- an existing record gets an entry in `_match_record`'s result iff one of the eight
comparisons hits -/
def matchesRec (fold : Str → Str) (cs : Bool) (ext r : Record) : Bool :=
  matchesP fold cs ext r || matchesU fold cs ext r

namespace Record
/-- `Record._key`: `(prefix, uri_prefix, ",".join(sorted(prefix_synonyms)), ",".join(sorted(uri_prefix_synonyms)))` -/
def key (r : Record) : Str × Str × Str × Str :=
  (r.pfx, r.uri, List.intercalate [44] (sortStrs r.pSyn), List.intercalate [44] (sortStrs r.uSyn))

/-- `Converter._merge(record, into)` (api.py:939-949): append unseen strings, then sort -/
def mergeInto (r into : Record) : Record :=
  let ps := r.allP.foldl (fun acc s => if (into.pfx :: acc).contains s then acc else acc ++ [s]) into.pSyn
  let us := r.allU.foldl (fun acc s => if (into.uri :: acc).contains s then acc else acc ++ [s]) into.uSyn
  { into with pSyn := sortStrs ps, uSyn := sortStrs us }
end Record

namespace Conv

/-- `Converter._index(record)` (api.py:951-965): five separate updates; the pattern map is only
written when the prefix has no pattern yet. -/
def indexRec (c : Conv) (r : Record) : Conv :=
  { c with
    prefixMap := Dict.setAll (Dict.set c.prefixMap r.pfx r.uri) r.pSyn r.uri
    synToPrefix := Dict.setAll (Dict.set c.synToPrefix r.pfx r.pfx) r.pSyn r.pfx
    revMap := Dict.setAll (Dict.set c.revMap r.uri r.pfx) r.uSyn r.pfx
    trie := Dict.setAll (Dict.set c.trie r.uri r.pfx) r.uSyn r.pfx
    patMap := match r.truePattern with
      | some p => if Dict.has c.patMap r.pfx then c.patMap else Dict.set c.patMap r.pfx p
      | none => c.patMap }

/-- the keys of `_match_record`'s result dict, in insertion order -/
def matchedKeys (fold : Str → Str) (c : Conv) (ext : Record) (cs : Bool) : List (Str × Str × Str × Str) :=
  ((c.records.filter (matchesRec fold cs ext)).map Record.key).eraseDups

/-- `add_record(record, case_sensitive, merge)` (api.py:920-937).  Both rejections happen
before any assignment. -/
def addRecord (fold : Str → Str) (c : Conv) (r : Record) (cs : Bool := true) (merge : Bool := false) :
    Except Err Conv :=
  match matchedKeys fold c r cs with
  | [] => .ok (indexRec { c with records := c.records ++ [r] } r)
  | [key] =>
    if !merge then .error .valueError
    else
      match c.records.findIdx? (fun x => x.key == key) with
      | none => .error .other
      | some j =>
        match c.records[j]? with
        | none => .error .other
        | some existing =>
          let merged := r.mergeInto existing
          .ok (indexRec { c with records := c.records.set j merged } merged)
  | _ => .error .valueError

/-- `add_prefix(...)` (api.py:967-1020): builds a validated `Record` with sorted synonym lists -/
def addPrefix (fold : Str → Str) (c : Conv) (p u : Str) (ps us : List Str) (cs : Bool := true)
    (merge : Bool := false) : Except Err Conv :=
  match Record.validate { pfx := p, uri := u, pSyn := sortStrs ps, uSyn := sortStrs us } with
  | .error e => .error e
  | .ok r => addRecord fold c r cs merge

/-- `Converter([])` -/
def empty : Conv := build [58] []

/-- `chain(converters, case_sensitive=…)` (api.py:2466-2534): a fold of
`add_record(copy, merge=True)` over all records in order (records are copied since the repair) -/
def chain (fold : Str → Str) (cs : List Conv) (caseSensitive : Bool := true) : Except Err Conv :=
  if cs.isEmpty then .error .valueError
  else (cs.flatMap (·.records)).foldlM (fun acc r => addRecord fold acc r caseSensitive true) empty

/-- `get_subconverter(prefixes)` (api.py:2404-2450): a strict converter with the default delimiter -/
def getSubconverter (c : Conv) (prefixes : List Str) : Except Err Conv :=
  init? (c.records.filter fun r => r.allP.any fun p => prefixes.contains p)

end Conv
